#!/usr/bin/env python3
"""Assembles DESIGN.md from docs/design-*.md and the seeded-change table (bin/seedtable.py)."""
import subprocess, os
V = os.path.dirname(os.path.dirname(os.path.abspath(__file__)))
def rd(n): return open(os.path.join(V, "docs", n)).read()
table = subprocess.run(["python3", os.path.join(V, "bin", "seedtable.py")], capture_output=True, text=True).stdout
import glob, json
rows = ["| change | what happened when it was first run, and what was added |", "|---|---|"]
for d in sorted(glob.glob(os.path.join(V, "seeded", "*-[efghij]"))):
    mp = os.path.join(d, "meta.json")
    if os.path.exists(mp):
        h = json.load(open(mp)).get("history", "").replace("|", "/").replace("\n", " ")
        rows.append(f"| {os.path.basename(d)} | {h} |")
history = "\n".join(rows)
doc = rd("design-main.md") + rd("design-props.md") + rd("design-tail.md") + rd("design-s9.md").replace("SEEDTABLE", table).replace("SEEDHISTORY", history) + rd("design-s10.md") + "\n" + rd("design-appendix.md")
open(os.path.join(V, "DESIGN.md"), "w").write(doc)
print(len(doc.splitlines()), "lines")
