#!/usr/bin/env python3
"""Prints the markdown table of seeded changes from seeded/*/meta.json (used for DESIGN.md section 9)."""
import json, glob, os
rows = []
for d in sorted(glob.glob("/verif/seeded/*")):
    mp = os.path.join(d, "meta.json")
    if not os.path.exists(mp):
        continue
    m = json.load(open(mp))
    name = os.path.basename(d)
    h = m.get("history", "")
    first = "missed, then strengthened" if h.startswith("MISSED") else ("no-failing-input-found first, then concrete" if (h.startswith("first run: VIOLATION") or h.startswith("first only")) else "caught")
    rows.append(f"| {name} | {m['needs_to_manifest'][:230]} | {first} |")
print("| seeded change | what it needs to manifest | outcome (quick tier of its property's check) |\n|---|---|---|")
print("\n".join(rows))
