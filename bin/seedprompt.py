#!/usr/bin/env python3
"""bin/seedprompt.py <Cxx> [worktree] : print the prompt handed to a fresh sub-agent that writes a seeded change.
The agent gets the property text, its scratch worktree and one-line notes of what earlier seeded changes for the
property needed (so that it picks a different site, mechanism and trigger) - nothing else from /verif."""
import glob, json, os, sys
pid = sys.argv[1]
wt = sys.argv[2] if len(sys.argv) > 2 else f"/tmp/seed-{pid}"
prop = None
for l in open("/verif/properties.jsonl"):
    d = json.loads(l)
    if d["id"] == pid:
        prop = d
notes = []
for m in sorted(glob.glob(f"/verif/seeded/{pid}*/meta.json")):
    try:
        notes.append("- " + json.load(open(m))["needs_to_manifest"][:260])
    except Exception:
        pass
text = prop.get("statement") or prop.get("text") or ""
print(f"""You are helping to evaluate a verification effort for the Go project cybergarage/go-redis (a framework for building
Redis-compatible servers). Your job is to play the role of a developer who introduces a subtle regression.

Your scratch git worktree of the repository is {wt} (already created, clean). Work ONLY inside that directory.
Do not read or write /repo or /verif at all (not even to look), and do not create other worktrees.

The property that must be broken ("{prop.get('title','')}"):

{text}

Task: make a change to the library/example code in {wt} (not to existing tests) that BREAKS this property, while
 1. everything still compiles (`go build ./...`),
 2. the complete existing test suite still passes, unedited:
      cd {wt} && flock /tmp/suite6379.lock go test -vet=off -count=1 -p 1 -timeout 25m ./...
    (the flock is mandatory: the suite listens on the fixed port 6379 and other people run it on this machine;
     `redistest::TestServer` is known to be flaky independent of your change - re-run once if only that fails),
 3. the change looks like something a maintainer could plausibly commit (a refactoring, optimisation, clean-up or feature)
    - not a planted `if input == "magic"`,
 4. it needs something SPECIFIC to manifest: a particular interleaving, a fault or disconnect at a particular point, a
    multi-step sequence of operations, an unusual input or boundary value, or two cooperating sites that each look fine alone.
    Ordinary use (and a casual smoke test) must not expose it at once.

Earlier seeded changes for this property needed the following to manifest. Choose a DIFFERENT site in the code, a different
mechanism and a different trigger from all of these:
{chr(10).join(notes) if notes else '- (none yet)'}

Also write a demonstration: one Go test file (name ending in `_demo_test.go`) that FAILS with your change and PASSES without it
(verify both: `git stash` / `git apply -R` the change, run, re-apply). Keep it self-contained, in the package directory where it
must be placed to compile, using a free port (never 6379), and bounded in time (fail with a timeout rather than hang; < 60 s).

Environment: no network. Use `export GOPROXY=off GOSUMDB=off GOTOOLCHAIN=local GOFLAGS=` in every shell call. Do not run
`go mod tidy`/`go get` and do not change go.mod/go.sum.

Deliverables, all inside {wt}/_seed/ :
  _seed/patch.diff      `git diff` of your change to the non-test sources only (must apply with `git apply` to a clean checkout;
                        do NOT include the demo test or _seed in it)
  _seed/demo/<name>_demo_test.go   the demonstration test
  _seed/README.md       FIRST LINE exactly of the form:  PKG=<package dir relative to repo root> RUN=<regex for go test -run>
                        then: what was changed, why it looks innocent, why it breaks the property, exactly what it needs to manifest.
Leave the worktree with your change applied and the demo test file NOT in the package directory (only under _seed/demo).
Do not commit anything.

When done, reply with: the one-paragraph description of what it needs to manifest, the files touched, and the results of the
four runs (build, suite with change, demo with change = fail, demo without change = pass).""")
