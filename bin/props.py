"""Per-property configuration for bin/check."""

KERNEL = "Lean 4.33.0 kernel; axioms allowed: propext, Classical.choice, Quot.sound (audited per theorem with #print axioms)"
TRANSLATOR = "translator bin/extract (harness/cmd/extract/translate.go): Go fragments made of integer assignments, if, return, len, slice and index expressions are translated statement for statement into Generated/Translated.lean on every run (int arithmetic wraps at 64 bits, slice/index out of range = panic); trusted: go/parser, the 300-line translator and the semantics of Model/GoSem; units: clampRange, limitZSetMembers, List.Index, the GETRANGE window, the incdecExecutor overflow test, the DECRBY guard, the length test of nextLengthBytes (with the constant MaxBulkLength read from its declaration), the window arguments of ZREVRANGE's ZRange call"
TIE = "correspondence check: Go harness (bin/vh, built -tags verif from /repo's working tree) vs compiled Lean model driver on the same case lines"

PROPS = {
    "C01": dict(
        rule="round 2: enclen - the real serializer on a bulk string of every length 0..4200 (thorough 0..20000) and windows of +-3 around every 10^k, 2*10^k, 5*10^k, 2^k>=4096, k*1000 (up to 2^20 / 2^24), alone and as an array element, length-prefix law checked and digests of all serializations compared with the model's enc; value trees: all trees with <=3 nodes over payload alphabet {a,CR,LF,$} (payload length <=1 quick / <=2 thorough) "
             "plus PRNG-generated trees (depth<=6, arity<=40, payload classes: empty, all 256 bytes, CR/LF/NUL, forged frames, type bytes, digits, 64KiB) "
             "built through the public constructors, wide arrays (255..4097 elements, 65536 thorough) and large bulk payloads (511 B..64 KiB, 1 MiB thorough) also nested, plus constructor cases on boundary and random ints/floats; "
             "non-trivial = in the property's domain (no CR/LF in line payloads) with >=1 payload byte or >=2 nodes; distinct = distinct case line",
        trusted_base=[KERNEL, TIE,
                      "strconv.FormatFloat/ParseFloat are parameters of the model (law: shortest formatting parses back); exercised by the tie",
                      "bytes.Buffer / bytes.Reader semantics"],
        assumptions=["line payloads containing CR or LF are outside the property's domain (they feed the correspondence only)",
                     "declared bulk lengths above 512 MiB are rejected by the parser (maxBulk)"],
    ),
}

PROPS["C02"] = dict(
    rule="round 2: the null array as a value kind; long runs of 9..130 null arrays and of mixed null arrays / null bulks / empty arrays / empty bulks / small commands with command arrays between and behind them; chains of nested arrays 7..48 deep - whole, byte by byte, random partitions; streams of 1..8 canonical values (C01 generator; plus 19 streams with a bulk of 511..70000 bytes - sizes around 512/1Ki/4Ki/8Ki/64Ki - alone, inside an array and mid-pipeline, always with values behind it) x partitions of their byte stream: whole, all-1-byte, every 2-way split point "
         "(exhaustive for streams <=300 bytes quick / <=3000 thorough, 40 sampled beyond), 6 random k-way partitions; "
         "delivered by a scripted io.Reader that never crosses a segment boundary, once announcing the end in a separate read (0, io.EOF) and once together with the last bytes (n>0, io.EOF; chunkse); bulk sizes 2^k+c for k<=20; non-trivial = every case (>=1 value); distinct = distinct case line",
    trusted_base=[KERNEL, TIE, "io.Reader contract: >=1 byte unless at end of stream; the end is announced as (0, io.EOF) or together with the last bytes (n>0, io.EOF) (net.TCPConn, tls.Conn, net.Pipe, bytes.Buffer, bufio)"],
    assumptions=["readers returning (0, nil) are outside the modelled transport contract"],
)
PROPS["C06"] = dict(
    rule="round 2: longline - one line of 4095..131073 (thorough 1 MiB) bytes behind each type byte, top level and as array element, ending with CRLF / lone CR / a further value / the end of the stream, whole and in two reads; hostile streams: hand-picked near-valid frames (whole and byte-by-byte), deep nesting up to the 1 MiB bound (65536, 131072, 262143 levels, in an isolated child), and structure-aware mutations of valid streams "
         "(truncate, splice, flip, duplicate, edit length/count digits to boundary integers 2^31-1, 2^31, 2^63-2, 2^63-1, 10^13, -1, -2^63, 512MiB+-1, "
         "drop/double CR/LF), random bytes; bulks whose length is 2^k+c (k<=20, c in -2..2) with the payload present, one byte short, and absent (bulk); in the thorough tier every bulk length up to 1 MiB from a synthetic reader (bulksweep; quick: windows around the powers of two); a per-case deadline in the harness (60 s) turns a hang into a reported failure; declared sizes >=10^7 run in an isolated child (GOMEMLIMIT, 5 s); "
         "non-trivial = every case; distinct = distinct case line",
    trusted_base=[KERNEL, TIE, TRANSLATOR, "Go runtime behaviour of make() for sizes <= 512 MiB + 2", "io.Reader contract as in C02"],
    assumptions=["stack exhaustion by nesting far beyond 1 MiB of input is outside the model", "memory exhaustion below the 512 MiB bulk limit is outside the model"],
    timeout=900,
)

HOOK = "verif hook H1 (VerifServeConn): the real connection loop served synchronously over a scripted in-memory net.Conn"
DOUBLE = "recording handler double answering from the case's script; tracer double on go-tracing's own span context"
SERVE_TB = [KERNEL, TIE, HOOK, DOUBLE,
            "strconv.ParseFloat is a parameter of the model (float table travels on the case line); command and option names are upper-cased byte-wise for a-z only (upperASCII, exactly the model's `upper`); time.Now and regexp are not modelled",
            "Go map iteration order: call groups of MSET/MSETNX/HMSET are compared as sets"]
SERVE_AS = ["transport contract of C02", "command and option names in generated cases are ASCII except the unknown-command cases (names whose Unicode upper case would spell a command)",
            "EXPIRE ttl within +-10^8 s and EXPIREAT timestamps away from the current time so the double can tell them apart"]

PROPS["C03"] = dict(canon="serve", timeout=1200,
    rule="round 2: conc3: 3..8 connections x 200..600 requests mixing composed commands with plain reads/writes, every request answered within 10 s; borderRequests - every pair of 15 border integers (0,+-1,+-2,2^62-1,+-2^62,-2^62-1,2^63-2,+-(2^63-1),-2^63,2^63/3,2^64/3) in every count/index/offset/limit position of 13 commands over a six-element reply, then PING and ECHO; pipelines of 1..12 requests over every registered command (valid, ill-formed by C10's classes, unknown, surplus arguments, QUIT) "
         "x handler scripts (every message type, errors) x chunkings (whole, per request, per byte, two random partitions); plus every ZADD flag combination; "
         "observables: ordered trace of handler calls and writes, replies written at each blocking point; non-trivial = every case; distinct = distinct case line",
    trusted_base=SERVE_TB, assumptions=SERVE_AS + ["handler results that make the framework dereference nil (nil message without error) end the connection; they are outside C03's domain"])
PROPS["C04"] = dict(canon="serve", timeout=1200,
    rule="round 2: replies that cannot be serialised behind 1..6 elements of 3000 bytes (absent element, nil array) between two PINGs; composedShapeCases - 30 derived/reply-walking commands x 34 handler reply shapes (nothing, error, error+message, scalars, arrays with null/nested/integer/status/absent elements, odd lengths), fresh and memo reply objects, each followed by PING; bulk replies of 10^k-1,10^k,10^k+1,2^12+-1,2^16+-1 bytes with forged frames from ECHO, GET and LRANGE; client streams made of RESP values of every type, command names/arguments with CRLF + forged +OK/:1/$-1 frames, null/nested/empty command arrays, "
         "with and without a command handler, with a handler that keeps its reply objects and hands the same *Message out again, partly read (memo) x handler results of every message type incl. nil message, nil array, nil element, errors with CRLF, message+error; "
         "a reader that pauses 6..8 s inside a 20..80 KB reply with further requests pipelined (stallr, unbuffered pipe: any write timeout an implementation may have expires); plus concurrent cases (conc4): 2..6 connections on the example store with 1..16 KiB array replies (LRANGE, MGET, ZRANGE WITHSCORES), each read in 5..20-byte pieces with scheduling "
         "points in between over unbuffered pipes, every connection's bytes compared exactly with the model's replies; "
         "oracle: an independent strict RESP2 reader must split everything written into complete canonical frames; non-trivial = every case",
    trusted_base=SERVE_TB, assumptions=SERVE_AS)
PROPS["C05"] = dict(canon="serve", timeout=1200,
    rule="round 2: key/value lists (MSET, MSETNX, HMSET, any letter case, 1..5 pairs, a third of the keys repeated, empty keys/values) with the oracle 'one call per key carrying the last value'; for each of the 38 single-call commands: well-formed requests from an independent grammar (all option subsets and orders, binary strings, boundary ints/floats, "
         "1..k list elements, duplicate keys, repeated options, random letter case of command and option names) with the expected handler call computed by the grammar, wide requests (list arguments of 255..5000 elements), a client that lags 2.6 s before sending EXPIRE/SETEX/SET EX (relative times are relative to the request), plus unknown commands incl. names whose Unicode upper case would spell a command; witnesses of a request that panics inside the framework while other connections are served (panicw); "
         "non-trivial = every case; distinct = distinct case line",
    trusted_base=SERVE_TB, assumptions=SERVE_AS)
PROPS["C07"] = dict(canon="serve", timeout=1200,
    rule="round 2: KEYS with patterns a backtracking matcher does not come back from, on a 64-byte repetitive key; extremeStoreCases - the example store behind the framework: a data set, then one command with each of 25 numbers (15 border integers, 10 counts in the window where make accepts what the runtime cannot allocate) in every count/index/offset/limit/increment position of 14 commands, empty keys/values/members, inverted ranges, then PING and two reads; composedShapeCases as in C04; hostile streams: empty/null/nested command arrays, non-array values, mutated valid requests (C06 mutators), every command with boundary arguments, "
         "disconnect at arbitrary points x wild handler results (nil message, nil array, nil elements, odd-length arrays, errors); "
         "mass-disconnect cases (massdisc: 50 and 200 clients closed at the same instant, then a witness and an empty registry); plus stalled-writer witness cases (stallw): 1..3 clients that pipeline requests and never read, over unbuffered pipes, on the double and on the example store, while witness "
         "connections opened afterwards must get exact replies; "
         "oracle: no panic escapes the connection loop, the loop returns, the registry is empty afterwards, witnesses are served",
    trusted_base=SERVE_TB + [TRANSLATOR], assumptions=SERVE_AS + ["process-level effects (OS limits, fatal runtime errors that are not panics) are outside the model"])
PROPS["C10"] = dict(canon="serve", timeout=1200,
    rule="round 2: range-only ill-formed tokens ((1 (((2.5 ((-inf (( ( 1 (+ ((inf, (1 where a plain float is required, wider ill-formed integer/float pools (trailing NUL/newline, separators, 0b1 0o7 1_0, lone signs, 1L, 2^64+1, 1f, 1e+, parenthesis inside/behind the number); systematic enumeration over the independent grammar: each required position omitted, each value position replaced by a null bulk, each numeric position replaced by "
         "non-numeric/overflowing/fractional/hex/underscore tokens, each pair list cut to a dangling half, every SET exclusivity conflict and non-positive expiry, expiry values whose conversion to time.Duration wraps to zero, negative or small positive; option-bearing commands "
         "(EXPIRE, SCAN, SET, LPOP, ZADD, ZRANGE*, ZREVRANGE*) are drawn 8x per round so that every optional clause (LIMIT o c, COUNT n, MATCH p, EX n ...) occurs and its values are mutated too, "
         "LIMIT cut after its offset; each followed by PING; "
         "oracle: zero handler calls, an error reply, then +PONG; non-trivial = every case",
    trusted_base=SERVE_TB, assumptions=SERVE_AS)
PROPS["C11"] = dict(canon="serve", timeout=1200,
    rule="every byte offset of generated pipelines of 1..4 valid requests as the end of the stream (whole or randomly segmented); requests with a last argument of 4 KiB..200 KB containing CR LF pairs and look-alike frames, cut behind every embedded CR LF (+0/+1/+2), around the declared end and at random offsets; plus real-socket cases (plain and TLS): a request cut off by close, reset, between CR and LF, inside a bulk payload, with unread replies, a stalled request then reset - resources at baseline; "
         "oracle: replies = requests received completely, registry empty after return; non-trivial = every case",
    trusted_base=SERVE_TB, assumptions=SERVE_AS)
PROPS["C20"] = dict(canon="serve", timeout=1200,
    rule="round 2: composedShapeCases (without contract-breaking shapes) under the recording tracer; pipelines of C03 (valid, ill-formed, unknown, QUIT, composed commands) with a recording tracer, authorized and unauthorized, end of stream at the end, at a request boundary "
         "and at a sampled inner offset; pipelines with non-array values, empty / null / nested arrays mixed in as requests; connections whose k-th and later writes fail (wfail=k) and streams that end with the socket closed or reset instead of EOF (rerr=closed|reset, at "
         "request boundaries); oracle: every span started once and finished once, children inside parents, one root per request; non-trivial = every case",
    trusted_base=SERVE_TB, assumptions=SERVE_AS + ["runs that end in a recovered panic leave spans open; they are C07's subject"])

SYS_TB = [KERNEL, TIE, HOOK + ", one goroutine per connection, requests released one at a time in the scripted global order",
          "recording handler double that also probes the connection-scoped user data (sync.Map of redis.Conn)",
          "what Server.Start does for requirepass (installing the clear-text authenticator) is replicated by the harness"]
PROPS["C08"] = dict(canon="sys", timeout=1200,
    rule="round 2: 23 kinds of first requests of an unauthenticated client (unknown commands like HELLO 3, requests answered with an error, composed commands, non-array values, AUTH with a wrong argument count), alone and followed by a refused AUTH, then the probes, and the same followed by the exact password; per password (5 passwords incl. spaces and CRLF): every candidate of the dictionary (empty, each strict prefix, extensions incl. NUL/CRLF, case variants, wrong/same user names, "
         "missing/null arguments) in the one- and two-argument form and in other letter cases, followed by probes; exact forms; wrong-after-right and right-after-wrong; "
         "all interleavings of 2 connections x 6 programs (3 connections in thorough); random histories over 1..3 connections mixing AUTH candidates with every command; every third case also on connections served as TLS connections are (tlsState present), and with an application AUTH handler that reports refusals as error messages (authmsg); on real sockets: password rotation (requirepass changed, Restart, old and new password probed on old and new connections); "
         "oracle: no handler call and no non-error reply on a connection before its own exact AUTH; exact AUTH answered +OK; non-trivial = every case",
    trusted_base=SYS_TB, assumptions=["no TLS certificate rule configured (that is C09)", "requests are atomic with respect to connection-scoped state (only the connection's own goroutine touches it)"])
PROPS["C13"] = dict(canon="sys", timeout=1200,
    rule="round 2: SELECT with 14 border indexes (2^31-1 .. 2^64+1, negative, non-decimal) on one connection with data commands on two; all interleavings of two connections x 4x4 programs of SELECT/data commands (incl. failing SELECT and QUIT), random histories over 2..8 connections mixing SELECT, AUTH (right/wrong, one- and two-argument form, built-in and application AUTH handler) "
         "and data commands, with and without a password; oracle: every handler call sees the database of its own connection's last successful SELECT, its own authorization, its own user data, "
         "and the outcome of a one-argument AUTH depends on its own argument only; "
         "non-trivial = every case",
    trusted_base=SYS_TB, assumptions=["concurrent (unserialised) execution is exercised by C14/C16's workloads; here requests are released one at a time"])

PROPS["C17"] = dict(
    rule="round 2: non-ASCII literal tokens (2-, 3-, 4-byte sequences) in patterns and keys; patterns on which a backtracking matcher explodes (n stars x repetitive keys); a third family of complete enumerations (patterns <=3 over a,*,? + three more characters, keys <=2) for eight triples of path/shell/class characters through glob.Compile and KEYS/SCAN MATCH of the populated example store; / : newline in the random alphabet; complete enumeration: every pattern of length <=4 (quick) / <=5 (thorough) over {a,b,*,?,.,+,(,|,$} against every key of length <=3 / <=4 over the same alphabet "
         "(one case = one pattern, result = bitmap over all keys); the same enumeration over the second alphabet {a,*,?,backslash,E,Q,[} (regexp quoting); random longer patterns over every regexp metacharacter with keys derived from the pattern; "
         "keyscan cases: the bundled example store populated with every key of length 1..2 (3) over the alphabet, KEYS p and SCAN 0 MATCH p COUNT 100000 for every pattern of length <=3 (4), "
         "both compared with the glob semantics and with each other; "
         "oracle: glob.Compile never fails and MatchString agrees with the harness' own recursive glob matcher; non-trivial = every case",
    trusted_base=[KERNEL, TIE, "Go regexp for three token shapes between ^ and $ with (?s): QuoteMeta(c) matches exactly c, '.' one character, '.*' any sequence",
                  "characters are bytes in the model; the tie uses ASCII"],
    assumptions=["patterns that are not valid UTF-8 are outside the claimed space (regexp.Compile rejects them)"],
    exhaustive_note="the bounded alphabet space is enumerated completely")

PROPS["C18"] = dict(canon="xserve", model_is_oracle=True, timeout=1200,
    rule="round 2: repeated keys in MSET/MSETNX, pop counts in the allocation window (10^11..2^44) in the menus; the 17 container functions of the example store are fingerprinted by bin/extract and compared with the table Model/ExStore was transcribed from; single-client programs against the bundled example server through the hook: per data type (strings, hashes, lists, sets, sorted sets) all programs of length <=2 (quick) / <=3 (thorough) "
         "over a menu of 22..46 commands on a small key/member/value/score pool (collisions, re-adds, renames onto existing and identical keys, renamed containers used further / drained / renamed back, "
         "empty values, keys touched only by derived commands, pops beyond the end, LIMIT incl. offsets/counts at the int64 borders, REV, one- and two-sided exclusive bounds, containers of 20 and 33 members of every type with duplicates inside one SADD/ZADD/HMSET and pops larger than 16), "
         "plus random programs of 1..40 commands, one type or all mixed; replies compared with the Lean reference store (unordered replies as sorted arrays); non-trivial = every case",
    trusted_base=[KERNEL, TIE, TRANSLATOR, HOOK, "scores restricted to an exactly representable pool (multiples of 0.5, +-inf as bounds); strconv formatting of those",
                  "sync.Map and Go map semantics of the example store"],
    assumptions=["each key is used with one data type; no expiry; SET options other than NX/GET, ZADD flags, LPOP k 0/1 distinctions, SCAN cursors are outside the claimed space (DESIGN.md Appendix B)"])

PROPS["C12"] = dict(canon="serve", prep=True, model_is_oracle=False, timeout=1200,
    rule="round 2: 14 counter border cases (MinInt64 as decrement, sums landing on a border / one beyond) through the double and the real string store; MSETNX/MSET naming one key twice followed by GET/STRLEN/MGET in the string programs (handler double, real string store, sequential specification); programs run through the real framework with a handler double that replays the results of the Lean reference store (computed per program by `modeldriver prep`): "
         "GETRANGE/SUBSTR for lengths 0..6 x start,end in -9..9 and ZREVRANGE for sizes 0..5 x start,stop in -7..7 with and without scores (both enumerated exhaustively, with the reply Redis "
         "defines computed independently in Go as the oracle), ZREVRANGEBYSCORE over 10x10 bounds (open, closed, infinite) x WITHSCORES x 14 LIMIT forms (small, negative, and offsets/counts at the int64 borders) on a set with a score tie (Redis oracle), "
         "counters at the 64-bit boundaries and on stored values in Go literal syntax (0x10, 0b11, 1_000 ...), MGET/HMGET with 255..1100 keys, random programs of 1..12 commands over every framework-implemented command, string programs of 1..10 commands checked reply by reply against an "
         "independent sequential specification - once with the double (seqspec) and once with a real stateful Go string store behind the framework (sserve); "
         "non-trivial = every case",
    trusted_base=SERVE_TB + [TRANSLATOR, "the Lean reference store (Model/RefStore) supplies the primitive operations' results; scores from the exactly representable pool"],
    assumptions=SERVE_AS + ["integers are what strconv.Atoi accepts (a leading + is tolerated)", "PING with an empty-string argument answers +PONG (handler interface cannot tell it from no argument): outside the claimed space"])

LIFE_TB = [KERNEL, TIE, "a real server on loopback ports (chosen by bind probe), driven action by action; each observation taken after the server became quiescent (polled, 1.5 s cap)",
           "crypto/tls and crypto/x509 decide which handshakes verify (the model takes the verdict per credential kind as given)",
           "OS socket semantics; goroutines are counted by stack frames of the framework"]
PROPS["C15"] = dict(timeout=1800,
    rule="round 2: crash:<id> (a request that makes the handler panic) with other connections open, before Stop/Restart; flood:<id> (96 ECHO requests of 256 KiB, no reply read: the server's write blocks) and drain:<id> with Stop/Restart sequences, plain and TLS; every sequence of Start/Stop/Restart of length <=4 (quick; <=3 with TLS) / <=6 (thorough), with after each call: observation (registry, ports bindable?, framework goroutines), a client on every enabled port, "
         "a client that connects and idles across the next call; plus random histories of clients connecting, idling, disconnecting (close, QUIT, RST, unread) between the calls; "
         "forced schedules (hook H2): 3 scenarios x every single and every pair of 8 schedule points (quick) / every subset (thorough) delayed by 25 ms; stop storms (Stop while 4 clients keep "
         "connecting, 3 s watchdog) 40 / 400 rounds; faulty TLS clients (every handshake fault of C09) before and across Stop/Restart; non-trivial = every case",
    trusted_base=LIFE_TB, assumptions=["the interleavings of lifecycle calls with exiting accept loops / connection goroutines are forced by delaying goroutines at the verif schedule points (not enumerated by a blocking controller) and covered for every schedule by the Lifecycle transition system"])
PROPS["C19"] = dict(timeout=1800,
    rule="round 2: crash as an ending at every position and in the churn; blocked writers (flood/drain) ended by Stop, Restart, client close and reset; every ending mode (client close, TCP reset - also underneath TLS -, QUIT, malformed frame, half request then close, cut between CR and LF of a header (3 cut points), cut inside a bulk payload, pipelined requests left unread) and Stop with clients stalled inside a request, at pipeline positions 0..2 on the plain and the TLS port; every TLS handshake fault (plain text, garbage, abort after ClientHello, no / self-signed / "
         "foreign / expired certificate, rejected name), a stalled handshake ended by the client and by Stop; Stop with several connections in flight; a second Start that fails while connections are open; churn of 150 (quick) / 10^4 (thorough) connect-disconnect cycles mixing all "
         "endings with up to 32 in flight; oracle: registry, goroutines and listening sockets at their baseline after every ending; non-trivial = every case",
    trusted_base=LIFE_TB, assumptions=["descriptor tables and TCP reset semantics are the kernel's; the model claims the control flow reaches the releases, the tie observes the effect"])
PROPS["C09"] = dict(timeout=1800,
    rule="round 2: CA rotation sequences over the tlsfiles configurations (setca:<main|foreign> = SetTLSCaCertFile on the running server; rotate, Restart, rotate back; rotate before the first Start; Stop/Start; a connected client across the rotation), oracle tracks the CA in force; complete enumeration: configurations {no rule, common-name rule, rule + password, TLS only} x credentials {none, plain text, self-signed, foreign CA, expired, right CA wrong name, name only on an intermediate, "
         "right CA right name, garbage, abort after ClientHello, stall} x position {first, between two good clients, while a good client is connected, all in a row}; the TLS configuration handed over ready-made and as certificate/key/CA files (tlsfiles) with a host trust store (SSL_CERT_FILE) that contains the foreign CA; harness TLS clients keep a session cache per credential (a second connection with the same credential resumes the session); oracle: faulty clients are disconnected and no command of "
         "theirs is executed (handler call counter), both listeners keep serving; non-trivial = every case",
    trusted_base=LIFE_TB, assumptions=["RequireAndVerifyClientCert verifies exactly chains to the configured CA that are currently valid (crypto/tls trusted)"])

PROPS["C14"] = dict(race="always", shards=4, timeout=600,
    env={"GORACE": "log_path=$VERIF/run/racelog halt_on_error=0 exitcode=0", "VH_RACE_LOG": "$VERIF/run/racelog"},
    rule="round 2: sweep workload - 12 rounds of 8 dialers connecting idle clients while Stop runs: Stop returns within 3 s, registry empty; concurrent workloads against a real server (loopback TCP) built with -race: 2..32 clients x 30..90 rounds mixing one request of every command family "
         "(strings, counters, keys, hashes, lists, sets, sorted sets, connection, unknown, ill-formed) with CONFIG SET/GET (incl. requirepass), AUTH, SELECT, connection churn, "
         "registry enumeration (Conns/UUID) and Restart x3 / Stop from the application thread; TLS-enabled servers with half of the clients on the TLS port (tls); lifecycle calls back to back - Start/Stop x3 on one processor, 40 Restarts in a row, Restart/Restart/Stop/Start under load (flap); 12 flag combinations; a workload that aborts the process is a failure; a report counts when one of its stacks has a framework frame; "
         "observable: the set of unordered access-site pairs reported, compared with the model's prediction computed from the regenerated access table; "
         "non-trivial = every workload; distinct = distinct case line",
    trusted_base=[KERNEL, TIE,
                  "sync.Mutex / sync.RWMutex give mutual exclusion and Unlock synchronises-before the next Lock (Go memory model) -- hypothesis wfL of the Lockset theory",
                  "bin/extract (go/ast): an access is a selector <receiver>.<field> in a method of the owning type; the lock mode at a site is read off the Lock/RLock ... defer Unlock/RUnlock statements that precede it in the same function body",
                  "the Go race detector (dynamic, reports only races that the schedule exercises) is the correspondence check, not the proof",
                  "handler double and tracer are themselves synchronised (mutex-wrapped) so that reports concern the framework"],
    assumptions=["the application configures the server (handlers, authenticators, TLS files, tracer) before Start and calls Start/Stop/Restart from one thread",
                 "fields other than Config.params, ConnManager.m, Conn.isClosed and the listener fields are written only before the goroutine that reads them is started, or belong to one connection goroutine"],
)

PROPS["C16"] = dict(post="linhist", timeout=1800,
    rule="round 2: bigarg: 4..12 clients each writing and reading back values of 5000/49152/200000 bytes on their own key; snap workloads - whole-container reads (SMEMBERS/HKEYS/ZRANGE/LRANGE) of containers of 40 and 3000 (thorough up to 8000) entries in the example store against a writer that keeps taking one entry out and putting it back; every reply must be a state the container was in (oracle only, empty history for the checker); concurrent histories recorded against the real connection loops (hook H1, one goroutine per connection over net.Pipe): 2..8 clients, 6..14 operations in total "
         "over 1..3 keys, drawn from GET/SET/SETNX/GETSET/INCR/DECRBY/APPEND/MSETNX/DEL in 12 kind mixes (counter-only, SETNX races, MSETNX vs DEL, mixed), "
         "half against the bundled example store, half against a reference handler whose primitives are atomic with scheduling points (Gosched / 20-220us sleeps, seeded) "
         "before and after every primitive so that composed commands interleave unless something serialises them; in a third of the histories some clients connect late, while others are already executing; invocation/response order from one atomic clock; "
         "each history is decided by the Lean checker (proved sound and complete) against the sequential specification = the framework model on the reference store, "
         "and independently by a Go search with its own specification; non-trivial = every history; distinct = distinct case line (seed)",
    trusted_base=[KERNEL, TIE, HOOK,
                  "sync.Mutex: critical sections of the dispatch mutex are totally ordered and each lies between the request's arrival and its reply (the instants `ex` of AtomicRun)",
                  "the recorded invocation/response times come from one atomic counter read before the request is written and after the reply is read",
                  "goroutine scheduling is not controlled: which interleavings a run exercises is up to the Go scheduler and the seeded scheduling points"],
    assumptions=["keys hold strings; no expiry; handlers do not block on other connections"],
)
