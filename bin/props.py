"""Per-property configuration for bin/check."""

KERNEL = "Lean 4.33.0 kernel; axioms allowed: propext, Classical.choice, Quot.sound (audited per theorem with #print axioms)"
TIE = "correspondence check: Go harness (bin/vh, built -tags verif from /repo's working tree) vs compiled Lean model driver on the same case lines"

PROPS = {
    "C01": dict(
        rule="value trees: all trees with <=3 nodes over payload alphabet {a,CR,LF,$} (payload length <=1 quick / <=2 thorough) "
             "plus PRNG-generated trees (depth<=6, arity<=40, payload classes: empty, all 256 bytes, CR/LF/NUL, forged frames, type bytes, digits, 64KiB) "
             "built through the public constructors, plus constructor cases on boundary and random ints/floats; "
             "non-trivial = in the property's domain (no CR/LF in line payloads) with >=1 payload byte or >=2 nodes; distinct = distinct case line",
        trusted_base=[KERNEL, TIE,
                      "strconv.FormatFloat/ParseFloat are parameters of the model (law: shortest formatting parses back); exercised by the tie",
                      "bytes.Buffer / bytes.Reader semantics"],
        assumptions=["line payloads containing CR or LF are outside the property's domain (they feed the correspondence only)",
                     "declared bulk lengths above 512 MiB are rejected by the parser (maxBulk)"],
    ),
}
