"""Per-property configuration for bin/check."""

KERNEL = "Lean 4.33.0 kernel; axioms allowed: propext, Classical.choice, Quot.sound (audited per theorem with #print axioms)"
TIE = "correspondence check: Go harness (bin/vh, built -tags verif from /repo's working tree) vs compiled Lean model driver on the same case lines"

PROPS = {
    "C01": dict(
        rule="value trees: all trees with <=3 nodes over payload alphabet {a,CR,LF,$} (payload length <=1 quick / <=2 thorough) "
             "plus PRNG-generated trees (depth<=6, arity<=40, payload classes: empty, all 256 bytes, CR/LF/NUL, forged frames, type bytes, digits, 64KiB) "
             "built through the public constructors, plus constructor cases on boundary and random ints/floats; "
             "non-trivial = in the property's domain (no CR/LF in line payloads) with >=1 payload byte or >=2 nodes; distinct = distinct case line",
        trusted_base=[KERNEL, TIE,
                      "strconv.FormatFloat/ParseFloat are parameters of the model (law: shortest formatting parses back); exercised by the tie",
                      "bytes.Buffer / bytes.Reader semantics"],
        assumptions=["line payloads containing CR or LF are outside the property's domain (they feed the correspondence only)",
                     "declared bulk lengths above 512 MiB are rejected by the parser (maxBulk)"],
    ),
}

PROPS["C02"] = dict(
    rule="streams of 1..8 canonical values (C01 generator) x partitions of their byte stream: whole, all-1-byte, every 2-way split point "
         "(exhaustive for streams <=300 bytes quick / <=3000 thorough, 40 sampled beyond), 6 random k-way partitions; "
         "delivered by a scripted io.Reader that never crosses a segment boundary; non-trivial = every case (>=1 value); distinct = distinct case line",
    trusted_base=[KERNEL, TIE, "io.Reader contract: >=1 byte unless at end of stream, (0, io.EOF) only at the end (net.TCPConn, tls.Conn, net.Pipe, bytes.Buffer)"],
    assumptions=["readers returning (0, nil) or (n>0, io.EOF) are outside the modelled transport contract"],
)
PROPS["C06"] = dict(
    rule="hostile streams: hand-picked near-valid frames (whole and byte-by-byte), deep nesting, and structure-aware mutations of valid streams "
         "(truncate, splice, flip, duplicate, edit length/count digits to boundary integers 2^31-1, 2^31, 2^63-2, 2^63-1, 10^13, -1, -2^63, 512MiB+-1, "
         "drop/double CR/LF), random bytes; declared sizes >=10^7 run in an isolated child (GOMEMLIMIT, 5 s); "
         "non-trivial = every case; distinct = distinct case line",
    trusted_base=[KERNEL, TIE, "Go runtime behaviour of make() for sizes <= 512 MiB + 2", "io.Reader contract as in C02"],
    assumptions=["stack exhaustion by nesting far beyond 1 MiB of input is outside the model", "memory exhaustion below the 512 MiB bulk limit is outside the model"],
    timeout=900,
)
