#!/usr/bin/env python3
"""Regenerates MANIFEST.json from the table below (single source of truth for what is claimed)."""
import json, os, subprocess
VERIF = os.path.dirname(os.path.dirname(os.path.abspath(__file__)))
TECH_GEN = "machine-checked proof in Lean 4: lock-discipline theorem over traces + access table regenerated from /repo by a go/ast translator and decided by the kernel + race-detector correspondence check"
TECH_LIN = "machine-checked proof in Lean 4: verified (sound+complete) linearizability checker + invariant proof over the serialized-server transition system + recorded concurrent histories of /repo decided by the checker; dispatch-lock fact regenerated from source"
TECH = "machine-checked proof in Lean 4 over a hand-written executable model + differential correspondence check against /repo"
NOTE = ("Lean 4.33 kernel; axioms propext/Classical.choice/Quot.sound only (audited per theorem); hand-written model tied to /repo by the "
        "correspondence check (Go harness, -tags verif, vs compiled model driver) whose generator coverage bounds what it sees; ")
CHECKS = {
 "C01": ("DESIGN.md 5.1",
  "Theorems (unbounded): parse(enc m ++ rest) = ok m rest for every canonical value tree of any arity/nesting/payload bytes; canonical bytes are a fixed point; bulk is binary-safe with decimal length prefix; every public constructor decodes back (floats under the strconv round-trip law). Tie: real serializer/parser/constructors vs model on enumerated small trees and generated trees.",
  "strconv float formatting/parsing is a parameter of the model"),
 "C02": ("DESIGN.md 5.2",
  "Theorems (unbounded): the reader mirroring parser.go over a transport delivering ANY list of segments equals the flat reference parser on the concatenation and leaves exactly the unconsumed bytes (C02_next_chunked), exact consumption per value, whole sequences read back followed by clean EOF. Tie: real parser under a scripted segment reader on every 2-way split, 1-byte delivery and random partitions.",
  "io.Reader contract of the transport (>=1 byte unless EOF) is assumed"),
 "C03": ("DESIGN.md 5.3",
  "Theorems (unbounded): for every pipeline of canonical values the byte-level connection loop equals the request-level semantics `steps` (parse, execute, write, then next) and never runs out of fuel; each request block has exactly one write (a complete frame) unless it ends in a recovered panic; writes of the connection = replies in request order; reply count; QUIT cuts off everything behind it; handler error => one error frame and the connection stays usable; ZADD flag loop terminates. Tie: real loop (hook H1, scripted net.Conn, handler double) vs model on pipelines x chunkings, incl. replies written at each blocking point.",
  "the reader-level statement 'no byte beyond the current request is requested before its reply is written' is validated by the tie's blocking-point observable and by C02_exact_consumption, not yet a separate theorem"),
 "C04": ("DESIGN.md 5.4",
  "Theorems (unbounded): for every client byte stream, server state and sequence of handler results (every message type, nil message/array/element, errors with arbitrary text) every write is one complete RESP value per an independent grammar predicate `Frame`; hence the reply stream is a concatenation of frames; line replies never carry raw CR/LF; uninterpretable requests get a framed error. Tie: raw reply bytes vs model + independent strict RESP2 reader as oracle.",
  "handler messages with an unknown MessageType value are not modelled"),
 "C05": ("DESIGN.md 5.5",
  "Theorems (unbounded): for all 28 commands of the positional grammar, any letter case, arbitrary byte-string arguments, all 64-bit ints, any accepted float token, lists of any length in order, surplus arguments: exactly one handler call with exactly the decoded arguments and the handler's result as reply (table-wide theorem against an independently written grammar); SET with every admissible option combination in any order and case; kv lists last-wins; unknown command => error, no call. Tie: recording handler double vs model on requests from an independent Go grammar with expected calls.",
  "EXPIRE/LPOP/SCAN/ZADD/ZRANGE(BYSCORE) option grammars are covered by the tie and by the model definitions, not yet by table-wide theorems; strings.ToUpper outside ASCII and strconv.ParseFloat are parameters"),
 "C07": ("DESIGN.md 5.7",
  "Theorems: every trace of a connection, for every input and every handler script, starts with its registration and ends with deregistration and close (panic paths included: a panic is an event contained in the connection); a panicking request writes nothing and changes no server-wide state; user commands cannot change server state; formerly fatal inputs evaluate to error replies. Tie: hostile streams x wild handler results through the hook, oracle = no panic escapes, loop returns, registry empty; regenerated fact: recover barrier present in receive.",
  "process-level effects (fatal runtime errors that are not panics, OS limits) are not modelled; partial at process level"),
 "C08": ("DESIGN.md 5.8",
  "Theorems (unbounded): for any number of connections, any requests, any global interleaving: every handler call on connection i is preceded in the schedule by connection i's own AUTH whose decoded credentials are exactly (no user, configured password) (C08_gate, invariant over the interleaved system); a step of one connection leaves every other connection's state untouched; AUTH with any other credentials (arbitrary byte strings, missing, null) => error and authorization unchanged; exact AUTH always succeeds. Tie: dictionary around the password x one/two-argument forms x 1..3 connections x all interleavings (bounded) + random histories.",
  "no TLS certificate rule (C09); the clear-text authenticator is installed by the harness the way Server.Start does"),
 "C12": ("DESIGN.md 5.12",
  "Theorems (unbounded): GETRANGE/SUBSTR index clamping laws for every length/start/end (in-range slice, end clamped, negative indexes, empty cases, result always an infix, missing key = empty string); ZREVRANGE = reverse-order slice for every length and all indexes (rangeSlice_reverse) with pairs intact; INCR family over the Redis-like reference store: exact result and stored value, missing key = 0, non-integers and 64-bit overflow rejected with the store unchanged; APPEND; MGET in request order with duplicates; CONFIG GET after SET returns the last stored values in request order; HKEYS/HVALS pairing, SCARD/ZCARD counts, SISMEMBER membership; PING/ECHO. Tie: real framework with a handler double replaying the Lean reference store's answers (two-pass `prep`), exhaustive GETRANGE (lengths 0..6 x -9..9) and ZREVRANGE (sizes 0..5 x -7..7, +-scores) with an independent Go oracle.",
  "integers are what strconv.Atoi accepts; ZREVRANGEBYSCORE with LIMIT applies the limit before reversing (handler-level semantics; recorded, outside the claimed space); PING \"\" answers +PONG"),
 "C13": ("DESIGN.md 5.13",
  "Theorems (unbounded): for any number of connections, any requests, any interleaving: the connection state (database, authorization, user) seen by every handler call on connection i equals the fold of connStep over connection i's own earlier requests — independent of the schedule, other connections, handler answers and the configuration table; defaults; user commands never change it; SELECT changes the database only on success. Tie: all interleavings of two connections (bounded) + random histories over 2..8 connections, handler double probing db, authorization and per-connection user data.",
  "requests are released one at a time in the tie; truly concurrent execution is C14/C16's workload"),
 "C09": ("DESIGN.md 5.9",
  "Theorems: served => handshake verified and (no rule or the LEAF certificate carries the name) (decision logic stated outright); a name on an intermediate is not enough; unverified never served; a rejected client has no command executed; no sequence of client attempts (any verdicts, stalls, garbage, any number) stops the server and a good client is served afterwards; the property's credential table decided. Tie: complete enumeration of configurations x credentials x positions on real TLS sockets with a generated CA / foreign CA / intermediate / expired / wrong-name certificates; handler-call counter shows no command of a rejected client ran.",
  "crypto/tls and crypto/x509 are trusted for the verdict `verified`; partial in that sense"),
 "C10": ("DESIGN.md 5.10",
  "Theorems (unbounded): for all 28 commands of the positional grammar every ill-formed variant (required position omitted, null bulk, non-integer/fractional/overflowing token, non-float, empty list, null in list) is rejected with zero handler calls and unchanged state (table-wide); dangling key/value and score/member halves; SET option conflicts anywhere after any admissible prefix; bad/non-positive/missing expiry; SETEX; ZRANGE fractional index; STRLEN without key. Tie: systematic enumeration of mutation classes through the hook, oracle = no call, error reply, following PING answered.",
  "option grammars of SCAN/ZRANGEBYSCORE LIMIT are covered by the tie only"),
 "C11": ("DESIGN.md 5.11",
  "Theorems (unbounded): every strict prefix (every byte offset) of every request (non-empty array of non-null bulks) parses to an error, never a value, also over any segmentation of the transport; a stream of complete values followed by a partial request yields exactly the trace of the complete values (same calls, same replies, once each); the connection is released. Tie: every byte offset of generated pipelines as end of stream.",
  "half-close vs full close are the same event (end of stream) for the modelled transport"),
 "C15": ("DESIGN.md 5.15",
  "Theorems (unbounded): an invariant of the lifecycle transition system (Start, the four phases of Stop, accept, accept-loop exit, connection end) proved for EVERY schedule: while serving every enabled port has an open listener of the current generation and a live accept loop (an accept succeeds); after Stop returned no listener of any generation is open, no accept loop, no connection; registered => goroutine alive and socket open; an exiting accept loop of any generation touches neither listeners nor fields; Stop waits for loops and connection goroutines. Tie: every Start/Stop/Restart sequence (length <=4/6) on a real loopback server with observations after each call (registry, ports bindable, framework goroutines, clients on every port, idle clients across calls).",
  "interleavings inside Stop are abstracted by the transition system and checked structurally (regenerated facts: stop order, loops close their own listener); OS socket semantics trusted"),
 "C17": ("DESIGN.md 5.17",
  "Theorems (unbounded): the executable glob matcher decides the declarative Redis glob semantics (Matches) for every pattern and key; the compiled regular expression is exactly anchors + one token per pattern character with every non-*/? character quoted; under the token semantics it matches exactly the glob's keys; SCAN MATCH hands the handler the same expression KEYS compiles. Tie: glob.Compile/MatchString on the complete enumeration of patterns (len<=4/5) x keys (len<=3/4) over {a,b,*,?,.,+,(,|,$} and random longer ones, against an independent recursive matcher.",
  "Go regexp trusted for three token shapes; characters are bytes in the model (ASCII in the tie)"),
 "C18": ("DESIGN.md 5.18",
  "Theorems (unbounded, of the reference store the example store is tied to): values byte for byte; DEL/EXISTS/RENAME (onto itself, moving, NX)/TYPE reflect the written keys; list push/pop/range order; reads do not create keys, emptied containers are removed; SADD keeps sets duplicate-free with exactly the union as members; ZADD leaves exactly one entry per member. Tie: the real example server through the hook vs the reference store, reply for reply, on all programs of length <=2/3 per data type over menus of 15..38 commands and random programs of 1..40 commands.",
  "each key one data type, no expiry, scores from an exactly representable pool; program space of DESIGN.md Appendix B"),
 "C19": ("DESIGN.md 5.19",
  "Theorems: every way out of the connection loop runs the two deferred releases; a connection goroutine's end leaves it unregistered, closed, dead; Stop releases everything in every reachable state of the lifecycle transition system; each ending mode removes exactly that connection; a failed TLS handshake or rejected certificate leaves nothing behind; any number of connect/end cycles with any endings returns the registry to its baseline (induction over the cycle list). Tie: every ending mode x pipeline position x plain/TLS, every TLS fault, stalled handshakes, Stop with connections in flight, churn of 150/10^4 cycles, observing registry, framework goroutines and bindable ports.",
  "descriptor tables, TCP reset semantics and goroutine scheduling are runtime: partial (control flow proved, effect observed)"),
 "C20": ("DESIGN.md 5.20",
  "Theorems (unbounded): for every input, server state and handler script, unless the run ends in a recovered panic, the span events of the whole connection satisfy the span discipline (depth machine: one root per request, children only under an open root, FinishSpan pops an open child, root finished once with no child open); every executor including composed ones is balanced on every returning path. Tie: recording tracer double on the library's own span context.",
  "the go-tracing common span context is used as is; runs ending in a recovered panic leave spans open (C07)"),
 "C14": ("DESIGN.md 5.14",
  "Theorems: (unbounded, any number of goroutines, any trace the mutexes admit) block-structured locking - every access to a shared field inside a Lock/RLock bracket of its guard, exclusive for writes - implies that two conflicting accesses by different goroutines are separated by an Unlock of the first and a Lock of the second, i.e. ordered by the Go memory model (no data race); the access table REGENERATED from /repo's source on every run (every site touching Config.params, ConnManager.m, Conn.isClosed with the lock mode held there) satisfies that discipline and covers the three fields (decided by the kernel); the listener fields are touched by the application thread only (regenerated control-flow facts). Tie: concurrent workloads on a real server under the Go race detector vs the model's prediction.",
  "partial: which fields are shared is an assumption checked only dynamically (race detector workloads); the extractor's reading of lock brackets is syntactic; the race detector sees only exercised schedules"),
 "C16": ("DESIGN.md 5.16",
  "Theorems (unbounded): linearizability defined outright (a permutation of the history that respects real time and is explained by the sequential specification = the framework model run atomically on the reference store); the executable complete search is sound AND complete, so its verdict on a recorded history is the definition's; every schedule (any number of clients, commands, interleavings of invocation / critical section / response) of a server that executes each command in one atomic step yields a linearizable history (invariant over the transition system); a lost update, a stale read are refuted; SETNX has one winner. Regenerated fact: the connection loop executes requests only under the dispatch mutex. Tie: concurrent histories recorded from the real connection loops (example store and a reference handler with scheduling points) decided by the verified checker, cross-checked by an independent Go search.",
  "partial: goroutine scheduling is not controlled (histories are sampled, with seeded scheduling points inside the reference handler); mutex semantics trusted; the example store is covered only through recorded histories"),
 "C06": ("DESIGN.md 5.6",
  "Theorems (unbounded): for every byte sequence in every segmentation the next-value read ends in {value without absent elements, clean EOF, error}; never panic, never out of fuel; progress (>=1 byte per value); declared bulk length above the limit is an error before allocation. Tie: real parser on hostile/mutated/near-valid streams; allocation bombs in an isolated child.",
  "Go runtime allocation behaviour for sizes <= 512MiB+2; stack exhaustion far beyond 1 MiB input not modelled"),
}
def main():
    m = json.load(open(os.path.join(VERIF, "MANIFEST.json")))
    m["checks"] = []
    for pid, (ref, text, note) in sorted(CHECKS.items()):
        m["checks"].append({
            "property_id": pid, "quick_cmd": f"bin/check {pid} --tier quick", "thorough_cmd": f"bin/check {pid} --tier thorough",
            "evidence_file": f"/verif/evidence/{pid}.json", "replay_cmd_template": f"bin/check {pid} --replay {{path}}",
            "engine": "lean-model", "level_claimed": {"category": "proof", "text": text, "design_ref": ref},
            "level_note": NOTE + note, "technique": TECH_GEN if pid == "C14" else (TECH_LIN if pid == "C16" else TECH)})
    m["not_applicable"] = [{"property_id": f"C{i:02d}", "reason": "check not built yet in this round (planned, DESIGN.md section 10); not claimed until its model, theorems and tie exist"}
                           for i in range(1, 21) if f"C{i:02d}" not in CHECKS]
    for e in m["engines"]:
        e["serves_properties"] = sorted(CHECKS)
    commits = subprocess.run(["git", "-C", "/repo", "log", "--format=%h %s"], capture_output=True, text=True).stdout.splitlines()
    m["hooks"]["source_commits"] = [c.split()[0] for c in commits if c.split(" ", 1)[1].startswith("verif hook")]
    json.dump(m, open(os.path.join(VERIF, "MANIFEST.json"), "w"), indent=1)
if __name__ == "__main__":
    main()
