#!/usr/bin/env python3
"""Regenerates MANIFEST.json from the table below (single source of truth for what is claimed)."""
import json, os, subprocess
VERIF = os.path.dirname(os.path.dirname(os.path.abspath(__file__)))
TECH = "machine-checked proof in Lean 4 over a hand-written executable model + differential correspondence check against /repo"
NOTE = ("Lean 4.33 kernel; axioms propext/Classical.choice/Quot.sound only (audited per theorem); hand-written model tied to /repo by the "
        "correspondence check (Go harness, -tags verif, vs compiled model driver) whose generator coverage bounds what it sees; ")
CHECKS = {
 "C01": ("DESIGN.md 5.1",
  "Theorems (unbounded): parse(enc m ++ rest) = ok m rest for every canonical value tree of any arity/nesting/payload bytes; canonical bytes are a fixed point; bulk is binary-safe with decimal length prefix; every public constructor decodes back (floats under the strconv round-trip law). Tie: real serializer/parser/constructors vs model on enumerated small trees and generated trees.",
  "strconv float formatting/parsing is a parameter of the model"),
 "C02": ("DESIGN.md 5.2",
  "Theorems (unbounded): the reader mirroring parser.go over a transport delivering ANY list of segments equals the flat reference parser on the concatenation and leaves exactly the unconsumed bytes (C02_next_chunked), exact consumption per value, whole sequences read back followed by clean EOF. Tie: real parser under a scripted segment reader on every 2-way split, 1-byte delivery and random partitions.",
  "io.Reader contract of the transport (>=1 byte unless EOF) is assumed"),
 "C06": ("DESIGN.md 5.6",
  "Theorems (unbounded): for every byte sequence in every segmentation the next-value read ends in {value without absent elements, clean EOF, error}; never panic, never out of fuel; progress (>=1 byte per value); declared bulk length above the limit is an error before allocation. Tie: real parser on hostile/mutated/near-valid streams; allocation bombs in an isolated child.",
  "Go runtime allocation behaviour for sizes <= 512MiB+2; stack exhaustion far beyond 1 MiB input not modelled"),
}
def main():
    m = json.load(open(os.path.join(VERIF, "MANIFEST.json")))
    m["checks"] = []
    for pid, (ref, text, note) in sorted(CHECKS.items()):
        m["checks"].append({
            "property_id": pid, "quick_cmd": f"bin/check {pid} --tier quick", "thorough_cmd": f"bin/check {pid} --tier thorough",
            "evidence_file": f"/verif/evidence/{pid}.json", "replay_cmd_template": f"bin/check {pid} --replay {{path}}",
            "engine": "lean-model", "level_claimed": {"category": "proof", "text": text, "design_ref": ref},
            "level_note": NOTE + note, "technique": TECH})
    m["not_applicable"] = [{"property_id": f"C{i:02d}", "reason": "check not built yet in this round (planned, DESIGN.md section 10); not claimed until its model, theorems and tie exist"}
                           for i in range(1, 21) if f"C{i:02d}" not in CHECKS]
    for e in m["engines"]:
        e["serves_properties"] = sorted(CHECKS)
    commits = subprocess.run(["git", "-C", "/repo", "log", "--format=%h %s"], capture_output=True, text=True).stdout.splitlines()
    m["hooks"]["source_commits"] = [c.split()[0] for c in commits if c.split(" ", 1)[1].startswith("verif hook")]
    json.dump(m, open(os.path.join(VERIF, "MANIFEST.json"), "w"), indent=1)
if __name__ == "__main__":
    main()
