module verifharness

go 1.22

require (
	github.com/cybergarage/go-redis v0.0.0
	github.com/cybergarage/go-tracing v1.1.3
)

require (
	github.com/cybergarage/go-logger v1.3.4 // indirect
	github.com/google/uuid v1.6.0 // indirect
)

replace github.com/cybergarage/go-redis => /repo
