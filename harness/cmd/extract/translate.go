// translate.go: a translator from a small fragment of Go to Lean 4, used to REGENERATE part of the model from /repo's
// source on every run (Generated/Translated.lean).  The fragment: bodies (or statement ranges of bodies) made of
// assignments to local integer / slice variables, `if` without `else`, and `return`, over 64-bit `int` arithmetic
// (+, -, unary -, ^), comparisons, && || !, len(), slice and index expressions, and a few literals.  Every statement
// becomes one `let` / `if … then … else` of the Lean definition, in source order; `int` arithmetic becomes the wrapping
// operations of Model/GoSem; a slice or index expression becomes a match on GoSem.slice / GoSem.index whose `none` arm
// is the run-time panic.  Anything outside the fragment makes the unit "untranslatable": the definition is emitted as a
// `Unit`, the theorems that mention it stop type-checking, and the check reports the break.
package main

import (
	"fmt"
	"go/ast"
	"go/parser"
	"go/printer"
	"go/token"
	"path/filepath"
	"strconv"
	"strings"
)

type unit struct {
	name    string // Lean definition name
	file    string // relative to the repository
	kind    string // "func", "method", "executor", "closure"
	fn      string // function, Type.Method, executor command, or closure variable
	from    string // first statement of the fragment (source text, whitespace collapsed); "" = from the start of the body
	count   int    // statements in the fragment; 0 = to the end of the body
	tail    string // Go expression that is the fragment's value when control reaches its end ("" = none)
	binders string // Lean binders
	ret     string // Lean type of the value
	partial bool   // slice / index / error returns occur: the value is wrapped in GoSem.Res
	fields  map[string]string
	argIdx  []int // kind "callargs": the argument positions of the call that are translated (as a tuple)
	doc     string
}

// the units that are translated; the Lean-side interface (binders, type) is fixed here, the bodies come from the source
var units = []unit{
	{name: "clampRange", file: "examples/go-redisd/server/list.go", kind: "func", fn: "clampRange",
		binders: "(length start stop : Int)", ret: "Int × Int × Bool",
		doc: "examples/go-redisd/server/list.go: func clampRange(length, start, stop int) (int, int, bool)"},
	{name: "limitZSetMembers", file: "examples/go-redisd/server/zset.go", kind: "func", fn: "limitZSetMembers",
		binders: "{α : Type} (mems : List α) (offset count : Int)", ret: "List α", partial: true,
		doc: "examples/go-redisd/server/zset.go: func limitZSetMembers(mems []*ZSetMember, offset, count int) []*ZSetMember"},
	{name: "listIndex", file: "examples/go-redisd/server/list.go", kind: "method", fn: "List.Index",
		binders: "(elements : List Bytes) (idx : Int)", ret: "Bytes × Bool", partial: true, fields: map[string]string{"elements": "elements"},
		doc: "examples/go-redisd/server/list.go: func (list *List) Index(idx int) (string, bool)"},
	{name: "getrangeWindow", file: "redis/sugar_commander.go", kind: "executor", fn: "GETRANGE", from: "strLen := len(getVal)",
		binders: "(getVal : Bytes) (start end_ : Int)", ret: "Bytes", partial: true,
		doc: "redis/sugar_commander.go, executor GETRANGE: the statements from `strLen := len(getVal)` to the end of the closure"},
	{name: "incdecNewValue", file: "redis/sugar_commander.go", kind: "closure", fn: "incdecExecutor", from: "newVal := currVal + val", count: 2, tail: "newVal",
		binders: "(currVal val : Int)", ret: "Int", partial: true,
		doc: "redis/sugar_commander.go, closure incdecExecutor: `newVal := currVal + val` and the overflow test behind it"},
	{name: "bulkReadLength", file: "redis/proto/parser.go", kind: "method", fn: "Parser.nextLengthBytes", count: 2, tail: "n",
		binders: "(num : Int)", ret: "Int", partial: true,
		doc: "redis/proto/parser.go: (*Parser).nextLengthBytes, the limit test on the declared length and `n := num + 2`"},
	{name: "zrevrangeWindow", file: "redis/core_commander.go", kind: "callargs", fn: "ZREVRANGE", from: "ZRange", argIdx: []int{2, 3},
		binders: "(start stop : Int)", ret: "Int × Int",
		doc: "redis/core_commander.go, executor ZREVRANGE: the start and stop arguments of its call of the handler's ZRange"},
	{name: "decrbyGuard", file: "redis/sugar_commander.go", kind: "executor", fn: "DECRBY", from: "if inc == math.MinInt { return nil, errors.New(\"decrement would overflow\") }", count: 1, tail: "-inc",
		binders: "(inc : Int)", ret: "Int", partial: true,
		doc: "redis/sugar_commander.go, executor DECRBY: the guard on the decrement and the negation handed to incdecExecutor"},
}

var leanReserved = map[string]bool{"end": true, "from": true, "at": true, "open": true, "then": true, "do": true, "have": true, "show": true,
	"fun": true, "let": true, "in": true, "if": true, "else": true, "match": true, "with": true, "where": true, "def": true, "theorem": true,
	"max": true, "min": true}

func leanName(s string) string {
	if leanReserved[s] {
		return s + "_"
	}
	return s
}

type tr struct {
	fset   *token.FileSet
	u      *unit
	recv   string
	binds  []string // pending partial operations of the expression being translated: "tN ← <option term>"
	n      int
	failed string
	consts map[string]int64 // package-level integer constants of the unit's package
}

func (t *tr) fail(format string, a ...any) string {
	if t.failed == "" {
		t.failed = fmt.Sprintf(format, a...)
	}
	return "()"
}

func (t *tr) src(n ast.Node) string {
	var sb strings.Builder
	printer.Fprint(&sb, t.fset, n)
	return strings.Join(strings.Fields(sb.String()), " ")
}

func (t *tr) tmp(opt string) string {
	t.n++
	nm := fmt.Sprintf("t%d", t.n)
	t.binds = append(t.binds, nm+"\x00"+opt)
	return nm
}

// expr: a value expression (int, slice, string, bool literal)
func (t *tr) expr(e ast.Expr) string {
	switch x := e.(type) {
	case *ast.ParenExpr:
		return t.expr(x.X)
	case *ast.Ident:
		switch x.Name {
		case "true", "false":
			return x.Name
		}
		if v, ok := t.consts[x.Name]; ok {
			return fmt.Sprintf("(%d : Int)", v)
		}
		return leanName(x.Name)
	case *ast.BasicLit:
		switch x.Kind {
		case token.INT:
			v, err := strconv.ParseInt(x.Value, 0, 64)
			if err != nil {
				return t.fail("integer literal %s", x.Value)
			}
			return fmt.Sprintf("(%d : Int)", v)
		case token.STRING:
			if x.Value == `""` {
				return "([] : Bytes)"
			}
		}
		return t.fail("literal %s", x.Value)
	case *ast.SelectorExpr:
		if id, ok := x.X.(*ast.Ident); ok {
			if id.Name == "math" && (x.Sel.Name == "MinInt" || x.Sel.Name == "MinInt64") {
				return "(-9223372036854775808 : Int)"
			}
			if id.Name == "math" && (x.Sel.Name == "MaxInt" || x.Sel.Name == "MaxInt64") {
				return "(9223372036854775807 : Int)"
			}
			if id.Name == t.recv && t.u.fields[x.Sel.Name] != "" {
				return t.u.fields[x.Sel.Name]
			}
		}
		return t.fail("selector %s", t.src(x))
	case *ast.UnaryExpr:
		switch x.Op {
		case token.SUB:
			return "(GoSem.wneg " + t.expr(x.X) + ")"
		case token.XOR:
			return "(GoSem.wnot " + t.expr(x.X) + ")"
		}
		return t.fail("unary %s", x.Op)
	case *ast.BinaryExpr:
		op := map[token.Token]string{token.ADD: "GoSem.wadd", token.SUB: "GoSem.wsub", token.MUL: "GoSem.wmul"}[x.Op]
		if op == "" {
			return t.fail("binary operator %s in a value", x.Op)
		}
		return "(" + op + " " + t.expr(x.X) + " " + t.expr(x.Y) + ")"
	case *ast.CallExpr:
		if id, ok := x.Fun.(*ast.Ident); ok && id.Name == "len" && len(x.Args) == 1 {
			return "((" + t.expr(x.Args[0]) + ").length : Int)"
		}
		return t.fail("call %s", t.src(x))
	case *ast.CompositeLit:
		if len(x.Elts) == 0 {
			if _, ok := x.Type.(*ast.ArrayType); ok {
				return "[]"
			}
		}
		return t.fail("composite literal %s", t.src(x))
	case *ast.SliceExpr:
		if x.Slice3 {
			return t.fail("3-index slice")
		}
		base := t.expr(x.X)
		switch {
		case x.Low != nil && x.High != nil:
			return t.tmp("GoSem.slice " + base + " " + t.expr(x.Low) + " " + t.expr(x.High))
		case x.Low != nil:
			return t.tmp("GoSem.sliceFrom " + base + " " + t.expr(x.Low))
		case x.High != nil:
			return t.tmp("GoSem.sliceTo " + base + " " + t.expr(x.High))
		}
		return base
	case *ast.IndexExpr:
		return t.tmp("GoSem.index " + t.expr(x.X) + " " + t.expr(x.Index))
	}
	return t.fail("expression %s", t.src(e))
}

// cond: a condition, as a decidable proposition
func (t *tr) cond(e ast.Expr) string {
	switch x := e.(type) {
	case *ast.ParenExpr:
		return t.cond(x.X)
	case *ast.UnaryExpr:
		if x.Op == token.NOT {
			return "(¬ " + t.cond(x.X) + ")"
		}
	case *ast.BinaryExpr:
		switch x.Op {
		case token.LAND, token.LOR:
			l := t.cond(x.X)
			before := len(t.binds)
			r := t.cond(x.Y)
			if len(t.binds) != before {
				return t.fail("a slice or index expression on the right of a short-circuit operator")
			}
			if x.Op == token.LAND {
				return "(" + l + " ∧ " + r + ")"
			}
			return "(" + l + " ∨ " + r + ")"
		case token.LSS, token.LEQ, token.GTR, token.GEQ, token.EQL, token.NEQ:
			op := map[token.Token]string{token.LSS: "<", token.LEQ: "≤", token.GTR: ">", token.GEQ: "≥", token.EQL: "=", token.NEQ: "≠"}[x.Op]
			return "(" + t.expr(x.X) + " " + op + " " + t.expr(x.Y) + ")"
		}
	case *ast.Ident:
		if x.Name == "true" {
			return "True"
		}
		if x.Name == "false" {
			return "False"
		}
		return "(" + leanName(x.Name) + " = true)"
	}
	return t.fail("condition %s", t.src(e))
}

// wrap the pending partial operations around a term
func (t *tr) flush(ind string, body string) string {
	for i := len(t.binds) - 1; i >= 0; i-- {
		parts := strings.SplitN(t.binds[i], "\x00", 2)
		body = "match " + parts[1] + " with\n" + ind + "| none => GoSem.Res.panic\n" + ind + "| some " + parts[0] + " =>\n" + ind + "  " + body
	}
	t.binds = nil
	return body
}

func (t *tr) value(v string) string {
	if t.u.partial {
		return "GoSem.Res.ok " + v
	}
	return v
}

func (t *tr) ret(ind string, r *ast.ReturnStmt) string {
	rs := r.Results
	isNil := func(e ast.Expr) bool { id, ok := e.(*ast.Ident); return ok && id.Name == "nil" }
	if len(rs) == 2 && isNil(rs[0]) {
		// (nil, error): the text of the error is its first argument as written
		if c, ok := rs[1].(*ast.CallExpr); ok && len(c.Args) >= 1 && (t.src(c.Fun) == "errors.New" || t.src(c.Fun) == "fmt.Errorf") {
			if l, ok := c.Args[0].(*ast.BasicLit); ok && l.Kind == token.STRING {
				return "GoSem.Res.err " + l.Value
			}
			if id, ok := c.Args[0].(*ast.Ident); ok {
				return "GoSem.Res.err " + strconv.Quote(id.Name)
			}
		}
	}
	if (t.u.kind == "executor" || t.u.kind == "closure") && len(rs) == 2 {
		// (*Message, error)
		if isNil(rs[1]) {
			if c, ok := rs[0].(*ast.CallExpr); ok && len(c.Args) == 1 {
				if id, ok := c.Fun.(*ast.Ident); ok && (id.Name == "NewBulkMessage" || id.Name == "NewIntegerMessage") {
					v := t.expr(c.Args[0])
					return t.flush(ind, t.value(v))
				}
			}
		}
		if isNil(rs[0]) {
			if c, ok := rs[1].(*ast.CallExpr); ok && len(c.Args) == 1 && t.src(c.Fun) == "errors.New" {
				if l, ok := c.Args[0].(*ast.BasicLit); ok && l.Kind == token.STRING {
					return "GoSem.Res.err " + l.Value
				}
			}
		}
		t.fail("return %s", t.src(r))
		return "()"
	}
	var vs []string
	for _, e := range rs {
		vs = append(vs, t.expr(e))
	}
	v := strings.Join(vs, ", ")
	if len(vs) != 1 {
		v = "(" + v + ")"
	}
	return t.flush(ind, t.value(v))
}

func endsInReturn(b *ast.BlockStmt) bool {
	if len(b.List) == 0 {
		return false
	}
	_, ok := b.List[len(b.List)-1].(*ast.ReturnStmt)
	return ok
}

func (t *tr) stmts(ind string, ss []ast.Stmt, tail string) string {
	if t.failed != "" {
		return "()"
	}
	if len(ss) == 0 {
		if tail == "" {
			t.fail("control reaches the end of the fragment without a value")
			return "()"
		}
		e, err := parser.ParseExpr(tail)
		if err != nil {
			t.fail("tail %s", tail)
			return "()"
		}
		v := t.expr(e)
		return t.flush(ind, t.value(v))
	}
	switch s := ss[0].(type) {
	case *ast.ReturnStmt:
		return t.ret(ind, s)
	case *ast.IncDecStmt:
		id, ok := s.X.(*ast.Ident)
		if !ok {
			t.fail("%s of %s", s.Tok, t.src(s.X))
			return "()"
		}
		op := "GoSem.wadd"
		if s.Tok == token.DEC {
			op = "GoSem.wsub"
		}
		n := leanName(id.Name)
		return "let " + n + " := (" + op + " " + n + " (1 : Int))\n" + ind + t.stmts(ind, ss[1:], tail)
	case *ast.AssignStmt:
		if len(s.Lhs) == 1 && len(s.Rhs) == 1 && (s.Tok == token.ADD_ASSIGN || s.Tok == token.SUB_ASSIGN) {
			if id, ok := s.Lhs[0].(*ast.Ident); ok {
				op := "GoSem.wadd"
				if s.Tok == token.SUB_ASSIGN {
					op = "GoSem.wsub"
				}
				v := t.expr(s.Rhs[0])
				if len(t.binds) != 0 {
					t.fail("a slice or index expression in an operator assignment")
					return "()"
				}
				n := leanName(id.Name)
				return "let " + n + " := (" + op + " " + n + " " + v + ")\n" + ind + t.stmts(ind, ss[1:], tail)
			}
		}
		if len(s.Lhs) != 1 || len(s.Rhs) != 1 || (s.Tok != token.ASSIGN && s.Tok != token.DEFINE) {
			t.fail("assignment %s", t.src(s))
			return "()"
		}
		id, ok := s.Lhs[0].(*ast.Ident)
		if !ok {
			t.fail("assignment to %s", t.src(s.Lhs[0]))
			return "()"
		}
		v := t.expr(s.Rhs[0])
		rest := "let " + leanName(id.Name) + " := " + v + "\n" + ind
		binds := t.binds
		t.binds = nil
		rest += t.stmts(ind, ss[1:], tail)
		t.binds = binds
		return t.flush(ind, rest)
	case *ast.IfStmt:
		if s.Init != nil {
			t.fail("if with init: %s", t.src(s.Cond))
			return "()"
		}
		c := t.cond(s.Cond)
		if len(t.binds) != 0 {
			t.fail("a slice or index expression inside a condition")
			return "()"
		}
		if s.Else != nil {
			eb, ok := s.Else.(*ast.BlockStmt)
			if !ok {
				t.fail("else if: %s", t.src(s.Cond))
				return "()"
			}
			// both arms return: what follows is unreachable
			if endsInReturn(s.Body) && endsInReturn(eb) {
				a := t.stmts(ind+"  ", s.Body.List, "")
				b := t.stmts(ind+"  ", eb.List, "")
				return "if " + c + " then\n" + ind + "  " + a + "\n" + ind + "else\n" + ind + "  " + b
			}
			// both arms assign the same variable once
			if len(s.Body.List) == 1 && len(eb.List) == 1 {
				a1, ok1 := s.Body.List[0].(*ast.AssignStmt)
				a2, ok2 := eb.List[0].(*ast.AssignStmt)
				if ok1 && ok2 && a1.Tok == token.ASSIGN && a2.Tok == token.ASSIGN && len(a1.Lhs) == 1 && len(a2.Lhs) == 1 && len(a1.Rhs) == 1 && len(a2.Rhs) == 1 {
					i1, k1 := a1.Lhs[0].(*ast.Ident)
					i2, k2 := a2.Lhs[0].(*ast.Ident)
					if k1 && k2 && i1.Name == i2.Name {
						v1, v2 := t.expr(a1.Rhs[0]), t.expr(a2.Rhs[0])
						if len(t.binds) != 0 {
							t.fail("a slice or index expression inside an if/else assignment")
							return "()"
						}
						n := leanName(i1.Name)
						return "let " + n + " := if " + c + " then " + v1 + " else " + v2 + "\n" + ind + t.stmts(ind, ss[1:], tail)
					}
				}
			}
			t.fail("if/else of a form outside the fragment: %s", t.src(s.Cond))
			return "()"
		}
		if endsInReturn(s.Body) {
			a := t.stmts(ind+"  ", s.Body.List, "")
			b := t.stmts(ind, ss[1:], tail)
			return "if " + c + " then\n" + ind + "  " + a + "\n" + ind + "else\n" + ind + b
		}
		// a body of one assignment: the variable is updated conditionally
		if len(s.Body.List) == 1 {
			if as, ok := s.Body.List[0].(*ast.AssignStmt); ok && as.Tok == token.ASSIGN && len(as.Lhs) == 1 && len(as.Rhs) == 1 {
				if id, ok := as.Lhs[0].(*ast.Ident); ok {
					v := t.expr(as.Rhs[0])
					n := leanName(id.Name)
					if len(t.binds) != 0 {
						// the assignment can panic: it is evaluated in the `then` arm only, and what follows is emitted in both arms
						binds := t.binds
						t.binds = nil
						restA := t.stmts(ind+"  ", ss[1:], tail)
						restB := t.stmts(ind, ss[1:], tail)
						t.binds = binds
						a := t.flush(ind+"  ", "let "+n+" := "+v+"\n"+ind+"  "+restA)
						return "if " + c + " then\n" + ind + "  " + a + "\n" + ind + "else\n" + ind + restB
					}
					return "let " + n + " := if " + c + " then " + v + " else " + n + "\n" + ind + t.stmts(ind, ss[1:], tail)
				}
			}
		}
		t.fail("if body %s", t.src(s.Body))
		return "()"
	}
	t.fail("statement %s", t.src(ss[0]))
	return "()"
}

// packageIntConsts evaluates the package-level constants of a directory that are products / sums of integer literals.
func packageIntConsts(dir string) map[string]int64 {
	out := map[string]int64{}
	matches, _ := filepath.Glob(filepath.Join(dir, "*.go"))
	var eval func(e ast.Expr) (int64, bool)
	eval = func(e ast.Expr) (int64, bool) {
		switch x := e.(type) {
		case *ast.ParenExpr:
			return eval(x.X)
		case *ast.BasicLit:
			if x.Kind == token.INT {
				v, err := strconv.ParseInt(x.Value, 0, 64)
				return v, err == nil
			}
		case *ast.Ident:
			v, ok := out[x.Name]
			return v, ok
		case *ast.BinaryExpr:
			a, ok1 := eval(x.X)
			b, ok2 := eval(x.Y)
			if ok1 && ok2 {
				switch x.Op {
				case token.MUL:
					return a * b, true
				case token.ADD:
					return a + b, true
				case token.SUB:
					return a - b, true
				case token.SHL:
					return a << uint(b), true
				}
			}
		}
		return 0, false
	}
	for _, fn := range matches {
		if strings.HasSuffix(fn, "_test.go") {
			continue
		}
		f, err := parser.ParseFile(token.NewFileSet(), fn, nil, 0)
		if err != nil {
			continue
		}
		for _, d := range f.Decls {
			gd, ok := d.(*ast.GenDecl)
			if !ok || gd.Tok != token.CONST {
				continue
			}
			for _, sp := range gd.Specs {
				vs, ok := sp.(*ast.ValueSpec)
				if !ok || len(vs.Names) != 1 || len(vs.Values) != 1 {
					continue
				}
				if v, ok := eval(vs.Values[0]); ok {
					out[vs.Names[0].Name] = v
				}
			}
		}
	}
	return out
}

// findBody locates the statement list the unit names
func findBody(fset *token.FileSet, f *ast.File, u *unit) (recv string, body []ast.Stmt, why string) {
	switch u.kind {
	case "func", "method":
		for _, d := range f.Decls {
			fd, ok := d.(*ast.FuncDecl)
			if !ok || fd.Body == nil {
				continue
			}
			name := fd.Name.Name
			r, id := recvType(fd)
			if r != "" {
				name = r + "." + name
			}
			if name == u.fn {
				return id, fd.Body.List, ""
			}
		}
	case "executor", "callargs":
		var found *ast.FuncLit
		ast.Inspect(f, func(n ast.Node) bool {
			c, ok := n.(*ast.CallExpr)
			if !ok || len(c.Args) != 2 {
				return true
			}
			if s, ok := c.Fun.(*ast.SelectorExpr); !ok || s.Sel.Name != "RegisterExexutor" {
				return true
			}
			if l, ok := c.Args[0].(*ast.BasicLit); ok && l.Value == strconv.Quote(u.fn) {
				if fl, ok := c.Args[1].(*ast.FuncLit); ok {
					found = fl
				}
			}
			return true
		})
		if found != nil {
			return "", found.Body.List, ""
		}
	case "closure":
		var found *ast.FuncLit
		ast.Inspect(f, func(n ast.Node) bool {
			a, ok := n.(*ast.AssignStmt)
			if !ok || len(a.Lhs) != 1 || len(a.Rhs) != 1 {
				return true
			}
			if id, ok := a.Lhs[0].(*ast.Ident); ok && id.Name == u.fn {
				if fl, ok := a.Rhs[0].(*ast.FuncLit); ok {
					found = fl
				}
			}
			return true
		})
		if found != nil {
			return "", found.Body.List, ""
		}
	}
	return "", nil, "not found in " + u.file
}

func translateUnits(repo string) (string, int) {
	var sb strings.Builder
	sb.WriteString("import GoRedisModel.Model.GoSem\n")
	sb.WriteString("/-! REGENERATED by bin/extract (harness/cmd/extract/translate.go) from /repo's source on every run – do not edit.\n")
	sb.WriteString("Each definition is the statement-for-statement translation of the Go code named in its comment. -/\n")
	sb.WriteString("namespace GoRedis.Translated\nopen GoRedis\n\n")
	okCount := 0
	for i := range units {
		u := &units[i]
		fset := token.NewFileSet()
		f, err := parser.ParseFile(fset, filepath.Join(repo, u.file), nil, 0)
		why := ""
		var body []ast.Stmt
		recv := ""
		if err != nil {
			why = "cannot parse " + u.file
		} else {
			recv, body, why = findBody(fset, f, u)
		}
		t := &tr{fset: fset, u: u, recv: recv, consts: packageIntConsts(filepath.Join(repo, filepath.Dir(u.file)))}
		if u.kind == "callargs" && why == "" {
			// the arguments of the first call of a method named u.from inside the executor
			var call *ast.CallExpr
			for _, st := range body {
				ast.Inspect(st, func(n ast.Node) bool {
					if c, ok := n.(*ast.CallExpr); ok && call == nil {
						if sel, ok := c.Fun.(*ast.SelectorExpr); ok && sel.Sel.Name == u.from {
							call = c
						}
					}
					return true
				})
			}
			text := ""
			if call == nil {
				why = "no call of " + u.from + " in the executor"
			} else {
				var vs []string
				for _, k := range u.argIdx {
					if k >= len(call.Args) {
						why = "the call has fewer arguments than expected"
						break
					}
					vs = append(vs, t.expr(call.Args[k]))
				}
				if len(t.binds) != 0 {
					why = "a slice or index expression in a call argument"
				}
				text = "(" + strings.Join(vs, ", ") + ")"
				if why == "" {
					why = t.failed
				}
			}
			sb.WriteString("/-- " + u.doc + " -/\n")
			if why != "" {
				sb.WriteString("def " + u.name + " : Unit := ()  -- UNTRANSLATABLE: " + strings.ReplaceAll(why, "\n", " ") + "\n\n")
				continue
			}
			okCount++
			sb.WriteString("def " + u.name + " " + u.binders + " : " + u.ret + " :=\n  " + text + "\n\n")
			continue
		}
		if why == "" && u.from != "" && u.kind != "callargs" {
			at := -1
			for k, s := range body {
				if t.src(s) == u.from {
					at = k
					break
				}
			}
			if at < 0 {
				why = "the fragment's first statement `" + u.from + "` is not in the source any more"
			} else {
				body = body[at:]
			}
		}
		if why == "" && u.count > 0 {
			if len(body) < u.count {
				why = "fragment shorter than expected"
			} else {
				body = body[:u.count]
			}
		}
		text := ""
		if why == "" {
			text = t.stmts("  ", body, u.tail)
			why = t.failed
		}
		sb.WriteString("/-- " + u.doc + " -/\n")
		if why != "" {
			sb.WriteString("def " + u.name + " : Unit := ()  -- UNTRANSLATABLE: " + strings.ReplaceAll(why, "\n", " ") + "\n\n")
			continue
		}
		okCount++
		ret := u.ret
		if u.partial {
			ret = "GoSem.Res (" + ret + ")"
		}
		sb.WriteString("def " + u.name + " " + u.binders + " : " + ret + " :=\n  " + text + "\n\n")
	}
	sb.WriteString("end GoRedis.Translated\n")
	return sb.String(), okCount
}
