package main

import (
	"go/ast"
	"go/parser"
	"go/token"
	"strings"
	"testing"
)

// the emission rules on a synthetic function: every statement form of the fragment occurs once
func TestTranslateFragment(t *testing.T) {
	src := `package p
func f(a int, b int, xs []int) (int, bool) {
	x := a
	x += b
	x++
	if x < 0 {
		x = 0
	} else {
		x = x - 1
	}
	if b == 0 && len(xs) <= x {
		return 0, false
	}
	xs = xs[x:]
	if b < 0 {
		return x, true
	} else {
		return xs[0], true
	}
}`
	fset := token.NewFileSet()
	f, err := parser.ParseFile(fset, "x.go", src, 0)
	if err != nil {
		t.Fatal(err)
	}
	body := f.Decls[0].(*ast.FuncDecl).Body.List
	u := &unit{name: "f", kind: "func", partial: true}
	tt := &tr{fset: fset, u: u, consts: map[string]int64{}}
	got := tt.stmts("  ", body, "")
	if tt.failed != "" {
		t.Fatalf("untranslatable: %s", tt.failed)
	}
	for _, want := range []string{
		"let x := a",
		"let x := (GoSem.wadd x b)",
		"let x := (GoSem.wadd x (1 : Int))",
		"let x := if (x < (0 : Int)) then (0 : Int) else (GoSem.wsub x (1 : Int))",
		"if ((b = (0 : Int)) ∧ (((xs).length : Int) ≤ x)) then",
		"GoSem.Res.ok ((0 : Int), false)",
		"match GoSem.sliceFrom xs x with",
		"| none => GoSem.Res.panic",
		"match GoSem.index xs (0 : Int) with",
		"GoSem.Res.ok (t2, true)",
	} {
		if !strings.Contains(got, want) {
			t.Errorf("missing %q in\n%s", want, got)
		}
	}
	// a loop is outside the fragment: the unit is refused, not mistranslated
	f2, _ := parser.ParseFile(fset, "y.go", "package p\nfunc g(n int) int { for n > 0 { n-- }; return n }", 0)
	tr2 := &tr{fset: fset, u: u, consts: map[string]int64{}}
	tr2.stmts("  ", f2.Decls[0].(*ast.FuncDecl).Body.List, "")
	if tr2.failed == "" {
		t.Errorf("a for loop was translated")
	}
}
