// extract regenerates facts about /repo's source for the Lean development (Generated/Facts.lean):
// the shared-field access table with the locks held at every site, the registered command names, the RESP
// type bytes, and the control-flow facts of the lifecycle (recover barrier, deferred releases, Stop order).
// It is purely syntactic (go/ast); what it assumes about the source is listed in DESIGN.md.
package main

import (
	"fmt"
	"go/ast"
	"go/parser"
	"go/printer"
	"go/token"
	"os"
	"path/filepath"
	"regexp"
	"sort"
	"strings"
)

type shared struct{ typ, field, mutex string }

// the fields of the framework that are touched by more than one goroutine, and the mutex each is guarded by
var sharedFields = []shared{
	{"Config", "params", "mutex"},
	{"ConnManager", "m", "mutex"},
	{"Conn", "isClosed", "closeMutex"},
}

type access struct {
	typ, field, fn string
	write          bool
	held           string // "", "R", "W"
	line           int
}

func recvType(fd *ast.FuncDecl) (name string, ident string) {
	if fd.Recv == nil || len(fd.Recv.List) == 0 {
		return "", ""
	}
	t := fd.Recv.List[0].Type
	if st, ok := t.(*ast.StarExpr); ok {
		t = st.X
	}
	if id, ok := t.(*ast.Ident); ok {
		name = id.Name
	}
	if len(fd.Recv.List[0].Names) > 0 {
		ident = fd.Recv.List[0].Names[0].Name
	}
	return
}

func selName(e ast.Expr) (string, string) {
	if s, ok := e.(*ast.SelectorExpr); ok {
		if id, ok := s.X.(*ast.Ident); ok {
			return id.Name, s.Sel.Name
		}
		if inner, ok := s.X.(*ast.SelectorExpr); ok {
			return inner.Sel.Name, s.Sel.Name
		}
	}
	return "", ""
}

func main() {
	repo := "/repo"
	if len(os.Args) > 1 {
		repo = os.Args[1]
	}
	out := "/verif/lean/GoRedisModel/Generated/Facts.lean"
	if len(os.Args) > 2 {
		out = os.Args[2]
	}
	fset := token.NewFileSet()
	var files []*ast.File
	var names []string
	for _, dir := range []string{"redis", "redis/proto", "redis/auth"} {
		matches, _ := filepath.Glob(filepath.Join(repo, dir, "*.go"))
		sort.Strings(matches)
		for _, fn := range matches {
			if strings.HasSuffix(fn, "_test.go") || strings.Contains(filepath.Base(fn), "verif_") {
				continue
			}
			f, err := parser.ParseFile(fset, fn, nil, parser.ParseComments)
			if err != nil {
				fmt.Fprintln(os.Stderr, "extract: cannot parse", fn, err)
				os.Exit(1)
			}
			files = append(files, f)
			names = append(names, fn)
		}
	}
	// every field of the types that are shared as a whole (registry, configuration) is a shared field, whatever it is
	// called: the struct declarations are read from the source
	wholeTypes := map[string]string{"Config": "mutex", "ConnManager": "mutex"}
	for _, f := range files {
		for _, d := range f.Decls {
			gd, ok := d.(*ast.GenDecl)
			if !ok {
				continue
			}
			for _, sp := range gd.Specs {
				ts, ok := sp.(*ast.TypeSpec)
				if !ok {
					continue
				}
				st, ok := ts.Type.(*ast.StructType)
				mu, whole := wholeTypes[ts.Name.Name]
				if !ok || !whole {
					continue
				}
				for _, fld := range st.Fields.List {
					for _, nm := range fld.Names {
						if nm.Name == mu {
							continue
						}
						dup := false
						for _, sf := range sharedFields {
							if sf.typ == ts.Name.Name && sf.field == nm.Name {
								dup = true
							}
						}
						if !dup {
							sharedFields = append(sharedFields, shared{ts.Name.Name, nm.Name, mu})
						}
					}
				}
			}
		}
	}
	// argument readers (functions named next*) classified by what they return
	readerKind := map[string]string{}
	for _, f := range files {
		for _, d := range f.Decls {
			fd, ok := d.(*ast.FuncDecl)
			if !ok || fd.Recv != nil || !strings.HasPrefix(fd.Name.Name, "next") || fd.Type.Results == nil {
				continue
			}
			var kinds []string
			for _, r := range fd.Type.Results.List {
				t := nodeString(fset, names, r.Type)
				n := len(r.Names)
				if n == 0 {
					n = 1
				}
				for i := 0; i < n; i++ {
					switch t {
					case "string":
						kinds = append(kinds, "S")
					case "int":
						kinds = append(kinds, "I")
					case "float64":
						kinds = append(kinds, "F")
					case "[]string":
						kinds = append(kinds, "L")
					case "map[string]string":
						kinds = append(kinds, "P")
					case "bool":
						kinds = append(kinds, "B")
					case "error":
					default:
						kinds = append(kinds, "<"+t+">")
					}
				}
			}
			readerKind[fd.Name.Name] = strings.Join(kinds, "")
		}
	}
	type shape struct {
		name  string
		calls []string
	}
	var shapes []shape
	var table []access
	var commands []string
	typeBytes := map[string]string{}
	facts := map[string]bool{"handleMessageOnlyFromDispatch": true, "sharedTypesHavePointerReceivers": true, "noUnicodeCaseFolding": true}
	var stopOrder []string

	for _, f := range files {
		for _, d := range f.Decls {
			switch d := d.(type) {
			case *ast.GenDecl:
				// const ( stringMessageByte = byte('+') ... )
				for _, sp := range d.Specs {
					if vs, ok := sp.(*ast.ValueSpec); ok && len(vs.Names) == 1 && len(vs.Values) == 1 {
						if strings.HasSuffix(vs.Names[0].Name, "MessageByte") {
							if call, ok := vs.Values[0].(*ast.CallExpr); ok && len(call.Args) == 1 {
								if lit, ok := call.Args[0].(*ast.BasicLit); ok {
									typeBytes[vs.Names[0].Name] = lit.Value
								}
							}
						}
					}
				}
			case *ast.FuncDecl:
				if d.Body == nil {
					continue
				}
				if d.Recv != nil && len(d.Recv.List) > 0 {
					// methods of the shared types must have pointer receivers: a value receiver copies the struct and with
					// it the mutex, so that the method locks a private copy
					if id, ok := d.Recv.List[0].Type.(*ast.Ident); ok {
						if id.Name == "Config" || id.Name == "ConnManager" || id.Name == "Conn" || id.Name == "Server" || id.Name == "ServerConfig" {
							facts["sharedTypesHavePointerReceivers"] = false
						}
					}
				}
				rt, rid := recvType(d)
				fname := d.Name.Name
				if rt != "" {
					fname = rt + "." + fname
				}
				// registered command names
				ast.Inspect(d.Body, func(n ast.Node) bool {
					if call, ok := n.(*ast.CallExpr); ok {
						// command and option names are folded byte-wise (upperASCII): Unicode case folding would let
						// letters outside ASCII spell a command
						if pkg, sel := selName(call.Fun); pkg == "strings" && (sel == "ToUpper" || sel == "ToLower" || sel == "EqualFold" || sel == "ToTitle") {
							facts["noUnicodeCaseFolding"] = false
						}
						if _, sel := selName(call.Fun); sel == "handleMessage" && fname != "Server.dispatch" {
							facts["handleMessageOnlyFromDispatch"] = false
						}
						if _, sel := selName(call.Fun); sel == "RegisterExexutor" && len(call.Args) > 0 {
							if lit, ok := call.Args[0].(*ast.BasicLit); ok {
								commands = append(commands, strings.Trim(lit.Value, `"`))
								// the executor's shape: which argument readers it calls, in source order, and which handler
								// operation it reaches
								if fl, ok := call.Args[1].(*ast.FuncLit); ok {
									sh := shape{name: strings.Trim(lit.Value, `"`)}
									ast.Inspect(fl.Body, func(m ast.Node) bool {
										c, ok := m.(*ast.CallExpr)
										if !ok {
											return true
										}
										if id, ok := c.Fun.(*ast.Ident); ok && strings.HasPrefix(id.Name, "next") {
											k := readerKind[id.Name]
											if k == "" {
												k = "?" + id.Name
											}
											sh.calls = append(sh.calls, k)
										}
										if se, ok := c.Fun.(*ast.SelectorExpr); ok {
											if inner, ok := se.X.(*ast.SelectorExpr); ok {
												switch inner.Sel.Name {
												case "userCommandHandler":
													sh.calls = append(sh.calls, "H:"+se.Sel.Name)
												case "systemCommandHandler":
													sh.calls = append(sh.calls, "Y:"+se.Sel.Name)
												case "authCommandHandler":
													sh.calls = append(sh.calls, "A:"+se.Sel.Name)
												}
											}
											if se.Sel.Name == "executeCommand" || se.Sel.Name == "Execute" {
												sh.calls = append(sh.calls, "X")
											}
										}
										return true
									})
									shapes = append(shapes, sh)
								}
							}
						}
					}
					return true
				})
				// shared-field accesses of methods on the owning type
				for _, sf := range sharedFields {
					if rt != sf.typ {
						continue
					}
					held := ""
					var walk func(stmts []ast.Stmt)
					record := func(n ast.Node, write bool) {
						ast.Inspect(n, func(m ast.Node) bool {
							if s, ok := m.(*ast.SelectorExpr); ok {
								if id, ok := s.X.(*ast.Ident); ok && id.Name == rid && s.Sel.Name == sf.field {
									table = append(table, access{sf.typ, sf.field, fname, write, held, fset.Position(s.Pos()).Line})
								}
							}
							return true
						})
					}
					lockCall := func(e ast.Expr) string {
						call, ok := e.(*ast.CallExpr)
						if !ok {
							return ""
						}
						s, ok := call.Fun.(*ast.SelectorExpr)
						if !ok {
							return ""
						}
						if _, f := selName(s.X); f != sf.mutex {
							return ""
						}
						return s.Sel.Name
					}
					walk = func(stmts []ast.Stmt) {
						for _, st := range stmts {
							switch st := st.(type) {
							case *ast.ExprStmt:
								switch lockCall(st.X) {
								case "Lock":
									held = "W"
									continue
								case "RLock":
									held = "R"
									continue
								case "Unlock", "RUnlock":
									held = ""
									continue
								}
								if call, ok := st.X.(*ast.CallExpr); ok {
									if id, ok := call.Fun.(*ast.Ident); ok && id.Name == "delete" && len(call.Args) > 0 {
										record(call.Args[0], true)
										for _, a := range call.Args[1:] {
											record(a, false)
										}
										continue
									}
								}
								record(st, false)
							case *ast.DeferStmt:
								// `defer mu.Unlock()` keeps the lock until the function returns
								if k := lockCall(st.Call); k == "Unlock" || k == "RUnlock" {
									continue
								}
								record(st, false)
							case *ast.AssignStmt:
								for _, l := range st.Lhs {
									record(l, true)
								}
								for _, r := range st.Rhs {
									record(r, false)
								}
							case *ast.IfStmt:
								if st.Init != nil {
									walk([]ast.Stmt{st.Init})
								}
								record(st.Cond, false)
								walk(st.Body.List)
								if st.Else != nil {
									if b, ok := st.Else.(*ast.BlockStmt); ok {
										walk(b.List)
									} else {
										walk([]ast.Stmt{st.Else})
									}
								}
							case *ast.ForStmt:
								walk(st.Body.List)
							case *ast.RangeStmt:
								record(st.X, false)
								walk(st.Body.List)
							case *ast.BlockStmt:
								walk(st.List)
							case *ast.ReturnStmt:
								record(st, false)
							default:
								record(st, false)
							}
						}
					}
					walk(d.Body.List)
				}
				// lifecycle facts
				switch fname {
				case "Server.serveConn", "Server.receive":
					if fname == "Server.serveConn" {
						src := nodeString(fset, names, d.Body)
						facts["loopDispatchesUnderMutex"] = strings.Contains(src, "server.dispatch(") && !strings.Contains(src, "handleMessage(")
					}
					for i, st := range d.Body.List {
						if ds, ok := st.(*ast.DeferStmt); ok {
							src := nodeString(fset, names, ds)
							if strings.Contains(src, "recover()") {
								facts["recoverBarrier"] = true
								// the barrier must be the first deferred call (it then runs last)
								first := true
								for _, prev := range d.Body.List[:i] {
									if _, ok := prev.(*ast.DeferStmt); ok {
										first = false
									}
								}
								facts["recoverBarrierFirst"] = first
							}
							if strings.Contains(src, "RemoveConn(") {
								facts["deferRemoveConn"] = true
							}
							if strings.Contains(src, ".Close()") {
								facts["deferClose"] = true
							}
						}
					}
				case "Server.serve", "Server.tlsServe":
					src := nodeString(fset, names, d.Body)
					key := "loopClosesOwnListener_" + d.Name.Name
					facts[key] = strings.Contains(src, "defer l.Close()") && !strings.Contains(src, "server.close()")
					if d.Name.Name == "tlsServe" {
						facts["handshakeOutsideAcceptLoop"] = !strings.Contains(src, "Handshake()")
					}
				case "Server.executeCommand":
					src := nodeString(fset, names, d.Body)
					gate, run := strings.Index(src, "!conn.IsAuthrized()"), strings.Index(src, "cmdExecutor(conn")
					facts["authGateBeforeExecutor"] = gate >= 0 && run > gate && strings.Count(src, "cmdExecutor(") == 1
					// the only exemption from the gate is the AUTH command itself
					ex := regexp.MustCompile(`if !conn\.IsAuthrized\(\) \{\s*if upperCmd != "AUTH" \{\s*return nil, ErrNotAuthrized\s*\}\s*\}`)
					facts["authGateExemptsOnlyAuth"] = ex.MatchString(src)
				case "Server.dispatch":
					src := nodeString(fset, names, d.Body)
					lock, unlock, call := strings.Index(src, "dispatchMutex.Lock()"), strings.Index(src, "defer server.dispatchMutex.Unlock()"), strings.Index(src, "handleMessage(")
					// exactly: Lock; defer Unlock; return handleMessage(...) - nothing conditional about the lock
					exact := len(d.Body.List) == 3
					if exact {
						_, isExpr := d.Body.List[0].(*ast.ExprStmt)
						_, isDefer := d.Body.List[1].(*ast.DeferStmt)
						_, isRet := d.Body.List[2].(*ast.ReturnStmt)
						exact = isExpr && isDefer && isRet
					}
					facts["dispatchHoldsMutex"] = exact && lock >= 0 && unlock > lock && call > unlock
				case "Server.startConn":
					src := nodeString(fset, names, d.Body)
					add, goat := strings.Index(src, "AddConn("), strings.Index(src, "go func()")
					facts["registersBeforeSpawn"] = add >= 0 && goat >= 0 && add < goat
					facts["handshakeInConnGoroutine"] = strings.Contains(src, "Handshake()") && strings.Index(src, "Handshake()") > goat
				case "Server.Start":
					// the goroutines Start spawns own what they were started with: inside a go statement no field of
					// the server that the lifecycle caller writes (the listeners, the TLS configuration) is read
					owns, spawned := true, 0
					ast.Inspect(d.Body, func(n ast.Node) bool {
						g, ok := n.(*ast.GoStmt)
						if !ok {
							return true
						}
						spawned++
						ast.Inspect(g, func(m ast.Node) bool {
							if se, ok := m.(*ast.SelectorExpr); ok {
								if id, ok := se.X.(*ast.Ident); ok && id.Name == "server" {
									switch se.Sel.Name {
									case "portListener", "tlsPortListener", "tlsConfig":
										owns = false
									}
								}
							}
							return true
						})
						return false
					})
					facts["startLoopsOwnTheirListener"] = owns && spawned > 0
				case "Server.Stop":
					for _, st := range d.Body.List {
						src := nodeString(fset, names, st)
						switch {
						case strings.Contains(src, "server.close()"):
							stopOrder = append(stopOrder, "closeListeners")
						case strings.Contains(src, "acceptGroup.Wait()"):
							stopOrder = append(stopOrder, "waitLoops")
						case strings.Contains(src, "ConnManager.Stop()"):
							stopOrder = append(stopOrder, "closeConns")
						case strings.Contains(src, "connGroup.Wait()"):
							stopOrder = append(stopOrder, "waitConns")
						}
					}
				}
			}
		}
	}
	facts["noReentrantLocking"] = len(reentrantLocking(files)) == 0
	// where goroutines are started: the model knows the accept loops (Start) and one goroutine per connection (startConn)
	var goSites []string
	for _, f := range files {
		for _, d := range f.Decls {
			fd, ok := d.(*ast.FuncDecl)
			if !ok || fd.Body == nil {
				continue
			}
			name := fd.Name.Name
			if fd.Recv != nil && len(fd.Recv.List) > 0 {
				typ, _ := recvType(fd)
				name = typ + "." + name
			}
			ast.Inspect(fd.Body, func(n ast.Node) bool {
				if _, ok := n.(*ast.GoStmt); ok {
					goSites = append(goSites, name)
				}
				return true
			})
		}
	}
	sort.Strings(goSites)
	facts["goroutinesOnlyFromStartAndStartConn"] = strings.Join(goSites, ",") == "Server.Start,Server.Start,Server.startConn"
	sort.Strings(commands)
	var sb strings.Builder
	sb.WriteString("/-! GENERATED by harness/cmd/extract from /repo's source on every check run. Do not edit. -/\n")
	sb.WriteString("namespace GoRedis.Generated\n\n")
	sb.WriteString("structure Access where\n  struct_ : String\n  field : String\n  func_ : String\n  write : Bool\n  held : String\nderiving Repr, DecidableEq\n\n")
	sb.WriteString("def accessTable : List Access := [\n")
	for i, a := range table {
		sep := ","
		if i == len(table)-1 {
			sep = ""
		}
		fmt.Fprintf(&sb, "  ⟨%q, %q, %q, %v, %q⟩%s\n", a.typ, a.field, a.fn, a.write, a.held, sep)
	}
	sb.WriteString("]\n\n")
	sb.WriteString("def registeredCommands : List String := [" + quoteJoin(commands) + "]\n\n")
	sort.Slice(shapes, func(i, j int) bool { return shapes[i].name < shapes[j].name })
	sb.WriteString("/-- per registered command: the kinds of argument readers its executor calls, in source order (S string, I int,\nF float, L string list, P pairs, ...), and the handler operations it reaches -/\n")
	sb.WriteString("def executorShapes : List (String × List String) := [\n")
	for i, sh := range shapes {
		sep := ","
		if i == len(shapes)-1 {
			sep = ""
		}
		fmt.Fprintf(&sb, "  (%q, [%s])%s\n", sh.name, quoteJoin(sh.calls), sep)
	}
	sb.WriteString("]\n\n")
	var tb []string
	for k, v := range typeBytes {
		tb = append(tb, fmt.Sprintf("(%q, %q)", k, strings.Trim(v, "'")))
	}
	sort.Strings(tb)
	sb.WriteString("def typeBytes : List (String × String) := [" + strings.Join(tb, ", ") + "]\n\n")
	var fk []string
	for k := range facts {
		fk = append(fk, k)
	}
	sort.Strings(fk)
	var fl []string
	for _, k := range fk {
		fl = append(fl, fmt.Sprintf("(%q, %v)", k, facts[k]))
	}
	sb.WriteString("def facts : List (String × Bool) := [" + strings.Join(fl, ", ") + "]\n\n")
	sb.WriteString("def stopOrder : List String := [" + quoteJoin(stopOrder) + "]\n\n")
	// the algorithms of the bundled example store that Model/ExStore transcribes: a fingerprint (FNV-1a of the body as
	// go/printer prints it without comments, whitespace collapsed) per function
	sb.WriteString("/-- fingerprints of the example store's container algorithms (examples/go-redisd/server/{list,set,zset}.go):\n")
	sb.WriteString("function, FNV-1a 64 of its body printed without comments and with whitespace collapsed -/\n")
	sb.WriteString("def exStoreFingerprints : List (String × Nat) := [" + strings.Join(exStoreFingerprints(repo), ", ") + "]\n\n")
	sb.WriteString("/-- fingerprints of the connection loop, the lifecycle functions and the glob translation (redis/server.go, server_handler.go, glob/glob.go) -/\n")
	sb.WriteString("def serverFingerprints : List (String × Nat) := [" + strings.Join(append(fingerprints(repo, "redis", []string{"server.go", "server_handler.go"}, map[string]bool{
		"Server.serveConn": true, "Server.dispatch": true, "Server.handleMessage": true, "Server.handleArrayMessage": true, "Server.responseMessage": true,
		"Server.receive": true, "Server.executeCommand": true, "upperASCII": true,
		"Server.Start": true, "Server.Stop": true, "Server.Restart": true, "Server.open": true, "Server.close": true, "Server.serve": true, "Server.tlsServe": true, "Server.startConn": true}),
		fingerprints(repo, "redis/glob", []string{"glob.go"}, map[string]bool{"regexpFromGlob": true, "Compile": true})...), ", ") + "]\n\n")
	sb.WriteString("/-- fingerprints of the parser and serializer functions of redis/proto that the model transcribes -/\n")
	sb.WriteString("def protoFingerprints : List (String × Nat) := [" + strings.Join(append(protoFingerprints(repo), executorFingerprints(repo, "redis/core_commander.go", []string{"ZREVRANGE", "ZREVRANGEBYSCORE"})...), ", ") + "]\n\n")
	sb.WriteString("end GoRedis.Generated\n")
	old, _ := os.ReadFile(out)
	if string(old) != sb.String() {
		if err := os.WriteFile(out, []byte(sb.String()), 0o644); err != nil {
			fmt.Fprintln(os.Stderr, err)
			os.Exit(1)
		}
	}
	// the translated fragments (translate.go): Generated/Translated.lean next to the facts
	trText, trOK := translateUnits(repo)
	trOut := filepath.Join(filepath.Dir(out), "Translated.lean")
	if oldT, _ := os.ReadFile(trOut); string(oldT) != trText {
		if err := os.WriteFile(trOut, []byte(trText), 0o644); err != nil {
			fmt.Fprintln(os.Stderr, err)
			os.Exit(1)
		}
	}
	fmt.Printf("extract: %d access sites, %d commands, %d facts, %d/%d fragments translated\n", len(table), len(commands), len(facts), trOK, len(units))
}

// reentrantLocking finds methods that, while holding a mutex field of their receiver, call a method of the same
// receiver that acquires the same mutex again (directly or through further same-receiver calls). With sync.Mutex that
// is a self-deadlock at once; with sync.RWMutex read locks it deadlocks as soon as a writer arrives in between.
func reentrantLocking(files []*ast.File) []string {
	type acq struct {
		mu  string
		pos token.Pos
	}
	type call struct {
		name string
		pos  token.Pos
	}
	type info struct {
		acqs    []acq
		unlocks map[string][]token.Pos // explicit (not deferred) unlocks
		calls   []call
	}
	methods := map[string]*info{}
	isLock := func(n string) bool { return n == "Lock" || n == "RLock" }
	isUnlock := func(n string) bool { return n == "Unlock" || n == "RUnlock" }
	for _, f := range files {
		for _, d := range f.Decls {
			fd, ok := d.(*ast.FuncDecl)
			if !ok || fd.Body == nil || fd.Recv == nil || len(fd.Recv.List) == 0 || len(fd.Recv.List[0].Names) == 0 {
				continue
			}
			typ, recv := recvType(fd)
			in := &info{unlocks: map[string][]token.Pos{}}
			methods[typ+"."+fd.Name.Name] = in
			deferred := map[ast.Node]bool{}
			ast.Inspect(fd.Body, func(n ast.Node) bool {
				if ds, ok := n.(*ast.DeferStmt); ok {
					deferred[ds.Call] = true
				}
				ce, ok := n.(*ast.CallExpr)
				if !ok {
					return true
				}
				se, ok := ce.Fun.(*ast.SelectorExpr)
				if !ok {
					return true
				}
				// recv.mu.Lock()
				if inner, ok := se.X.(*ast.SelectorExpr); ok {
					if id, ok := inner.X.(*ast.Ident); ok && id.Name == recv {
						switch {
						case isLock(se.Sel.Name):
							in.acqs = append(in.acqs, acq{inner.Sel.Name, ce.Pos()})
						case isUnlock(se.Sel.Name) && !deferred[ce]:
							in.unlocks[inner.Sel.Name] = append(in.unlocks[inner.Sel.Name], ce.Pos())
						}
					}
				}
				// recv.Method(...)
				if id, ok := se.X.(*ast.Ident); ok && id.Name == recv {
					in.calls = append(in.calls, call{se.Sel.Name, ce.Pos()})
				}
				return true
			})
		}
	}
	// which mutexes a method acquires, transitively through same-receiver calls
	var acquires func(key string, seen map[string]bool) map[string]bool
	acquires = func(key string, seen map[string]bool) map[string]bool {
		out := map[string]bool{}
		in := methods[key]
		if in == nil || seen[key] {
			return out
		}
		seen[key] = true
		for _, a := range in.acqs {
			out[a.mu] = true
		}
		typ := key[:strings.IndexByte(key, '.')]
		for _, c := range in.calls {
			for m := range acquires(typ+"."+c.name, seen) {
				out[m] = true
			}
		}
		return out
	}
	var bad []string
	for key, in := range methods {
		typ := key[:strings.IndexByte(key, '.')]
		for _, a := range in.acqs {
			// held from the acquisition to the first explicit unlock behind it (to the end when the unlock is deferred)
			end := token.Pos(1 << 60)
			for _, u := range in.unlocks[a.mu] {
				if u > a.pos && u < end {
					end = u
				}
			}
			for _, c := range in.calls {
				if c.pos > a.pos && c.pos < end && acquires(typ+"."+c.name, map[string]bool{})[a.mu] {
					bad = append(bad, key+" holds "+a.mu+" and calls "+c.name)
				}
			}
		}
	}
	sort.Strings(bad)
	return bad
}

// exStoreFingerprints: see the comment at its use.
func exStoreFingerprints(repo string) []string {
	return fingerprints(repo, "examples/go-redisd/server", []string{"list.go", "set.go", "zset.go", "hash.go"}, exStoreWant)
}

// protoFingerprints: the parser and the serializer of redis/proto, which Model/ParserImpl, Model/Reader and Model/Resp
// transcribe function by function.
func protoFingerprints(repo string) []string {
	return fingerprints(repo, "redis/proto", []string{"parser.go", "message.go", "array.go"}, map[string]bool{
		"Parser.nextLineBytes": true, "Parser.nextLengthBytes": true, "Parser.nextBulkMessage": true, "Parser.nextArrayMessage": true, "Parser.Next": true,
		"newArrayWithParser": true, "Message.RESPBytes": true, "Array.RESPBytes": true, "Array.ReverseBy": true})
}

var exStoreWant = map[string]bool{"List.LPop": true, "List.RPop": true, "List.LPush": true, "List.RPush": true, "List.Range": true, "clampRange": true, "List.Index": true,
		"Set.Add": true, "Set.Rem": true, "ZSet.Add": true, "ZSet.Rem": true, "ZSet.Range": true, "ZSet.RangeByScore": true, "limitZSetMembers": true,
		"reverseZSetMembers": true, "ZSet.Score": true, "ZSet.IncBy": true, "Hash.Set": true, "Hash.Del": true}

// executorFingerprints: the closures registered for the given commands (RegisterExexutor("NAME", func...)), printed and
// hashed like the functions above.
func executorFingerprints(repo string, file string, cmds []string) []string {
	fset := token.NewFileSet()
	f, err := parser.ParseFile(fset, filepath.Join(repo, file), nil, 0)
	if err != nil {
		fmt.Fprintln(os.Stderr, "extract: cannot parse", file, err)
		os.Exit(1)
	}
	var out []string
	for _, cmd := range cmds {
		ast.Inspect(f, func(n ast.Node) bool {
			c, ok := n.(*ast.CallExpr)
			if !ok || len(c.Args) != 2 {
				return true
			}
			if sel, ok := c.Fun.(*ast.SelectorExpr); !ok || sel.Sel.Name != "RegisterExexutor" {
				return true
			}
			l, ok := c.Args[0].(*ast.BasicLit)
			fl, ok2 := c.Args[1].(*ast.FuncLit)
			if !ok || !ok2 || l.Value != fmt.Sprintf("%q", cmd) {
				return true
			}
			var buf strings.Builder
			printer.Fprint(&buf, fset, fl.Body)
			text := strings.Join(strings.Fields(buf.String()), " ")
			h := uint64(14695981039346656037)
			for i := 0; i < len(text); i++ {
				h = (h ^ uint64(text[i])) * 1099511628211
			}
			out = append(out, fmt.Sprintf("(%q, %d)", "executor "+cmd, h))
			return true
		})
	}
	sort.Strings(out)
	return out
}

func fingerprints(repo string, dir string, bases []string, want map[string]bool) []string {
	var out []string
	for _, base := range bases {
		fset := token.NewFileSet()
		f, err := parser.ParseFile(fset, filepath.Join(repo, dir, base), nil, 0)
		if err != nil {
			fmt.Fprintln(os.Stderr, "extract: cannot parse", base, err)
			os.Exit(1)
		}
		for _, d := range f.Decls {
			fd, ok := d.(*ast.FuncDecl)
			if !ok || fd.Body == nil {
				continue
			}
			name := fd.Name.Name
			if r, _ := recvType(fd); r != "" {
				name = r + "." + name
			}
			if !want[name] {
				continue
			}
			var buf strings.Builder
			printer.Fprint(&buf, fset, fd.Type)
			buf.WriteString(" ")
			printer.Fprint(&buf, fset, fd.Body)
			text := strings.Join(strings.Fields(buf.String()), " ")
			h := uint64(14695981039346656037)
			for i := 0; i < len(text); i++ {
				h = (h ^ uint64(text[i])) * 1099511628211
			}
			out = append(out, fmt.Sprintf("(%q, %d)", name, h))
		}
	}
	sort.Strings(out)
	return out
}

func quoteJoin(ss []string) string {
	q := make([]string, len(ss))
	for i, s := range ss {
		q[i] = fmt.Sprintf("%q", s)
	}
	return strings.Join(q, ", ")
}

var srcCache = map[string][]byte{}

func nodeString(fset *token.FileSet, names []string, n ast.Node) string {
	p := fset.Position(n.Pos())
	e := fset.Position(n.End())
	b, ok := srcCache[p.Filename]
	if !ok {
		b, _ = os.ReadFile(p.Filename)
		srcCache[p.Filename] = b
	}
	if p.Offset < 0 || e.Offset > len(b) {
		return ""
	}
	return string(b[p.Offset:e.Offset])
}
