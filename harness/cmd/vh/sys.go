package main

import (
	"crypto/tls"
	"fmt"
	"io"
	"net"
	"strconv"
	"strings"
	"sync"
	"time"

	"github.com/cybergarage/go-redis/redis"
	"github.com/cybergarage/go-redis/redis/auth"
)

// Several connections served by one real server through the hook, with their requests released one at a
// time in a scripted global order (C08, C13).

type chanConn struct {
	id      int
	in      chan []byte
	buf     []byte
	idle    chan int
	sys     *sysRun
	closed  bool
	eofSeen bool
}

func (c *chanConn) Read(b []byte) (int, error) {
	for len(c.buf) == 0 {
		// nothing buffered: tell the controller this connection waits for input
		c.idle <- c.id
		seg, ok := <-c.in
		if !ok {
			c.eofSeen = true
			return 0, io.EOF
		}
		c.buf = seg
	}
	n := copy(b, c.buf)
	c.buf = c.buf[n:]
	return n, nil
}
func (c *chanConn) Write(b []byte) (int, error) {
	c.sys.add(c.id, "wr:"+canonReply(b))
	return len(b), nil
}
func (c *chanConn) Close() error {
	if !c.closed {
		c.closed = true
		if !c.eofSeen {
			c.sys.add(c.id, "close")
		}
	}
	return nil
}
func (c *chanConn) LocalAddr() net.Addr                { return memAddr{} }
func (c *chanConn) RemoteAddr() net.Addr               { return memAddr{} }
func (c *chanConn) SetDeadline(t time.Time) error      { return nil }
func (c *chanConn) SetReadDeadline(t time.Time) error  { return nil }
func (c *chanConn) SetWriteDeadline(t time.Time) error { return nil }

type sysRun struct {
	mu     sync.Mutex
	evs    []string
	active int
	script []scriptedResult
}

func (s *sysRun) add(id int, ev string) {
	s.mu.Lock()
	s.evs = append(s.evs, fmt.Sprintf("c%d:%s", id, ev))
	s.mu.Unlock()
}

// sysDouble wraps the recording double: it tags calls with the connection that is being served and probes the
// per-connection user data.
type sysDouble struct {
	double
	sys *sysRun
}

type sysLog struct{ sys *sysRun }

func runSys(toks []string) (string, string) {
	secs := splitSections(toks[1:])
	nconn := 1
	var pw *string
	var tlsState *tls.ConnectionState
	authMsg := false
	for _, t := range secs[0] {
		switch {
		case strings.HasPrefix(t, "n="):
			nconn, _ = strconv.Atoi(t[2:])
		case strings.HasPrefix(t, "pw="):
			s := string(unhx(t[3:]))
			pw = &s
		case t == "authmsg":
			// the application installs its own AUTH handler: it decides like the built-in one but reports a refusal as an
			// error *message* with a nil Go error (both forms of reporting a failure are in use in the library)
			authMsg = true
		case t == "tls":
			// the connections are served the way connections of the TLS port are, after a completed handshake
			tlsState = &tls.ConnectionState{HandshakeComplete: true}
		}
	}
	sys := &sysRun{}
	if len(secs) > 1 {
		sys.script = parseScript(secs[1])
	}
	var sched []struct {
		id  int
		req []byte
	}
	if len(secs) > 3 {
		for i := 0; i+1 < len(secs[3]); i += 2 {
			id, _ := strconv.Atoi(secs[3][i])
			sched = append(sched, struct {
				id  int
				req []byte
			}{id, unhx(secs[3][i+1])})
		}
	}
	srv := redis.NewServer()
	h := &probeHandler{sys: sys}
	h.d = &double{log: &eventLog{}, script: sys.script}
	srv.SetCommandHandler(h)
	if pw != nil {
		srv.SetRequirePass(*pw)
		// as Server.Start does it: the authenticator is built from the password read back from the configuration
		if cfgPw, ok := srv.ConfigRequirePass(); ok {
			srv.AddAuthenticator(auth.NewClearTextPasswordAuthenticatorWith("", cfgPw))
		}
	}
	if authMsg {
		srv.SetAuthCommandHandler(&msgAuthHandler{srv: srv})
	}
	idle := make(chan int, nconn*4)
	conns := make([]*chanConn, nconn)
	done := make([]chan struct{}, nconn)
	ended := make([]bool, nconn)
	panicked := ""
	for i := 0; i < nconn; i++ {
		conns[i] = &chanConn{id: i, in: make(chan []byte), idle: idle, sys: sys}
		done[i] = make(chan struct{})
		go func(i int) {
			defer close(done[i])
			defer func() {
				if r := recover(); r != nil {
					panicked = fmt.Sprint(r)
				}
			}()
			srv.VerifServeConn(conns[i], tlsState)
		}(i)
	}
	// wait until every connection waits for its first request
	waiting := map[int]bool{}
	waitIdle := func(id int) bool {
		deadline := time.After(10 * time.Second)
		for !waiting[id] {
			select {
			case j := <-idle:
				waiting[j] = true
			case <-done[id]:
				ended[id] = true
				return false
			case <-deadline:
				return false
			}
		}
		return true
	}
	for i := 0; i < nconn; i++ {
		waitIdle(i)
	}
	hung := false
	for _, st := range sched {
		if st.id >= nconn || ended[st.id] {
			continue
		}
		sys.mu.Lock()
		sys.active = st.id
		sys.mu.Unlock()
		waiting[st.id] = false
		conns[st.id].in <- st.req
		if !waitIdle(st.id) && !ended[st.id] {
			hung = true
			break
		}
	}
	if hung {
		return "spin", "fail:a connection did not return to waiting for input"
	}
	for i := 0; i < nconn; i++ {
		if !ended[i] {
			close(conns[i].in)
			<-done[i]
		}
	}
	// handler call events carry their own tags; merge the double's log in order (it was appended under the lock)
	obs := strings.Join(sys.evs, " ")
	oracle := "ok"
	if panicked != "" {
		oracle = "fail:panic escaped the connection loop: " + trunc(panicked, 80)
	}
	if len(srv.Conns()) != 0 {
		oracle = "fail:connections still registered after all streams ended"
	}
	return obs, oracle
}

// probeHandler forwards to the recording double but logs into the system-wide, tagged event list and checks
// that the connection-scoped user data it stored on a connection is that connection's own.
type probeHandler struct {
	sys *sysRun
	d   *double
}

// msgAuthHandler decides like Server.Auth and reports a refusal as an error message instead of a Go error.
type msgAuthHandler struct{ srv *redis.Server }

func (h *msgAuthHandler) Auth(conn *redis.Conn, username string, password string) (*redis.Message, error) {
	msg, err := h.srv.Auth(conn, username, password)
	if err != nil {
		return redis.NewErrorMessage(err), nil
	}
	return msg, nil
}
