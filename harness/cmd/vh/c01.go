package main

import (
	"bytes"
	"fmt"
	"math"
	"strconv"
	"strings"

	"github.com/cybergarage/go-redis/redis"
	"github.com/cybergarage/go-redis/redis/proto"
)

func init() {
	properties["C01"] = &Property{Gen: genC01, Run: runC01}
}

var boundaryInts = []int64{0, 1, -1, 9, 10, 99, 100, 1<<31 - 1, 1 << 31, -(1 << 31), -(1 << 31) - 1, 1<<63 - 1, -(1 << 63), 1<<63 - 2, 10000000000000}

var boundaryFloats = []float64{0, math.Copysign(0, -1), 1, -1, 0.1, 1.5, math.SmallestNonzeroFloat64, math.MaxFloat64, -math.MaxFloat64,
	1e21, 1e20, 1e-7, 1e-6, 123456789.125, 2.2250738585072014e-308, 4.9406564584124654e-324, 1e308, 3.141592653589793,
	// the integer / float borders: where an integral float stops fitting an int32 / int64 / uint64, where floats stop
	// being able to hold every integer, where formatting switches to the exponent form
	2147483647, 2147483648, -2147483648, -2147483649, 4294967295, 4294967296,
	9007199254740991, 9007199254740992, 9007199254740994, -9007199254740992,
	9223372036854774784, 9223372036854775808, 9223372036854777856, -9223372036854775808, -9223372036854777856,
	18446744073709549568, 18446744073709551616, 999999, 1e6, 1000001, 1e15, 1e16, 1e17, 123456789012345680, 1e20 + 16384, 1e21 - 131072,
	-1e6, -1e21, 0.000001, 0.0000009999999999999999, 100, 1e2, 1e5, 99999.99999999999, 0.5, 0.25, 1.0 / 3.0}

func genC01(tier string, seed uint64, emit func(string)) {
	r := NewRng(seed)
	// bounded-exhaustive part: all trees with <= 3 nodes, payload words of length <= 2 over {a, CR, LF, $}
	maxLen := 2
	if tier == "quick" {
		maxLen = 1
	}
	for _, t := range enumSmallTrees(3, maxLen) {
		emit("rt " + t.String())
	}
	n := 6000
	if tier == "thorough" {
		n = 300000
	}
	for i := 0; i < n; i++ {
		lineSafe := !r.Chance(1, 10)
		big := r.Chance(1, 50)
		t := genTree(r, 1+r.Intn(6), 40, lineSafe, big)
		emit("rt " + t.String())
	}
	// sizes around the buffer and table sizes an implementation may use internally: wide arrays (element counts
	// around 256, 1024, 4096, 65536) and large bulk payloads, also nested one level down
	widths := []int{255, 256, 257, 1023, 1024, 1025, 4095, 4096, 4097}
	paySizes := []int{511, 512, 513, 4094, 4095, 4096, 4097, 8192, 65535, 65536, 65537}
	if tier == "thorough" {
		widths = append(widths, 65536)
		paySizes = append(paySizes, 1<<20)
	}
	for _, w := range widths {
		wide := &Node{Kind: 'a'}
		for i := 0; i < w; i++ {
			switch i % 3 {
			case 0:
				wide.Es = append(wide.Es, &Node{Kind: 'b', P: []byte(strconv.Itoa(i))})
			case 1:
				wide.Es = append(wide.Es, &Node{Kind: 'i', P: []byte(strconv.Itoa(i))})
			default:
				wide.Es = append(wide.Es, &Node{Kind: 's', P: []byte("x")})
			}
		}
		emit("rt " + wide.String())
		emit("rt " + (&Node{Kind: 'a', Es: []*Node{{Kind: 'b', P: []byte("k")}, wide, {Kind: 's', P: []byte("OK")}}}).String())
	}
	for _, sz := range paySizes {
		p := bytes.Repeat([]byte{0xa5}, sz)
		emit("rt " + (&Node{Kind: 'b', P: p}).String())
		emit("rt " + (&Node{Kind: 'a', Es: []*Node{{Kind: 'b', P: p}, {Kind: 'i', P: []byte("7")}}}).String())
	}
	// long line payloads (status / error / integer lines are not limited in length; sizes around the line and read
	// buffer sizes an implementation may use), alone and followed by further values
	for _, sz := range paySizes {
		p := bytes.Repeat([]byte{'q'}, sz)
		p[sz/2] = 0xc3
		p[sz-1] = '$'
		for _, k := range []byte{'s', 'e'} {
			emit("rt " + (&Node{Kind: k, P: p}).String())
			emit("rt " + (&Node{Kind: 'a', Es: []*Node{{Kind: k, P: p}, {Kind: 'i', P: []byte("7")}, {Kind: 'b', P: []byte("z")}}}).String())
		}
		d := bytes.Repeat([]byte{'7'}, sz)
		emit("rt " + (&Node{Kind: 'a', Es: []*Node{{Kind: 'i', P: d}, {Kind: 's', P: []byte("OK")}}}).String())
	}
	// the length prefix for every payload length: a complete sweep of the small lengths and windows around every
	// power of ten, power of two and multiple of 1000 / 4096 (digit-count and buffer-size borders)
	{
		full, top := 4200, 1<<20
		if tier == "thorough" {
			full, top = 20000, 1<<24
		}
		for lo := 0; lo < full; lo += 300 {
			emit(fmt.Sprintf("enclen %d %d", lo, min(lo+300, full)))
		}
		seen := map[int]bool{}
		var centers []int
		for v := 1; v <= top+1000000; v *= 10 {
			centers = append(centers, v, 2*v, 5*v)
		}
		for v := 4096; v <= top; v *= 2 {
			centers = append(centers, v)
		}
		for k := 5; k <= 100; k++ {
			centers = append(centers, k*1000)
		}
		for _, c := range centers {
			if c-3 < full || c > top+1000000 || seen[c] {
				continue
			}
			seen[c] = true
			emit(fmt.Sprintf("enclen %d %d", c-3, c+4))
		}
	}
	// constructors
	for _, v := range boundaryInts {
		emit("ctor int " + strconv.FormatInt(v, 10))
	}
	for _, f := range boundaryFloats {
		emit(fmt.Sprintf("ctor float %016x %s", math.Float64bits(f), hx([]byte(strconv.FormatFloat(f, 'g', -1, 64)))))
	}
	m := 400
	if tier == "thorough" {
		m = 20000
	}
	for i := 0; i < m; i++ {
		switch r.Intn(7) {
		case 0:
			v := int64(r.U64())
			if r.Bool() {
				v >>= uint(r.Intn(64))
			}
			emit("ctor int " + strconv.FormatInt(v, 10))
		case 1:
			bits := r.U64()
			f := math.Float64frombits(bits)
			if math.IsNaN(f) || math.IsInf(f, 0) {
				f = float64(r.Intn(1000)) / 8
			}
			emit(fmt.Sprintf("ctor float %016x %s", math.Float64bits(f), hx([]byte(strconv.FormatFloat(f, 'g', -1, 64)))))
		case 2:
			emit("ctor status " + hx(genPayload(r, true, false)))
		case 3:
			emit("ctor error " + hx(genPayload(r, true, false)))
		case 4:
			emit("ctor bulk " + hx(genPayload(r, false, r.Chance(1, 20))))
		case 5:
			k := r.Intn(5)
			s := "ctor strs"
			for j := 0; j < k; j++ {
				s += " " + hx(genPayload(r, false, false))
			}
			emit(s)
		case 6:
			if r.Bool() {
				emit("ctor nil")
			} else {
				emit("ctor ok")
			}
		}
	}
}

func safeRESP(m *proto.Message) (b []byte, panicked bool) {
	defer func() {
		if r := recover(); r != nil {
			panicked = true
		}
	}()
	b, err := m.RESPBytes()
	if err != nil {
		return nil, true
	}
	return b, false
}

// parseOne parses one value from b with the real parser and reports the canonical outcome.
func parseOne(b []byte) (obs string, node *Node, consumed int) {
	rd := bytes.NewReader(b)
	var msg *proto.Message
	var err error
	panicked := ""
	func() {
		defer func() {
			if r := recover(); r != nil {
				panicked = fmt.Sprint(r)
			}
		}()
		msg, err = proto.NewParserWithReader(rd).Next()
	}()
	switch {
	case panicked != "":
		return "panic", nil, 0
	case err != nil:
		return "err", nil, 0
	case msg == nil:
		return "eof", nil, 0
	}
	node = fromMessage(msg)
	consumed = len(b) - rd.Len()
	return fmt.Sprintf("ok %s consumed=%d", node.String(), consumed), node, consumed
}

func treeTags(t *Node) []string {
	tags := []string{fmt.Sprintf("depth%d", min(t.depth(), 4)), fmt.Sprintf("size%s", bucket(t.size()))}
	if !t.lineSafe() {
		tags = append(tags, "crlf-in-line")
	}
	pb := t.payloadBytes()
	tags = append(tags, "payload"+bucket(pb))
	return tags
}

func bucket(n int) string {
	switch {
	case n == 0:
		return "0"
	case n <= 2:
		return "1-2"
	case n <= 10:
		return "3-10"
	case n <= 100:
		return "11-100"
	case n <= 4096:
		return "101-4k"
	}
	return ">4k"
}

// enclenPayload: the payload of length n used by the enclen sweep (deterministic, every byte value occurs).
func enclenPayload(n int) []byte {
	p := make([]byte, n)
	for i := range p {
		p[i] = byte(i*7 + n)
	}
	return p
}

func fnvAdd(h uint64, b []byte) uint64 {
	for _, c := range b {
		h = (h ^ uint64(c)) * 1099511628211
	}
	return h
}

// enclenDigest folds what matters of one serialization (its first 24 bytes, its length, its last two bytes) into h.
func enclenDigest(h uint64, b []byte) uint64 {
	head := b
	if len(head) > 24 {
		head = head[:24]
	}
	h = fnvAdd(h, head)
	h = fnvAdd(h, []byte(strconv.Itoa(len(b))))
	if len(b) >= 2 {
		h = fnvAdd(h, b[len(b)-2:])
	}
	return h
}

// runEnclen: "enclen <lo> <hi>": a bulk string of every length lo <= n < hi is serialized by the real serializer, alone
// and as an array element; the length prefix must equal the payload length, the payload must follow byte for byte,
// and the bytes must parse back to the same value.  The observable is a digest of all the serializations.
func runEnclen(toks []string) Result {
	lo, _ := strconv.Atoi(toks[1])
	hi, _ := strconv.Atoi(toks[2])
	h := uint64(14695981039346656037)
	tags := []string{"nt", "enclen"}
	for n := lo; n < hi; n++ {
		p := enclenPayload(n)
		b, pan := safeRESP(redis.NewBulkMessage(string(p)))
		if pan {
			return Result{Obs: fmt.Sprintf("panic@%d", n), Oracle: fmt.Sprintf("fail:serializing a bulk string of %d bytes failed", n), Tags: tags}
		}
		want := append(append([]byte("$"+strconv.Itoa(n)+"\r\n"), p...), '\r', '\n')
		if !bytes.Equal(b, want) {
			return Result{Obs: fmt.Sprintf("bad@%d", n), Oracle: fmt.Sprintf("fail:a bulk string of %d bytes is serialized with header %q and %d bytes in all", n, firstLine(b), len(b)), Tags: tags}
		}
		arr := proto.NewArray()
		arr.Append(redis.NewBulkMessage(string(p)))
		arr.Append(redis.NewIntegerMessage(7))
		ab, pan := safeRESP(redis.NewArrayMessageWithArray(arr))
		wantA := append(append([]byte("*2\r\n"), want...), []byte(":7\r\n")...)
		if pan || !bytes.Equal(ab, wantA) {
			return Result{Obs: fmt.Sprintf("bad@%d", n), Oracle: fmt.Sprintf("fail:a bulk string of %d bytes inside an array is serialized as %q... (%d bytes in all)", n, firstLine(ab[min(4, len(ab)):]), len(ab)), Tags: tags}
		}
		if n < 70000 || n%4 == 0 {
			if obs, node, used := parseOne(b); node == nil || used != len(b) || !node.equal(&Node{Kind: 'b', P: p}) {
				return Result{Obs: fmt.Sprintf("bad@%d", n), Oracle: fmt.Sprintf("fail:the serialization of a bulk string of %d bytes does not parse back (%s)", n, obs), Tags: tags}
			}
		}
		h = enclenDigest(enclenDigest(h, b), ab)
	}
	return Result{Obs: fmt.Sprintf("digest=%016x", h), Oracle: "ok", Tags: tags}
}

func firstLine(b []byte) string {
	if i := bytes.Index(b, []byte("\r\n")); i >= 0 && i < 40 {
		return string(b[:i])
	}
	if len(b) > 40 {
		b = b[:40]
	}
	return string(b)
}

func runC01(toks []string) Result {
	switch toks[0] {
	case "enclen":
		return runEnclen(toks)
	case "rt":
		t, _ := parseNode(toks[1:])
		msg := t.toMessage()
		b, p := safeRESP(msg)
		if p {
			return Result{Obs: "panic", Oracle: "na"}
		}
		// parse the serialization followed by a sentinel value: what follows must be left untouched
		sobs, vals, _ := streamOutcome([][]byte{append(append([]byte{}, b...), ":7\r\n"...)}, 4)
		var back *Node
		if len(vals) > 0 {
			back = vals[0]
		}
		sentinelOK := len(vals) == 2 && vals[1].equal(&Node{Kind: 'i', P: []byte("7")})
		re := "none"
		var reb []byte
		if back != nil {
			var p2 bool
			reb, p2 = safeRESP(back.toMessage())
			if p2 {
				re = "panic"
			} else {
				re = hx(reb)
			}
		}
		obs := fmt.Sprintf("enc=%s back=%s reenc=%s", hx(b), sobs, re)
		oracle := "na"
		tags := treeTags(t)
		// the same value built step by step and serialized after (a sample of) the steps: serializing a value
		// serializes what it holds now, whatever was serialized before
		incDiffers := false
		if t.noAbsent() {
			func() {
				defer func() {
					if recover() != nil {
						incDiffers = true
					}
				}()
				steps, every := 0, 1
				if sz := t.size(); sz > 300 {
					every = sz / 7
				}
				root := t.buildIncremental(func(root *proto.Message) {
					steps++
					if steps%every == 0 {
						safeRESP(root)
					}
				})
				ib, ip := safeRESP(root)
				incDiffers = ip || !bytes.Equal(ib, b)
			}()
		}
		if t.lineSafe() {
			var want []byte
			t.refEnc(&want)
			switch {
			case !bytes.Equal(b, want):
				oracle = "fail:serialization differs from RESP2 reference encoding"
			case back == nil:
				oracle = "fail:own serialization does not parse back (" + sobs + ")"
			case !back.equal(t):
				oracle = "fail:decoded value differs from the encoded one"
			case !sentinelOK:
				oracle = "fail:the value following the serialization was not left intact (" + sobs + ")"
			case !bytes.Equal(reb, b):
				oracle = "fail:re-serialization differs from input bytes"
			case incDiffers:
				oracle = "fail:the value built step by step (serialized after the steps) serializes differently in the end"
			case arenaDiffers(t, b):
				oracle = "fail:the value built over windows of one caller-owned buffer serializes differently, or serializing it wrote to that buffer"
			default:
				oracle = "ok"
			}
			if t.size() > 1 || t.payloadBytes() > 0 {
				tags = append(tags, "nt")
			}
		}
		return Result{Obs: obs, Oracle: oracle, Tags: tags}
	case "ctor":
		return runCtor(toks[1:])
	}
	return Result{Obs: "bad-op", Oracle: "fail:bad-op"}
}

func runCtor(toks []string) Result {
	var msg *proto.Message
	oracle := "ok"
	tags := []string{"ctor-" + toks[0], "nt"}
	check := func(cond bool, why string) {
		if !cond && oracle == "ok" {
			oracle = "fail:" + why
		}
	}
	decode := func(b []byte) *proto.Message {
		m, err := proto.NewParserWithBytes(b).Next()
		if err != nil || m == nil {
			check(false, "constructor output does not parse")
			return nil
		}
		return m
	}
	switch toks[0] {
	case "int":
		v, _ := strconv.ParseInt(toks[1], 10, 64)
		msg = redis.NewIntegerMessage(int(v))
		b, _ := safeRESP(msg)
		back := "parse-fail"
		if m := decode(b); m != nil {
			got, err := m.Integer()
			if err != nil {
				back = "atoi-fail"
			} else {
				back = strconv.Itoa(got)
			}
			check(err == nil && int64(got) == v && m.IsInteger(), "integer does not decode back")
		}
		return Result{Obs: fmt.Sprintf("enc=%s back=%s", hx(b), back), Oracle: oracle, Tags: tags}
	case "float":
		bits, _ := strconv.ParseUint(toks[1], 16, 64)
		f := math.Float64frombits(bits)
		msg = redis.NewFloatMessage(f)
		b, _ := safeRESP(msg)
		if m := decode(b); m != nil {
			s, err := m.String()
			got, perr := strconv.ParseFloat(s, 64)
			check(err == nil && perr == nil && math.Float64bits(got) == bits, "float does not decode back: "+s)
			check(!strings.ContainsAny(s, "\r\n"), "float text contains CR/LF")
		}
		// the formatted text is an external (strconv) value: the model is given it as a parameter, so the
		// observable is whether the framing around it is the model's
		fmtd := strconv.FormatFloat(f, 'g', -1, 64)
		var want []byte
		(&Node{Kind: 'b', P: []byte(fmtd)}).refEnc(&want)
		check(bytes.Equal(b, want), "float message is not the bulk of its shortest formatting")
		return Result{Obs: "enc=" + hx(b) + " fmt=" + hx([]byte(fmtd)), Oracle: oracle, Tags: tags}
	case "status", "error", "bulk":
		p := unhx(toks[1])
		kind := map[string]byte{"status": 's', "error": 'e', "bulk": 'b'}[toks[0]]
		switch toks[0] {
		case "status":
			msg = redis.NewStringMessage(string(p))
		case "error":
			msg = redis.NewErrorMessage(fmt.Errorf("%s", string(p)))
		case "bulk":
			msg = redis.NewBulkMessage(string(p))
		}
		b, _ := safeRESP(msg)
		if m := decode(b); m != nil {
			check(fromMessage(m).equal(&Node{Kind: kind, P: p}), "constructor value does not decode back")
		}
		return Result{Obs: "enc=" + hx(b), Oracle: oracle, Tags: tags}
	case "nil", "ok":
		want := &Node{Kind: 'n'}
		if toks[0] == "nil" {
			msg = redis.NewNilMessage()
		} else {
			msg = redis.NewOKMessage()
			want = &Node{Kind: 's', P: []byte("OK")}
		}
		b, _ := safeRESP(msg)
		if m := decode(b); m != nil {
			check(fromMessage(m).equal(want), "constructor value does not decode back")
		}
		return Result{Obs: "enc=" + hx(b), Oracle: oracle, Tags: tags}
	case "strs":
		var strs []string
		want := &Node{Kind: 'a', Es: []*Node{}}
		for _, h := range toks[1:] {
			strs = append(strs, string(unhx(h)))
			want.Es = append(want.Es, &Node{Kind: 'b', P: unhx(h)})
		}
		msg = redis.NewStringArrayMessage(strs)
		b, _ := safeRESP(msg)
		if m := decode(b); m != nil {
			check(fromMessage(m).equal(want), "string array does not decode back")
		}
		return Result{Obs: "enc=" + hx(b), Oracle: oracle, Tags: tags}
	}
	return Result{Obs: "bad-op", Oracle: "fail:bad-op"}
}
