package main

import (
	"fmt"
	"math"
	"strconv"
	"strings"
)

// An independent grammar of the command surface (DESIGN.md Appendix C), written from the Redis command
// reference: it generates well-formed requests together with the handler call the property expects, and
// the ill-formed mutation classes of C10.

// targ is one request element with its grammatical role.
type targ struct {
	b    []byte
	kind byte // 'n' command name, 'S' string, 'I' integer, 'F' float, 'R' range bound, 'o' option keyword, 'L' list element, 'K'/'V' pair key / value
	req  bool // position required by the grammar
}

type treq struct {
	cmd      string
	args     []targ
	expected string // the one handler call a well-formed request must produce ("" = framework-implemented or composite)
}

func (t *treq) argv() [][]byte {
	out := make([][]byte, len(t.args))
	for i, a := range t.args {
		out[i] = a.b
	}
	return out
}

var strPool = []string{"k", "key1", "v", "", "a b", "x\r\ny", "\x00\xff\xfe", "+OK", "*1\r\n", "$-1", "NX", "match", "0", "-1", "1.5", "héllo", "\r\n+OK\r\n"}

var intPool = []string{"0", "1", "-1", "5", "10", "100", "2147483648", "-9223372036854775808", "9223372036854775807", "+7", "007", "-0", "4611686018427387904", "-4611686018427387904", "9223372036854775806"}
var badIntPool = []string{"abc", "1.5", "9223372036854775808", "-9223372036854775809", "", " 1", "1e3", "0x10", "1 ", "--1", "٣", "+-1", "1\x00", "1\n", "\t1", "1,0", "0b1", "0o7", "1_0", "+", "-", "(1", "1L", "18446744073709551617"}
var floatPool = []string{"1", "-0", "0", "1.5", "-2.25", "1e308", "+inf", "-inf", "inf", "3.14159", "0x1p-2", ".5", "1e-7", "100", "9007199254740993", "4.9e-324", "+Inf", "Infinity"}
var badFloatPool = []string{"abc", "", "(", "1.5.2", "--1", "1e", "0x", " 1", "1 ", "1\x00", "1,5", "+", "-", ".", "e5", "1e+", "1f", "(1(", "1(", ")1", "[1", "1)", "in", "+-inf"}

// badRangeOnly: ill-formed only as a range bound (one leading parenthesis is the exclusive marker, not more)
var badRangeOnly = []string{"((1", "(((2.5", "((-inf", "((", "( 1", "(+", "((inf"}

// meaningWords are argument values that mean something somewhere else in the framework: command names, option
// words, the texts of its sentinel errors, the configuration parameters the server reads itself (in several letter
// cases). As plain argument values they are just bytes.
var meaningWords = []string{"QUIT", "quit", "AUTH", "PING", "SELECT", "CONFIG", "GET", "SET", "NX", "XX", "EX", "LIMIT", "MATCH", "COUNT", "WITHSCORES",
	"not supported", "internal system error", "not authrized", "invalid", "EOM", "OK", "PONG",
	"port", "Port", "PORT", "requirepass", "RequirePass", "REQUIREPASS", "tls-port", "Tls-Port", "TLS-PORT", "tls-cert-file", "TLS-Key-File", "tls-ca-cert-file"}

func gS(r *Rng) []byte {
	if r.Chance(1, 12) {
		return r.Bytes(1 + r.Intn(8))
	}
	if r.Chance(1, 14) {
		return []byte(meaningWords[r.Intn(len(meaningWords))])
	}
	if r.Chance(1, 40) {
		return []byte(strings.Repeat("x", 300))
	}
	return []byte(strPool[r.Intn(len(strPool))])
}
func gKey(r *Rng) []byte { return gS(r) }
func gI(r *Rng) []byte {
	if r.Chance(1, 6) {
		return []byte(strconv.FormatInt(int64(r.U64())>>uint(r.Intn(64)), 10))
	}
	return []byte(intPool[r.Intn(len(intPool))])
}
func gSmallI(r *Rng) []byte { return []byte(strconv.Itoa(r.Intn(21) - 10)) }
func gF(r *Rng) []byte {
	if r.Chance(1, 6) {
		return []byte(strconv.FormatFloat(float64(int64(r.U64())>>uint(20+r.Intn(44)))/float64(int(1)<<uint(r.Intn(12))), 'g', -1, 64))
	}
	return []byte(floatPool[r.Intn(len(floatPool))])
}
func gR(r *Rng) []byte {
	f := gF(r)
	if r.Chance(1, 3) {
		return append([]byte("("), f...)
	}
	return f
}

// randCase re-spells an ASCII keyword in random letter case.
func randCase(r *Rng, s string) []byte {
	b := []byte(s)
	mode := r.Intn(4)
	for i, c := range b {
		lower := c | 0x20
		upper := c &^ 0x20
		isAlpha := (c >= 'a' && c <= 'z') || (c >= 'A' && c <= 'Z')
		if !isAlpha {
			continue
		}
		switch mode {
		case 0:
			b[i] = upper
		case 1:
			b[i] = lower
		default:
			if r.Bool() {
				b[i] = upper
			} else {
				b[i] = lower
			}
		}
	}
	return b
}

func fb(tok []byte) string {
	f, err := strconv.ParseFloat(string(tok), 64)
	if err != nil {
		return "BADFLOAT"
	}
	return fmt.Sprintf("%016x", math.Float64bits(f))
}

func rangeBits(tok []byte) (string, bool) {
	if len(tok) > 0 && tok[0] == '(' {
		return fb(tok[1:]), true
	}
	return fb(tok), false
}

func hxl(bs [][]byte) string {
	parts := make([]string, len(bs))
	for i, b := range bs {
		parts[i] = hx(b)
	}
	return "[" + strings.Join(parts, ",") + "]"
}

func atoi64(b []byte) int64 {
	v, _ := strconv.ParseInt(string(b), 10, 64)
	return v
}

// builder collects the typed arguments of one request.
type builder struct {
	r *Rng
	t *treq
}

func newReq(r *Rng, cmd string) *builder {
	b := &builder{r: r, t: &treq{cmd: cmd}}
	b.t.args = append(b.t.args, targ{b: randCase(r, cmd), kind: 'n', req: true})
	return b
}
func (b *builder) add(kind byte, v []byte, req bool) []byte {
	b.t.args = append(b.t.args, targ{b: v, kind: kind, req: req})
	return v
}
func (b *builder) S() []byte     { return b.add('S', gS(b.r), true) }
func (b *builder) I() []byte     { return b.add('I', gI(b.r), true) }
func (b *builder) F() []byte     { return b.add('F', gF(b.r), true) }
func (b *builder) R() []byte     { return b.add('R', gR(b.r), true) }
func (b *builder) opt(kw string) { b.add('o', randCase(b.r, kw), false) }
func (b *builder) optI(v []byte) { b.add('I', v, false) }
func (b *builder) optS(v []byte) { b.add('S', v, false) }

// forceListN > 0 makes every generated list argument that long (used for the wide-request cases)
var forceListN int

func (b *builder) list(min int) [][]byte {
	n := min + b.r.Intn(4)
	if forceListN > 0 {
		n = forceListN
	}
	var out [][]byte
	for i := 0; i < n; i++ {
		out = append(out, b.add('L', gS(b.r), i == 0))
	}
	return out
}

// pairs returns the key/value pairs in request order; duplicates are likely with the small pool.
func (b *builder) pairs() [][2][]byte {
	n := 1 + b.r.Intn(4)
	var out [][2][]byte
	for i := 0; i < n; i++ {
		k := b.add('K', gS(b.r), i == 0)
		v := b.add('V', gS(b.r), true)
		out = append(out, [2][]byte{k, v})
	}
	return out
}

var simpleForms = []string{
	"DEL", "EXISTS", "EXPIRE", "EXPIREAT", "KEYS", "TYPE", "TTL", "RENAME", "RENAMENX", "SCAN", "GET", "SET", "SETEX", "GETSET", "SETNX",
	"HDEL", "HGET", "HGETALL", "HSET", "HSETNX", "LINDEX", "LLEN", "LRANGE", "LPOP", "RPOP", "LPUSH", "LPUSHX", "RPUSH", "RPUSHX",
	"SADD", "SMEMBERS", "SREM", "ZADD", "ZINCRBY", "ZRANGE", "ZRANGEBYSCORE", "ZREM", "ZSCORE",
}
var compositeForms = []string{
	"MSET", "MSETNX", "MGET", "HMSET", "HMGET", "APPEND", "INCR", "DECR", "INCRBY", "DECRBY", "GETRANGE", "SUBSTR", "STRLEN",
	"HEXISTS", "HKEYS", "HVALS", "HLEN", "HSTRLEN", "SCARD", "SISMEMBER", "ZCARD", "ZREVRANGE", "ZREVRANGEBYSCORE",
}
var systemForms = []string{"PING", "ECHO", "SELECT", "CONFIG", "AUTH"}

func zrOptStr(byscore, bylex, rev, withscores, minex, maxex bool, off, cnt int64) string {
	return fmt.Sprintf("%s%s%s%s%s%s,%d,%d", b01(byscore), b01(bylex), b01(rev), b01(withscores), b01(minex), b01(maxex), off, cnt)
}

// rangeOptions appends ZRANGE-style options in random order and returns their decoded values.
func (b *builder) rangeOptions(allowByScore bool) (byscore, rev, withscores bool, off, cnt int64) {
	cnt = -1
	var opts []func()
	if allowByScore && b.r.Bool() {
		byscore = true
		opts = append(opts, func() { b.opt("BYSCORE") })
	}
	if allowByScore && b.r.Chance(1, 3) {
		rev = true
		opts = append(opts, func() { b.opt("REV") })
	}
	if b.r.Bool() {
		withscores = true
		opts = append(opts, func() { b.opt("WITHSCORES") })
	}
	if b.r.Chance(1, 3) {
		o, c := gSmallI(b.r), gSmallI(b.r)
		off, cnt = atoi64(o), atoi64(c)
		opts = append(opts, func() { b.opt("LIMIT"); b.optI(o); b.optI(c) })
	}
	// an option may be given more than once (in any letter case): flags are idempotent, the last LIMIT wins. The
	// repetitions come first, so that the decoded values above stay the ones of the last occurrence.
	if len(opts) > 0 && b.r.Chance(1, 4) {
		switch b.r.Intn(3) {
		case 0:
			if withscores {
				b.opt("WITHSCORES")
			}
		case 1:
			if rev {
				b.opt("REV")
			}
		default:
			if cnt != -1 || off != 0 {
				b.opt("LIMIT")
				b.optI(gSmallI(b.r))
				b.optI(gSmallI(b.r))
			}
		}
	}
	for len(opts) > 0 {
		i := b.r.Intn(len(opts))
		opts[i]()
		opts = append(opts[:i], opts[i+1:]...)
	}
	return
}

// genRequest builds a well-formed request of the named command.
func genRequest(r *Rng, cmd string) *treq {
	b := newReq(r, cmd)
	t := b.t
	switch cmd {
	case "DEL", "EXISTS":
		l := b.list(1)
		t.expected = fmt.Sprintf("%s(%s)", strings.ToLower(cmd), hxl(l))
	case "EXPIRE", "EXPIREAT":
		k := b.S()
		var ttl []byte
		if cmd == "EXPIRE" {
			ttl = b.add('I', []byte(strconv.Itoa(r.Intn(2000000)-1000)), true)
		} else {
			ttl = b.add('I', []byte([]string{"0", "1", "100", "999999999", "4000000000", "253402300799", "-1"}[r.Intn(7)]), true)
		}
		flag := "none"
		if r.Bool() {
			flag = []string{"nx", "xx", "gt", "lt"}[r.Intn(4)]
			b.opt(strings.ToUpper(flag))
		}
		mode := "rel"
		if cmd == "EXPIREAT" {
			mode = "abs"
		}
		t.expected = fmt.Sprintf("expire(%s,%s,%d,%s)", hx(k), mode, atoi64(ttl), flag)
	case "KEYS", "TYPE", "TTL", "GET", "HGETALL", "LLEN", "SMEMBERS":
		k := b.S()
		t.expected = fmt.Sprintf("%s(%s)", strings.ToLower(cmd), hx(k))
	case "RENAME", "RENAMENX":
		k, n := b.S(), b.S()
		t.expected = fmt.Sprintf("rename(%s,%s,%s)", hx(k), hx(n), b01(cmd == "RENAMENX"))
	case "SCAN":
		cur := b.I()
		pat := "(?s)^.*$"
		cnt := int64(10)
		var opts []func()
		if r.Bool() {
			p := []byte([]string{"*", "a?c", "k*", "a.c", "x+(y)|z$", "", "[a]{1}^\\", "h?llo*"}[r.Intn(8)])
			pat = "(?s)^" + globToRegexRef(p) + "$"
			opts = append(opts, func() { b.opt("MATCH"); b.optS(p) })
		}
		if r.Bool() {
			c := gI(r)
			cnt = atoi64(c)
			opts = append(opts, func() { b.opt("COUNT"); b.optI(c) })
		}
		for len(opts) > 0 {
			i := r.Intn(len(opts))
			opts[i]()
			opts = append(opts[:i], opts[i+1:]...)
		}
		t.expected = fmt.Sprintf("scan(%d,%s,%d)", atoi64(cur), hx([]byte(pat)), cnt)
	case "SET":
		k, v := b.S(), b.S()
		nx, xx, keepttl, get := false, false, false, false
		exp := "-"
		var opts []func()
		switch r.Intn(3) {
		case 0:
			nx = true
			opts = append(opts, func() { b.opt("NX") })
		case 1:
			xx = true
			opts = append(opts, func() { b.opt("XX") })
		}
		if r.Bool() {
			keepttl = true
			opts = append(opts, func() { b.opt("KEEPTTL") })
		}
		if r.Bool() {
			get = true
			opts = append(opts, func() { b.opt("GET") })
		}
		if r.Bool() {
			kw := []string{"EX", "PX", "EXAT", "PXAT"}[r.Intn(4)]
			n := []byte([]string{"1", "2", "60", "1000", "86400", "4102444800", "9223372036"}[r.Intn(7)])
			v := atoi64(n)
			switch kw {
			case "EX":
				exp = fmt.Sprintf("ex:%d", v*1000000000)
			case "PX":
				exp = fmt.Sprintf("px:%d", v*1000000)
			case "EXAT":
				exp = fmt.Sprintf("exat:%d", v)
			case "PXAT":
				exp = fmt.Sprintf("pxat:%d", v)
			}
			opts = append(opts, func() { b.opt(kw); b.optI(n) })
		}
		for len(opts) > 0 {
			i := r.Intn(len(opts))
			opts[i]()
			opts = append(opts[:i], opts[i+1:]...)
		}
		t.expected = fmt.Sprintf("set(%s,%s,%s%s%s%s,%s)", hx(k), hx(v), b01(nx), b01(xx), b01(keepttl), b01(get), exp)
	case "SETEX":
		k := b.S()
		n := b.add('I', []byte([]string{"1", "2", "60", "86400"}[r.Intn(4)]), true)
		v := b.S()
		t.expected = fmt.Sprintf("set(%s,%s,0000,ex:%d)", hx(k), hx(v), atoi64(n)*1000000000)
	case "GETSET":
		k, v := b.S(), b.S()
		t.expected = fmt.Sprintf("set(%s,%s,0001,-)", hx(k), hx(v))
	case "SETNX":
		k, v := b.S(), b.S()
		t.expected = fmt.Sprintf("set(%s,%s,1000,-)", hx(k), hx(v))
	case "HDEL", "SADD", "SREM", "ZREM":
		k := b.S()
		l := b.list(1)
		t.expected = fmt.Sprintf("%s(%s,%s)", strings.ToLower(cmd), hx(k), hxl(l))
	case "HGET", "ZSCORE":
		k, f := b.S(), b.S()
		t.expected = fmt.Sprintf("%s(%s,%s)", strings.ToLower(cmd), hx(k), hx(f))
	case "HSET", "HSETNX":
		k, f, v := b.S(), b.S(), b.S()
		t.expected = fmt.Sprintf("hset(%s,%s,%s,%s)", hx(k), hx(f), hx(v), b01(cmd == "HSETNX"))
	case "LINDEX":
		k, i := b.S(), b.I()
		t.expected = fmt.Sprintf("lindex(%s,%d)", hx(k), atoi64(i))
	case "LRANGE":
		k, i, j := b.S(), b.I(), b.I()
		t.expected = fmt.Sprintf("lrange(%s,%d,%d)", hx(k), atoi64(i), atoi64(j))
	case "LPOP", "RPOP":
		k := b.S()
		n := int64(1)
		if r.Bool() {
			c := gI(r)
			b.optI(c)
			n = atoi64(c)
		}
		t.expected = fmt.Sprintf("%s(%s,%d)", strings.ToLower(cmd), hx(k), n)
	case "LPUSH", "LPUSHX", "RPUSH", "RPUSHX":
		k := b.S()
		l := b.list(1)
		t.expected = fmt.Sprintf("%s(%s,%s,%s)", strings.ToLower(cmd[:5]), hx(k), hxl(l), b01(strings.HasSuffix(cmd, "X")))
	case "ZADD":
		k := b.S()
		xx, nx, lt, gt, ch, incr := false, false, false, false, false, false
		for _, f := range []struct {
			kw string
			p  *bool
		}{{"XX", &xx}, {"NX", &nx}, {"LT", &lt}, {"GT", &gt}, {"CH", &ch}, {"INCR", &incr}} {
			if r.Chance(1, 4) {
				*f.p = true
			}
		}
		// Redis grammar: [NX|XX] [GT|LT] [CH] [INCR]; the framework accepts any order, so shuffle
		var kws []string
		for _, f := range []struct {
			kw string
			on bool
		}{{"XX", xx}, {"NX", nx}, {"LT", lt}, {"GT", gt}, {"CH", ch}, {"INCR", incr}} {
			if f.on {
				kws = append(kws, f.kw)
			}
		}
		for len(kws) > 0 {
			i := r.Intn(len(kws))
			b.opt(kws[i])
			kws = append(kws[:i], kws[i+1:]...)
		}
		n := 1 + r.Intn(3)
		var parts []string
		for i := 0; i < n; i++ {
			s := b.add('F', gF(r), i == 0)
			m := b.add('S', gS(r), true)
			parts = append(parts, fb(s)+":"+hx(m))
		}
		t.expected = fmt.Sprintf("zadd(%s,[%s],%s%s%s%s%s%s)", hx(k), strings.Join(parts, ","), b01(xx), b01(nx), b01(lt), b01(gt), b01(ch), b01(incr))
	case "ZINCRBY":
		k, f, m := b.S(), b.F(), b.S()
		t.expected = fmt.Sprintf("zincrby(%s,%s,%s)", hx(k), fb(f), hx(m))
	case "ZRANGE":
		k := b.S()
		// decide BYSCORE first: it fixes the grammar of the two bounds
		save := len(t.args)
		lo, hi := b.add('R', nil, true), b.add('R', nil, true)
		_, _ = lo, hi
		byscore, rev, ws, off, cnt := b.rangeOptions(true)
		if byscore {
			t.args[save].b, t.args[save+1].b = gR(r), gR(r)
			mn, mnx := rangeBits(t.args[save].b)
			mx, mxx := rangeBits(t.args[save+1].b)
			t.expected = fmt.Sprintf("zrangebyscore(%s,%s,%s,%s)", hx(k), mn, mx, zrOptStr(true, false, rev, ws, mnx, mxx, off, cnt))
		} else {
			t.args[save].b, t.args[save+1].b = gI(r), gI(r)
			t.args[save].kind, t.args[save+1].kind = 'I', 'I'
			t.expected = fmt.Sprintf("zrange(%s,%d,%d,%s)", hx(k), atoi64(t.args[save].b), atoi64(t.args[save+1].b), zrOptStr(false, false, rev, ws, false, false, off, cnt))
		}
	case "ZRANGEBYSCORE":
		k, lo, hi := b.S(), b.R(), b.R()
		_, _, ws, off, cnt := b.rangeOptions(false)
		mn, mnx := rangeBits(lo)
		mx, mxx := rangeBits(hi)
		t.expected = fmt.Sprintf("zrangebyscore(%s,%s,%s,%s)", hx(k), mn, mx, zrOptStr(false, false, false, ws, mnx, mxx, off, cnt))
	// ---- composites and framework-implemented commands: no single expected call ----
	case "MSET", "MSETNX":
		b.pairs()
	case "MGET":
		b.list(1)
	case "HMSET":
		b.S()
		b.pairs()
	case "HMGET":
		b.S()
		b.list(1)
	case "APPEND", "SISMEMBER", "HEXISTS", "HSTRLEN":
		b.S()
		b.S()
	case "INCR", "DECR", "STRLEN", "HKEYS", "HVALS", "HLEN", "SCARD", "ZCARD":
		b.S()
	case "INCRBY", "DECRBY":
		b.S()
		b.I()
	case "GETRANGE", "SUBSTR":
		b.S()
		b.add('I', gSmallI(r), true)
		b.add('I', gSmallI(r), true)
	case "ZREVRANGE":
		b.S()
		b.add('I', gSmallI(r), true)
		b.add('I', gSmallI(r), true)
		if r.Bool() {
			b.opt("WITHSCORES")
		}
	case "ZREVRANGEBYSCORE":
		b.S()
		b.R()
		b.R()
		b.rangeOptions(false)
	case "PING":
		if r.Bool() {
			b.optS(gS(r))
		}
	case "ECHO":
		b.S()
	case "SELECT":
		b.add('I', []byte(strconv.Itoa(r.Intn(16))), true)
	case "QUIT":
	case "CONFIG":
		if r.Chance(1, 8) {
			// an unknown sub-command (an error reply that carries the word)
			w := meaningWords[r.Intn(len(meaningWords))]
			for strings.EqualFold(w, "GET") || strings.EqualFold(w, "SET") {
				w = meaningWords[r.Intn(len(meaningWords))]
			}
			b.add('o', []byte(w), true)
			return t
		}
		if r.Bool() {
			b.add('o', randCase(r, "SET"), true)
			n := 1 + r.Intn(3)
			for i := 0; i < n; i++ {
				b.add('K', []byte([]string{"appendonly", "save", "maxmemory", "x", "Timeout", "Tls-Port", "TLS-CERT-FILE", "Port2"}[r.Intn(8)]), i == 0)
				b.add('V', gS(r), true)
			}
		} else {
			b.add('o', randCase(r, "GET"), true)
			n := 1 + r.Intn(3)
			for i := 0; i < n; i++ {
				b.add('L', []byte([]string{"appendonly", "save", "maxmemory", "x", "port", "Timeout", "Tls-Port", "TLS-CERT-FILE", "Port2", "tls-port"}[r.Intn(10)]), i == 0)
			}
		}
	case "AUTH":
		if r.Bool() {
			b.S()
		} else {
			b.S()
			b.optS(gS(r))
		}
	default:
		panic("no grammar for " + cmd)
	}
	return t
}

// globToRegexRef is the reference translation of a glob into the regular expression the framework compiles:
// `*` any sequence, `?` one character, every other byte literal.
func globToRegexRef(p []byte) string {
	var sb strings.Builder
	for _, c := range p {
		switch {
		case c == '*':
			sb.WriteString(".*")
		case c == '?':
			sb.WriteString(".")
		case strings.IndexByte(`\.+*?()|[]{}^$`, c) >= 0:
			sb.WriteByte('\\')
			sb.WriteByte(c)
		default:
			sb.WriteByte(c)
		}
	}
	return sb.String()
}

// mutation classes of C10
type mutation struct {
	argv  [][]byte
	nulls map[int]bool // positions sent as a null bulk
	class string
}

// illFormed enumerates, for a well-formed typed request, every mutation class the property lists.
func illFormed(t *treq) []mutation {
	var out []mutation
	base := t.argv()
	clone := func() [][]byte {
		c := make([][]byte, len(base))
		copy(c, base)
		return c
	}
	// 1. each required position omitted: the request is cut right before it
	for i := 1; i < len(t.args); i++ {
		if t.args[i].req {
			out = append(out, mutation{argv: clone()[:i], class: "omit-required"})
		}
	}
	// an integer argument of an option that takes one: cut after the keyword
	for i := 1; i < len(t.args); i++ {
		if t.args[i].kind == 'o' && i+1 < len(t.args) && (t.args[i+1].kind == 'I' || t.args[i+1].kind == 'S') && !t.args[i+1].req {
			out = append(out, mutation{argv: clone()[:i+1], class: "option-without-value"})
		}
	}
	// a clause with two values (LIMIT offset count) cut after the first one
	for i := 2; i+1 < len(t.args); i++ {
		if t.args[i-1].kind == 'o' && t.args[i].kind == 'I' && !t.args[i].req && t.args[i+1].kind == 'I' && !t.args[i+1].req {
			out = append(out, mutation{argv: clone()[:i+1], class: "option-without-value"})
		}
	}
	// 2. each value position replaced by a null bulk
	for i := 1; i < len(t.args); i++ {
		k := t.args[i].kind
		if k == 'o' {
			continue
		}
		out = append(out, mutation{argv: clone(), nulls: map[int]bool{i: true}, class: "null-value"})
	}
	// 3. numeric positions replaced by non-numeric / overflowing / fractional tokens
	for i := 1; i < len(t.args); i++ {
		switch t.args[i].kind {
		case 'I':
			for _, bad := range badIntPool {
				c := clone()
				c[i] = []byte(bad)
				out = append(out, mutation{argv: c, class: "bad-integer"})
			}
		case 'F':
			for _, bad := range append([]string{"(1", "(0.5"}, badFloatPool...) {
				c := clone()
				c[i] = []byte(bad)
				out = append(out, mutation{argv: c, class: "bad-float"})
			}
		case 'R':
			for _, bad := range badFloatPool {
				c := clone()
				c[i] = []byte(bad)
				out = append(out, mutation{argv: c, class: "bad-range"})
				if bad != "(" {
					c2 := clone()
					c2[i] = append([]byte("("), bad...)
					out = append(out, mutation{argv: c2, class: "bad-range"})
				}
			}
			for _, bad := range badRangeOnly {
				c := clone()
				c[i] = []byte(bad)
				out = append(out, mutation{argv: c, class: "bad-range"})
			}
		}
	}
	// 4. pair lists cut to a dangling half
	for i := 1; i < len(t.args); i++ {
		if t.args[i].kind == 'V' {
			out = append(out, mutation{argv: clone()[:i], class: "dangling-pair"})
		}
		if t.args[i].kind == 'S' && i > 0 && t.args[i-1].kind == 'F' {
			out = append(out, mutation{argv: clone()[:i], class: "dangling-pair"})
			// ... and the dangling half spelled like a word that means something to the command (an option name)
			for _, w := range []string{"NX", "XX", "GT", "LT", "CH", "INCR", "nx", "Ch", "incr", "WITHSCORES", "LIMIT"} {
				c := clone()[:i]
				c[i-1] = []byte(w)
				out = append(out, mutation{argv: c, class: "dangling-pair"})
			}
		}
	}
	return out
}

// setExclusive enumerates the SET option conflicts of C10.
func setExclusive(r *Rng) []mutation {
	var out []mutation
	k, v := gS(r), gS(r)
	mk := func(class string, opts ...string) {
		argv := [][]byte{randCase(r, "SET"), k, v}
		for _, o := range opts {
			argv = append(argv, randCase(r, o))
		}
		out = append(out, mutation{argv: argv, class: class})
	}
	for _, a := range []string{"NX", "XX"} {
		for _, b := range []string{"NX", "XX"} {
			mk("set-nx-xx", a, b)
			mk("set-nx-xx", a, "GET", b)
		}
	}
	exps := []string{"EX", "PX", "EXAT", "PXAT"}
	for _, a := range exps {
		for _, b := range exps {
			mk("set-expire-twice", a, "10", b, "20")
			mk("set-expire-twice", a, "9223372036854775807", b, "20")
			// first values whose conversion to a time.Duration wraps to zero, to a negative or to a small positive value
			for _, wrap := range []string{"36028797018963968", "72057594037927936", "288230376151711744", "4611686018427387904", "9223372037", "18446744074", "9223372036854776", "18446744073709552"} {
				mk("set-expire-twice", a, wrap, b, "20")
			}
			mk("set-expire-twice", a, "10", "NX", b, "20")
		}
		for _, n := range []string{"0", "-1", "-9223372036854775808"} {
			mk("set-nonpositive-expire", a, n)
		}
		mk("set-expire-without-value", a)
		mk("bad-integer", a, "abc")
		mk("bad-integer", a, "1.5")
	}
	mk("set-option-twice", "KEEPTTL", "KEEPTTL")
	mk("set-option-twice", "GET", "GET")
	for _, n := range []string{"0", "-1"} {
		out = append(out, mutation{argv: [][]byte{randCase(r, "SETEX"), k, []byte(n), v}, class: "set-nonpositive-expire"})
	}
	return out
}

// requestBytes renders argv as a RESP array of bulk strings; positions in nulls become null bulks.
func requestBytes(argv [][]byte, nulls map[int]bool) []byte {
	b := []byte(fmt.Sprintf("*%d\r\n", len(argv)))
	for i, a := range argv {
		if nulls[i] {
			b = append(b, "$-1\r\n"...)
			continue
		}
		b = append(b, fmt.Sprintf("$%d\r\n", len(a))...)
		b = append(b, a...)
		b = append(b, '\r', '\n')
	}
	return b
}

// floatTable renders the float-oracle section for the given requests: every argument (and every argument
// without a leading '(') that strconv.ParseFloat accepts, with the bit pattern of its value.
func floatTable(argvs ...[][]byte) string {
	seen := map[string]bool{}
	var parts []string
	add := func(tok []byte) {
		if len(tok) > 40 || seen[string(tok)] {
			return
		}
		seen[string(tok)] = true
		if f, err := strconv.ParseFloat(string(tok), 64); err == nil {
			parts = append(parts, fmt.Sprintf("%s=%016x", hx(tok), math.Float64bits(f)))
		}
	}
	for _, argv := range argvs {
		for _, a := range argv {
			add(a)
			if len(a) > 0 && a[0] == '(' {
				add(a[1:])
			}
		}
	}
	return strings.Join(parts, " ")
}

// genScript draws handler results: every message type, nil, errors, message+error.
func genScript(r *Rng, n int, wild bool) string {
	var parts []string
	for i := 0; i < n; i++ {
		k := r.Intn(12)
		if !wild && k >= 9 {
			k = r.Intn(9)
		}
		switch k {
		case 0:
			parts = append(parts, "r s:"+hx([]byte("OK")))
		case 1:
			parts = append(parts, "r i:"+hx([]byte(strconv.Itoa(r.Intn(100)-10))))
		case 2:
			parts = append(parts, "r b:"+hx(gS(r)))
		case 3:
			parts = append(parts, "r n")
		case 4: // array of bulks
			t := &Node{Kind: 'a', Es: []*Node{}}
			for j := r.Intn(5); j > 0; j-- {
				t.Es = append(t.Es, &Node{Kind: 'b', P: gS(r)})
			}
			parts = append(parts, "r "+t.String())
		case 5: // pairs member/score
			t := &Node{Kind: 'a', Es: []*Node{}}
			for j := r.Intn(4); j > 0; j-- {
				t.Es = append(t.Es, &Node{Kind: 'b', P: gS(r)}, &Node{Kind: 'b', P: []byte(strconv.Itoa(j))})
			}
			parts = append(parts, "r "+t.String())
		case 6:
			parts = append(parts, "e "+hx([]byte("ERR handler failed")))
		case 7:
			parts = append(parts, "r b:"+hx([]byte(intPool[r.Intn(len(intPool))])))
		case 8:
			parts = append(parts, "r "+genTree(r, 2, 4, false, false).String())
		case 9:
			parts = append(parts, "r z")
		case 10:
			switch r.Intn(3) {
			case 0:
				parts = append(parts, "e "+hx([]byte("boom\r\n+OK\r\n")))
			case 1:
				parts = append(parts, "e "+hx([]byte(utf8Traps[r.Intn(len(utf8Traps))])))
			default:
				parts = append(parts, "r s:"+hx([]byte(utf8Traps[r.Intn(len(utf8Traps))])))
			}
		case 11:
			switch r.Intn(4) {
			case 0:
				parts = append(parts, "r Z")
			case 1:
				parts = append(parts, "r a2 b:61 z")
			case 2:
				parts = append(parts, "re "+hx([]byte("both"))+" b:61")
			case 3:
				parts = append(parts, "r a3 b:61 b:31 b:62")
			}
		}
	}
	return strings.Join(parts, " ; ")
}
