package main

import (
	"bufio"
	"fmt"
	"net"
	"strconv"
	"sync"
	"time"

	"github.com/cybergarage/go-redis/redis"
)

func init() {
	opRunners["stopinflight"] = runStopInFlight
}

// inflightHandler: Set records what the handler sees of the connection (database, authorization, user data); the first
// call of a request marked by the key "hold" blocks until it is released.
type inflightHandler struct {
	*safeHandler
	mu      sync.Mutex
	seen    []string
	entered chan struct{}
	release chan struct{}
	first   bool
}

func (h *inflightHandler) Set(conn *redis.Conn, key string, val string, opt redis.SetOption) (*redis.Message, error) {
	h.mu.Lock()
	blocking := !h.first
	h.first = true
	h.mu.Unlock()
	if blocking {
		conn.Store("mark", "kept")
		close(h.entered)
		<-h.release
	}
	ud, _ := conn.Load("mark")
	h.mu.Lock()
	h.seen = append(h.seen, fmt.Sprintf("db=%d auth=%v ud=%v", conn.Database(), conn.IsAuthrized(), ud))
	h.mu.Unlock()
	return redis.NewOKMessage(), nil
}

// case "stopinflight <db> <pw|-> <stop|restart>": a real server; a client authenticates (when a password is set), selects
// <db> and sends MSET with three pairs; while the handler is inside the first of its three calls the application calls
// Stop (or Restart), which closes the connections and waits for the command; the handler's remaining calls of that command
// must see the connection as its own requests left it: database <db>, authorized, the user data the first call stored.
func runStopInFlight(toks []string) Result {
	tags := []string{"nt", "stop-with-command-in-flight"}
	db, _ := strconv.Atoi(toks[1])
	pw := toks[2]
	h := &inflightHandler{safeHandler: newSafeHandler(), entered: make(chan struct{}), release: make(chan struct{})}
	srv := redis.NewServer()
	port := freePort()
	srv.SetPort(port)
	if pw != "-" {
		srv.SetRequirePass(pw)
	}
	srv.SetCommandHandler(h)
	if err := srv.Start(); err != nil {
		return Result{Obs: "start-failed", Oracle: "fail:start " + err.Error(), Tags: tags}
	}
	c, err := net.DialTimeout("tcp", "127.0.0.1:"+strconv.Itoa(port), 2*time.Second)
	if err != nil {
		srv.Stop()
		return Result{Obs: "dial-failed", Oracle: "fail:dial " + err.Error(), Tags: tags}
	}
	defer c.Close()
	c.SetDeadline(time.Now().Add(8 * time.Second))
	rd := bufio.NewReader(c)
	if pw != "-" {
		c.Write(reqS("AUTH", pw))
		readReply(rd)
	}
	c.Write(reqS("SELECT", strconv.Itoa(db)))
	readReply(rd)
	c.Write(reqS("MSET", "a", "1", "b", "2", "c", "3"))
	select {
	case <-h.entered:
	case <-time.After(3 * time.Second):
		srv.Stop()
		return Result{Obs: "handler-not-reached", Oracle: "fail:the MSET did not reach the handler", Tags: tags}
	}
	stopped := make(chan error, 1)
	go func() {
		if toks[3] == "restart" {
			stopped <- srv.Restart()
		} else {
			stopped <- srv.Stop()
		}
	}()
	// the client sees its socket closed (Stop closes the connections first), then the command is let go on
	c.SetReadDeadline(time.Now().Add(400 * time.Millisecond))
	rd.ReadByte()
	close(h.release)
	select {
	case <-stopped:
	case <-time.After(5 * time.Second):
		return Result{Obs: "stop-hang", Oracle: "fail:Stop did not return after the command in flight was let go on", Tags: tags}
	}
	if toks[3] == "restart" {
		srv.Stop()
	}
	h.mu.Lock()
	seen := append([]string{}, h.seen...)
	h.mu.Unlock()
	want := fmt.Sprintf("db=%d auth=true ud=kept", db)
	for i, s := range seen {
		if s != want {
			return Result{Obs: fmt.Sprintf("call%d:%s", i+1, s), Oracle: fmt.Sprintf("fail:handler call %d of the MSET in flight saw %s, the connection's own requests left it at %s", i+1, s, want), Tags: tags}
		}
	}
	if len(seen) != 3 {
		return Result{Obs: fmt.Sprintf("calls=%d", len(seen)), Oracle: fmt.Sprintf("fail:%d of 3 handler calls of the MSET in flight", len(seen)), Tags: tags}
	}
	return Result{Obs: "state-kept", Oracle: "ok", Tags: tags}
}
