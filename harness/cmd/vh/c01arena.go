package main

import (
	"bytes"

	"github.com/cybergarage/go-redis/redis/proto"
)

// toMessageArena builds the value with every payload being a window of ONE caller-owned buffer (the payloads laid end
// to end, a guard pattern behind the last one): what an application does that cuts fields out of a read buffer or
// splits a line.  Each window has spare capacity that belongs to its neighbours.  Serializing must only read them.
func (n *Node) toMessageArena() (*proto.Message, []byte, []byte) {
	var arena []byte
	var collect func(n *Node)
	collect = func(n *Node) {
		arena = append(arena, n.P...)
		for _, e := range n.Es {
			collect(e)
		}
	}
	collect(n)
	arena = append(arena, "0123456789abcdef"...)
	orig := append([]byte{}, arena...)
	off := 0
	win := func(p []byte) []byte {
		w := arena[off : off+len(p)]
		off += len(p)
		return w
	}
	var build func(n *Node) *proto.Message
	build = func(n *Node) *proto.Message {
		switch n.Kind {
		case 's':
			return proto.NewMessageWithType(proto.StringMessage).SetBytes(win(n.P))
		case 'e':
			return proto.NewMessageWithType(proto.ErrorMessage).SetBytes(win(n.P))
		case 'i':
			return proto.NewMessageWithType(proto.IntegerMessage).SetBytes(win(n.P))
		case 'b':
			return proto.NewMessageWithType(proto.BulkMessage).SetBytes(win(n.P))
		case 'a':
			m := proto.NewMessageWithType(proto.ArrayMessage).SetArray(proto.NewArray())
			for _, e := range n.Es {
				if err := m.Append(build(e)); err != nil {
					panic(err)
				}
			}
			return m
		}
		return n.toMessage()
	}
	return build(n), arena, orig
}

// arenaDiffers: the value built over one shared buffer serializes differently, or serializing wrote to the buffer
func arenaDiffers(t *Node, want []byte) (bad bool) {
	defer func() {
		if recover() != nil {
			bad = true
		}
	}()
	m, arena, orig := t.toMessageArena()
	b1, p1 := safeRESP(m)
	b2, p2 := safeRESP(m)
	return p1 || p2 || !bytes.Equal(b1, want) || !bytes.Equal(b2, want) || !bytes.Equal(arena, orig)
}
