package main

import (
	"fmt"
	"strconv"
	"strings"
)

// serveObs runs one serve case on the real connection loop and renders the canonical observable.
func serveObs(c *serveCase) (string, *serveResult) {
	res := runServe(c)
	if res.hung {
		return "spin", res
	}
	var toks []string
	for _, e := range res.events {
		toks = append(toks, e)
	}
	obs := strings.Join(toks, " ")
	if c.blk {
		var bs []string
		for _, b := range res.blocks {
			bs = append(bs, strconv.Itoa(b))
		}
		obs += " # B " + strings.Join(bs, " ")
	}
	return obs, res
}

// request builds the wire form of a command request: an array of bulk strings.
func request(args ...[]byte) []byte {
	b := []byte(fmt.Sprintf("*%d\r\n", len(args)))
	for _, a := range args {
		b = append(b, fmt.Sprintf("$%d\r\n", len(a))...)
		b = append(b, a...)
		b = append(b, '\r', '\n')
	}
	return b
}

func reqS(args ...string) []byte {
	bs := make([][]byte, len(args))
	for i, a := range args {
		bs[i] = []byte(a)
	}
	return request(bs...)
}
