package main

import (
	"bytes"
	"fmt"
	"strings"
)

func init() {
	properties["C02"] = &Property{Gen: genC02, Run: runC02}
}

// case line: "chunks <k> <tree-tokens of k values> | <hex segment> <hex segment> ..." — the expected values
// travel with the case so the oracle can compare; the model only looks at the segments.
func genC02(tier string, seed uint64, emit func(string)) {
	r := NewRng(seed)
	streams := 150
	if tier == "thorough" {
		streams = 4000
	}
	// payload sizes around the buffer sizes an implementation may use internally (512, 1 KiB, 4 KiB, 8 KiB, 64 KiB):
	// a large bulk string - alone, inside an array, in the middle of a pipeline - with values behind it in the same read
	sizes := []int{511, 512, 513, 1023, 1024, 1025, 4093, 4094, 4095, 4096, 4097, 5000, 8191, 8192, 8193, 16384, 65535, 65536, 70000}
	// powers of two up to the 1 MiB bound with small offsets (a buffer that starts at 2^k + c and doubles has its
	// critical sizes there); fewer offsets in the quick tier
	offs := []int{-2, -1, 0, 1, 2, 3, 4}
	if tier == "thorough" {
		offs = []int{-9, -8, -7, -6, -5, -4, -3, -2, -1, 0, 1, 2, 3, 4, 5, 6, 7, 8, 9}
	}
	firstPow := len(sizes)
	for k := 15; k <= 19; k++ {
		for _, c := range offs {
			sizes = append(sizes, 1<<k+c)
		}
	}
	big := len(sizes)
	if tier != "thorough" {
		big = len(sizes) // all sizes in both tiers: they are cheap (one whole + a few dozen splits each)
	}
	// long runs of small values - null arrays, null bulks, empty arrays and bulks, chains of nested arrays up to 48 deep -
	// with ordinary command arrays between and behind them: whatever a parser keeps from one value to the next (a depth, a
	// count, a buffer) must not carry over
	{
		small := func(k int) *Node {
			switch k % 9 {
			case 0, 1, 2:
				return &Node{Kind: 'N'}
			case 3:
				return &Node{Kind: 'n'}
			case 4:
				return &Node{Kind: 'a', Es: []*Node{}}
			case 5:
				return &Node{Kind: 'b', P: []byte{}}
			case 6:
				return &Node{Kind: 'a', Es: []*Node{{Kind: 'N'}, {Kind: 'a', Es: []*Node{}}, {Kind: 'N'}}}
			case 7:
				return &Node{Kind: 'i', P: []byte("7")}
			}
			return &Node{Kind: 'a', Es: []*Node{{Kind: 'b', P: []byte("PING")}}}
		}
		chain := func(depth int, leaf *Node) *Node {
			t := leaf
			for d := 0; d < depth; d++ {
				t = &Node{Kind: 'a', Es: []*Node{t}}
			}
			return t
		}
		var runs [][]*Node
		for _, n := range []int{9, 10, 16, 33, 64, 130} {
			var nulls, mixed []*Node
			for j := 0; j < n; j++ {
				nulls = append(nulls, &Node{Kind: 'N'})
				mixed = append(mixed, small(r.Intn(9)))
			}
			cmd := &Node{Kind: 'a', Es: []*Node{{Kind: 'b', P: []byte("GET")}, {Kind: 'b', P: []byte("k")}}}
			runs = append(runs, append(nulls, cmd), append(mixed, cmd, &Node{Kind: 'N'}, cmd))
		}
		for _, d := range []int{7, 8, 9, 10, 11, 16, 31, 32, 33, 48} {
			runs = append(runs, []*Node{chain(d, &Node{Kind: 'b', P: []byte("x")}), chain(d, &Node{Kind: 'N'}), chain(d, &Node{Kind: 'a', Es: []*Node{}}), {Kind: 's', P: []byte("OK")}})
		}
		for _, vals := range runs {
			var b []byte
			var vt []string
			for _, v := range vals {
				v.refEnc(&b)
				vt = append(vt, v.String())
			}
			head := fmt.Sprintf("chunks %d %s |", len(vals), strings.Join(vt, " "))
			emit(segsCase(head, [][]byte{b}))
			emit(segsCase(head, oneByteSegs(b)))
			emit(segsCase("chunkse"+head[len("chunks"):], partition(r, b, 2+r.Intn(9))))
			for k := 0; k < 4; k++ {
				emit(segsCase(head, partition(r, b, 2+r.Intn(12))))
			}
		}
	}
	eofToo := false
	for i := 0; i < streams+big; i++ {
		eofToo = i%3 == 0 || i >= streams
		nvals := 1 + r.Intn(8)
		var vals []*Node
		var b []byte
		for j := 0; j < nvals; j++ {
			t := genTree(r, r.Intn(4), 6, true, r.Chance(1, 200))
			if i >= streams && j == nvals/2 {
				// the large value of this stream
				payload := bytes.Repeat([]byte{byte('a' + i%26)}, sizes[i-streams])
				t = &Node{Kind: 'b', P: payload}
				kind := i % 4
				if len(payload) > 8193 && kind >= 2 {
					kind -= 2 // the model's line reader is quadratic in the line length: long lines stay below 8 KiB + 1
				}
				switch kind {
				case 1:
					t = &Node{Kind: 'a', Es: []*Node{{Kind: 'b', P: []byte("ECHO")}, {Kind: 'b', P: payload}}}
				case 2: // a long status line (line payloads are not limited in length either)
					t = &Node{Kind: 's', P: payload}
				case 3:
					t = &Node{Kind: 'a', Es: []*Node{{Kind: 'e', P: payload}, {Kind: 'b', P: payload[:7]}}}
				}
			}
			vals = append(vals, t)
			t.refEnc(&b)
		}
		if i >= streams && nvals == 1 {
			// something must follow the large value
			t := &Node{Kind: 's', P: []byte("PONG")}
			vals = append(vals, t)
			t.refEnc(&b)
			nvals = 2
		}
		var vt []string
		for _, v := range vals {
			vt = append(vt, v.String())
		}
		head := fmt.Sprintf("chunks %d %s |", nvals, strings.Join(vt, " "))
		emitSegs := func(segs [][]byte) {
			emit(segsCase(head, segs))
			// the same segmentation with the last segment delivered together with io.EOF (a reader may do that)
			if eofToo {
				emit(segsCase("chunkse"+head[len("chunks"):], segs))
			}
		}
		emitSegs([][]byte{b})
		if i < streams || len(b) <= 20000 {
			emitSegs(oneByteSegs(b))
		}
		if i >= streams+firstPow {
			// the large power-of-two sizes: a few splits around the end of the large value only
			for k := 0; k < 3; k++ {
				c := 1 + r.Intn(len(b)-1)
				emitSegs([][]byte{b[:c], b[c:]})
			}
			emitSegs(partition(r, b, 2+r.Intn(6)))
			continue
		}
		// every 2-way split point (exhaustive for streams up to 300 bytes, sampled beyond)
		if len(b) <= 300 || tier == "thorough" && len(b) <= 3000 {
			for c := 1; c < len(b); c++ {
				emitSegs([][]byte{b[:c], b[c:]})
			}
		} else {
			for k := 0; k < 40; k++ {
				c := 1 + r.Intn(len(b)-1)
				emitSegs([][]byte{b[:c], b[c:]})
			}
		}
		for k := 0; k < 6; k++ {
			emitSegs(partition(r, b, 2+r.Intn(12)))
		}
	}
}

func runC02(toks []string) Result {
	// toks: chunks k <trees...> | segs...
	bar := 0
	for i, t := range toks {
		if t == "|" {
			bar = i
		}
	}
	var want []*Node
	rest := toks[2:bar]
	for len(rest) > 0 {
		var n *Node
		n, rest = parseNode(rest)
		want = append(want, n)
	}
	segs := hexSegs(toks[bar+1:])
	segTag := describeSegs(segs)
	obs, vals, end := streamOutcomeR(&segReader{segs: segs, dataEOF: toks[0] == "chunkse"}, 1<<20)
	oracle := "ok"
	switch {
	case end != "eof":
		oracle = "fail:stream of complete values did not end with a clean end of stream (" + end + ")"
	case len(vals) != len(want):
		oracle = fmt.Sprintf("fail:%d values read, %d sent", len(vals), len(want))
	default:
		for i := range vals {
			if !vals[i].equal(want[i]) {
				oracle = fmt.Sprintf("fail:value %d differs from the one sent", i)
				break
			}
		}
	}
	tags := []string{segTag, "nt"}
	return Result{Obs: obs, Oracle: oracle, Tags: tags}
}
