package main

import (
	"fmt"
	"strings"
)

func init() {
	properties["C02"] = &Property{Gen: genC02, Run: runC02}
}

// case line: "chunks <k> <tree-tokens of k values> | <hex segment> <hex segment> ..." — the expected values
// travel with the case so the oracle can compare; the model only looks at the segments.
func genC02(tier string, seed uint64, emit func(string)) {
	r := NewRng(seed)
	streams := 150
	if tier == "thorough" {
		streams = 4000
	}
	for i := 0; i < streams; i++ {
		nvals := 1 + r.Intn(8)
		var vals []*Node
		var b []byte
		for j := 0; j < nvals; j++ {
			t := genTree(r, r.Intn(4), 6, true, r.Chance(1, 200))
			vals = append(vals, t)
			t.refEnc(&b)
		}
		var vt []string
		for _, v := range vals {
			vt = append(vt, v.String())
		}
		head := fmt.Sprintf("chunks %d %s |", nvals, strings.Join(vt, " "))
		emitSegs := func(segs [][]byte) { emit(segsCase(head, segs)) }
		emitSegs([][]byte{b})
		emitSegs(oneByteSegs(b))
		// every 2-way split point (exhaustive for streams up to 300 bytes, sampled beyond)
		if len(b) <= 300 || tier == "thorough" && len(b) <= 3000 {
			for c := 1; c < len(b); c++ {
				emitSegs([][]byte{b[:c], b[c:]})
			}
		} else {
			for k := 0; k < 40; k++ {
				c := 1 + r.Intn(len(b)-1)
				emitSegs([][]byte{b[:c], b[c:]})
			}
		}
		for k := 0; k < 6; k++ {
			emitSegs(partition(r, b, 2+r.Intn(12)))
		}
	}
}

func runC02(toks []string) Result {
	// toks: chunks k <trees...> | segs...
	bar := 0
	for i, t := range toks {
		if t == "|" {
			bar = i
		}
	}
	var want []*Node
	rest := toks[2:bar]
	for len(rest) > 0 {
		var n *Node
		n, rest = parseNode(rest)
		want = append(want, n)
	}
	segs := hexSegs(toks[bar+1:])
	segTag := describeSegs(segs)
	obs, vals, end := streamOutcome(segs, 1<<20)
	oracle := "ok"
	switch {
	case end != "eof":
		oracle = "fail:stream of complete values did not end with a clean end of stream (" + end + ")"
	case len(vals) != len(want):
		oracle = fmt.Sprintf("fail:%d values read, %d sent", len(vals), len(want))
	default:
		for i := range vals {
			if !vals[i].equal(want[i]) {
				oracle = fmt.Sprintf("fail:value %d differs from the one sent", i)
				break
			}
		}
	}
	tags := []string{segTag, "nt"}
	return Result{Obs: obs, Oracle: oracle, Tags: tags}
}
