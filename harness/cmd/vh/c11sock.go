package main

import (
	"bytes"
	"crypto/tls"
	"fmt"
	"io"
	"net"
	"strconv"
	"time"
)

func init() {
	opRunners["cutsock"] = runCutSock
}

// case "cutsock <p|t> <requests> <bytes> <delay ms>": a real server on loopback; a client pipelines <requests> ECHO
// requests of <bytes> bytes, followed by a request that is cut in the middle, ends its stream (half-close: it can still
// read), waits <delay> ms and only then starts to read.  Every completely received request is answered - the client
// receives every reply, whole, before the connection ends - the cut one is not, and the connection is released.
func runCutSock(toks []string) Result {
	tags := []string{"nt", "cut-on-real-socket"}
	kind := toks[1]
	n, _ := strconv.Atoi(toks[2])
	size, _ := strconv.Atoi(toks[3])
	delay, _ := strconv.Atoi(toks[4])
	lr := newLifeRun([]string{"plain", "tls"})
	defer lr.shutdown()
	if r := lr.act("start"); r != "ok" {
		return Result{Obs: "start=" + r, Oracle: "fail:server did not start", Tags: tags}
	}
	c, err := lr.dial(kind, "good")
	if err != nil {
		return Result{Obs: "dial-failed", Oracle: "fail:dial " + err.Error(), Tags: tags}
	}
	defer c.Close()
	payload := bytes.Repeat([]byte{'q'}, size)
	req := requestBytes([][]byte{[]byte("ECHO"), payload}, nil)
	reply := []byte(fmt.Sprintf("$%d\r\n%s\r\n", size, payload))
	var stream []byte
	for i := 0; i < n; i++ {
		stream = append(stream, req...)
	}
	stream = append(stream, "*2\r\n$4\r\nECHO\r\n$5\r\nab"...)
	received := make(chan []byte, 1)
	go func() {
		// the client reads late
		time.Sleep(time.Duration(delay) * time.Millisecond)
		c.SetReadDeadline(time.Now().Add(10 * time.Second))
		b, _ := io.ReadAll(c)
		received <- b
	}()
	c.SetWriteDeadline(time.Now().Add(10 * time.Second))
	if _, err := c.Write(stream); err != nil {
		return Result{Obs: "write-failed", Oracle: "fail:the client could not send its pipeline: " + err.Error(), Tags: tags}
	}
	switch cc := c.(type) {
	case *net.TCPConn:
		cc.CloseWrite()
	case *tls.Conn:
		cc.CloseWrite()
	}
	got := <-received
	answered := 0
	for bytes.HasPrefix(got, reply) {
		got = got[len(reply):]
		answered++
	}
	time.Sleep(50 * time.Millisecond)
	reg := len(lr.srv.Conns())
	obs := "answered-all released"
	oracle := "ok"
	switch {
	case answered != n:
		obs = fmt.Sprintf("answered=%d/%d rest=%d", answered, n, len(got))
		oracle = fmt.Sprintf("fail:%d of %d completely received requests were answered (%d further bytes received)", answered, n, len(got))
	case len(got) != 0:
		obs = fmt.Sprintf("extra=%d", len(got))
		oracle = "fail:bytes behind the replies to the complete requests: " + firstLine(got)
	case reg != 0:
		obs = fmt.Sprintf("registry=%d", reg)
		oracle = "fail:the connection stayed in the registry after its stream ended inside a request"
	}
	return Result{Obs: obs, Oracle: oracle, Tags: tags}
}
