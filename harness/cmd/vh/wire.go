package main

import (
	"encoding/hex"
	"fmt"
	"strconv"
	"strings"

	"github.com/cybergarage/go-redis/redis/proto"
)

// Node is a RESP value tree in the harness' own representation (independent of proto.Message).
// Kind: 's' status, 'e' error, 'i' integer line, 'b' bulk, 'n' null bulk, 'a' array, 'z' nil message,
// 'Z' array message with nil array.
type Node struct {
	Kind byte
	P    []byte
	Es   []*Node
}

func hx(b []byte) string {
	if len(b) == 0 {
		return "-"
	}
	return hex.EncodeToString(b)
}

func unhx(s string) []byte {
	if s == "-" {
		return []byte{}
	}
	b, err := hex.DecodeString(s)
	if err != nil {
		panic("bad hex: " + s)
	}
	return b
}

func (n *Node) toks(out *[]string) {
	switch n.Kind {
	case 's', 'e', 'i', 'b':
		*out = append(*out, string(n.Kind)+":"+hx(n.P))
	case 'n', 'z', 'Z', 'N':
		*out = append(*out, string(n.Kind))
	case 'a':
		*out = append(*out, "a"+strconv.Itoa(len(n.Es)))
		for _, e := range n.Es {
			e.toks(out)
		}
	}
}

func (n *Node) String() string {
	var out []string
	n.toks(&out)
	return strings.Join(out, " ")
}

func parseNode(toks []string) (*Node, []string) {
	t := toks[0]
	rest := toks[1:]
	switch {
	case t == "n" || t == "z" || t == "Z" || t == "N":
		return &Node{Kind: t[0]}, rest
	case len(t) > 1 && t[1] == ':':
		return &Node{Kind: t[0], P: unhx(t[2:])}, rest
	case t[0] == 'a':
		k, err := strconv.Atoi(t[1:])
		if err != nil {
			panic("bad tree token " + t)
		}
		n := &Node{Kind: 'a', Es: []*Node{}}
		for i := 0; i < k; i++ {
			var e *Node
			e, rest = parseNode(rest)
			n.Es = append(n.Es, e)
		}
		return n, rest
	}
	panic("bad tree token " + t)
}

// toMessage builds the value through the public API of the proto package.
func (n *Node) toMessage() *proto.Message {
	switch n.Kind {
	case 's':
		return proto.NewMessageWithType(proto.StringMessage).SetBytes(n.P)
	case 'e':
		return proto.NewMessageWithType(proto.ErrorMessage).SetBytes(n.P)
	case 'i':
		return proto.NewMessageWithType(proto.IntegerMessage).SetBytes(n.P)
	case 'b':
		p := n.P
		if p == nil {
			p = []byte{}
		}
		return proto.NewMessageWithType(proto.BulkMessage).SetBytes(p)
	case 'n':
		return proto.NewMessageWithType(proto.BulkMessage).SetBytes(nil)
	case 'a':
		m := proto.NewMessageWithType(proto.ArrayMessage).SetArray(proto.NewArray())
		for _, e := range n.Es {
			if err := m.Append(e.toMessage()); err != nil {
				panic(err)
			}
		}
		return m
	case 'z':
		return nil
	case 'Z':
		return proto.NewMessageWithType(proto.ArrayMessage)
	}
	panic("bad node kind")
}

// noAbsent reports whether the tree is free of nil messages and nil arrays.
func (n *Node) noAbsent() bool {
	if n.Kind == 'z' || n.Kind == 'Z' {
		return false
	}
	for _, e := range n.Es {
		if !e.noAbsent() {
			return false
		}
	}
	return true
}

// buildIncremental builds the same message top-down, the way an application that fills a reply step by step does: a
// nested array is appended to its parent before it is filled, payloads are set after the message was appended, and
// observe() is called after every step (the caller serializes the root there, so every later step changes a value
// that was already serialized once).
func (n *Node) buildIncremental(observeRoot func(root *proto.Message)) *proto.Message {
	var root *proto.Message
	observe := func() { observeRoot(root) }
	var fill func(n *Node, m *proto.Message)
	shell := func(n *Node) *proto.Message {
		switch n.Kind {
		case 's':
			return proto.NewMessageWithType(proto.StringMessage).SetBytes([]byte("?"))
		case 'e':
			return proto.NewMessageWithType(proto.ErrorMessage).SetBytes([]byte("?"))
		case 'i':
			return proto.NewMessageWithType(proto.IntegerMessage).SetBytes([]byte("0"))
		case 'b', 'n':
			return proto.NewMessageWithType(proto.BulkMessage).SetBytes([]byte("?"))
		case 'a':
			return proto.NewMessageWithType(proto.ArrayMessage).SetArray(proto.NewArray())
		}
		return n.toMessage()
	}
	fill = func(n *Node, m *proto.Message) {
		switch n.Kind {
		case 's', 'e', 'i':
			m.SetBytes(n.P)
			observe()
		case 'b':
			p := n.P
			if p == nil {
				p = []byte{}
			}
			m.SetBytes(p)
			observe()
		case 'n':
			m.SetBytes(nil)
			observe()
		case 'a':
			for _, e := range n.Es {
				c := shell(e)
				if err := m.Append(c); err != nil {
					panic(err)
				}
				observe()
				fill(e, c)
			}
		}
	}
	root = shell(n)
	observe()
	fill(n, root)
	return root
}

// fromMessage converts a parsed message into a Node using only the public accessors.
func fromMessage(m *proto.Message) *Node {
	if m == nil {
		return &Node{Kind: 'z'}
	}
	b, _ := m.Bytes()
	switch m.Type {
	case proto.StringMessage:
		return &Node{Kind: 's', P: b}
	case proto.ErrorMessage:
		return &Node{Kind: 'e', P: b}
	case proto.IntegerMessage:
		return &Node{Kind: 'i', P: b}
	case proto.BulkMessage:
		if m.IsNil() {
			return &Node{Kind: 'n'}
		}
		return &Node{Kind: 'b', P: b}
	case proto.ArrayMessage:
		arr, err := m.Array()
		if err != nil || arr == nil {
			return &Node{Kind: 'Z'}
		}
		// Copy through RESP-independent iteration: NextMessages consumes the cursor, which is fine here.
		msgs, _ := arr.NextMessages()
		n := &Node{Kind: 'a', Es: []*Node{}}
		for _, e := range msgs {
			n.Es = append(n.Es, fromMessage(e))
		}
		return n
	}
	return &Node{Kind: '?', P: []byte(fmt.Sprint(m.Type))}
}

// refEnc is the harness' own RESP2 encoder (written from the protocol specification, used as an oracle).
func (n *Node) refEnc(out *[]byte) {
	switch n.Kind {
	case 's':
		*out = append(append(append(*out, '+'), n.P...), '\r', '\n')
	case 'e':
		*out = append(append(append(*out, '-'), n.P...), '\r', '\n')
	case 'i':
		*out = append(append(append(*out, ':'), n.P...), '\r', '\n')
	case 'b':
		*out = append(*out, '$')
		*out = append(*out, strconv.Itoa(len(n.P))...)
		*out = append(*out, '\r', '\n')
		*out = append(*out, n.P...)
		*out = append(*out, '\r', '\n')
	case 'n':
		*out = append(*out, "$-1\r\n"...)
	case 'N': // the null array
		*out = append(*out, "*-1\r\n"...)
	case 'a':
		*out = append(*out, '*')
		*out = append(*out, strconv.Itoa(len(n.Es))...)
		*out = append(*out, '\r', '\n')
		for _, e := range n.Es {
			e.refEnc(out)
		}
	}
}

func (n *Node) equal(o *Node) bool {
	// the parser hands a null array (*-1) out as an array without elements
	if n.Kind == 'N' {
		n = &Node{Kind: 'a', Es: []*Node{}}
	}
	if o.Kind == 'N' {
		o = &Node{Kind: 'a', Es: []*Node{}}
	}
	if n.Kind != o.Kind || string(n.P) != string(o.P) || len(n.Es) != len(o.Es) {
		return false
	}
	for i := range n.Es {
		if !n.Es[i].equal(o.Es[i]) {
			return false
		}
	}
	return true
}
