package main

import (
	"fmt"
	"strings"
	"time"

	exserver "github.com/cybergarage/go-redis/examples/go-redisd/server"
)

func init() {
	properties["C18"] = &Property{Gen: genC18, Run: runC18}
	opRunners["xserve"] = runC18
}

// runXServe serves one scripted connection on the bundled example server and returns the replies.
func runXServe(stream []byte) (obs string, panicked string, hung bool, conns int) {
	log := &eventLog{}
	srv := exserver.NewServer()
	conn := &scriptConn{log: log, segs: [][]byte{stream}}
	done := make(chan struct{})
	go func() {
		defer close(done)
		defer func() {
			if r := recover(); r != nil {
				panicked = fmt.Sprint(r)
			}
		}()
		srv.VerifServeConn(conn, nil)
	}()
	select {
	case <-done:
	case <-time.After(10 * time.Second):
		return "spin", "", true, 0
	}
	return strings.Join(log.evs, " "), panicked, false, len(srv.Conns())
}

func xserveLine(reqs [][][]byte) string {
	var b []byte
	for _, argv := range reqs {
		b = append(b, requestBytes(argv, nil)...)
	}
	return "xserve | " + hx(b) + " | " + floatTable(reqs...)
}

// many returns cmd key m0 m1 ... m(n-1) (optionally with a score or value in front of / behind every member)
func many(cmd, key string, n int, form string) [][]byte {
	out := bs(cmd, key)
	for i := 0; i < n; i++ {
		m := fmt.Sprintf("m%02d", i)
		switch form {
		case "score":
			out = append(out, []byte(fmt.Sprint(i%7)), []byte(m))
		case "value":
			out = append(out, []byte(m), []byte(fmt.Sprint(i)))
		default:
			out = append(out, []byte(m))
		}
	}
	return out
}

func bs(args ...string) [][]byte {
	out := make([][]byte, len(args))
	for i, a := range args {
		out[i] = []byte(a)
	}
	return out
}

// small command menus per data type (each key is used with one type)
func menuStrings() [][][]byte {
	return [][][]byte{bs("SET", "s1", "v"), bs("SET", "s1", "a\r\n+OK"), bs("GET", "s1"), bs("SETNX", "s1", "w"), bs("GETSET", "s1", "x"), bs("APPEND", "s1", "yz"),
		bs("STRLEN", "s1"), bs("GETRANGE", "s1", "0", "-1"), bs("GETRANGE", "s1", "1", "5"), bs("GETRANGE", "s1", "-9223372036854775808", "9223372036854775807"), bs("GETRANGE", "s1", "9223372036854775807", "-9223372036854775808"), bs("INCRBY", "s1", "9223372036854775807"), bs("DECRBY", "s1", "-9223372036854775808"), bs("MSET", "s1", "1", "s2", "2"), bs("MSETNX", "s1", "3", "s2", "4"), bs("MGET", "s1", "s2", "s3"),
		bs("INCR", "s1"), bs("DECRBY", "s1", "5"), bs("SET", "s1", "9223372036854775807"), bs("DEL", "s1"), bs("EXISTS", "s1", "s1", "s2"), bs("RENAME", "s1", "s1"), bs("RENAME", "s1", "s2"),
		bs("RENAMENX", "s1", "s2"), bs("RENAMENX", "s1", "s1"), bs("TYPE", "s1"), bs("KEYS", "s*"), bs("KEYS", "s?"), bs("SET", "s2", ""), bs("GET", "s2"),
		// empty values and a key only ever touched through derived commands
		bs("APPEND", "s3", ""), bs("APPEND", "s1", ""), bs("EXISTS", "s3"), bs("GET", "s3"), bs("SETNX", "s3", "n"), bs("MSETNX", "s3", "m"), bs("GETSET", "s3", ""), bs("STRLEN", "s3"),
		bs("INCRBY", "s3", "0"), bs("DECRBY", "s3", "0"), bs("MSETNX", "s3", "first", "s3", "last"), bs("MSETNX", "s4", "1", "s3", "2", "s4", "3"), bs("MSET", "s3", "1", "s3", "2"), bs("GET", "s4"), bs("DEL", "s4"), bs("GETRANGE", "s3", "0", "0"), bs("DEL", "s3"), bs("MSET", "s3", ""), bs("MGET", "s3", "s3")}
}
func menuHashes() [][][]byte {
	return [][][]byte{bs("HSET", "h1", "f", "v"), bs("HSET", "h1", "g", "w"), bs("HSET", "h1", "f", "x"), bs("HSETNX", "h1", "f", "y"), bs("HSETNX", "h1", "n", "y"), bs("HGET", "h1", "f"), bs("HGET", "h1", "zz"),
		bs("HDEL", "h1", "f"), bs("HDEL", "h1", "f", "g", "f", "n"), bs("HGETALL", "h1"), bs("HKEYS", "h1"), bs("HVALS", "h1"), bs("HLEN", "h1"), bs("HEXISTS", "h1", "f"), bs("HSTRLEN", "h1", "f"),
		bs("HMSET", "h1", "a", "1", "b", "2", "a", "3"), bs("HMGET", "h1", "a", "b", "c", "a"), bs("EXISTS", "h1"), bs("TYPE", "h1"), bs("DEL", "h1"), bs("RENAME", "h1", "h2"), bs("HGETALL", "h2"), bs("KEYS", "*"),
		// the renamed hash is used further, emptied, renamed back
		many("HMSET", "h1", 20, "value"), many("HMGET", "h1", 24, ""), bs("HMSET", "h1", "dupf", "1", "dupf", "2"), bs("HGET", "h1", "dupf"), many("HDEL", "h1", 20, ""),
		bs("HDEL", "h2", "f", "g", "n", "a", "b"), bs("HDEL", "h2", "f"), bs("HSET", "h2", "f", "2"), bs("HLEN", "h2"), bs("EXISTS", "h1", "h2"), bs("RENAME", "h2", "h1"), bs("DEL", "h2")}
}
func menuLists() [][][]byte {
	return [][][]byte{bs("RPUSH", "l1", "a"), bs("RPUSH", "l1", "b", "c"), bs("LPUSH", "l1", "x", "y"), bs("LPUSHX", "l1", "p"), bs("RPUSHX", "l2", "q"), bs("LPOP", "l1"), bs("RPOP", "l1"),
		bs("LPOP", "l1", "2"), bs("RPOP", "l1", "3"), bs("LPOP", "l1", "9223372036854775807"), bs("RPOP", "l1", "4000000000000"), bs("RPOP", "l1", "10000000000000"), bs("LPOP", "l1", "17592186044416"), bs("LPOP", "l1", "8796093022209"), bs("RPOP", "l1", "1099511627776"), bs("LRANGE", "l1", "0", "-1"), bs("LRANGE", "l1", "1", "1"), bs("LRANGE", "l1", "-2", "10"), bs("LRANGE", "l1", "3", "1"),
		bs("LRANGE", "l1", "-100", "100"), bs("LRANGE", "l1", "-9223372036854775808", "9223372036854775807"), bs("LRANGE", "l1", "9223372036854775807", "-9223372036854775808"), bs("LINDEX", "l1", "9223372036854775807"), bs("LINDEX", "l1", "-9223372036854775808"), bs("LINDEX", "l1", "0"), bs("LINDEX", "l1", "-1"), bs("LINDEX", "l1", "7"), bs("LLEN", "l1"), bs("LLEN", "l2"), bs("EXISTS", "l1", "l2"), bs("TYPE", "l1"),
		bs("DEL", "l1"), bs("RENAME", "l1", "l2"), bs("LRANGE", "l2", "0", "-1"), bs("KEYS", "l*"),
		// the renamed list is used further, drained, renamed back
		many("RPUSH", "l1", 20, ""), many("LPUSH", "l1", 17, ""), bs("LRANGE", "l1", "15", "18"), bs("LINDEX", "l1", "16"), bs("LPOP", "l1", "18"), bs("RPOP", "l1", "19"),
		bs("LPOP", "l2"), bs("RPOP", "l2"), bs("LPOP", "l2", "5"), bs("RPUSH", "l2", "z"), bs("RENAME", "l2", "l1"), bs("DEL", "l2"), bs("TYPE", "l2")}
}
func menuSets() [][][]byte {
	return [][][]byte{bs("SADD", "t1", "a"), bs("SADD", "t1", "b", "a", "b", "c"), bs("SREM", "t1", "a"), bs("SREM", "t1", "a", "b", "c", "a"), bs("SMEMBERS", "t1"), bs("SCARD", "t1"),
		bs("SISMEMBER", "t1", "a"), bs("SISMEMBER", "t1", "zz"), bs("SMEMBERS", "t2"), bs("SCARD", "t2"), bs("EXISTS", "t1", "t2"), bs("TYPE", "t1"), bs("DEL", "t1"), bs("RENAME", "t1", "t2"), bs("KEYS", "t?"),
		many("SADD", "t1", 20, ""), many("SADD", "t1", 33, ""), bs("SADD", "t1", "dup", "dup"), bs("SADD", "t1", "n1", "n2", "n1", "m03"), bs("SREM", "t1", "dup"), many("SREM", "t1", 33, ""),
		bs("SREM", "t2", "a", "b", "c"), bs("SREM", "t2", "a"), bs("SADD", "t2", "x"), bs("RENAME", "t2", "t1"), bs("DEL", "t2"), bs("TYPE", "t2")}
}
func menuZSets() [][][]byte {
	return [][][]byte{bs("ZADD", "z1", "1", "a"), bs("ZADD", "z1", "2", "b", "1", "c"), bs("ZADD", "z1", "2", "a"), bs("ZADD", "z1", "1", "b", "0.5", "d"), bs("ZADD", "z1", "-1", "e", "1.5", "a"),
		bs("ZREM", "z1", "a"), bs("ZREM", "z1", "a", "b", "zz", "a"), bs("ZSCORE", "z1", "a"), bs("ZSCORE", "z1", "zz"), bs("ZSCORE", "z2", "a"), bs("ZINCRBY", "z1", "2", "a"), bs("ZINCRBY", "z1", "-0.5", "n"),
		// scores that a single-precision float cannot hold (2^24+1, a half above 10^6, a sum beyond 2^24)
		bs("ZADD", "z1", "16777217", "big", "1000000.5", "half", "-16777219", "neg"), bs("ZINCRBY", "z1", "16777216", "a"), bs("ZINCRBY", "z1", "1", "big"),
		bs("ZSCORE", "z1", "big"), bs("ZSCORE", "z1", "half"), bs("ZRANGEBYSCORE", "z1", "1000000", "+inf", "WITHSCORES"), bs("ZRANGE", "z1", "-3", "-1", "WITHSCORES"),
		bs("ZCARD", "z1"), bs("ZCARD", "z2"), bs("ZRANGE", "z1", "0", "-1"), bs("ZRANGE", "z1", "0", "-1", "WITHSCORES"), bs("ZRANGE", "z1", "1", "2"), bs("ZRANGE", "z1", "-2", "-1"), bs("ZRANGE", "z1", "2", "1"), bs("ZRANGE", "z1", "-9223372036854775808", "9223372036854775807"), bs("ZREVRANGE", "z1", "-9223372036854775808", "9223372036854775807", "WITHSCORES"), bs("ZRANGEBYSCORE", "z1", "-inf", "+inf", "LIMIT", "9223372036854775807", "1"), bs("ZRANGEBYSCORE", "z1", "-inf", "+inf", "LIMIT", "1", "9223372036854775807"), bs("ZREVRANGEBYSCORE", "z1", "+inf", "-inf", "LIMIT", "1", "9223372036854775807"),
		bs("ZRANGE", "z1", "0", "-1", "REV"), bs("ZRANGE", "z1", "0", "0", "REV"), bs("ZRANGE", "z1", "1", "2", "rev", "WITHSCORES"), bs("ZRANGE", "z1", "-2", "-1", "REV"),
		bs("ZREVRANGE", "z1", "0", "0"), bs("ZREVRANGE", "z1", "0", "-1", "WITHSCORES"), bs("ZREVRANGE", "z1", "1", "5"), bs("ZRANGEBYSCORE", "z1", "-inf", "+inf"), bs("ZRANGEBYSCORE", "z1", "1", "2"),
		bs("ZRANGEBYSCORE", "z1", "(1", "2"), bs("ZRANGEBYSCORE", "z1", "1", "(2", "WITHSCORES"), bs("ZRANGEBYSCORE", "z1", "-inf", "+inf", "LIMIT", "1", "1"), bs("ZRANGEBYSCORE", "z1", "0", "5", "LIMIT", "5", "2"),
		bs("ZRANGEBYSCORE", "z1", "0", "5", "LIMIT", "0", "-1"), bs("ZREVRANGEBYSCORE", "z1", "2", "1"), bs("ZREVRANGEBYSCORE", "z1", "+inf", "-inf", "WITHSCORES"), bs("ZREVRANGEBYSCORE", "z1", "(2", "(1"),
		bs("ZREVRANGEBYSCORE", "z1", "(2", "1"), bs("ZREVRANGEBYSCORE", "z1", "2", "(1", "WITHSCORES"), bs("ZREVRANGEBYSCORE", "z1", "+inf", "-inf", "LIMIT", "0", "1"),
		bs("ZREVRANGEBYSCORE", "z1", "5", "0", "WITHSCORES", "LIMIT", "1", "2"),
		bs("EXISTS", "z1", "z2"), bs("TYPE", "z1"), bs("DEL", "z1"), bs("RENAME", "z1", "z2"), bs("ZRANGE", "z2", "0", "-1"), bs("KEYS", "z*"),
		many("ZADD", "z1", 20, "score"), many("ZADD", "z1", 33, "score"), bs("ZADD", "z1", "1", "dup", "2", "dup"), bs("ZADD", "z1", "5", "m03", "5", "m04", "5", "m03"), bs("ZSCORE", "z1", "dup"), bs("ZRANGE", "z1", "14", "18", "WITHSCORES"), many("ZREM", "z1", 33, ""),
		bs("ZREM", "z2", "a", "b", "c", "d", "e", "n"), bs("ZREM", "z2", "a"), bs("ZADD", "z2", "1", "q"), bs("RENAME", "z2", "z1"), bs("DEL", "z2"), bs("TYPE", "z2")}
}

func genC18(tier string, seed uint64, emit func(string)) {
	r := NewRng(seed)
	menus := [][][][]byte{menuStrings(), menuHashes(), menuLists(), menuSets(), menuZSets()}
	// short programs enumerated exhaustively per data type: all programs of length <= 2 (quick) / 3 (thorough)
	depth := 2
	if tier == "thorough" {
		depth = 3
	}
	for _, menu := range menus {
		var rec func(prefix [][][]byte, d int)
		rec = func(prefix [][][]byte, d int) {
			if len(prefix) > 0 {
				emit(xserveLine(prefix))
			}
			if d == 0 {
				return
			}
			for _, c := range menu {
				rec(append(append([][][]byte{}, prefix...), c), d-1)
			}
		}
		rec(nil, depth)
	}
	// longer random programs, one type or all types mixed, 1..40 commands
	n := 1500
	if tier == "thorough" {
		n = 60000
	}
	for i := 0; i < n; i++ {
		var menu [][][]byte
		if r.Chance(1, 3) {
			for _, m := range menus {
				menu = append(menu, m...)
			}
		} else {
			menu = menus[r.Intn(len(menus))]
		}
		var prog [][][]byte
		for j := 1 + r.Intn(40); j > 0; j-- {
			prog = append(prog, menu[r.Intn(len(menu))])
		}
		emit(xserveLine(prog))
	}
}

func runC18(toks []string) Result {
	secs := splitSections(toks[1:])
	stream := unhx(secs[1][0])
	obs, panicked, hung, conns := runXServe(stream)
	oracle := "na"
	switch {
	case hung:
		oracle = "fail:example server did not return"
	case panicked != "":
		oracle = "fail:panic escaped the connection loop: " + trunc(panicked, 80)
	case conns != 0:
		oracle = "fail:connection still registered"
	}
	n := strings.Count(obs, "wr:")
	return Result{Obs: obs, Oracle: oracle, Tags: []string{"nt", "cmds" + bucket(n)}}
}
