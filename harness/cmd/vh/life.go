package main

import (
	"bytes"
	"crypto/ecdsa"
	"crypto/elliptic"
	"crypto/rand"
	"crypto/tls"
	"crypto/x509"
	"crypto/x509/pkix"
	"encoding/pem"
	"fmt"
	"io"
	"math/big"
	"net"
	"os"
	"path/filepath"
	"runtime"
	"strconv"
	"strings"
	"sync"
	"time"

	"github.com/cybergarage/go-redis/redis"
	"github.com/cybergarage/go-redis/redis/auth"
)

// Lifecycle harness (C09, C15, C19): a real server on loopback ports, driven action by action.

// ---------------------------------------------------------------------------------------------------
// certificates
// ---------------------------------------------------------------------------------------------------

type pki struct {
	certFile, keyFile, caFile string
	foreignCAFile              string
	caDER, foreignDER         []byte
	filesOnce                 sync.Once
	caPool                    *x509.CertPool
	serverCert                tls.Certificate
	client                    map[string]tls.Certificate // good, wrongcn, expired, foreign, selfsigned, intercn
}

var (
	pkiOnce sync.Once
	thePKI  *pki
)

func mkCert(tmpl, parent *x509.Certificate, pub *ecdsa.PublicKey, parentKey *ecdsa.PrivateKey) []byte {
	der, err := x509.CreateCertificate(rand.Reader, tmpl, parent, pub, parentKey)
	if err != nil {
		panic(err)
	}
	return der
}

func getPKI() *pki {
	pkiOnce.Do(func() {
		now := time.Now()
		serial := int64(1)
		next := func() *big.Int { serial++; return big.NewInt(serial) }
		newKey := func() *ecdsa.PrivateKey {
			k, err := ecdsa.GenerateKey(elliptic.P256(), rand.Reader)
			if err != nil {
				panic(err)
			}
			return k
		}
		caTmpl := func(cn string) *x509.Certificate {
			return &x509.Certificate{SerialNumber: next(), Subject: pkix.Name{CommonName: cn}, NotBefore: now.Add(-time.Hour), NotAfter: now.Add(24 * time.Hour),
				IsCA: true, BasicConstraintsValid: true, KeyUsage: x509.KeyUsageCertSign | x509.KeyUsageDigitalSignature}
		}
		leafTmpl := func(cn string, notAfter time.Time) *x509.Certificate {
			return &x509.Certificate{SerialNumber: next(), Subject: pkix.Name{CommonName: cn}, NotBefore: now.Add(-2 * time.Hour), NotAfter: notAfter,
				KeyUsage: x509.KeyUsageDigitalSignature, ExtKeyUsage: []x509.ExtKeyUsage{x509.ExtKeyUsageClientAuth, x509.ExtKeyUsageServerAuth},
				DNSNames: []string{"localhost"}, IPAddresses: []net.IP{net.ParseIP("127.0.0.1")}}
		}
		caKey, foreignKey, interKey := newKey(), newKey(), newKey()
		ca := caTmpl("verif-ca")
		caDER := mkCert(ca, ca, &caKey.PublicKey, caKey)
		caCert, _ := x509.ParseCertificate(caDER)
		foreign := caTmpl("foreign-ca")
		foreignDER := mkCert(foreign, foreign, &foreignKey.PublicKey, foreignKey)
		foreignCert, _ := x509.ParseCertificate(foreignDER)
		// an intermediate CA that itself carries the common name of the rule
		inter := caTmpl("client")
		interDER := mkCert(inter, caCert, &interKey.PublicKey, caKey)
		interCert, _ := x509.ParseCertificate(interDER)
		p := &pki{caPool: x509.NewCertPool(), client: map[string]tls.Certificate{}}
		p.caPool.AddCert(caCert)
		leaf := func(cn string, notAfter time.Time, parent *x509.Certificate, parentKey *ecdsa.PrivateKey, chain ...[]byte) tls.Certificate {
			k := newKey()
			der := mkCert(leafTmpl(cn, notAfter), parent, &k.PublicKey, parentKey)
			return tls.Certificate{Certificate: append([][]byte{der}, chain...), PrivateKey: k}
		}
		ok := now.Add(12 * time.Hour)
		p.serverCert = leaf("localhost", ok, caCert, caKey)
		p.client["good"] = leaf("client", ok, caCert, caKey)
		p.client["wrongcn"] = leaf("somebody-else", ok, caCert, caKey)
		p.client["expired"] = leaf("client", now.Add(-time.Hour), caCert, caKey)
		p.client["foreign"] = leaf("client", ok, foreignCert, foreignKey)
		p.client["intercn"] = leaf("leaf-without-the-name", ok, interCert, interKey, interDER)
		// a verified leaf with another name that drags certificates carrying the rule's name along in its Certificate
		// message (crypto/tls ignores certificates no chain needs): a stray self-signed one, and a valid leaf of the CA
		strayKey := newKey()
		strayT := leafTmpl("client", ok)
		strayDER := mkCert(strayT, strayT, &strayKey.PublicKey, strayKey)
		p.client["straycn"] = leaf("somebody-else", ok, caCert, caKey, strayDER)
		p.client["straygood"] = leaf("somebody-else", ok, caCert, caKey, p.client["good"].Certificate[0])
		ss := newKey()
		ssT := leafTmpl("client", ok)
		ssDER := mkCert(ssT, ssT, &ss.PublicKey, ss)
		p.client["selfsigned"] = tls.Certificate{Certificate: [][]byte{ssDER}, PrivateKey: ss}
		p.caDER, p.foreignDER = caDER, foreignDER
		thePKI = p
	})
	return thePKI
}

// ensureFiles writes the PKI as PEM files (once per process), for servers configured through certificate files, and a
// "host trust store" that contains the foreign CA (as a host's store contains the public CAs): the server must trust
// the configured CA only, whatever the host trusts.
func (p *pki) ensureFiles() {
	p.filesOnce.Do(func() {
		dir := os.Getenv("VH_RUN_DIR")
		if dir == "" {
			dir = os.TempDir()
		}
		dir, err := os.MkdirTemp(dir, "vh-pki-")
		if err != nil {
			return
		}
		pemOf := func(typ string, der []byte) []byte { return pem.EncodeToMemory(&pem.Block{Type: typ, Bytes: der}) }
		keyDER, _ := x509.MarshalECPrivateKey(p.serverCert.PrivateKey.(*ecdsa.PrivateKey))
		p.certFile, p.keyFile, p.caFile = filepath.Join(dir, "server.crt"), filepath.Join(dir, "server.key"), filepath.Join(dir, "ca.crt")
		os.WriteFile(p.certFile, pemOf("CERTIFICATE", p.serverCert.Certificate[0]), 0o600)
		os.WriteFile(p.keyFile, pemOf("EC PRIVATE KEY", keyDER), 0o600)
		os.WriteFile(p.caFile, pemOf("CERTIFICATE", p.caDER), 0o600)
		p.foreignCAFile = filepath.Join(dir, "other-ca.crt")
		os.WriteFile(p.foreignCAFile, pemOf("CERTIFICATE", p.foreignDER), 0o600)
		trust := filepath.Join(dir, "host-trust.pem")
		os.WriteFile(trust, pemOf("CERTIFICATE", p.foreignDER), 0o600)
		os.Setenv("SSL_CERT_FILE", trust)
		os.Setenv("SSL_CERT_DIR", filepath.Join(dir, "no-such-dir"))
	})
}

// ---------------------------------------------------------------------------------------------------
// the server under test
// ---------------------------------------------------------------------------------------------------

type lifeClient struct {
	conn net.Conn
	tls  bool
}

type lifeRun struct {
	oldpw     string
	sessions  map[string]tls.ClientSessionCache
	scheduled bool
	stormSeq  int
	srv       *redis.Server
	kept      []net.Conn // client sockets of connections the server has ended, kept open by their clients
	double    *double
	plain     int
	tlsPort   int
	cn        string
	pw        string
	clients   map[string]*lifeClient
	baseline  int
}

var portCounter int

// freePort picks a port from a range derived from the process id (so that the harness processes running side
// by side do not race for the same port) and checks that it can be bound right now.
func freePort() int {
	for i := 0; i < 2000; i++ {
		portCounter++
		p := 10000 + (os.Getpid()*131+portCounter*7)%22000 // below the ephemeral range, which client sockets draw from
		l, err := net.Listen("tcp", "127.0.0.1:"+strconv.Itoa(p))
		if err != nil {
			continue
		}
		l.Close()
		return p
	}
	panic("no free port")
}

func frameworkGoroutines() int {
	buf := make([]byte, 1<<20)
	n := runtime.Stack(buf, true)
	cnt := 0
	for _, g := range strings.Split(string(buf[:n]), "\n\n") {
		if strings.Contains(g, "go-redis/redis.(*Server)") && !strings.Contains(g, "verifharness") {
			cnt++
		}
	}
	return cnt
}

func newLifeRun(cfg []string) *lifeRun {
	lr := &lifeRun{clients: map[string]*lifeClient{}}
	lr.baseline = frameworkGoroutines() // goroutines a previous case of this process may have left behind
	lr.srv = redis.NewServer()
	lr.double = &double{log: &eventLog{}, script: []scriptedResult{{msg: &Node{Kind: 'b', P: []byte("v")}}}}
	lr.srv.SetCommandHandler(lr.double)
	lr.srv.SetPort(0)
	for _, t := range cfg {
		switch {
		case t == "plain":
			lr.plain = freePort()
			lr.srv.SetPort(lr.plain)
		case t == "tls", t == "tlsfiles":
			lr.tlsPort = freePort()
			lr.srv.SetTLSPort(lr.tlsPort)
			p := getPKI()
			if t == "tlsfiles" {
				p.ensureFiles()
			}
			if t == "tlsfiles" && p.certFile != "" {
				// configured the way an application configures it: certificate, key and CA files (NewTLSConfigFrom)
				lr.srv.SetTLSCertFile(p.certFile)
				lr.srv.SetTLSKeyFile(p.keyFile)
				lr.srv.SetTLSCaCertFile(p.caFile)
			} else {
				lr.srv.SetTLSConfig(&tls.Config{MinVersion: tls.VersionTLS12, Certificates: []tls.Certificate{p.serverCert}, ClientCAs: p.caPool,
					ClientAuth: tls.RequireAndVerifyClientCert})
			}
		case strings.HasPrefix(t, "cn="):
			lr.cn = t[3:]
			lr.srv.AddAuthenticator(auth.NewCertificateAuthenticatorWith(auth.WithCommonName(lr.cn)))
		case strings.HasPrefix(t, "pw="):
			lr.pw = t[3:]
			lr.srv.SetRequirePass(lr.pw)
		case strings.HasPrefix(t, "delay="):
			// forced schedule (hook H2): the goroutine that reaches one of these points is held back for the given time,
			// so that the others overtake it: delay=<point>:<ms>[,<point>:<ms>...]
			delays := map[string]time.Duration{}
			for _, d := range strings.Split(t[6:], ",") {
				if i := strings.IndexByte(d, ':'); i > 0 {
					ms, _ := strconv.Atoi(d[i+1:])
					delays[d[:i]] = time.Duration(ms) * time.Millisecond
				}
			}
			redis.VerifSetSchedule(func(point string) {
				if d, ok := delays[point]; ok {
					time.Sleep(d)
				}
			})
			lr.scheduled = true
		}
	}
	return lr
}

func (lr *lifeRun) dial(kind string, cert string) (net.Conn, error) {
	d := net.Dialer{Timeout: 2 * time.Second}
	if kind == "p" {
		return d.Dial("tcp", "127.0.0.1:"+strconv.Itoa(lr.plain))
	}
	p := getPKI()
	cfg := &tls.Config{RootCAs: p.caPool, ServerName: "localhost", MinVersion: tls.VersionTLS12}
	// clients keep a session cache per credential, as real clients do: a second connection with the same credential
	// resumes the TLS session of the first (no certificate is presented again on a resumed session)
	if lr.sessions == nil {
		lr.sessions = map[string]tls.ClientSessionCache{}
	}
	if lr.sessions[cert] == nil {
		lr.sessions[cert] = tls.NewLRUClientSessionCache(8)
	}
	cfg.ClientSessionCache = lr.sessions[cert]
	if cert != "none" {
		c := p.client[cert]
		cfg.Certificates = []tls.Certificate{c}
	}
	raw, err := d.Dial("tcp", "127.0.0.1:"+strconv.Itoa(lr.tlsPort))
	if err != nil {
		return nil, err
	}
	tc := tls.Client(raw, cfg)
	tc.SetDeadline(time.Now().Add(3 * time.Second))
	if err := tc.Handshake(); err != nil {
		raw.Close()
		return nil, fmt.Errorf("handshake: %w", err)
	}
	tc.SetDeadline(time.Time{})
	return tc, nil
}

// roundTrip sends a request and reads one reply frame (or reports how the connection ended).
func roundTrip(c net.Conn, req []byte) string {
	c.SetDeadline(time.Now().Add(3 * time.Second))
	defer c.SetDeadline(time.Time{})
	if _, err := c.Write(req); err != nil {
		return "werr"
	}
	var buf []byte
	tmp := make([]byte, 4096)
	for {
		if n, _, ok := refParse(buf); ok && n != nil {
			if n.Kind == 'e' {
				return "E"
			}
			return string(bytes.TrimRight(buf, "\r\n"))
		}
		n, err := c.Read(tmp)
		buf = append(buf, tmp[:n]...)
		if err != nil {
			if _, _, ok := refParse(buf); ok {
				continue
			}
			if err == io.EOF {
				return "eof"
			}
			if ne, ok := err.(net.Error); ok && ne.Timeout() {
				return "timeout"
			}
			return "rst"
		}
	}
}

func (lr *lifeRun) session(c net.Conn) string {
	if lr.pw != "" {
		if r := roundTrip(c, reqS("AUTH", lr.pw)); r != "+OK" {
			return "auth-" + r
		}
	}
	// GET reaches the handler double: "commands are executed" is visible in its call counter
	r := roundTrip(c, reqS("GET", "k"))
	if r == "$1\r\nv" {
		return "ok"
	}
	return r
}

func portFree(port int) bool {
	l, err := net.Listen("tcp", "127.0.0.1:"+strconv.Itoa(port))
	if err != nil {
		return false
	}
	l.Close()
	return true
}

func (lr *lifeRun) observe() string {
	read := func() string {
		plain, tl := "-", "-"
		if lr.plain != 0 {
			plain = map[bool]string{true: "closed", false: "open"}[portFree(lr.plain)]
		}
		if lr.tlsPort != 0 {
			tl = map[bool]string{true: "closed", false: "open"}[portFree(lr.tlsPort)]
		}
		return fmt.Sprintf("conns=%d,plain=%s,tls=%s,gor=%d,calls=%d", len(lr.srv.Conns()), plain, tl, frameworkGoroutines()-lr.baseline, lr.double.calls)
	}
	last := read()
	stable := 0
	for i := 0; i < 100 && stable < 3; i++ {
		time.Sleep(15 * time.Millisecond)
		cur := read()
		if cur == last {
			stable++
		} else {
			stable = 0
			last = cur
		}
	}
	return last
}

func (lr *lifeRun) clientAlive(cl *lifeClient) string {
	// a closed connection reads EOF/RST at once; an open idle one times out
	cl.conn.SetReadDeadline(time.Now().Add(150 * time.Millisecond))
	defer cl.conn.SetReadDeadline(time.Time{})
	one := make([]byte, 1)
	_, err := cl.conn.Read(one)
	if err == nil {
		return "data"
	}
	if ne, ok := err.(net.Error); ok && ne.Timeout() {
		return "up"
	}
	return "down"
}

func errTok(err error) string {
	if err == nil {
		return "ok"
	}
	return "err"
}

// guarded runs a lifecycle call with a watchdog: a call that does not return within 6 s is reported as "hang" (the
// open clients are then closed, so that the call can finish and the process is not left with a blocked server).
func (lr *lifeRun) guarded(call func() error) string {
	done := make(chan error, 1)
	go func() { done <- call() }()
	select {
	case err := <-done:
		return errTok(err)
	case <-time.After(6 * time.Second):
		for id, cl := range lr.clients {
			cl.conn.Close()
			delete(lr.clients, id)
		}
		select {
		case <-done:
		case <-time.After(10 * time.Second):
		}
		return "hang"
	}
}

func (lr *lifeRun) act(a string) string {
	f := strings.Split(a, ":")
	switch f[0] {
	case "start":
		return errTok(lr.srv.Start())
	case "stop":
		return lr.guarded(lr.srv.Stop)
	case "restart":
		return lr.guarded(lr.srv.Restart)
	case "stopstorm": // Stop while clients keep connecting: connect, one PING, stay connected
		halt := make(chan struct{})
		var wg sync.WaitGroup
		var mu sync.Mutex
		var conns []net.Conn
		addr := "127.0.0.1:" + strconv.Itoa(lr.plain)
		for i := 0; i < 4; i++ {
			wg.Add(1)
			go func() {
				defer wg.Done()
				buf := make([]byte, 64)
				for {
					select {
					case <-halt:
						return
					default:
					}
					c, err := net.DialTimeout("tcp", addr, 200*time.Millisecond)
					if err != nil {
						time.Sleep(100 * time.Microsecond)
						continue
					}
					c.SetDeadline(time.Now().Add(300 * time.Millisecond))
					c.Write(reqS("PING"))
					c.Read(buf)
					mu.Lock()
					conns = append(conns, c)
					mu.Unlock()
				}
			}()
		}
		time.Sleep(time.Duration(200+lr.stormSeq*137%1800) * time.Microsecond)
		lr.stormSeq++
		done := make(chan error, 1)
		go func() { done <- lr.srv.Stop() }()
		res := ""
		select {
		case err := <-done:
			res = errTok(err)
		case <-time.After(3 * time.Second):
			res = "hang"
		}
		close(halt)
		wg.Wait()
		for _, c := range conns {
			c.Close()
		}
		if res == "hang" {
			select {
			case <-done:
			case <-time.After(3 * time.Second):
			}
		}
		return res
	case "setpw": // setpw:<new>: the application changes the required password (takes effect with the next Start)
		lr.oldpw = lr.pw
		lr.pw = f[1]
		lr.srv.SetRequirePass(lr.pw)
		return "ok"
	case "setca": // setca:<main|foreign>: the application replaces the CA certificate file (takes effect with the next Start)
		p := getPKI()
		p.ensureFiles()
		file := p.caFile
		if f[1] == "foreign" {
			file = p.foreignCAFile
		}
		if err := lr.srv.SetTLSCaCertFile(file); err != nil {
			return "err"
		}
		return "ok"
	case "pingold": // pingold:<p|t>: a client that still presents the previous password
		c, err := lr.dial(f[1], "good")
		if err != nil {
			return "refused"
		}
		defer c.Close()
		wrong := lr.oldpw
		if wrong == "" {
			wrong = "not-the-password"
		}
		if r := roundTrip(c, reqS("AUTH", wrong)); r == "+OK" {
			return "accepted:" + roundTrip(c, reqS("PING"))
		}
		if r := roundTrip(c, reqS("PING")); r != "E" {
			return "unauthenticated-served:" + r
		}
		return "auth-E"
	case "ping": // ping:<p|t>[:cert]
		cert := "good"
		if len(f) > 2 {
			cert = f[2]
		}
		c, err := lr.dial(f[1], cert)
		if err != nil {
			if strings.Contains(err.Error(), "handshake") {
				return "rejected"
			}
			return "refused"
		}
		defer c.Close()
		r := lr.session(c)
		if r == "eof" || r == "rst" || r == "werr" || r == "auth-eof" || r == "auth-rst" || r == "auth-werr" {
			return "rejected"
		}
		return r
	case "open": // open:<p|t>:<id>
		c, err := lr.dial(f[1], "good")
		if err != nil {
			return "refused"
		}
		r := lr.session(c)
		if r != "ok" {
			c.Close()
			return r
		}
		lr.clients[f[2]] = &lifeClient{conn: c, tls: f[1] == "t"}
		return "ok"
	case "cclose":
		if cl := lr.clients[f[1]]; cl != nil {
			cl.conn.Close()
			delete(lr.clients, f[1])
		}
		return "ok"
	case "rst":
		if cl := lr.clients[f[1]]; cl != nil {
			// a TCP reset, also for TLS clients: no close_notify, the socket is aborted underneath the TLS layer
			raw := cl.conn
			if tc, ok := raw.(*tls.Conn); ok {
				raw = tc.NetConn()
			}
			if tc, ok := raw.(*net.TCPConn); ok {
				tc.SetLinger(0)
			}
			raw.Close()
			delete(lr.clients, f[1])
		}
		return "ok"
	case "unread": // the client pipelines requests and goes away without reading the replies
		if cl := lr.clients[f[1]]; cl != nil {
			var b []byte
			for i := 0; i < 200; i++ {
				b = append(b, reqS("PING")...)
			}
			cl.conn.SetDeadline(time.Now().Add(2 * time.Second))
			cl.conn.Write(b)
			time.Sleep(10 * time.Millisecond)
			cl.conn.Close()
			delete(lr.clients, f[1])
		}
		return "ok"
	case "quit":
		if cl := lr.clients[f[1]]; cl != nil {
			r := roundTrip(cl.conn, reqS("QUIT"))
			st := lr.clientAlive(cl)
			// the client keeps its socket: what the server releases after QUIT does not depend on the client closing too
			lr.kept = append(lr.kept, cl.conn)
			delete(lr.clients, f[1])
			return r + "/" + st
		}
		return "gone/down"
	case "bad": // malformed frame: the server drops the connection
		if cl := lr.clients[f[1]]; cl != nil {
			cl.conn.Write([]byte("?bogus\r\n"))
			st := lr.clientAlive(cl)
			lr.kept = append(lr.kept, cl.conn) // (the client keeps its socket, see quit)
			delete(lr.clients, f[1])
			return st
		}
		return "down"
	case "half", "halfcr", "halfbulk": // a partial request, then the client goes away
		if cl := lr.clients[f[1]]; cl != nil {
			part := "*2\r\n$3\r\nGET\r\n$1"
			switch f[0] {
			case "halfcr": // cut between the CR and the LF of a header line
				part = []string{"*2\r", "*2\r\n$3\r", "*2\r\n$3\r\nGET\r\n$1\r"}[len(f[1])%3]
			case "halfbulk": // cut inside the payload of a bulk string
				part = "*2\r\n$4\r\nECHO\r\n$10\r\nabc"
			}
			cl.conn.Write([]byte(part))
			cl.conn.Close()
			delete(lr.clients, f[1])
		}
		return "ok"
	case "stallreq": // the client sends part of a request and stays connected (the id's length selects the part)
		if cl := lr.clients[f[1]]; cl != nil {
			part := []string{"*2\r\n$4\r\nECHO\r\n$10\r\nabc", "*2\r\n$3", "*2\r"}[len(f[1])%3]
			cl.conn.Write([]byte(part))
			time.Sleep(5 * time.Millisecond)
		}
		return "ok"
	case "crash": // crash:<id>: the client's request makes the application's handler panic; the server drops this connection
		if cl := lr.clients[f[1]]; cl != nil {
			lr.double.panicKey = "boom!"
			r := roundTrip(cl.conn, reqS("GET", "boom!"))
			st := lr.clientAlive(cl)
			cl.conn.Close()
			delete(lr.clients, f[1])
			if st == "down" {
				return "down"
			}
			return st + ":" + r
		}
		return "gone"
	case "flood": // flood:<id>: requests with large replies, none of them read: the server's write to this client blocks
		if cl := lr.clients[f[1]]; cl != nil {
			req := requestBytes([][]byte{[]byte("ECHO"), bytes.Repeat([]byte{'x'}, 256<<10)}, nil)
			go func(c net.Conn) {
				c.SetWriteDeadline(time.Now().Add(1500 * time.Millisecond))
				for i := 0; i < 96; i++ {
					if _, err := c.Write(req); err != nil {
						break
					}
				}
				c.SetWriteDeadline(time.Time{})
			}(cl.conn)
			time.Sleep(1700 * time.Millisecond)
		}
		return "ok"
	case "drain": // drain:<id>: read until the connection ends (down) or nothing more arrives (up)
		if cl := lr.clients[f[1]]; cl != nil {
			buf := make([]byte, 1<<16)
			limit := time.Now().Add(8 * time.Second)
			for time.Now().Before(limit) {
				cl.conn.SetReadDeadline(time.Now().Add(400 * time.Millisecond))
				_, err := cl.conn.Read(buf)
				if err == nil {
					continue
				}
				cl.conn.SetReadDeadline(time.Time{})
				if ne, ok := err.(net.Error); ok && ne.Timeout() {
					return "up"
				}
				return "down"
			}
			return "up"
		}
		return "down"
	case "alive":
		if cl := lr.clients[f[1]]; cl != nil {
			return lr.clientAlive(cl)
		}
		return "down"
	case "cmd": // cmd:<id>: one more command on an open client
		if cl := lr.clients[f[1]]; cl != nil {
			r := roundTrip(cl.conn, reqS("GET", "k"))
			if r == "$1\r\nv" {
				return "ok"
			}
			return r
		}
		return "gone"
	case "portoff": // portoff:<p|t>: the application disables the port in the configuration while the server runs
		if f[1] == "t" {
			lr.srv.SetTLSPort(0)
		} else {
			lr.srv.SetPort(0)
		}
		return "ok"
	case "porton": // porton:<p|t>: ... and restores it
		if f[1] == "t" {
			lr.srv.SetTLSPort(lr.tlsPort)
		} else {
			lr.srv.SetPort(lr.plain)
		}
		return "ok"
	case "cfgport": // cfgport:<id>:<p|t>: a connected client disables the port with CONFIG SET
		if cl := lr.clients[f[1]]; cl != nil {
			name := "port"
			if f[2] == "t" {
				name = "tls-port"
			}
			if r := roundTrip(cl.conn, reqS("CONFIG", "SET", name, "0")); r != "+OK" {
				return r
			}
			return "ok"
		}
		return "gone"
	case "tlsbad": // tlsbad:<kind>[:id]
		return lr.tlsBad(f[1], f)
	case "obs":
		return lr.observe()
	}
	return "bad-action"
}

// tlsBad plays one of the faulty clients against the TLS port.
func (lr *lifeRun) tlsBad(kind string, f []string) string {
	addr := "127.0.0.1:" + strconv.Itoa(lr.tlsPort)
	raw := func() (net.Conn, error) { return net.DialTimeout("tcp", addr, 2*time.Second) }
	switch kind {
	case "plaintext", "garbage":
		c, err := raw()
		if err != nil {
			return "refused"
		}
		defer c.Close()
		if kind == "plaintext" {
			c.Write(reqS("GET", "k"))
		} else {
			c.Write([]byte{0x16, 0x03, 0x01, 0xff, 0xff, 0, 1, 2, 3, 4, 5, 6, 7})
		}
		c.SetReadDeadline(time.Now().Add(2 * time.Second))
		buf := make([]byte, 512)
		for {
			_, err := c.Read(buf)
			if err != nil {
				if ne, ok := err.(net.Error); ok && ne.Timeout() {
					return "hang"
				}
				return "rejected"
			}
		}
	case "abort": // ClientHello, then the client goes away
		c, err := raw()
		if err != nil {
			return "refused"
		}
		tc := tls.Client(c, &tls.Config{InsecureSkipVerify: true})
		go tc.Handshake()
		time.Sleep(20 * time.Millisecond)
		c.Close()
		return "rejected"
	case "stall": // connects and says nothing; stays open as client <id>
		c, err := raw()
		if err != nil {
			return "refused"
		}
		id := "stall"
		if len(f) > 2 {
			id = f[2]
		}
		lr.clients[id] = &lifeClient{conn: c}
		return "pending"
	default: // a complete handshake attempt with a certificate that must not be served
		c, err := lr.dial("t", kind)
		if err != nil {
			if strings.Contains(err.Error(), "handshake") {
				return "rejected"
			}
			return "refused"
		}
		defer c.Close()
		r := lr.session(c)
		// with TLS 1.3 the client's handshake completes before the server has judged its certificate: the
		// rejection then shows as the connection dying on the first request
		if r == "eof" || r == "rst" || r == "werr" || r == "auth-eof" || r == "auth-rst" || r == "auth-werr" {
			return "rejected"
		}
		return "served:" + r
	}
}

func (lr *lifeRun) shutdown() {
	for _, c := range lr.kept {
		c.Close()
	}
	if lr.scheduled {
		defer redis.VerifSetSchedule(nil)
	}
	for _, cl := range lr.clients {
		cl.conn.Close()
	}
	done := make(chan struct{})
	go func() { lr.srv.Stop(); close(done) }()
	select {
	case <-done:
	case <-time.After(3 * time.Second):
	}
}

func runLife(toks []string) (string, bool) {
	secs := splitSections(toks[1:])
	lr := newLifeRun(secs[0])
	defer lr.shutdown()
	var out []string
	hung := false
	for _, a := range secs[1] {
		res := make(chan string, 1)
		go func(a string) { res <- lr.act(a) }(a)
		select {
		case r := <-res:
			out = append(out, a+"="+r)
		case <-time.After(8 * time.Second):
			out = append(out, a+"=HANG")
			hung = true
		}
		if hung {
			break
		}
	}
	return strings.Join(out, " "), hung
}
