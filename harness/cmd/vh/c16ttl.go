package main

import (
	"bufio"
	"fmt"
	"net"
	"strconv"
	"sync"
	"time"

	exserver "github.com/cybergarage/go-redis/examples/go-redisd/server"
)

// case "snap ttl <keys> <clients> <ms> <seed>": a real example server (Start, so that whatever it runs in the background
// runs); every key gets a value and a time to live of one second; around the moment the time to live elapses <clients>
// clients keep writing the keys with plain SETs (which leave the key without a time to live); when they are done, and
// again later, every key holds the value of its last acknowledged SET - whether or not the store lets keys expire.
func runTTLSnap(toks []string) Result {
	keys, _ := strconv.Atoi(toks[2])
	clients, _ := strconv.Atoi(toks[3])
	tags := []string{"nt", "snap-ttl", "size" + bucket(keys)}
	fail := func(msg string) Result { return Result{Obs: "not-linearizable # ", Oracle: "fail:" + msg, Tags: tags} }
	srv := exserver.NewServer()
	port := freePort()
	srv.SetPort(port)
	if err := srv.Start(); err != nil {
		return fail("start: " + err.Error())
	}
	defer srv.Stop()
	dial := func() (net.Conn, *bufio.Reader, error) {
		c, err := net.DialTimeout("tcp", "127.0.0.1:"+strconv.Itoa(port), 2*time.Second)
		if err != nil {
			return nil, nil, err
		}
		c.SetDeadline(time.Now().Add(30 * time.Second))
		return c, bufio.NewReaderSize(c, 1<<16), nil
	}
	name := func(i int) string { return fmt.Sprintf("t:%05d", i) }
	// the keys get their value and a time to live of one second block by block, one block every 5 ms; one second (and
	// 0..49 ms) after its block got the time to live, each block is overwritten with plain SETs - so for two seconds there
	// are, at every moment, keys whose time to live has just elapsed and that are being written
	const blocks = 200
	per := (keys + blocks - 1) / blocks
	blockKeys := func(b int) (lo, hi int) {
		lo, hi = b*per, b*per+per
		if hi > keys {
			hi = keys
		}
		if lo > keys {
			lo = keys
		}
		return
	}
	c0, r0, err := dial()
	if err != nil {
		return fail("dial: " + err.Error())
	}
	defer c0.Close()
	t0 := time.Now().Add(20 * time.Millisecond)
	gotTTL := make([]time.Time, blocks)
	last := make([]int, keys)
	var wg sync.WaitGroup
	var mu sync.Mutex
	var werr string
	setErr := func(m string) {
		mu.Lock()
		if werr == "" {
			werr = m
		}
		mu.Unlock()
	}
	fillDone := make([]chan struct{}, blocks)
	for b := range fillDone {
		fillDone[b] = make(chan struct{})
	}
	wg.Add(1)
	go func() {
		defer wg.Done()
		for b := 0; b < blocks; b++ {
			time.Sleep(time.Until(t0.Add(time.Duration(b) * 5 * time.Millisecond)))
			lo, hi := blockKeys(b)
			var out []byte
			for i := lo; i < hi; i++ {
				out = append(out, reqS("SET", name(i), "old")...)
				out = append(out, reqS("EXPIRE", name(i), "1")...)
			}
			c0.Write(out)
			for k := 0; k < 2*(hi-lo); k++ {
				if _, err := readReply(r0); err != nil {
					setErr("filling: " + err.Error())
					break
				}
			}
			gotTTL[b] = time.Now()
			close(fillDone[b])
		}
	}()
	for cl := 0; cl < clients; cl++ {
		wg.Add(1)
		go func(cl int) {
			defer wg.Done()
			c, rd, err := dial()
			if err != nil {
				setErr(err.Error())
				return
			}
			defer c.Close()
			for b := cl; b < blocks; b += clients {
				<-fillDone[b]
				time.Sleep(time.Until(gotTTL[b].Add(time.Second + time.Duration(b*7%50)*time.Millisecond)))
				lo, hi := blockKeys(b)
				for round := 1; round <= 2; round++ {
					var out []byte
					for i := lo; i < hi; i++ {
						out = append(out, reqS("SET", name(i), strconv.Itoa(round))...)
					}
					c.SetDeadline(time.Now().Add(30 * time.Second))
					c.Write(out)
					for i := lo; i < hi; i++ {
						rep, err := readReply(rd)
						if err != nil || string(rep) != "+OK\r\n" {
							setErr(fmt.Sprintf("SET answered %q %v", rep, err))
							return
						}
						last[i] = round // acknowledged (only this client writes the keys of this block)
					}
				}
			}
		}(cl)
	}
	wg.Wait()
	if werr != "" {
		return fail("a client failed: " + werr)
	}
	check := func(when string) string {
		for lo := 0; lo < keys; lo += 500 {
			var out []byte
			n := 0
			for i := lo; i < keys && i < lo+500; i++ {
				out = append(out, reqS("GET", name(i))...)
				n++
			}
			c0.SetDeadline(time.Now().Add(30 * time.Second))
			c0.Write(out)
			for k := 0; k < n; k++ {
				rep, err := readReply(r0)
				if err != nil {
					return "reading back: " + err.Error()
				}
				i := lo + k
				if last[i] == 0 {
					continue
				}
				want := fmt.Sprintf("$%d\r\n%d\r\n", len(strconv.Itoa(last[i])), last[i])
				if string(rep) != want {
					return fmt.Sprintf("%s: GET %s answers %q; its last acknowledged write was SET %s %d, which leaves the key without a time to live, and nothing deleted it", when, name(i), rep, name(i), last[i])
				}
			}
		}
		return ""
	}
	if m := check("right after the writers finished"); m != "" {
		return fail(m)
	}
	time.Sleep(350 * time.Millisecond)
	if m := check("350 ms later"); m != "" {
		return fail(m)
	}
	return Result{Obs: "linearizable # ", Oracle: "ok", Tags: tags}
}

// case "snap start2 <clients> <incrs> 0 <seed>": a started example server on which the application calls Start a second
// time (which fails: the ports are its own, and leaves the running server as it is); then <clients> clients send <incrs>
// INCRs each on one key at the same time: the key ends at clients x incrs, every reply was given once.
func runStart2Snap(toks []string) Result {
	clients, _ := strconv.Atoi(toks[2])
	incrs, _ := strconv.Atoi(toks[3])
	tags := []string{"nt", "snap-start2"}
	fail := func(msg string) Result { return Result{Obs: "not-linearizable # ", Oracle: "fail:" + msg, Tags: tags} }
	srv := exserver.NewServer()
	port := freePort()
	srv.SetPort(port)
	if err := srv.Start(); err != nil {
		return fail("start: " + err.Error())
	}
	defer srv.Stop()
	if err := srv.Start(); err == nil {
		return fail("a second Start on the running server did not fail")
	}
	var wg sync.WaitGroup
	var mu sync.Mutex
	seen := map[string]int{}
	var werr string
	for cl := 0; cl < clients; cl++ {
		wg.Add(1)
		go func() {
			defer wg.Done()
			c, err := net.DialTimeout("tcp", "127.0.0.1:"+strconv.Itoa(port), 2*time.Second)
			if err != nil {
				mu.Lock()
				werr = err.Error()
				mu.Unlock()
				return
			}
			defer c.Close()
			c.SetDeadline(time.Now().Add(30 * time.Second))
			rd := bufio.NewReaderSize(c, 1<<16)
			for lo := 0; lo < incrs; lo += 100 {
				var out []byte
				n := 0
				for i := lo; i < incrs && i < lo+100; i++ {
					out = append(out, reqS("INCR", "counter")...)
					n++
				}
				c.Write(out)
				local := make([]string, 0, n)
				for k := 0; k < n; k++ {
					rep, err := readReply(rd)
					if err != nil {
						mu.Lock()
						werr = "INCR: " + err.Error()
						mu.Unlock()
						return
					}
					local = append(local, string(rep))
				}
				mu.Lock()
				for _, r := range local {
					seen[r]++
				}
				mu.Unlock()
			}
		}()
	}
	wg.Wait()
	if werr != "" {
		return fail("a client failed: " + werr)
	}
	for r, k := range seen {
		if k > 1 {
			return fail(fmt.Sprintf("%d INCRs were answered %q: two of them read the same value (lost update)", k, r))
		}
	}
	c, err := net.DialTimeout("tcp", "127.0.0.1:"+strconv.Itoa(port), 2*time.Second)
	if err != nil {
		return fail("dial: " + err.Error())
	}
	defer c.Close()
	c.SetDeadline(time.Now().Add(5 * time.Second))
	c.Write(reqS("GET", "counter"))
	rep, _ := readReply(bufio.NewReader(c))
	want := strconv.Itoa(clients * incrs)
	if string(rep) != fmt.Sprintf("$%d\r\n%s\r\n", len(want), want) {
		return fail(fmt.Sprintf("%d concurrent INCRs gave %q, want %s", clients*incrs, rep, want))
	}
	return Result{Obs: "linearizable # ", Oracle: "ok", Tags: tags}
}
