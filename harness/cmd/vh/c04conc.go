package main

import (
	"bufio"
	"fmt"
	"io"
	"net"
	"runtime"
	"strings"
	"sync"
	"time"

	exserver "github.com/cybergarage/go-redis/examples/go-redisd/server"
)

func init() {
	opRunners["conc4"] = runConc4
}

// conc4Line: a preload program and, per connection, a pipeline of read-only requests with (large) array replies.
func conc4Line(pre [][][]byte, conns [][][][]byte) string {
	var all [][][]byte
	all = append(all, pre...)
	enc := func(reqs [][][]byte) string {
		var b []byte
		for _, argv := range reqs {
			b = append(b, requestBytes(argv, nil)...)
		}
		return hx(b)
	}
	parts := []string{"conc4", "|", enc(pre), "|"}
	for _, c := range conns {
		all = append(all, c...)
	}
	parts = append(parts, floatTable(all...))
	for _, c := range conns {
		parts = append(parts, "|", enc(c))
	}
	return strings.Join(parts, " ")
}

func genConc4(r *Rng, emit func(string)) {
	// lists / sorted sets / strings of different element sizes, so that a reply overwritten by another connection's
	// cannot pass for its own
	var pre [][][]byte
	sizes := []int{3, 17, 64, 200}
	for li, sz := range sizes {
		push := bs("RPUSH", fmt.Sprintf("l%d", li))
		n := 40 + r.Intn(160)
		for i := 0; i < n; i++ {
			push = append(push, []byte(strings.Repeat(string(rune('a'+li)), sz)+fmt.Sprint(i)))
		}
		pre = append(pre, push)
		pre = append(pre, bs("SET", fmt.Sprintf("s%d", li), strings.Repeat(string(rune('A'+li)), sz*20)))
	}
	z := bs("ZADD", "z")
	for i := 0; i < 60; i++ {
		z = append(z, []byte(fmt.Sprint(i)), []byte(fmt.Sprintf("member-%d", i)))
	}
	pre = append(pre, z)
	menu := [][][]byte{bs("LRANGE", "l0", "0", "-1"), bs("LRANGE", "l1", "0", "-1"), bs("LRANGE", "l2", "0", "-1"), bs("LRANGE", "l3", "0", "-1"),
		bs("MGET", "s0", "s1", "s2", "s3", "nokey"), bs("ZRANGE", "z", "0", "-1", "WITHSCORES"), bs("ZREVRANGE", "z", "0", "-1"), bs("LRANGE", "l3", "5", "50"),
		bs("GET", "s3"), bs("PING")}
	nconn := 2 + r.Intn(5)
	var conns [][][][]byte
	for c := 0; c < nconn; c++ {
		var reqs [][][]byte
		for i := 0; i < 2+r.Intn(5); i++ {
			reqs = append(reqs, menu[r.Intn(len(menu))])
		}
		conns = append(conns, reqs)
	}
	emit(conc4Line(pre, conns))
}

func runConc4(toks []string) Result {
	secs := splitSections(toks[1:])
	pre := hexSegs(secs[1])
	srv := exserver.NewServer()
	open := func() net.Conn {
		cl, sv := net.Pipe()
		go func() {
			defer func() { recover() }()
			srv.VerifServeConn(sv, nil)
		}()
		return cl
	}
	// preload, sequentially
	pc := open()
	go func() {
		for _, seg := range pre {
			pc.Write(seg)
		}
	}()
	br := bufio.NewReader(pc)
	nPre := 0
	for _, seg := range pre {
		nPre += strings.Count(string(seg), "\r\n") // upper bound only; replies are counted by frames below
	}
	preReqs := countRequests(pre)
	for i := 0; i < preReqs; i++ {
		pc.SetReadDeadline(time.Now().Add(5 * time.Second))
		if _, err := readReply(br); err != nil {
			return Result{Obs: "preload-failed", Oracle: "fail:preload got no reply"}
		}
	}
	pc.Close()
	conns := secs[3:]
	outs := make([]string, len(conns))
	var wg sync.WaitGroup
	start := make(chan struct{})
	for ci, ctoks := range conns {
		stream := hexSegs(ctoks)
		wg.Add(1)
		go func(ci int, stream [][]byte) {
			defer wg.Done()
			c := open()
			defer c.Close()
			var all []byte
			for _, s := range stream {
				all = append(all, s...)
			}
			want := countRequests(stream)
			<-start
			go func() { c.Write(all) }()
			// a slow reader: small reads with scheduling points in between, so that this connection's reply is still
			// being written while the other connections' replies are serialised
			var got []byte
			buf := make([]byte, 5+ci*3)
			frames := 0
			for frames < want {
				c.SetReadDeadline(time.Now().Add(5 * time.Second))
				n, err := c.Read(buf)
				got = append(got, buf[:n]...)
				if err != nil {
					if err != io.EOF {
						got = append(got, []byte("<"+err.Error()+">")...)
					}
					break
				}
				runtime.Gosched()
				frames = countFrames(got)
			}
			outs[ci] = fmt.Sprintf("c%d:%s", ci, hx(got))
		}(ci, stream)
	}
	close(start)
	wg.Wait()
	obs := strings.Join(outs, " ")
	oracle := "ok"
	for ci, o := range outs {
		raw := unhx(o[strings.Index(o, ":")+1:])
		if _, ok := refFrames(raw); !ok {
			oracle = fmt.Sprintf("fail:the bytes connection %d received are not a sequence of complete RESP frames (%d bytes)", ci, len(raw))
			break
		}
	}
	return Result{Obs: obs, Oracle: oracle, Tags: []string{"nt", "concurrent-large-replies", fmt.Sprintf("conns%d", len(conns))}}
}

// countRequests counts the top-level RESP arrays in the hex segments of a request stream.
func countRequests(segs [][]byte) int {
	var all []byte
	for _, s := range segs {
		all = append(all, s...)
	}
	n := 0
	for len(all) > 0 {
		node, rest, ok := refParse(all)
		if !ok || node == nil {
			break
		}
		n++
		all = rest
	}
	return n
}
