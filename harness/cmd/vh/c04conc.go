package main

import (
	"bufio"
	"context"
	"fmt"
	"io"
	"net"
	"runtime"
	"strconv"
	"strings"
	"sync"
	"sync/atomic"
	"time"

	exserver "github.com/cybergarage/go-redis/examples/go-redisd/server"
	"github.com/cybergarage/go-redis/redis"
	"github.com/cybergarage/go-tracing/tracer"
	"github.com/cybergarage/go-tracing/tracer/common"
)

func init() {
	opRunners["conc4"] = runConc4
	opRunners["conc20"] = runConc20
	opRunners["conc3"] = runConc3
}

// conc4Line: a preload program and, per connection, a pipeline of read-only requests with (large) array replies.
func conc4Line(pre [][][]byte, conns [][][][]byte) string {
	var all [][][]byte
	all = append(all, pre...)
	enc := func(reqs [][][]byte) string {
		var b []byte
		for _, argv := range reqs {
			b = append(b, requestBytes(argv, nil)...)
		}
		return hx(b)
	}
	parts := []string{"conc4", "|", enc(pre), "|"}
	for _, c := range conns {
		all = append(all, c...)
	}
	parts = append(parts, floatTable(all...))
	for _, c := range conns {
		parts = append(parts, "|", enc(c))
	}
	return strings.Join(parts, " ")
}

func genConc4(r *Rng, emit func(string)) {
	// lists / sorted sets / strings of different element sizes, so that a reply overwritten by another connection's
	// cannot pass for its own
	var pre [][][]byte
	sizes := []int{3, 17, 64, 200}
	for li, sz := range sizes {
		push := bs("RPUSH", fmt.Sprintf("l%d", li))
		n := 40 + r.Intn(160)
		for i := 0; i < n; i++ {
			push = append(push, []byte(strings.Repeat(string(rune('a'+li)), sz)+fmt.Sprint(i)))
		}
		pre = append(pre, push)
		pre = append(pre, bs("SET", fmt.Sprintf("s%d", li), strings.Repeat(string(rune('A'+li)), sz*20)))
	}
	z := bs("ZADD", "z")
	for i := 0; i < 60; i++ {
		z = append(z, []byte(fmt.Sprint(i)), []byte(fmt.Sprintf("member-%d", i)))
	}
	pre = append(pre, z)
	menu := [][][]byte{bs("LRANGE", "l0", "0", "-1"), bs("LRANGE", "l1", "0", "-1"), bs("LRANGE", "l2", "0", "-1"), bs("LRANGE", "l3", "0", "-1"),
		bs("MGET", "s0", "s1", "s2", "s3", "nokey"), bs("ZRANGE", "z", "0", "-1", "WITHSCORES"), bs("ZREVRANGE", "z", "0", "-1"), bs("LRANGE", "l3", "5", "50"),
		bs("GET", "s3"), bs("PING")}
	nconn := 2 + r.Intn(5)
	var conns [][][][]byte
	for c := 0; c < nconn; c++ {
		var reqs [][][]byte
		for i := 0; i < 2+r.Intn(5); i++ {
			reqs = append(reqs, menu[r.Intn(len(menu))])
		}
		conns = append(conns, reqs)
	}
	emit(conc4Line(pre, conns))
}

func runConc4(toks []string) Result {
	secs := splitSections(toks[1:])
	pre := hexSegs(secs[1])
	srv := exserver.NewServer()
	open := func() net.Conn {
		cl, sv := net.Pipe()
		go func() {
			defer func() { recover() }()
			srv.VerifServeConn(sv, nil)
		}()
		return cl
	}
	// preload, sequentially
	pc := open()
	go func() {
		for _, seg := range pre {
			pc.Write(seg)
		}
	}()
	br := bufio.NewReader(pc)
	nPre := 0
	for _, seg := range pre {
		nPre += strings.Count(string(seg), "\r\n") // upper bound only; replies are counted by frames below
	}
	preReqs := countRequests(pre)
	for i := 0; i < preReqs; i++ {
		pc.SetReadDeadline(time.Now().Add(5 * time.Second))
		if _, err := readReply(br); err != nil {
			return Result{Obs: "preload-failed", Oracle: "fail:preload got no reply"}
		}
	}
	pc.Close()
	conns := secs[3:]
	outs := make([]string, len(conns))
	var wg sync.WaitGroup
	start := make(chan struct{})
	for ci, ctoks := range conns {
		stream := hexSegs(ctoks)
		wg.Add(1)
		go func(ci int, stream [][]byte) {
			defer wg.Done()
			c := open()
			defer c.Close()
			var all []byte
			for _, s := range stream {
				all = append(all, s...)
			}
			want := countRequests(stream)
			<-start
			go func() { c.Write(all) }()
			// a slow reader: small reads with scheduling points in between, so that this connection's reply is still
			// being written while the other connections' replies are serialised
			var got []byte
			buf := make([]byte, 5+ci*3)
			frames := 0
			for frames < want {
				c.SetReadDeadline(time.Now().Add(5 * time.Second))
				n, err := c.Read(buf)
				got = append(got, buf[:n]...)
				if err != nil {
					if err != io.EOF {
						got = append(got, []byte("<"+err.Error()+">")...)
					}
					break
				}
				runtime.Gosched()
				frames = countFrames(got)
			}
			outs[ci] = fmt.Sprintf("c%d:%s", ci, hx(got))
		}(ci, stream)
	}
	close(start)
	wg.Wait()
	obs := strings.Join(outs, " ")
	oracle := "ok"
	for ci, o := range outs {
		raw := unhx(o[strings.Index(o, ":")+1:])
		if _, ok := refFrames(raw); !ok {
			oracle = fmt.Sprintf("fail:the bytes connection %d received are not a sequence of complete RESP frames (%d bytes)", ci, len(raw))
			break
		}
	}
	return Result{Obs: obs, Oracle: oracle, Tags: []string{"nt", "concurrent-large-replies", fmt.Sprintf("conns%d", len(conns))}}
}

// countRequests counts the top-level RESP arrays in the hex segments of a request stream.
func countRequests(segs [][]byte) int {
	var all []byte
	for _, s := range segs {
		all = append(all, s...)
	}
	n := 0
	for len(all) > 0 {
		node, rest, ok := refParse(all)
		if !ok || node == nil {
			break
		}
		n++
		all = rest
	}
	return n
}

// ---------------------------------------------------------------------------------------------------
// conc20: spans stay balanced when requests of several connections contend (C20)
// ---------------------------------------------------------------------------------------------------

// lockedTracer is the recording tracer made safe for several connections (span ids are global, every start names its
// parent, so one log holds the events of all connections).
type lockedTracer struct {
	mu sync.Mutex
	recTracer
}

type lockedSpan struct {
	t  *lockedTracer
	id int
}

func (s *lockedSpan) SetTag(string, any) {}
func (s *lockedSpan) Finish() {
	s.t.mu.Lock()
	defer s.t.mu.Unlock()
	s.t.log.add(fmt.Sprintf("fin:%d", s.id))
}
func (s *lockedSpan) Context() context.Context { return context.Background() }
func (s *lockedSpan) StartSpan(name string) tracer.Context {
	return common.NewSpanContextWith(s.t.span(s.id, name))
}
func (t *lockedTracer) span(parent int, name string) *lockedSpan {
	t.mu.Lock()
	defer t.mu.Unlock()
	t.next++
	t.log.add(fmt.Sprintf("start:%d:%d:%s", t.next, parent, name))
	return &lockedSpan{t, t.next}
}
func (t *lockedTracer) StartSpan(name string) tracer.Context {
	return common.NewSpanContextWith(t.span(0, "root"))
}

// case: "conc20 <clients> <requests> <seed>": <clients> connections send <requests> commands each at the same time
// (plain, composed, failing, unknown) to a server with a recording tracer and a handler that yields inside every call, so
// that requests wait for each other; afterwards the span events of all connections must be balanced.
func runConc20(toks []string) Result {
	clients, _ := strconv.Atoi(toks[1])
	nreq, _ := strconv.Atoi(toks[2])
	seed, _ := strconv.ParseUint(toks[3], 10, 64)
	tags := []string{"nt", "conc-spans", "clients" + toks[1]}
	srv := redis.NewServer()
	tr := &lockedTracer{}
	tr.log = &eventLog{}
	srv.SetTracer(tr)
	srv.SetCommandHandler(&linStore{double: &double{log: &eventLog{}}, m: map[string]string{}, jitter: seed})
	var wg, swg sync.WaitGroup
	var failed atomic.Bool
	var answered atomic.Int64
	start := make(chan struct{})
	menu := [][]string{{"GET", "k"}, {"SET", "k", "v"}, {"STRLEN", "k"}, {"INCR", "n"}, {"APPEND", "k", "x"}, {"MSETNX", "a", "1", "b", "2"}, {"GET"}, {"NOSUCH", "x"}, {"PING"}, {"INCR", "k"}}
	for c := 0; c < clients; c++ {
		cl, sv := net.Pipe()
		swg.Add(1)
		go func() {
			defer swg.Done()
			defer func() { recover() }()
			srv.VerifServeConn(sv, nil)
		}()
		wg.Add(1)
		go func(c int) {
			defer wg.Done()
			defer cl.Close()
			r := NewRng(seed + uint64(c)*977)
			br := bufio.NewReader(cl)
			<-start
			for i := 0; i < nreq; i++ {
				cl.SetDeadline(time.Now().Add(10 * time.Second))
				if _, err := cl.Write(reqS(menu[r.Intn(len(menu))]...)); err != nil {
					failed.Store(true)
					return
				}
				if _, err := readReply(br); err != nil {
					failed.Store(true)
					return
				}
				answered.Add(1)
			}
		}(c)
	}
	close(start)
	wg.Wait()
	swg.Wait()
	if failed.Load() {
		return Result{Obs: "unanswered", Oracle: "fail:a client got no reply", Tags: tags}
	}
	tr.mu.Lock()
	events := append([]string{}, tr.log.evs...)
	tr.mu.Unlock()
	f, roots := spanBalance(events)
	if f != "" {
		return Result{Obs: "unbalanced", Oracle: f, Tags: tags}
	}
	// one root per request, plus one per connection for the iteration that saw the end of the stream
	if want := int(answered.Load()) + clients; roots != want {
		return Result{Obs: "unbalanced", Oracle: fmt.Sprintf("fail:%d root spans for %d requests on %d connections", roots, answered.Load(), clients), Tags: tags}
	}
	return Result{Obs: "balanced", Oracle: "ok", Tags: tags}
}


// conc3: "conc3 <clients> <requests> <seed>": <clients> connections send <requests> commands each at the same time,
// one at a time, mixing the commands that are composed from other commands (and re-enter the executor table) with
// plain reads and writes: every request gets its reply, whatever the neighbours are doing (C03: no request makes a
// connection stall).  A request that is not answered within 10 s is a failure.
func runConc3(toks []string) Result {
	clients, _ := strconv.Atoi(toks[1])
	nreq, _ := strconv.Atoi(toks[2])
	seed, _ := strconv.ParseUint(toks[3], 10, 64)
	tags := []string{"nt", "conc-replies", "clients" + toks[1]}
	srv := redis.NewServer()
	srv.SetCommandHandler(newSafeHandler())
	var wg, swg sync.WaitGroup
	var failed atomic.Value
	start := make(chan struct{})
	menu := [][]string{{"GET", "k"}, {"SET", "k", "v"}, {"STRLEN", "k"}, {"SUBSTR", "k", "0", "1"}, {"GETRANGE", "k", "0", "-1"}, {"HEXISTS", "h", "f"}, {"HSTRLEN", "h", "f"},
		{"HKEYS", "h"}, {"HVALS", "h"}, {"HLEN", "h"}, {"SCARD", "s"}, {"SISMEMBER", "s", "a"}, {"ZCARD", "z"}, {"INCR", "n"}, {"APPEND", "k", "x"}, {"MSETNX", "a", "1", "b", "2"},
		{"MGET", "a", "b"}, {"DEL", "k"}, {"PING"}, {"ECHO", "x"}, {"SELECT", "1"}, {"CONFIG", "GET", "port"}, {"GET"}, {"NOSUCH", "x"}}
	for c := 0; c < clients; c++ {
		cl, sv := net.Pipe()
		swg.Add(1)
		go func() {
			defer swg.Done()
			defer func() { recover() }()
			srv.VerifServeConn(sv, nil)
		}()
		wg.Add(1)
		go func(c int) {
			defer wg.Done()
			defer cl.Close()
			r := NewRng(seed + uint64(c)*977)
			br := bufio.NewReader(cl)
			<-start
			for i := 0; i < nreq; i++ {
				req := menu[r.Intn(len(menu))]
				cl.SetDeadline(time.Now().Add(10 * time.Second))
				if _, err := cl.Write(reqS(req...)); err != nil {
					failed.CompareAndSwap(nil, fmt.Sprintf("request %d of connection %d (%s) could not be sent: %v", i, c, strings.Join(req, " "), err))
					return
				}
				if _, err := readAnyReply(br); err != nil {
					failed.CompareAndSwap(nil, fmt.Sprintf("request %d of connection %d (%s) got no reply within 10 s", i, c, strings.Join(req, " ")))
					return
				}
			}
		}(c)
	}
	close(start)
	wg.Wait()
	done := make(chan struct{})
	go func() { swg.Wait(); close(done) }()
	select {
	case <-done:
	case <-time.After(10 * time.Second):
		failed.CompareAndSwap(nil, "the connection loops did not end after the clients had closed")
	}
	if f := failed.Load(); f != nil {
		return Result{Obs: "unanswered", Oracle: "fail:" + f.(string), Tags: tags}
	}
	return Result{Obs: "answered", Oracle: "ok", Tags: tags}
}

// readAnyReply reads one complete RESP reply of any type.
func readAnyReply(br *bufio.Reader) ([]byte, error) {
	line, err := br.ReadBytes('\n')
	if err != nil {
		return nil, err
	}
	if len(line) == 0 {
		return line, nil
	}
	switch line[0] {
	case '$':
		n, _ := strconv.Atoi(strings.TrimSpace(string(line[1:])))
		if n >= 0 {
			body := make([]byte, n+2)
			if _, err := io.ReadFull(br, body); err != nil {
				return nil, err
			}
			line = append(line, body...)
		}
	case '*':
		n, _ := strconv.Atoi(strings.TrimSpace(string(line[1:])))
		for i := 0; i < n; i++ {
			e, err := readAnyReply(br)
			if err != nil {
				return nil, err
			}
			line = append(line, e...)
		}
	}
	return line, nil
}
