package main

import (
	"fmt"
	"strconv"
	"strings"

	"github.com/cybergarage/go-redis/redis/glob"
)

func init() {
	properties["C17"] = &Property{Gen: genC17, Run: runC17}
}

var globAlphabet = []byte{'a', 'b', '*', '?', '.', '+', '(', '|', '$'}

// wordsUpTo enumerates all words over the alphabet with length <= n, shortest first, in a fixed order.
func wordsUpTo(alpha []byte, n int) [][]byte {
	out := [][]byte{{}}
	frontier := [][]byte{{}}
	for l := 1; l <= n; l++ {
		var next [][]byte
		for _, w := range frontier {
			for _, c := range alpha {
				next = append(next, append(append([]byte{}, w...), c))
			}
		}
		out = append(out, next...)
		frontier = next
	}
	return out
}

// case: "globall <maxKeyLen> <patternhex>"  — the pattern against every key over the alphabet up to the length
//       "glob <patternhex> <keyhex>..."     — the pattern against the listed keys
func genC17(tier string, seed uint64, emit func(string)) {
	r := NewRng(seed)
	pl, kl := 4, 3
	if tier == "thorough" {
		pl, kl = 5, 4
	}
	for _, p := range wordsUpTo(globAlphabet, pl) {
		emit(fmt.Sprintf("globall %d %s", kl, hx(p)))
	}
	// longer random patterns and keys over a wider ASCII alphabet (every regexp metacharacter)
	wide := []byte("ab*?.+()|^${}[]\\-xyz09 \t")
	n := 3000
	if tier == "thorough" {
		n = 100000
	}
	for i := 0; i < n; i++ {
		pat := make([]byte, r.Intn(9))
		for j := range pat {
			pat[j] = wide[r.Intn(len(wide))]
		}
		var keys []string
		for k := 0; k < 12; k++ {
			key := make([]byte, r.Intn(9))
			for j := range key {
				key[j] = wide[r.Intn(len(wide))]
			}
			// bias towards keys that nearly match: derive some keys from the pattern
			if k%3 == 0 {
				key = key[:0]
				for _, c := range pat {
					switch c {
					case '*':
						key = append(key, wide[r.Intn(len(wide))])
						if r.Bool() {
							key = append(key, wide[r.Intn(len(wide))])
						}
					case '?':
						key = append(key, wide[r.Intn(len(wide))])
					default:
						key = append(key, c)
					}
				}
			}
			keys = append(keys, hx(key))
		}
		emit("glob " + hx(pat) + " " + strings.Join(keys, " "))
	}
}

// refGlob is the harness' own direct recursive glob matcher (the oracle).
func refGlob(p, k []byte) bool {
	if len(p) == 0 {
		return len(k) == 0
	}
	switch p[0] {
	case '*':
		for i := 0; i <= len(k); i++ {
			if refGlob(p[1:], k[i:]) {
				return true
			}
		}
		return false
	case '?':
		return len(k) > 0 && refGlob(p[1:], k[1:])
	}
	return len(k) > 0 && k[0] == p[0] && refGlob(p[1:], k[1:])
}

func runC17(toks []string) Result {
	var pat []byte
	var keys [][]byte
	switch toks[0] {
	case "globall":
		n, _ := strconv.Atoi(toks[1])
		pat = unhx(toks[2])
		keys = wordsUpTo(globAlphabet, n)
	case "glob":
		pat = unhx(toks[1])
		keys = hexSegs(toks[2:])
	}
	tags := []string{"nt", "plen" + strconv.Itoa(len(pat))}
	re, err := glob.Compile(string(pat))
	if err != nil {
		return Result{Obs: "compile-error", Oracle: "fail:pattern does not compile: " + trunc(err.Error(), 60), Tags: tags}
	}
	var sb strings.Builder
	oracle := "ok"
	matches := 0
	for _, k := range keys {
		got := re.MatchString(string(k))
		if got {
			sb.WriteByte('1')
			matches++
		} else {
			sb.WriteByte('0')
		}
		if want := refGlob(pat, k); want != got && oracle == "ok" {
			oracle = fmt.Sprintf("fail:pattern %q key %q: compiled pattern says %v, glob semantics say %v", pat, k, got, want)
		}
	}
	if matches > 0 {
		tags = append(tags, "has-match")
	}
	return Result{Obs: packBits(sb.String()), Oracle: oracle, Tags: tags}
}

// packBits renders a 0/1 string as hex, four bits per digit (padded with zeros).
func packBits(s string) string {
	for len(s)%4 != 0 {
		s += "0"
	}
	var sb strings.Builder
	sb.WriteString(strconv.Itoa(len(s)) + ":")
	for i := 0; i < len(s); i += 4 {
		v, _ := strconv.ParseUint(s[i:i+4], 2, 8)
		sb.WriteByte("0123456789abcdef"[v])
	}
	return sb.String()
}
