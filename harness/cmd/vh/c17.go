package main

import (
	"fmt"
	"strconv"
	"strings"

	"github.com/cybergarage/go-redis/redis/glob"
)

func init() {
	properties["C17"] = &Property{Gen: genC17, Run: runC17}
}

var globAlphabet = []byte{'a', 'b', '*', '?', '.', '+', '(', '|', '$'}

// wordsUpTo enumerates all words over the alphabet with length <= n, shortest first, in a fixed order.
func wordsUpTo(alpha []byte, n int) [][]byte {
	out := [][]byte{{}}
	frontier := [][]byte{{}}
	for l := 1; l <= n; l++ {
		var next [][]byte
		for _, w := range frontier {
			for _, c := range alpha {
				next = append(next, append(append([]byte{}, w...), c))
			}
		}
		out = append(out, next...)
		frontier = next
	}
	return out
}

// case: "globall <maxKeyLen> <patternhex>"  — the pattern against every key over the alphabet up to the length
//
//	"glob <patternhex> <keyhex>..."     — the pattern against the listed keys
func genC17(tier string, seed uint64, emit func(string)) {
	r := NewRng(seed)
	pl, kl := 4, 3
	if tier == "thorough" {
		pl, kl = 5, 4
	}
	for _, p := range wordsUpTo(globAlphabet, pl) {
		emit(fmt.Sprintf("globall %d %s", kl, hx(p)))
	}
	// KEYS and SCAN MATCH of the example store over a populated key set: every pattern up to length 3 (4 thorough)
	// against all keys of length 1..2 (3) over the same alphabet
	kpl, kkl := 3, 2
	if tier == "thorough" {
		kpl, kkl = 4, 3
	}
	var stored []string
	for _, k := range wordsUpTo(globAlphabet, kkl) {
		if len(k) > 0 {
			stored = append(stored, hx(k))
		}
	}
	for _, p := range wordsUpTo(globAlphabet, kpl) {
		emit("keyscan " + hx(p) + " " + strings.Join(stored, " "))
	}
	// the pattern of a SCAN call is the pattern of that call: a continued cursor with another pattern than the call that
	// started the iteration (same connection) is filtered by the pattern it carries itself
	for _, pa := range [][]byte{[]byte("a*"), []byte("*"), []byte("?"), []byte("b?")} {
		for _, pb := range wordsUpTo(globAlphabet, 2) {
			if len(pb) > 0 && string(pa) != string(pb) {
				emit("scanswitch " + hx(pa) + " " + hx(pb) + " " + strings.Join(stored, " "))
			}
		}
	}
	// a second complete enumeration over an alphabet with the characters that mean something inside Go's regexp quoting
	// forms (backslash, the Q and E of \Q...\E, a class bracket): every pattern up to length 4 against every key up to 3
	alt := []byte("a*?\\EQ[")
	var altKeys []string
	for _, k := range wordsUpTo([]byte("a\\EQ["), 3) {
		altKeys = append(altKeys, hx(k))
	}
	altLen := 3
	if tier == "thorough" {
		altLen = 4
	}
	for _, p := range wordsUpTo(alt, altLen) {
		emit("glob " + hx(p) + " " + strings.Join(altKeys, " "))
	}
	// a third complete enumeration over the characters that mean something to path, shell and character-class matchers
	// (separators, newline, dash, class brackets, negation, braces, a high byte): patterns up to length 3 against every key
	// up to length 2, through glob.Compile and through KEYS / SCAN MATCH of the populated example store
	for _, extra := range []string{"/\n-", "]^{", "},|", ":! ", "\t~#", "%@&", "=;'", "\"<>"} {
		alpha := append([]byte("a*?"), extra...)
		var keys []string
		for _, k := range wordsUpTo(append([]byte("a"), extra...), 2) {
			keys = append(keys, hx(k))
		}
		for _, p := range wordsUpTo(alpha, 3) {
			emit("glob " + hx(p) + " " + strings.Join(keys, " "))
			if extra != "},|" {
				emit("keyscan " + hx(p) + " " + strings.Join(keys[1:], " "))
			}
		}
	}
	// literal characters outside ASCII (two-, three- and four-byte UTF-8 sequences) in patterns and keys: they match
	// themselves, `*` covers them (`?` is left out here: whether it stands for one byte or one character of a multi-byte
	// sequence is not something the property settles)
	{
		toks := []string{"a", "*", "\u00e9", "\u65e5", "\u00fc", "\U0001F600", "\u043a"}
		var words func(n int, alpha []string) []string
		words = func(n int, alpha []string) []string {
			out := []string{""}
			frontier := []string{""}
			for l := 0; l < n; l++ {
				var next []string
				for _, w := range frontier {
					for _, t := range alpha {
						next = append(next, w+t)
					}
				}
				out = append(out, next...)
				frontier = next
			}
			return out
		}
		var keys []string
		for _, k := range words(2, []string{"a", "\u00e9", "\u65e5", "\u00fc", "\U0001F600", "\u043a"}) {
			keys = append(keys, hx([]byte(k)))
		}
		for _, p := range words(3, toks) {
			emit("glob " + hx([]byte(p)) + " " + strings.Join(keys, " "))
			emit("keyscan " + hx([]byte(p)) + " " + strings.Join(keys[1:], " "))
		}
	}
	// patterns on which a backtracking matcher takes exponentially many steps (many stars, each piece matching inside a
	// repetitive key, a tail that does not): compiling and matching stays instantaneous (the per-case deadline turns a
	// matcher that does not come back into a failure)
	for _, n := range []int{8, 16, 24, 40} {
		for _, kl := range []int{32, 64, 200} {
			key := strings.Repeat("a", kl)
			for _, pat := range []string{strings.Repeat("*a", n) + "*b", strings.Repeat("*a", n), strings.Repeat("*?", n) + "b", strings.Repeat("a*", n) + "c*", strings.Repeat("*", n) + "b", strings.Repeat("*a?", n/2) + "*b"} {
				emit("glob " + hx([]byte(pat)) + " " + hx([]byte(key)) + " " + hx([]byte(key+"b")) + " " + hx([]byte("b"+key)))
				if n == 24 && kl == 64 {
					emit("keyscan " + hx([]byte(pat)) + " " + hx([]byte(key)) + " " + hx([]byte(key+"b")) + " 62")
				}
			}
		}
	}
	// long runs of one token (a pattern for fixed-width keys is a run of '?'): around the repeat limits and sizes of
	// regular-expression engines (1000, 1024, 4096, 65535) - "compiling such a pattern never fails"
	runs := []int{255, 999, 1000, 1001, 1024, 1500, 4096}
	if tier == "thorough" {
		runs = append(runs, 32767, 65535, 65536)
	}
	for _, n := range runs {
		for _, tok := range []string{"?", "a", ".", "(", "\\"} { // runs of * are in the family above (the model's matcher is cubic in them)
			pat := "k:" + strings.Repeat(tok, n) + ":*"
			fill := "b"
			if tok != "?" && tok != "*" {
				fill = tok
			}
			exact := "k:" + strings.Repeat(fill, n) + ":x"
			short := "k:" + strings.Repeat(fill, n-1) + ":x"
			long := "k:" + strings.Repeat(fill, n+1) + ":x"
			emit("glob " + hx([]byte(pat)) + " " + hx([]byte(exact)) + " " + hx([]byte(short)) + " " + hx([]byte(long)))
			if n == 1001 || n == 4096 {
				emit("keyscan " + hx([]byte(pat)) + " " + hx([]byte(exact)) + " " + hx([]byte(short)) + " 62")
			}
		}
	}
	// longer random patterns and keys over a wider ASCII alphabet (every regexp metacharacter)
	wide := []byte("ab*?.+()|^${}[]\\-xyzEQdDwWsSbBAzZpPnrtfvx09 \t/:\n")
	n := 3000
	if tier == "thorough" {
		n = 100000
	}
	for i := 0; i < n; i++ {
		pat := make([]byte, r.Intn(9))
		for j := range pat {
			pat[j] = wide[r.Intn(len(wide))]
		}
		var keys []string
		for k := 0; k < 12; k++ {
			key := make([]byte, r.Intn(9))
			for j := range key {
				key[j] = wide[r.Intn(len(wide))]
			}
			// bias towards keys that nearly match: derive some keys from the pattern
			if k%3 == 0 {
				key = key[:0]
				for _, c := range pat {
					switch c {
					case '*':
						key = append(key, wide[r.Intn(len(wide))])
						if r.Bool() {
							key = append(key, wide[r.Intn(len(wide))])
						}
					case '?':
						key = append(key, wide[r.Intn(len(wide))])
					default:
						key = append(key, c)
					}
				}
			}
			keys = append(keys, hx(key))
		}
		emit("glob " + hx(pat) + " " + strings.Join(keys, " "))
	}
}

// refGlob is the harness' own direct recursive glob matcher (the oracle).
func refGlob(p, k []byte) bool {
	// the declarative semantics, decided by dynamic programming over (pattern position, key position): polynomial, so
	// that patterns on which a backtracking matcher explodes have an answer here too
	memo := make(map[[2]int]bool)
	var rec func(i, j int) bool
	rec = func(i, j int) bool {
		if i == len(p) {
			return j == len(k)
		}
		key := [2]int{i, j}
		if v, ok := memo[key]; ok {
			return v
		}
		var r bool
		switch p[i] {
		case '*':
			r = rec(i+1, j) || (j < len(k) && rec(i, j+1))
		case '?':
			r = j < len(k) && rec(i+1, j+1)
		default:
			r = j < len(k) && k[j] == p[i] && rec(i+1, j+1)
		}
		memo[key] = r
		return r
	}
	return rec(0, 0)
}

// runKeyScan: the bundled example store is populated with the keys; KEYS p and SCAN 0 MATCH p must select exactly
// the keys the glob matches, and the same ones.
func runKeyScan(toks []string) Result {
	pat := unhx(toks[1])
	keys := hexSegs(toks[2:])
	var reqs [][][]byte
	for _, k := range keys {
		reqs = append(reqs, [][]byte{[]byte("SET"), k, []byte("1")})
	}
	reqs = append(reqs, [][]byte{[]byte("KEYS"), pat}, [][]byte{[]byte("SCAN"), []byte("0"), []byte("MATCH"), pat, []byte("COUNT"), []byte("100000")})
	var stream []byte
	for _, argv := range reqs {
		stream = append(stream, requestBytes(argv, nil)...)
	}
	obs, panicked, hung, _ := runXServe(stream)
	tags := []string{"nt", "keyscan", "plen" + strconv.Itoa(len(pat))}
	if panicked != "" || hung {
		return Result{Obs: "crash", Oracle: "fail:KEYS/SCAN crashed or hung: " + trunc(panicked, 80), Tags: tags}
	}
	var writes [][]byte
	for _, e := range strings.Fields(obs) {
		if strings.HasPrefix(e, "wr:") {
			if e == "wr:E" {
				writes = append(writes, []byte("-E\r\n"))
			} else {
				writes = append(writes, unhx(e[3:]))
			}
		}
	}
	if len(writes) != len(reqs) {
		return Result{Obs: "short", Oracle: "fail:not every request was answered", Tags: tags}
	}
	member := func(reply []byte, nested bool) (map[string]bool, bool) {
		n, _, ok := refParse(reply)
		if !ok || n == nil || n.Kind != 'a' {
			return nil, false
		}
		if nested {
			if len(n.Es) != 2 || n.Es[1].Kind != 'a' {
				return nil, false
			}
			n = n.Es[1]
		}
		out := map[string]bool{}
		for _, e := range n.Es {
			out[string(e.P)] = true
		}
		return out, true
	}
	km, ok1 := member(writes[len(writes)-2], false)
	sm, ok2 := member(writes[len(writes)-1], true)
	if !ok1 || !ok2 {
		return Result{Obs: "bad-reply", Oracle: "fail:KEYS or SCAN did not answer with an array (pattern " + strconv.Quote(string(pat)) + ")", Tags: tags}
	}
	var kb, sb strings.Builder
	oracle := "ok"
	for _, k := range keys {
		want := refGlob(pat, k)
		for _, pr := range []struct {
			m  map[string]bool
			sb *strings.Builder
			nm string
		}{{km, &kb, "KEYS"}, {sm, &sb, "SCAN MATCH"}} {
			if pr.m[string(k)] {
				pr.sb.WriteByte('1')
			} else {
				pr.sb.WriteByte('0')
			}
			if pr.m[string(k)] != want && oracle == "ok" {
				oracle = fmt.Sprintf("fail:%s %q on the example store: key %q selected=%v, glob semantics say %v", pr.nm, pat, k, pr.m[string(k)], want)
			}
		}
	}
	return Result{Obs: "keys=" + kb.String() + " scan=" + sb.String(), Oracle: oracle, Tags: tags}
}

// case: "scanswitch <patA> <patB> <keys...>": SCAN 0 MATCH A COUNT 2, then on the same connection SCAN 1 MATCH B and
// SCAN 2 MATCH B: what the continued calls return is selected by B.
func runScanSwitch(toks []string) Result {
	pa, pb := unhx(toks[1]), unhx(toks[2])
	keys := hexSegs(toks[3:])
	var stream []byte
	for _, k := range keys {
		stream = append(stream, requestBytes([][]byte{[]byte("SET"), k, []byte("1")}, nil)...)
	}
	stream = append(stream, reqS("SCAN", "0", "MATCH", string(pa), "COUNT", "2")...)
	stream = append(stream, reqS("SCAN", "1", "MATCH", string(pb), "COUNT", "100000")...)
	stream = append(stream, reqS("SCAN", "2", "MATCH", string(pb), "COUNT", "100000")...)
	obs, panicked, hung, _ := runXServe(stream)
	tags := []string{"nt", "scanswitch"}
	if panicked != "" || hung {
		return Result{Obs: "crash", Oracle: "fail:SCAN crashed or hung: " + trunc(panicked, 80), Tags: tags}
	}
	var writes [][]byte
	for _, e := range strings.Fields(obs) {
		if strings.HasPrefix(e, "wr:") && e != "wr:E" {
			writes = append(writes, unhx(e[3:]))
		} else if e == "wr:E" {
			writes = append(writes, []byte("-E\r\n"))
		}
	}
	if len(writes) != len(keys)+3 {
		return Result{Obs: "short", Oracle: "fail:not every request was answered", Tags: tags}
	}
	want := 0
	for _, k := range keys {
		if refGlob(pb, k) {
			want++
		}
	}
	for i, skipped := range []int{1, 2} {
		n, _, ok := refParse(writes[len(keys)+1+i])
		if !ok || n == nil || n.Kind != 'a' || len(n.Es) != 2 || n.Es[1].Kind != 'a' {
			return Result{Obs: "bad-reply", Oracle: "fail:SCAN did not answer with [cursor, keys]", Tags: tags}
		}
		for _, e := range n.Es[1].Es {
			if !refGlob(pb, e.P) {
				return Result{Obs: "unsound", Oracle: fmt.Sprintf("fail:SCAN %d MATCH %q (after SCAN 0 MATCH %q on the same connection) returned %q, which the glob does not match", skipped, pb, pa, e.P), Tags: tags}
			}
		}
		if got := len(n.Es[1].Es); got < want-skipped-1 { // the cursor is the index of the last key handed out
			return Result{Obs: "incomplete", Oracle: fmt.Sprintf("fail:SCAN %d MATCH %q COUNT 100000 returned %d keys, %d match and at most %d were skipped", skipped, pb, got, want, skipped+1), Tags: tags}
		}
	}
	return Result{Obs: "sound", Oracle: "ok", Tags: tags}
}

func runC17(toks []string) Result {
	if toks[0] == "keyscan" {
		return runKeyScan(toks)
	}
	if toks[0] == "scanswitch" {
		return runScanSwitch(toks)
	}
	var pat []byte
	var keys [][]byte
	switch toks[0] {
	case "globall":
		n, _ := strconv.Atoi(toks[1])
		pat = unhx(toks[2])
		keys = wordsUpTo(globAlphabet, n)
	case "glob":
		pat = unhx(toks[1])
		keys = hexSegs(toks[2:])
	}
	tags := []string{"nt", "plen" + strconv.Itoa(len(pat))}
	re, err := glob.Compile(string(pat))
	if err != nil {
		return Result{Obs: "compile-error", Oracle: "fail:pattern does not compile: " + trunc(err.Error(), 60), Tags: tags}
	}
	var sb strings.Builder
	oracle := "ok"
	matches := 0
	for _, k := range keys {
		got := re.MatchString(string(k))
		if got {
			sb.WriteByte('1')
			matches++
		} else {
			sb.WriteByte('0')
		}
		if want := refGlob(pat, k); want != got && oracle == "ok" {
			oracle = fmt.Sprintf("fail:pattern %q key %q: compiled pattern says %v, glob semantics say %v", pat, k, got, want)
		}
	}
	if matches > 0 {
		tags = append(tags, "has-match")
	}
	return Result{Obs: packBits(sb.String()), Oracle: oracle, Tags: tags}
}

// packBits renders a 0/1 string as hex, four bits per digit (padded with zeros).
func packBits(s string) string {
	for len(s)%4 != 0 {
		s += "0"
	}
	var sb strings.Builder
	sb.WriteString(strconv.Itoa(len(s)) + ":")
	for i := 0; i < len(s); i += 4 {
		v, _ := strconv.ParseUint(s[i:i+4], 2, 8)
		sb.WriteByte("0123456789abcdef"[v])
	}
	return sb.String()
}
