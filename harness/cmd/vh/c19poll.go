package main

import (
	"bufio"
	"fmt"
	"strconv"
	"sync"
	"sync/atomic"
	"time"
)

func init() {
	opRunners["pollchurn"] = runPollChurn
}

// case "pollchurn <pollers> <clients> <ms>": a real server; <pollers> goroutines of the application enumerate the
// connection registry (Server.Conns) without a pause while <clients> clients connect, send one PING and disconnect in a
// loop, for <ms> milliseconds.  Afterwards the enumerations have returned, the registry is empty, the connection
// goroutines are gone and Stop returns: connections are released while the registry is being looked at.
func runPollChurn(toks []string) Result {
	tags := []string{"nt", "registry-polled-during-churn"}
	pollers, _ := strconv.Atoi(toks[1])
	clients, _ := strconv.Atoi(toks[2])
	ms, _ := strconv.Atoi(toks[3])
	lr := newLifeRun([]string{"plain", "tls"})
	defer lr.shutdown()
	if r := lr.act("start"); r != "ok" {
		return Result{Obs: "start=" + r, Oracle: "fail:server did not start", Tags: tags}
	}
	halt := make(chan struct{})
	var wg sync.WaitGroup
	var polls, served atomic.Int64
	for p := 0; p < pollers; p++ {
		wg.Add(1)
		go func() {
			defer wg.Done()
			for {
				select {
				case <-halt:
					return
				default:
				}
				_ = len(lr.srv.Conns())
				polls.Add(1)
			}
		}()
	}
	for c := 0; c < clients; c++ {
		wg.Add(1)
		go func(c int) {
			defer wg.Done()
			kind := "p"
			if c%3 == 2 {
				kind = "t"
			}
			for {
				select {
				case <-halt:
					return
				default:
				}
				conn, err := lr.dial(kind, "good")
				if err != nil {
					time.Sleep(time.Millisecond)
					continue
				}
				conn.SetDeadline(time.Now().Add(2 * time.Second))
				conn.Write(reqS("PING"))
				if rep, err := readReply(bufio.NewReader(conn)); err == nil && string(rep) == "+PONG\r\n" {
					served.Add(1)
				}
				conn.Close()
			}
		}(c)
	}
	time.Sleep(time.Duration(ms) * time.Millisecond)
	close(halt)
	done := make(chan struct{})
	go func() { wg.Wait(); close(done) }()
	select {
	case <-done:
	case <-time.After(5 * time.Second):
		return Result{Obs: "wedged", Oracle: fmt.Sprintf("fail:registry enumerations or clients did not come back within 5 s after %d enumerations and %d served clients: the registry is wedged", polls.Load(), served.Load()), Tags: tags}
	}
	obs := lr.observe()
	stop := lr.act("stop")
	switch {
	case stop != "ok":
		return Result{Obs: "stop=" + stop, Oracle: "fail:Stop after the churn: " + stop, Tags: tags}
	case len(obs) < 8 || obs[:8] != "conns=0,":
		return Result{Obs: obs, Oracle: "fail:after the churn, with every client gone: " + obs, Tags: tags}
	case served.Load() == 0:
		return Result{Obs: "nothing-served", Oracle: "fail:no client was served during the churn", Tags: tags}
	}
	return Result{Obs: "released", Oracle: "ok", Tags: tags}
}
