package main

import (
	"fmt"
	"io"
	"os"
	"strings"
	"time"

	"github.com/cybergarage/go-redis/redis/proto"
)

// segReader hands out exactly the scripted segments: a Read never crosses a segment boundary, returns at
// least one byte while data remains, and (0, io.EOF) at the end — the io.Reader contract of the model.
type segReader struct {
	segs  [][]byte
	reads int
	// dataEOF: the read that hands out the last bytes returns them together with io.EOF (as iotest.DataErrReader
	// does; the io.Reader contract allows it)
	dataEOF bool
	// a transport with read deadlines (net.Conn, tls.Conn): whoever arms one and leaves it armed gets a timeout from the
	// first read that has to wait for the next segment - segments are an hour apart on this transport's clock
	deadline time.Time
}

// idleGap is how long the scripted transports "wait" between two segments (virtual time: nothing sleeps).
const idleGap = time.Hour

type timeoutError struct{}

func (timeoutError) Error() string   { return "i/o timeout" }
func (timeoutError) Timeout() bool   { return true }
func (timeoutError) Temporary() bool { return true }
func (timeoutError) Unwrap() error   { return os.ErrDeadlineExceeded }

func (s *segReader) SetReadDeadline(t time.Time) error { s.deadline = t; return nil }
func (s *segReader) SetDeadline(t time.Time) error     { s.deadline = t; return nil }

func (s *segReader) Read(b []byte) (int, error) {
	s.reads++
	waited := false
	for len(s.segs) > 0 && len(s.segs[0]) == 0 {
		s.segs = s.segs[1:]
		waited = true
	}
	if waited && !s.deadline.IsZero() && time.Now().Add(idleGap).After(s.deadline) {
		return 0, timeoutError{}
	}
	if len(s.segs) == 0 {
		return 0, io.EOF
	}
	n := copy(b, s.segs[0])
	s.segs[0] = s.segs[0][n:]
	if s.dataEOF && len(s.segs[0]) == 0 {
		last := true
		for _, rest := range s.segs[1:] {
			if len(rest) > 0 {
				last = false
			}
		}
		if last {
			s.segs = nil
			return n, io.EOF
		}
	}
	return n, nil
}

// streamOutcome runs the real parser over the segments until end of stream or error and returns the
// canonical outcome "v <tree> ; v <tree> ; eof|err|panic" together with the values.
func streamOutcome(segs [][]byte, maxValues int) (string, []*Node, string) {
	return streamOutcomeR(&segReader{segs: segs}, maxValues)
}

func streamOutcomeR(rd *segReader, maxValues int) (string, []*Node, string) {
	p := proto.NewParserWithReader(rd)
	var parts []string
	var vals []*Node
	end := ""
	for end == "" {
		var msg *proto.Message
		var err error
		func() {
			defer func() {
				if r := recover(); r != nil {
					end = "panic"
				}
			}()
			msg, err = p.Next()
		}()
		switch {
		case end != "":
		case err != nil:
			end = "err"
		case msg == nil:
			end = "eof"
		default:
			n := fromMessage(msg)
			vals = append(vals, n)
			parts = append(parts, "v "+n.String())
			if len(vals) >= maxValues {
				end = "limit"
			}
		}
	}
	parts = append(parts, end)
	return strings.Join(parts, " ; "), vals, end
}

func hexSegs(toks []string) [][]byte {
	var segs [][]byte
	for _, t := range toks {
		segs = append(segs, unhx(t))
	}
	return segs
}

func segsCase(op string, segs [][]byte) string {
	var sb strings.Builder
	sb.WriteString(op)
	for _, s := range segs {
		sb.WriteByte(' ')
		sb.WriteString(hx(s))
	}
	return sb.String()
}

// partition splits b into k random non-empty segments (k capped by len(b)).
func partition(r *Rng, b []byte, k int) [][]byte {
	if len(b) == 0 {
		return [][]byte{{}}
	}
	if k > len(b) {
		k = len(b)
	}
	cuts := map[int]bool{}
	for len(cuts) < k-1 {
		cuts[1+r.Intn(len(b)-1)] = true
	}
	var segs [][]byte
	last := 0
	for i := 1; i < len(b); i++ {
		if cuts[i] {
			segs = append(segs, b[last:i])
			last = i
		}
	}
	return append(segs, b[last:])
}

func oneByteSegs(b []byte) [][]byte {
	segs := make([][]byte, len(b))
	for i := range b {
		segs[i] = b[i : i+1]
	}
	return segs
}

func describeSegs(segs [][]byte) string {
	total := 0
	for _, s := range segs {
		total += len(s)
	}
	return fmt.Sprintf("segs%s,bytes%s", bucket(len(segs)), bucket(total))
}
