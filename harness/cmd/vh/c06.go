package main

import (
	"bytes"
	"fmt"
	"github.com/cybergarage/go-redis/redis/proto"
	"io"
	"os"
	"os/exec"
	"regexp"
	"strconv"
	"strings"
	"time"
)

func init() {
	properties["C06"] = &Property{Gen: genC06, Run: runC06}
}

var boundaryNums = []string{"2147483647", "2147483648", "9223372036854775806", "9223372036854775807", "9223372036854775808",
	"10000000000000", "-1", "-9223372036854775808", "-9223372036854775809", "536870912", "536870913", "0", "-0", "+1", "", "1a", " 1", "00000000000000000001", "99999999999999999999999"}

var numRun = regexp.MustCompile(`[$*][-+0-9]*`)

func mutate(r *Rng, b []byte) []byte {
	b = append([]byte{}, b...)
	switch r.Intn(8) {
	case 0: // truncate
		if len(b) > 0 {
			b = b[:r.Intn(len(b))]
		}
	case 1: // splice random bytes
		at := r.Intn(len(b) + 1)
		ins := r.Bytes(1 + r.Intn(4))
		b = append(b[:at], append(ins, b[at:]...)...)
	case 2: // flip
		if len(b) > 0 {
			b[r.Intn(len(b))] ^= byte(1 << uint(r.Intn(8)))
		}
	case 3: // duplicate a slice
		if len(b) > 1 {
			i := r.Intn(len(b))
			j := i + r.Intn(len(b)-i)
			b = append(b[:j], append(append([]byte{}, b[i:j]...), b[j:]...)...)
		}
	case 4, 5, 6: // edit the digits of a length / count
		locs := numRun.FindAllIndex(b, -1)
		if len(locs) > 0 {
			l := locs[r.Intn(len(locs))]
			repl := boundaryNums[r.Intn(len(boundaryNums))]
			b = append(append(append([]byte{}, b[:l[0]+1]...), repl...), b[l[1]:]...)
		}
	case 7: // drop or double a CR / LF
		idx := bytes.IndexAny(b, "\r\n")
		if idx >= 0 {
			if r.Bool() {
				b = append(b[:idx], b[idx+1:]...)
			} else {
				b = append(b[:idx+1], b[idx:]...)
			}
		}
	}
	return b
}

var nearValid = []string{
	"*0\r\n", "*-1\r\n", "$-1\r\n", "$0\r\n\r\n", "$0\r\n", "$0\r\nx", "*1\r\n", "*2\r\n$1\r\na\r\n", "*1\r\n$1\r\na", "+OK", "+OK\r", "+OK\n", "+\r\n", "+", "*", "$", ":", "-",
	"?\r\n", "x", "\r\n", "\n", "*1\r\n*1\r\n*1\r\n", "$3\r\nabcde\r\n", "$3\r\nabc\rX", "$3\r\nab", "*1\n$1\r\na\r\n", "$1\ra\r\n", "*a\r\n", "$ 1\r\na\r\n",
	"$9223372036854775807\r\n", "*99999999999999\r\n", "*9223372036854775807\r\n$1\r\na\r\n", "$536870912\r\n", "$536870913\r\nabc", "$-2\r\n", "*-9223372036854775808\r\n",
	"$2147483648\r\nab\r\n", "*2147483647\r\n", "$9223372036854775806\r\nabc\r\n", "$18446744073709551615\r\n", "$10000000000000\r\n",
}

func genC06(tier string, seed uint64, emit func(string)) {
	r := NewRng(seed)
	for _, s := range nearValid {
		emit(segsCase("hostile", [][]byte{[]byte(s)}))
		emit(segsCase("hostile", oneByteSegs([]byte(s))))
	}
	// deep nesting
	for _, d := range []int{10, 100, 1000, 20000} {
		if d > 1000 && tier != "thorough" {
			continue
		}
		emit(segsCase("hostile", [][]byte{bytes.Repeat([]byte("*1\r\n"), d)}))
		emit(segsCase("hostile", [][]byte{append(bytes.Repeat([]byte("*1\r\n"), d), []byte(":1\r\n")...)}))
	}
	// large bulk strings up to the 1 MiB bound: declared sizes 2^k + c (where buffers that start at a power of two and
	// double have their critical sizes), payload complete / one byte short, terminator right / wrong / missing
	offs := []int{-2, -1, 0, 1, 2, 3, 4, 7, 8}
	if tier == "thorough" {
		offs = nil
		for c := -12; c <= 12; c++ {
			offs = append(offs, c)
		}
	}
	for k := 12; k <= 19; k++ {
		for _, c := range offs {
			n := 1<<k + c
			emit(fmt.Sprintf("bulk %d %d %s", n, n, hx([]byte("\r\n"))))
			emit(fmt.Sprintf("bulk %d %d %s", n, n, hx([]byte("xy"))))
			emit(fmt.Sprintf("bulk %d %d -", n, n))
			emit(fmt.Sprintf("bulk %d %d -", n, n-1))
		}
	}
	// thorough: EVERY bulk length up to the 1 MiB bound (2^20 lengths, in 256 ranges)
	if tier == "thorough" {
		for lo := 0; lo < 1<<20; lo += 4096 {
			emit(fmt.Sprintf("bulksweep %d %d", lo, lo+4096))
		}
	} else {
		// quick: every length up to 8192 and a window around every power of two
		emit("bulksweep 0 8193")
		for k := 14; k <= 19; k++ {
			emit(fmt.Sprintf("bulksweep %d %d", 1<<k-40, 1<<k+40))
		}
	}
	// one line far longer than any line or read buffer (a status, error or integer payload, a length or count header),
	// at top level and as an array element, terminated or cut off by the end of the stream
	{
		lens := []int{4095, 4096, 4097, 65535, 65536, 65537, 70000, 131073}
		if tier == "thorough" {
			lens = append(lens, 262145, 1<<20-8)
		}
		for _, n := range lens {
			for _, ty := range []string{"+", "-", ":", "$", "*"} {
				fill := "a"
				if ty != "+" && ty != "-" {
					fill = "1"
				}
				for _, pre := range []string{"", "*2\r\n$3\r\nGET\r\n"} {
					for _, tail := range []string{"", "\r\n", "\r", "\r\n+OK\r\n"} {
						emit(fmt.Sprintf("longline %s %s %s %d %s 0", hx([]byte(pre)), hx([]byte(ty)), hx([]byte(fill)), n, hx([]byte(tail))))
					}
					emit(fmt.Sprintf("longline %s %s %s %d %s %d", hx([]byte(pre)), hx([]byte(ty)), hx([]byte(fill)), n, hx([]byte("")), n/2))
				}
			}
		}
	}
	// nesting up to the 1 MiB bound of the property (4 bytes per level), with and without an innermost value
	for _, d := range []int{65536, 131072, 262143} {
		emit(fmt.Sprintf("deep %d -", d))
	}
	if tier == "thorough" {
		emit(fmt.Sprintf("deep %d %s", 65536, hx([]byte(":1\r\n"))))
	}
	n := 12000
	if tier == "thorough" {
		n = 600000
	}
	for i := 0; i < n; i++ {
		var b []byte
		switch r.Intn(10) {
		case 0: // random bytes
			b = r.Bytes(r.Intn(24))
		case 1: // random bytes over the RESP alphabet
			k := r.Intn(20)
			for j := 0; j < k; j++ {
				const alpha = "+-:$*0123456789\r\n a"
				b = append(b, alpha[r.Intn(len(alpha))])
			}
		default:
			nv := 1 + r.Intn(3)
			for j := 0; j < nv; j++ {
				genTree(r, r.Intn(4), 5, !r.Chance(1, 10), false).refEnc(&b)
			}
			for k := 1 + r.Intn(3); k > 0; k-- {
				b = mutate(r, b)
			}
		}
		if r.Chance(1, 4) {
			emit(segsCase("hostile", partition(r, b, 2+r.Intn(5))))
		} else {
			emit(segsCase("hostile", [][]byte{b}))
		}
	}
}

var bigDecl = regexp.MustCompile(`[$*]\+?[0-9]{8,}`)

// synthReader produces "$<n>\r\n" + n times 'a' + "\r\n" without materialising it, in reads of at most `chunk` bytes.
type synthReader struct {
	head  []byte
	n     int
	tail  []byte
	chunk int
}

func (s *synthReader) Read(b []byte) (int, error) {
	if len(b) > s.chunk {
		b = b[:s.chunk]
	}
	switch {
	case len(s.head) > 0:
		k := copy(b, s.head)
		s.head = s.head[k:]
		return k, nil
	case s.n > 0:
		k := len(b)
		if k > s.n {
			k = s.n
		}
		for i := 0; i < k; i++ {
			b[i] = 'a'
		}
		s.n -= k
		return k, nil
	case len(s.tail) > 0:
		k := copy(b, s.tail)
		s.tail = s.tail[k:]
		return k, nil
	}
	return 0, io.EOF
}

func runC06(toks []string) Result {
	if toks[0] == "bulksweep" {
		// "bulksweep <lo> <hi>": every bulk length lo <= n < hi, well-formed, delivered in 64 KiB reads: the parser must
		// return exactly n payload bytes and then the clean end of the stream (a spin is caught by the case deadline)
		lo, _ := strconv.Atoi(toks[1])
		hi, _ := strconv.Atoi(toks[2])
		for n := lo; n < hi; n++ {
			rd := &synthReader{head: []byte(fmt.Sprintf("$%d\r\n", n)), n: n, tail: []byte("\r\n"), chunk: 65536}
			p := proto.NewParserWithReader(rd)
			msg, err := p.Next()
			if err != nil || msg == nil {
				return Result{Obs: fmt.Sprintf("bad@%d", n), Oracle: fmt.Sprintf("fail:a well-formed bulk string of %d bytes was not parsed (%v)", n, err), Tags: []string{"nt", "bulksweep"}}
			}
			b, berr := msg.Bytes()
			if berr != nil || len(b) != n {
				return Result{Obs: fmt.Sprintf("bad@%d", n), Oracle: fmt.Sprintf("fail:a bulk string of %d bytes came back with %d bytes", n, len(b)), Tags: []string{"nt", "bulksweep"}}
			}
			if m2, err2 := p.Next(); err2 != nil || m2 != nil {
				return Result{Obs: fmt.Sprintf("bad@%d", n), Oracle: fmt.Sprintf("fail:no clean end of stream behind a bulk string of %d bytes", n), Tags: []string{"nt", "bulksweep"}}
			}
		}
		return Result{Obs: "ok", Oracle: "ok", Tags: []string{"nt", "bulksweep"}}
	}
	if toks[0] == "bulk" {
		// "bulk <declared> <present> <tailhex>": a bulk header declaring <declared> bytes, <present> payload bytes 'a', then
		// <tail> (the terminator, a wrong one, or nothing) - compact form of large inputs up to the 1 MiB bound
		decl, _ := strconv.Atoi(toks[1])
		present, _ := strconv.Atoi(toks[2])
		stream := append([]byte(fmt.Sprintf("$%d\r\n", decl)), bytes.Repeat([]byte("a"), present)...)
		stream = append(stream, unhx(toks[3])...)
		_, vals, end := streamOutcome([][]byte{stream}, 4)
		obs := end
		if len(vals) > 0 {
			obs = fmt.Sprintf("v len=%d kind=%c ; %s", len(vals[0].P), vals[0].Kind, end)
		}
		oracle := "ok"
		if end == "panic" {
			oracle = "fail:parser panicked"
		}
		return Result{Obs: obs, Oracle: oracle, Tags: []string{"end-" + end, "bulk", "nt"}}
	}
	if toks[0] == "longline" {
		// "longline <pre> <type> <fill> <n> <tail> <cut>": pre, the type byte, n fill bytes, tail - one line far longer than
		// any buffer, with or without its CR LF, ending with the stream; delivered whole (cut = 0) or in two reads
		n, _ := strconv.Atoi(toks[4])
		cut, _ := strconv.Atoi(toks[6])
		stream := append(append(append(append([]byte{}, unhx(toks[1])...), unhx(toks[2])...), bytes.Repeat(unhx(toks[3]), n)...), unhx(toks[5])...)
		segs := [][]byte{stream}
		if cut > 0 && cut < len(stream) {
			segs = [][]byte{stream[:cut], stream[cut:]}
		}
		obs, _, end := streamOutcome(segs, 1<<21)
		oracle := "ok"
		if end == "panic" {
			oracle = "fail:parser panicked"
		}
		return Result{Obs: obs, Oracle: oracle, Tags: []string{"end-" + end, "longline", "nt"}}
	}
	if toks[0] == "deep" {
		// nesting near the 1 MiB bound: a stack overflow is a fatal error no recover() catches, so always in a child
		if os.Getenv("VH_CHILD") == "" {
			return runIsolated("C06", toks)
		}
		d, _ := strconv.Atoi(toks[1])
		stream := append(bytes.Repeat([]byte("*1\r\n"), d), unhx(toks[2])...)
		obs, _, end := streamOutcome([][]byte{stream}, 1<<21)
		oracle := "ok"
		if end == "panic" {
			oracle = "fail:parser panicked"
		}
		return Result{Obs: obs, Oracle: oracle, Tags: []string{"end-" + end, "deep", "nt"}}
	}
	segs := hexSegs(toks[1:])
	var all []byte
	for _, s := range segs {
		all = append(all, s...)
	}
	// declared sizes of 10^7 and more may abort the whole process (allocation): run those in a child
	if bigDecl.Match(all) && os.Getenv("VH_CHILD") == "" {
		return runIsolated("C06", toks)
	}
	segTag := describeSegs(segs)
	obs, vals, end := streamOutcome(segs, 1<<20)
	oracle := "ok"
	if end == "panic" {
		oracle = "fail:parser panicked"
	}
	for _, v := range vals {
		if strings.Contains(" "+v.String()+" ", " z ") {
			oracle = "fail:parser returned an array with an absent element"
		}
	}
	tags := []string{"end-" + end, segTag, "nt"}
	if len(vals) > 0 {
		tags = append(tags, "values")
	}
	return Result{Obs: obs, Oracle: oracle, Tags: tags}
}

// runIsolated re-invokes the harness for one case in a child process with a memory limit and a deadline;
// a child that dies is the observable "abort".
func runIsolated(prop string, toks []string) Result {
	return runIsolatedFor(prop, toks, 5*time.Second)
}

func runIsolatedFor(prop string, toks []string, limit time.Duration) Result {
	cmd := exec.Command(os.Args[0], append([]string{"one", prop}, toks...)...)
	cmd.Env = append(os.Environ(), "VH_CHILD=1", "GOMEMLIMIT=1GiB", "GOTRACEBACK=none")
	var out bytes.Buffer
	cmd.Stdout = &out
	done := make(chan error, 1)
	if err := cmd.Start(); err != nil {
		return Result{Obs: "abort", Oracle: "fail:cannot start child: " + err.Error()}
	}
	go func() { done <- cmd.Wait() }()
	select {
	case err := <-done:
		if err != nil {
			return Result{Obs: "abort", Oracle: "fail:process aborted (" + err.Error() + ")", Tags: []string{"isolated", "nt"}}
		}
	case <-time.After(limit):
		cmd.Process.Kill()
		return Result{Obs: "hang", Oracle: "fail:no result within " + limit.String(), Tags: []string{"isolated", "nt"}}
	}
	f := strings.Split(strings.TrimRight(out.String(), "\n"), "\t")
	res := Result{Obs: f[0], Oracle: "na", Tags: []string{"isolated"}}
	if len(f) > 1 {
		res.Oracle = f[1]
	}
	if len(f) > 2 && f[2] != "" {
		res.Tags = append(res.Tags, strings.Split(f[2], ",")...)
	}
	return res
}
