package main

import (
	"fmt"

	"github.com/cybergarage/go-redis/redis"
)

// before forwards one handler call: it tags the event with the connection being served and probes the
// connection-scoped user data (the embedded sync.Map of redis.Conn).
func (h *probeHandler) before(conn *redis.Conn) func() {
	h.sys.mu.Lock()
	id := h.sys.active
	h.sys.mu.Unlock()
	v, _ := conn.LoadOrStore("vh-probe", id)
	probe := "own"
	if v != id {
		probe = fmt.Sprintf("other%v", v)
	}
	start := len(h.d.log.evs)
	return func() {
		for _, e := range h.d.log.evs[start:] {
			h.sys.add(id, e+","+probe)
		}
	}
}

func (h *probeHandler) Del(conn *redis.Conn, keys []string) (*redis.Message, error) {
	done := h.before(conn)
	m, err := h.d.Del(conn, keys)
	done()
	return m, err
}

func (h *probeHandler) Exists(conn *redis.Conn, keys []string) (*redis.Message, error) {
	done := h.before(conn)
	m, err := h.d.Exists(conn, keys)
	done()
	return m, err
}

func (h *probeHandler) Expire(conn *redis.Conn, key string, opt redis.ExpireOption) (*redis.Message, error) {
	done := h.before(conn)
	m, err := h.d.Expire(conn, key, opt)
	done()
	return m, err
}

func (h *probeHandler) Keys(conn *redis.Conn, pattern string) (*redis.Message, error) {
	done := h.before(conn)
	m, err := h.d.Keys(conn, pattern)
	done()
	return m, err
}

func (h *probeHandler) Rename(conn *redis.Conn, key string, newkey string, opt redis.RenameOption) (*redis.Message, error) {
	done := h.before(conn)
	m, err := h.d.Rename(conn, key, newkey, opt)
	done()
	return m, err
}

func (h *probeHandler) Type(conn *redis.Conn, key string) (*redis.Message, error) {
	done := h.before(conn)
	m, err := h.d.Type(conn, key)
	done()
	return m, err
}

func (h *probeHandler) TTL(conn *redis.Conn, key string) (*redis.Message, error) {
	done := h.before(conn)
	m, err := h.d.TTL(conn, key)
	done()
	return m, err
}

func (h *probeHandler) Scan(conn *redis.Conn, cursor int, opt redis.ScanOption) (*redis.Message, error) {
	done := h.before(conn)
	m, err := h.d.Scan(conn, cursor, opt)
	done()
	return m, err
}

func (h *probeHandler) Get(conn *redis.Conn, key string) (*redis.Message, error) {
	done := h.before(conn)
	m, err := h.d.Get(conn, key)
	done()
	return m, err
}

func (h *probeHandler) Set(conn *redis.Conn, key string, val string, opt redis.SetOption) (*redis.Message, error) {
	done := h.before(conn)
	m, err := h.d.Set(conn, key, val, opt)
	done()
	return m, err
}

func (h *probeHandler) HDel(conn *redis.Conn, key string, fields []string) (*redis.Message, error) {
	done := h.before(conn)
	m, err := h.d.HDel(conn, key, fields)
	done()
	return m, err
}

func (h *probeHandler) HSet(conn *redis.Conn, key string, field string, val string, opt redis.HSetOption) (*redis.Message, error) {
	done := h.before(conn)
	m, err := h.d.HSet(conn, key, field, val, opt)
	done()
	return m, err
}

func (h *probeHandler) HGet(conn *redis.Conn, key string, field string) (*redis.Message, error) {
	done := h.before(conn)
	m, err := h.d.HGet(conn, key, field)
	done()
	return m, err
}

func (h *probeHandler) HGetAll(conn *redis.Conn, key string) (*redis.Message, error) {
	done := h.before(conn)
	m, err := h.d.HGetAll(conn, key)
	done()
	return m, err
}

func (h *probeHandler) LPush(conn *redis.Conn, key string, elements []string, opt redis.PushOption) (*redis.Message, error) {
	done := h.before(conn)
	m, err := h.d.LPush(conn, key, elements, opt)
	done()
	return m, err
}

func (h *probeHandler) RPush(conn *redis.Conn, key string, elements []string, opt redis.PushOption) (*redis.Message, error) {
	done := h.before(conn)
	m, err := h.d.RPush(conn, key, elements, opt)
	done()
	return m, err
}

func (h *probeHandler) LPop(conn *redis.Conn, key string, count int) (*redis.Message, error) {
	done := h.before(conn)
	m, err := h.d.LPop(conn, key, count)
	done()
	return m, err
}

func (h *probeHandler) RPop(conn *redis.Conn, key string, count int) (*redis.Message, error) {
	done := h.before(conn)
	m, err := h.d.RPop(conn, key, count)
	done()
	return m, err
}

func (h *probeHandler) LRange(conn *redis.Conn, key string, start int, stop int) (*redis.Message, error) {
	done := h.before(conn)
	m, err := h.d.LRange(conn, key, start, stop)
	done()
	return m, err
}

func (h *probeHandler) LIndex(conn *redis.Conn, key string, index int) (*redis.Message, error) {
	done := h.before(conn)
	m, err := h.d.LIndex(conn, key, index)
	done()
	return m, err
}

func (h *probeHandler) LLen(conn *redis.Conn, key string) (*redis.Message, error) {
	done := h.before(conn)
	m, err := h.d.LLen(conn, key)
	done()
	return m, err
}

func (h *probeHandler) SAdd(conn *redis.Conn, key string, members []string) (*redis.Message, error) {
	done := h.before(conn)
	m, err := h.d.SAdd(conn, key, members)
	done()
	return m, err
}

func (h *probeHandler) SMembers(conn *redis.Conn, key string) (*redis.Message, error) {
	done := h.before(conn)
	m, err := h.d.SMembers(conn, key)
	done()
	return m, err
}

func (h *probeHandler) SRem(conn *redis.Conn, key string, members []string) (*redis.Message, error) {
	done := h.before(conn)
	m, err := h.d.SRem(conn, key, members)
	done()
	return m, err
}

func (h *probeHandler) ZAdd(conn *redis.Conn, key string, members []*redis.ZSetMember, opt redis.ZAddOption) (*redis.Message, error) {
	done := h.before(conn)
	m, err := h.d.ZAdd(conn, key, members, opt)
	done()
	return m, err
}

func (h *probeHandler) ZRange(conn *redis.Conn, key string, start int, stop int, opt redis.ZRangeOption) (*redis.Message, error) {
	done := h.before(conn)
	m, err := h.d.ZRange(conn, key, start, stop, opt)
	done()
	return m, err
}

func (h *probeHandler) ZRangeByScore(conn *redis.Conn, key string, min float64, max float64, opt redis.ZRangeOption) (*redis.Message, error) {
	done := h.before(conn)
	m, err := h.d.ZRangeByScore(conn, key, min, max, opt)
	done()
	return m, err
}

func (h *probeHandler) ZRem(conn *redis.Conn, key string, members []string) (*redis.Message, error) {
	done := h.before(conn)
	m, err := h.d.ZRem(conn, key, members)
	done()
	return m, err
}

func (h *probeHandler) ZScore(conn *redis.Conn, key string, member string) (*redis.Message, error) {
	done := h.before(conn)
	m, err := h.d.ZScore(conn, key, member)
	done()
	return m, err
}

func (h *probeHandler) ZIncBy(conn *redis.Conn, key string, inc float64, member string) (*redis.Message, error) {
	done := h.before(conn)
	m, err := h.d.ZIncBy(conn, key, inc, member)
	done()
	return m, err
}
