// vh is the verification harness for cybergarage/go-redis: it generates cases, runs the real code on them
// and prints one canonical line per case (observable \t oracle verdict \t tags).
package main

import (
	"bufio"
	"fmt"
	"os"
	"strconv"
	"strings"
	"time"
)

// Result of running one case on the implementation.
type Result struct {
	Obs    string   // canonical observable, compared with the model's line
	Oracle string   // "ok", "na" (outside the property's domain) or "fail:<reason>"
	Tags   []string // coverage / distribution tags
}

type Property struct {
	Gen func(tier string, seed uint64, emit func(string))
	Run func(toks []string) Result
}

var properties = map[string]*Property{}

func usage() {
	fmt.Fprintln(os.Stderr, "usage: vh gen <prop> <tier> <seed> | vh run <prop> < cases | vh one <prop> <case...>")
	os.Exit(2)
}

func runCase(p *Property, line string) (res Result) {
	toks := strings.Fields(line)
	defer func() {
		if r := recover(); r != nil {
			res = Result{Obs: "harness-panic:" + strings.ReplaceAll(fmt.Sprint(r), "\n", " "), Oracle: "fail:harness-panic", Tags: nil}
		}
	}()
	// a few case formats are shared across properties (e.g. an example-server witness in C07's corpus)
	if r, ok := opRunners[toks[0]]; ok {
		return r(toks)
	}
	return p.Run(toks)
}

var opRunners = map[string]func([]string) Result{}

func main() {
	if len(os.Args) < 3 {
		usage()
	}
	p, ok := properties[os.Args[2]]
	if !ok {
		fmt.Fprintln(os.Stderr, "unknown property", os.Args[2])
		os.Exit(2)
	}
	out := bufio.NewWriterSize(os.Stdout, 1<<20)
	defer out.Flush()
	switch os.Args[1] {
	case "gen":
		if len(os.Args) < 5 {
			usage()
		}
		seed, _ := strconv.ParseUint(os.Args[4], 10, 64)
		p.Gen(os.Args[3], seed, func(s string) { fmt.Fprintln(out, s) })
	case "run":
		sc := bufio.NewScanner(os.Stdin)
		sc.Buffer(make([]byte, 1<<20), 1<<28)
		for sc.Scan() {
			line := sc.Text()
			if strings.TrimSpace(line) == "" {
				continue
			}
			// every case has a deadline: a case that spins or blocks is reported as such, and the process ends there
			// (the cases behind it are run again, each on its own, by bin/check)
			limit := 120 * time.Second
			if v := os.Getenv("VH_CASE_LIMIT"); v != "" {
				if n, err := strconv.Atoi(v); err == nil {
					limit = time.Duration(n) * time.Second
				}
			}
			done := make(chan Result, 1)
			go func() { done <- runCase(p, line) }()
			select {
			case r := <-done:
				fmt.Fprintf(out, "%s\t%s\t%s\n", r.Obs, r.Oracle, strings.Join(r.Tags, ","))
			case <-time.After(limit):
				fmt.Fprintf(out, "hang\tfail:the case did not finish within %d s (spinning or blocked)\tnt,hang\n", int(limit.Seconds()))
				out.Flush()
				os.Exit(3)
			}
		}
	case "one":
		r := runCase(p, strings.Join(os.Args[3:], " "))
		fmt.Fprintf(out, "%s\t%s\t%s\n", r.Obs, r.Oracle, strings.Join(r.Tags, ","))
	default:
		usage()
	}
}
