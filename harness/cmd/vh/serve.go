package main

import (
	"context"
	"fmt"
	"io"
	"math"
	"net"
	"strconv"
	"strings"
	"syscall"
	"time"

	"github.com/cybergarage/go-redis/redis"
	"github.com/cybergarage/go-redis/redis/auth"
	"github.com/cybergarage/go-redis/redis/proto"
	"github.com/cybergarage/go-tracing/tracer"
	"github.com/cybergarage/go-tracing/tracer/common"
)

// ---------------------------------------------------------------------------------------------------
// event log shared by the scripted connection, the handler double and the tracer double
// ---------------------------------------------------------------------------------------------------

type eventLog struct {
	evs []string
}

func (l *eventLog) add(s string) { l.evs = append(l.evs, s) }

// ---------------------------------------------------------------------------------------------------
// scripted in-memory net.Conn
// ---------------------------------------------------------------------------------------------------

type memAddr struct{}

func (memAddr) Network() string { return "mem" }
func (memAddr) String() string  { return "mem:0" }

type scriptConn struct {
	log     *eventLog
	segs    [][]byte
	started bool
	written []byte
	blocks  []int // complete reply frames written at each blocking point (a Read that had to wait for a new segment)
	closed  int
	wantBlk bool
	lag     time.Duration
	gap     time.Duration // real idle time before the second segment is delivered
	rerr    string // "", "closed", "reset": the error the read at the end of the stream returns (default EOF)
	wfail   int    // >0: the wfail-th and every later Write fails
	writes  int
	deof    bool // the last bytes are delivered together with io.EOF
	// deadlines the framework armed (see segReader: segments are an hour apart on this transport's clock)
	rdeadline, wdeadline time.Time
}

func (c *scriptConn) Read(b []byte) (int, error) {
	if c.lag > 0 {
		// the client is slow to send its first request: the connection is that old when the request is executed
		time.Sleep(c.lag)
		c.lag = 0
	}
	waited := false
	for len(c.segs) > 0 && len(c.segs[0]) == 0 {
		// the current segment is used up: the loop now waits for bytes that have not been sent yet
		c.segs = c.segs[1:]
		c.blocks = append(c.blocks, countFrames(c.written))
		waited = true
		if c.gap > 0 {
			time.Sleep(c.gap)
			c.gap = 0
		}
	}
	if waited && !c.rdeadline.IsZero() && time.Now().Add(idleGap).After(c.rdeadline) {
		return 0, timeoutError{}
	}
	if len(c.segs) == 0 {
		// how the stream ends: an orderly end (EOF), the socket closed underneath the reader (Stop), or a reset by the peer
		switch c.rerr {
		case "closed":
			return 0, net.ErrClosed
		case "reset":
			return 0, &net.OpError{Op: "read", Net: "tcp", Err: syscall.ECONNRESET}
		}
		return 0, io.EOF
	}
	n := copy(b, c.segs[0])
	c.segs[0] = c.segs[0][n:]
	if c.deof && c.rerr == "" && len(c.segs[0]) == 0 {
		// the transport hands out the last bytes together with the end of the stream (tls.Conn does when the peer's
		// close_notify is already buffered behind the last record)
		last := true
		for _, rest := range c.segs[1:] {
			if len(rest) > 0 {
				last = false
			}
		}
		if last {
			c.segs = nil
			return n, io.EOF
		}
	}
	return n, nil
}

func countFrames(b []byte) int {
	n := 0
	for len(b) > 0 {
		_, rest, ok := refParse(b)
		if !ok {
			break
		}
		n++
		b = rest
	}
	return n
}

func (c *scriptConn) Write(b []byte) (int, error) {
	if !c.wdeadline.IsZero() && time.Now().After(c.wdeadline) {
		// a write deadline that has passed (in real time): as on a socket, nothing is written
		return 0, timeoutError{}
	}
	c.log.add("wr:" + canonReply(b))
	c.writes++
	if c.wfail > 0 && c.writes >= c.wfail {
		// the peer has gone away: this and every later write fails (what was attempted is still recorded - the loop
		// does not branch on the outcome of a write)
		return 0, io.ErrClosedPipe
	}
	c.written = append(c.written, b...)
	return len(b), nil
}

// canonReply: error frames are compared by class only (error wording is not a property-relevant observable)
func canonReply(b []byte) string {
	if len(b) > 0 && b[0] == '-' {
		return "E"
	}
	return hx(b)
}

func (c *scriptConn) Close() error {
	c.closed++
	if c.closed == 1 {
		c.log.add("close")
	}
	return nil
}
func (c *scriptConn) LocalAddr() net.Addr                { return memAddr{} }
func (c *scriptConn) RemoteAddr() net.Addr               { return memAddr{} }
func (c *scriptConn) SetDeadline(t time.Time) error      { c.rdeadline, c.wdeadline = t, t; return nil }
func (c *scriptConn) SetReadDeadline(t time.Time) error  { c.rdeadline = t; return nil }
func (c *scriptConn) SetWriteDeadline(t time.Time) error { c.wdeadline = t; return nil }

// ---------------------------------------------------------------------------------------------------
// handler double: records every call with its decoded arguments, answers from the script
// ---------------------------------------------------------------------------------------------------

type scriptedResult struct {
	msg    *Node // nil = nil message
	err    *string
	expect string // the call the scripting reference store answered ("" = any call)
}

type double struct {
	log    *eventLog
	script []scriptedResult
	calls  int
	memo   map[*Node]*redis.Message // non-nil: reply objects are kept and handed out again
	// non-empty: a Get of this key panics (an application handler with a bug), before anything is recorded
	panicKey string
}

func hxs(ss []string) string {
	parts := make([]string, len(ss))
	for i, s := range ss {
		parts[i] = hx([]byte(s))
	}
	return "[" + strings.Join(parts, ",") + "]"
}

func b01(b bool) string {
	if b {
		return "1"
	}
	return "0"
}

func (d *double) answer(conn *redis.Conn, call string) (*redis.Message, error) {
	d.calls++
	d.log.add(fmt.Sprintf("hc:%s@%d,%s", call, conn.Database(), b01(conn.IsAuthrized())))
	if len(d.script) == 0 {
		return nil, nil
	}
	r := d.script[0]
	if r.expect != "" && r.expect != call {
		// Go iterates maps in no particular order (MSET, HMSET, MSETNX): accept the answer scripted for this
		// very call if it comes a little later; otherwise the framework asked the store something the request is
		// not defined to ask, and no scripted answer applies.
		found := -1
		for i := 1; i < len(d.script) && i < 64; i++ {
			if d.script[i].expect == call {
				found = i
				break
			}
		}
		if found < 0 {
			return nil, fmt.Errorf("unexpected handler call %s", call)
		}
		r = d.script[found]
		d.script = append(append([]scriptedResult{}, d.script[:found]...), d.script[found+1:]...)
	} else if len(d.script) > 1 {
		d.script = d.script[1:]
	}
	var msg *redis.Message
	if r.msg != nil {
		if d.memo != nil {
			// a handler that keeps its reply objects: the same result is the same *redis.Message every time
			if m, ok := d.memo[r.msg]; ok {
				msg = m
			} else {
				msg = r.msg.toMessage()
				d.memo[r.msg] = msg
			}
		} else {
			msg = r.msg.toMessage()
		}
	}
	if d.memo != nil && msg != nil {
		// ... and that has read part of its own reply before returning it (the read position of a reply is the
		// handler's business; it must not influence what the client receives)
		if arr, err := msg.Array(); err == nil && arr != nil {
			for k := d.calls % 3; k > 0; k-- {
				arr.Next()
			}
		}
	}
	if r.err != nil {
		return msg, fmt.Errorf("%s", *r.err)
	}
	return msg, nil
}

func (d *double) Del(conn *redis.Conn, keys []string) (*redis.Message, error) {
	return d.answer(conn, "del("+hxs(keys)+")")
}
func (d *double) Exists(conn *redis.Conn, keys []string) (*redis.Message, error) {
	return d.answer(conn, "exists("+hxs(keys)+")")
}
func (d *double) Expire(conn *redis.Conn, key string, opt redis.ExpireOption) (*redis.Message, error) {
	now := time.Now()
	delta := opt.Time.Sub(now)
	when := ""
	if delta > -(1e8+5)*time.Second && delta < (1e8+5)*time.Second {
		when = "rel," + strconv.FormatInt(int64(math.Round(delta.Seconds())), 10)
	} else {
		when = "abs," + strconv.FormatInt(opt.Time.Unix(), 10)
	}
	flag := "none"
	switch {
	case opt.NX:
		flag = "nx"
	case opt.XX:
		flag = "xx"
	case opt.GT:
		flag = "gt"
	case opt.LT:
		flag = "lt"
	}
	return d.answer(conn, fmt.Sprintf("expire(%s,%s,%s)", hx([]byte(key)), when, flag))
}
func (d *double) Keys(conn *redis.Conn, pattern string) (*redis.Message, error) {
	return d.answer(conn, "keys("+hx([]byte(pattern))+")")
}
func (d *double) Rename(conn *redis.Conn, key string, newkey string, opt redis.RenameOption) (*redis.Message, error) {
	return d.answer(conn, fmt.Sprintf("rename(%s,%s,%s)", hx([]byte(key)), hx([]byte(newkey)), b01(opt.NX)))
}
func (d *double) Type(conn *redis.Conn, key string) (*redis.Message, error) {
	return d.answer(conn, "type("+hx([]byte(key))+")")
}
func (d *double) TTL(conn *redis.Conn, key string) (*redis.Message, error) {
	return d.answer(conn, "ttl("+hx([]byte(key))+")")
}
func (d *double) Scan(conn *redis.Conn, cursor int, opt redis.ScanOption) (*redis.Message, error) {
	pat := "nil"
	if opt.MatchPattern != nil {
		pat = hx([]byte(opt.MatchPattern.String()))
	}
	return d.answer(conn, fmt.Sprintf("scan(%d,%s,%d)", cursor, pat, opt.Count))
}
func (d *double) Get(conn *redis.Conn, key string) (*redis.Message, error) {
	if d.panicKey != "" && key == d.panicKey {
		panic("the application's handler panicked (requested by the case)")
	}
	return d.answer(conn, "get("+hx([]byte(key))+")")
}
func setOptString(opt redis.SetOption) string {
	var exp []string
	if opt.EX != 0 {
		exp = append(exp, "ex:"+strconv.FormatInt(int64(opt.EX), 10))
	}
	if opt.PX != 0 {
		exp = append(exp, "px:"+strconv.FormatInt(int64(opt.PX), 10))
	}
	if !opt.EXAT.IsZero() {
		exp = append(exp, "exat:"+strconv.FormatInt(opt.EXAT.Unix(), 10))
	}
	if !opt.PXAT.IsZero() {
		exp = append(exp, "pxat:"+strconv.FormatInt(opt.PXAT.UnixMilli(), 10))
	}
	e := "-"
	if len(exp) > 0 {
		e = strings.Join(exp, "+")
	}
	return fmt.Sprintf("%s%s%s%s,%s", b01(opt.NX), b01(opt.XX), b01(opt.KEEPTTL), b01(opt.GET), e)
}
func (d *double) Set(conn *redis.Conn, key string, val string, opt redis.SetOption) (*redis.Message, error) {
	return d.answer(conn, fmt.Sprintf("set(%s,%s,%s)", hx([]byte(key)), hx([]byte(val)), setOptString(opt)))
}
func (d *double) HDel(conn *redis.Conn, key string, fields []string) (*redis.Message, error) {
	return d.answer(conn, fmt.Sprintf("hdel(%s,%s)", hx([]byte(key)), hxs(fields)))
}
func (d *double) HSet(conn *redis.Conn, key string, field string, val string, opt redis.HSetOption) (*redis.Message, error) {
	return d.answer(conn, fmt.Sprintf("hset(%s,%s,%s,%s)", hx([]byte(key)), hx([]byte(field)), hx([]byte(val)), b01(opt.NX)))
}
func (d *double) HGet(conn *redis.Conn, key string, field string) (*redis.Message, error) {
	return d.answer(conn, fmt.Sprintf("hget(%s,%s)", hx([]byte(key)), hx([]byte(field))))
}
func (d *double) HGetAll(conn *redis.Conn, key string) (*redis.Message, error) {
	return d.answer(conn, "hgetall("+hx([]byte(key))+")")
}
func (d *double) LPush(conn *redis.Conn, key string, elements []string, opt redis.PushOption) (*redis.Message, error) {
	return d.answer(conn, fmt.Sprintf("lpush(%s,%s,%s)", hx([]byte(key)), hxs(elements), b01(opt.X)))
}
func (d *double) RPush(conn *redis.Conn, key string, elements []string, opt redis.PushOption) (*redis.Message, error) {
	return d.answer(conn, fmt.Sprintf("rpush(%s,%s,%s)", hx([]byte(key)), hxs(elements), b01(opt.X)))
}
func (d *double) LPop(conn *redis.Conn, key string, count int) (*redis.Message, error) {
	return d.answer(conn, fmt.Sprintf("lpop(%s,%d)", hx([]byte(key)), count))
}
func (d *double) RPop(conn *redis.Conn, key string, count int) (*redis.Message, error) {
	return d.answer(conn, fmt.Sprintf("rpop(%s,%d)", hx([]byte(key)), count))
}
func (d *double) LRange(conn *redis.Conn, key string, start int, stop int) (*redis.Message, error) {
	return d.answer(conn, fmt.Sprintf("lrange(%s,%d,%d)", hx([]byte(key)), start, stop))
}
func (d *double) LIndex(conn *redis.Conn, key string, index int) (*redis.Message, error) {
	return d.answer(conn, fmt.Sprintf("lindex(%s,%d)", hx([]byte(key)), index))
}
func (d *double) LLen(conn *redis.Conn, key string) (*redis.Message, error) {
	return d.answer(conn, "llen("+hx([]byte(key))+")")
}
func (d *double) SAdd(conn *redis.Conn, key string, members []string) (*redis.Message, error) {
	return d.answer(conn, fmt.Sprintf("sadd(%s,%s)", hx([]byte(key)), hxs(members)))
}
func (d *double) SMembers(conn *redis.Conn, key string) (*redis.Message, error) {
	return d.answer(conn, "smembers("+hx([]byte(key))+")")
}
func (d *double) SRem(conn *redis.Conn, key string, members []string) (*redis.Message, error) {
	return d.answer(conn, fmt.Sprintf("srem(%s,%s)", hx([]byte(key)), hxs(members)))
}
func fbits(f float64) string { return fmt.Sprintf("%016x", math.Float64bits(f)) }
func (d *double) ZAdd(conn *redis.Conn, key string, members []*redis.ZSetMember, opt redis.ZAddOption) (*redis.Message, error) {
	parts := make([]string, len(members))
	for i, m := range members {
		parts[i] = fbits(m.Score) + ":" + hx([]byte(m.Member))
	}
	return d.answer(conn, fmt.Sprintf("zadd(%s,[%s],%s%s%s%s%s%s)", hx([]byte(key)), strings.Join(parts, ","),
		b01(opt.XX), b01(opt.NX), b01(opt.LT), b01(opt.GT), b01(opt.CH), b01(opt.INCR)))
}
func zrOpt(o redis.ZRangeOption) string {
	return fmt.Sprintf("%s%s%s%s%s%s,%d,%d", b01(o.BYSCORE), b01(o.BYLEX), b01(o.REV), b01(o.WITHSCORES), b01(o.MINEXCLUSIVE), b01(o.MAXEXCLUSIVE), o.Offset, o.Count)
}
func (d *double) ZRange(conn *redis.Conn, key string, start int, stop int, opt redis.ZRangeOption) (*redis.Message, error) {
	return d.answer(conn, fmt.Sprintf("zrange(%s,%d,%d,%s)", hx([]byte(key)), start, stop, zrOpt(opt)))
}
func (d *double) ZRangeByScore(conn *redis.Conn, key string, min float64, max float64, opt redis.ZRangeOption) (*redis.Message, error) {
	return d.answer(conn, fmt.Sprintf("zrangebyscore(%s,%s,%s,%s)", hx([]byte(key)), fbits(min), fbits(max), zrOpt(opt)))
}
func (d *double) ZRem(conn *redis.Conn, key string, members []string) (*redis.Message, error) {
	return d.answer(conn, fmt.Sprintf("zrem(%s,%s)", hx([]byte(key)), hxs(members)))
}
func (d *double) ZScore(conn *redis.Conn, key string, member string) (*redis.Message, error) {
	return d.answer(conn, fmt.Sprintf("zscore(%s,%s)", hx([]byte(key)), hx([]byte(member))))
}
func (d *double) ZIncBy(conn *redis.Conn, key string, inc float64, member string) (*redis.Message, error) {
	return d.answer(conn, fmt.Sprintf("zincrby(%s,%s,%s)", hx([]byte(key)), fbits(inc), hx([]byte(member))))
}

// ---------------------------------------------------------------------------------------------------
// tracer double on the library's own span context
// ---------------------------------------------------------------------------------------------------

type recTracer struct {
	log  *eventLog
	next int
}

type recSpan struct {
	t  *recTracer
	id int
}

func (s *recSpan) SetTag(string, any)       {}
func (s *recSpan) Finish()                  { s.t.log.add(fmt.Sprintf("fin:%d", s.id)) }
func (s *recSpan) Context() context.Context { return context.Background() }
func (s *recSpan) StartSpan(name string) tracer.Context {
	return common.NewSpanContextWith(s.t.newSpan(s.id, name))
}
func (t *recTracer) newSpan(parent int, name string) *recSpan {
	t.next++
	t.log.add(fmt.Sprintf("start:%d:%d:%s", t.next, parent, name))
	return &recSpan{t, t.next}
}
func (t *recTracer) SetPackageName(string) {}
func (t *recTracer) SetServiceName(string) {}
func (t *recTracer) SetEndpoint(string)    {}
func (t *recTracer) PackageName() string   { return "" }
func (t *recTracer) ServiceName() string   { return "" }
func (t *recTracer) Endpoint() string      { return "" }
func (t *recTracer) Start() error          { return nil }
func (t *recTracer) Stop() error           { return nil }
func (t *recTracer) StartSpan(name string) tracer.Context {
	return common.NewSpanContextWith(t.newSpan(0, "root"))
}

// ---------------------------------------------------------------------------------------------------
// the serve case
// ---------------------------------------------------------------------------------------------------

// serveCase is one scripted connection: "serve <cfg tokens> | <hex segments> | <script> [| <float table>]"
// cfg tokens: pw=<hex> (requirepass + the authenticator Start would install), nohandler, trace, blk
// script: results separated by ';' — "r <tree>" | "e <hex>" | "re <hex> <tree>"
type serveCase struct {
	pw        *string
	noHandler bool
	trace     bool
	blk       bool
	wfail     int
	rerr      string
	gap  time.Duration
	lag       time.Duration
	memo      bool
	deof      bool
	app       []string
	segs      [][]byte
	script    []scriptedResult
}

func splitSections(toks []string) [][]string {
	var out [][]string
	cur := []string{}
	for _, t := range toks {
		if t == "|" {
			out = append(out, cur)
			cur = []string{}
		} else {
			cur = append(cur, t)
		}
	}
	return append(out, cur)
}

func parseScript(toks []string) []scriptedResult {
	var out []scriptedResult
	var cur []string
	flush := func() {
		if len(cur) == 0 {
			return
		}
		var r scriptedResult
		if cur[0] == "c" && len(cur) > 2 {
			r.expect = cur[1]
			cur = cur[2:]
		}
		switch cur[0] {
		case "r":
			n, _ := parseNode(cur[1:])
			if n.Kind != 'z' {
				r.msg = n
			}
		case "e":
			s := string(unhx(cur[1]))
			r.err = &s
		case "re":
			s := string(unhx(cur[1]))
			r.err = &s
			n, _ := parseNode(cur[2:])
			if n.Kind != 'z' {
				r.msg = n
			}
		}
		out = append(out, r)
		cur = nil
	}
	for _, t := range toks {
		if t == ";" {
			flush()
		} else {
			cur = append(cur, t)
		}
	}
	flush()
	return out
}

func parseServeCase(toks []string) *serveCase {
	secs := splitSections(toks[1:])
	c := &serveCase{}
	for _, t := range secs[0] {
		switch {
		case strings.HasPrefix(t, "pw="):
			s := string(unhx(t[3:]))
			c.pw = &s
		case t == "nohandler":
			c.noHandler = true
		case t == "trace":
			c.trace = true
		case t == "blk":
			c.blk = true
		case strings.HasPrefix(t, "wfail="):
			c.wfail, _ = strconv.Atoi(t[6:])
		case strings.HasPrefix(t, "rerr="):
			c.rerr = t[5:]
		case t == "memo":
			c.memo = true
		case t == "deof":
			c.deof = true
		case strings.HasPrefix(t, "app="):
			// executors the application registers itself, under these names (hex, comma separated)
			for _, h := range strings.Split(t[4:], ",") {
				c.app = append(c.app, string(unhx(h)))
			}
		case strings.HasPrefix(t, "lag="):
			ms, _ := strconv.Atoi(t[4:])
			c.lag = time.Duration(ms) * time.Millisecond
		case strings.HasPrefix(t, "gap="):
			// the client is idle for that long (really: wall-clock time) between its first and its second segment
			ms, _ := strconv.Atoi(t[4:])
			c.gap = time.Duration(ms) * time.Millisecond
		}
	}
	if len(secs) > 1 {
		c.segs = hexSegs(secs[1])
	}
	if len(secs) > 2 {
		c.script = parseScript(secs[2])
	}
	return c
}

type serveResult struct {
	events   []string
	written  []byte
	blocks   []int
	panicked string
	hung     bool
	conns    int
	calls    int
}

// newServerFor builds a server configured as the case says, the way Server.Start would configure it.
func newServerFor(c *serveCase, log *eventLog) (*redis.Server, *double) {
	srv := redis.NewServer()
	d := &double{log: log, script: c.script}
	if c.memo {
		d.memo = map[*Node]*redis.Message{}
	}
	if !c.noHandler {
		srv.SetCommandHandler(d)
	}
	if c.pw != nil {
		srv.SetRequirePass(*c.pw)
		// what Server.Start does when a password is configured
		srv.AddAuthenticator(auth.NewClearTextPasswordAuthenticatorWith("", *c.pw))
	}
	if c.trace {
		srv.SetTracer(&recTracer{log: log})
	}
	for _, name := range c.app {
		// the simplest executor that reaches the handler: one string argument, then Get
		srv.RegisterExexutor(name, func(conn *redis.Conn, cmd string, args redis.Arguments) (*redis.Message, error) {
			key, err := args.NextString()
			if err != nil {
				return nil, err
			}
			return d.Get(conn, key)
		})
	}
	return srv, d
}

func runServe(c *serveCase) *serveResult {
	log := &eventLog{}
	srv, d := newServerFor(c, log)
	conn := &scriptConn{log: log, segs: c.segs, wfail: c.wfail, rerr: c.rerr, lag: c.lag, gap: c.gap, deof: c.deof}
	res := &serveResult{}
	done := make(chan struct{})
	go func() {
		defer close(done)
		defer func() {
			if r := recover(); r != nil {
				res.panicked = fmt.Sprint(r)
			}
		}()
		srv.VerifServeConn(conn, nil)
	}()
	select {
	case <-done:
	case <-time.After(10*time.Second + c.gap + c.lag):
		res.hung = true
		return res
	}
	res.events = log.evs
	res.written = conn.written
	res.blocks = conn.blocks
	res.conns = len(srv.Conns())
	res.calls = d.calls
	return res
}

var _ = proto.StringMessage
