package main

import (
	"fmt"
	"strconv"
	"strings"
)

func init() {
	c08sys, c08life := runSysProp(oracleC08), lifeRunner(oracleC08life)
	properties["C08"] = &Property{Gen: genC08, Run: func(toks []string) Result {
		if toks[0] == "life" {
			// the password gate across Start/Restart on real sockets (plain and TLS): password rotation
			return c08life(toks)
		}
		return c08sys(toks)
	}}
	properties["C13"] = &Property{Gen: genC13, Run: runSysProp(oracleC13)}
}

type sysOracle func(pw *string, sched []sysStep, events []string) (string, []string)

type sysStep struct {
	id   int
	argv [][]byte
	raw  []byte
}

func runSysProp(oracle sysOracle) func(toks []string) Result {
	return func(toks []string) Result {
		obs, base := runSys(toks)
		secs := splitSections(toks[1:])
		var pw *string
		for _, t := range secs[0] {
			if strings.HasPrefix(t, "pw=") {
				s := string(unhx(t[3:]))
				pw = &s
			}
		}
		var sched []sysStep
		if len(secs) > 3 {
			for i := 0; i+1 < len(secs[3]); i += 2 {
				id, _ := strconv.Atoi(secs[3][i])
				raw := unhx(secs[3][i+1])
				st := sysStep{id: id, raw: raw}
				if n, _, ok := refParse(raw); ok && n.Kind == 'a' {
					for _, e := range n.Es {
						if e.Kind == 'b' {
							st.argv = append(st.argv, e.P)
						} else {
							st.argv = append(st.argv, nil)
						}
					}
				}
				sched = append(sched, st)
			}
		}
		if base != "ok" {
			return Result{Obs: obs, Oracle: base, Tags: []string{"nt"}}
		}
		or, tags := oracle(pw, sched, strings.Fields(obs))
		return Result{Obs: obs, Oracle: or, Tags: tags}
	}
}

func sysLine(n int, pw *string, script string, sched []sysStep) string {
	cfg := "n=" + strconv.Itoa(n)
	if pw != nil {
		cfg += " pw=" + hx([]byte(*pw))
	}
	var sb strings.Builder
	var argvs [][][]byte
	for _, s := range sched {
		fmt.Fprintf(&sb, " %d %s", s.id, hx(s.raw))
		argvs = append(argvs, s.argv)
	}
	return "sys " + cfg + " | " + script + " | " + floatTable(argvs...) + " |" + sb.String()
}

func mkStep(id int, nulls map[int]bool, args ...[]byte) sysStep {
	return sysStep{id: id, argv: args, raw: requestBytes(args, nulls)}
}

// interleavings enumerates every merge of the per-connection programs that keeps each program's order.
func interleavings(progs [][]sysStep, emit func([]sysStep)) {
	idx := make([]int, len(progs))
	var cur []sysStep
	var rec func()
	rec = func() {
		done := true
		for c := range progs {
			if idx[c] < len(progs[c]) {
				done = false
				cur = append(cur, progs[c][idx[c]])
				idx[c]++
				rec()
				idx[c]--
				cur = cur[:len(cur)-1]
			}
		}
		if done {
			emit(append([]sysStep{}, cur...))
		}
	}
	rec()
}

func authDictionary(pw string) [][][]byte {
	var out [][][]byte
	one := func(p []byte) { out = append(out, [][]byte{[]byte("AUTH"), p}) }
	two := func(u, p []byte) { out = append(out, [][]byte{[]byte("AUTH"), u, p}) }
	one([]byte(""))
	for i := 1; i < len(pw); i++ {
		one([]byte(pw[:i]))
	}
	one([]byte(pw + "x"))
	one([]byte(pw + "\x00"))
	one([]byte(pw + "\r\n"))
	one([]byte(strings.ToUpper(pw)))
	one([]byte(swapCase(pw)))
	one([]byte(" " + pw))
	two([]byte("default"), []byte(pw))
	two([]byte(pw), []byte(pw))
	two([]byte("admin"), []byte(pw))
	two([]byte(""), []byte("wrong"))
	two([]byte(""), []byte(""))
	out = append(out, [][]byte{[]byte("AUTH")})
	return out
}

func swapCase(s string) string {
	b := []byte(s)
	for i, c := range b {
		if c >= 'a' && c <= 'z' {
			b[i] = c - 32
		} else if c >= 'A' && c <= 'Z' {
			b[i] = c + 32
		}
	}
	return string(b)
}

// oracleC08life: whatever the history of configured passwords, a client is served iff it presents the currently
// configured one.
func oracleC08life(cfg []string, results []string) string {
	for i, r := range results {
		kv := strings.SplitN(r, "=", 2)
		switch {
		case strings.HasPrefix(kv[0], "pingold:") && kv[1] != "auth-E" && kv[1] != "refused":
			return fmt.Sprintf("fail:a client presenting the previous password was not refused (%s at step %d)", r, i)
		case strings.HasPrefix(kv[0], "ping:") && kv[1] != "ok" && kv[1] != "refused":
			return fmt.Sprintf("fail:a client presenting the configured password was not served (%s at step %d)", r, i)
		}
	}
	return "ok"
}

func genC08(tier string, seed uint64, emit0 func(string)) {
	r := NewRng(seed)
	// password rotation: the application changes requirepass and restarts; from then on exactly the new password opens
	// the gate, on both ports, also after several rotations and back to an earlier password
	for _, cfg := range []string{"plain pw=old", "plain tls pw=old"} {
		ks := []string{"p"}
		if strings.Contains(cfg, "tls") {
			ks = []string{"p", "t"}
		}
		var acts []string
		acts = append(acts, "start")
		for _, k := range ks {
			acts = append(acts, "ping:"+k)
		}
		for _, np := range []string{"new", "newer", "old", "x y"} {
			acts = append(acts, "setpw:"+strings.ReplaceAll(np, " ", "_"), "restart")
			for _, k := range ks {
				acts = append(acts, "ping:"+k, "pingold:"+k)
			}
		}
		acts = append(acts, "stop")
		emit0(lifeLine(cfg, acts))
	}
	// a second Start on the running server fails (the ports are its own) and changes nothing: the gate is as it was,
	// for new connections and on both ports
	emit0(lifeLine("plain pw=old", []string{"start", "ping:p", "pingold:p", "start", "pingold:p", "ping:p", "start", "start", "pingold:p", "restart", "pingold:p", "ping:p", "stop"}))
	emit0(lifeLine("plain tls pw=old", []string{"start", "pingold:t", "start", "pingold:p", "pingold:t", "ping:t", "setpw:new", "start", "pingold:p", "ping:p", "restart", "pingold:t", "ping:p", "stop"}))
	// with a certificate rule next to the password: a verified client with the right name still needs the password
	emit0(lifeLine("tls cn=client pw=old", []string{"start", "pingold:t", "ping:t", "pingold:t", "setpw:new", "restart", "pingold:t", "ping:t", "stop"}))
	// every third case is also run on connections served as TLS connections are (tlsState present): the password gate
	// is the same on both ports
	nth := 0
	emit := func(line string) {
		emit0(line)
		nth++
		if nth%3 == 0 && strings.HasPrefix(line, "sys n=") {
			emit0("sys tls " + line[4:])
		}
		// ... and every fifth with an application-installed AUTH handler that reports refusals as error messages
		if nth%5 == 0 && strings.HasPrefix(line, "sys n=") {
			emit0("sys authmsg " + line[4:])
		}
	}
	// (passwords as they come out of a secrets file or an environment variable: with a trailing newline, blanks around them)
	pws := []string{"secret", "S3cr3t!", "pass word", "p\r\nq", "a", "s3cret passphrase \n", " lead", "trail ", "\ttab\t", "nl\r\n"}
	// a command wrapped in outer arrays is descended into and executed like the command itself: the same gate applies
	nest := func(id, depth int, args ...[]byte) sysStep {
		st := mkStep(id, nil, args...)
		st.raw = append([]byte(strings.Repeat("*1\r\n", depth)), st.raw...)
		return st
	}
	probe := func(id int) []sysStep {
		return []sysStep{mkStep(id, nil, []byte("PING")), mkStep(id, nil, []byte("GET"), []byte("k")),
			nest(id, 1, []byte("PING")), nest(id, 1, []byte("SET"), []byte("k"), []byte("smuggled")), nest(id, 3, []byte("GET"), []byte("k"))}
	}
	for _, pw := range pws {
		pw := pw
		// every wrong credential alone, then the probes; then the exact one
		for _, argv := range authDictionary(pw) {
			sched := append([]sysStep{mkStep(0, nil, argv...)}, probe(0)...)
			emit(sysLine(1, &pw, "r b:76", sched))
			// the same with the command name in another letter case
			argv2 := append([][]byte{randCase(r, "AUTH")}, argv[1:]...)
			emit(sysLine(1, &pw, "r b:76", append([]sysStep{mkStep(0, nil, argv2...)}, probe(0)...)))
		}
		// null bulk as password / as user
		emit(sysLine(1, &pw, "r b:76", append([]sysStep{mkStep(0, map[int]bool{1: true}, []byte("AUTH"), nil)}, probe(0)...)))
		emit(sysLine(1, &pw, "r b:76", append([]sysStep{mkStep(0, map[int]bool{2: true}, []byte("AUTH"), []byte(""), nil)}, probe(0)...)))
		// exact forms
		emit(sysLine(1, &pw, "r b:76", append([]sysStep{mkStep(0, nil, []byte("AUTH"), []byte(pw))}, probe(0)...)))
		emit(sysLine(1, &pw, "r b:76", append([]sysStep{mkStep(0, nil, []byte("auth"), []byte(""), []byte(pw))}, probe(0)...)))
		// wrong after right keeps the authorization; right after wrong acquires it
		emit(sysLine(1, &pw, "r b:76", append([]sysStep{mkStep(0, nil, []byte("AUTH"), []byte(pw)), mkStep(0, nil, []byte("AUTH"), []byte("nope"))}, probe(0)...)))
		emit(sysLine(1, &pw, "r b:76", append([]sysStep{mkStep(0, nil, []byte("AUTH"), []byte("nope")), mkStep(0, nil, []byte("AUTH"), []byte(pw))}, probe(0)...)))
	}
	// what a client may send before it has authenticated - unknown commands (HELLO 3, CLIENT SETINFO, COMMAND: what client
	// libraries send on connect), requests answered with an error (missing argument, not a number, a non-array value, an
	// empty array), composed commands (refused at the gate before they reach their inner command), QUIT-less garbage -
	// followed by a refused AUTH, leaves the gate where it was: the probes behind it are refused
	{
		pw := "secret"
		st := func(args ...string) sysStep {
			bs := make([][]byte, len(args))
			for i, a := range args {
				bs[i] = []byte(a)
			}
			return mkStep(0, nil, bs...)
		}
		rawStep := func(raw string) sysStep {
			s := mkStep(0, nil, []byte("PING"))
			s.raw = []byte(raw)
			return s
		}
		firsts := [][]sysStep{{st("HELLO", "3")}, {st("CLIENT", "SETINFO", "lib-name", "x")}, {st("COMMAND")}, {st("FOO")}, {st("FOO"), st("BAR", "x"), st("HELLO", "2")},
			{st("GET")}, {st("INCRBY", "n", "abc")}, {st("STRLEN", "k")}, {st("HLEN", "h")}, {st("HEXISTS", "h", "f")}, {st("SUBSTR", "k", "0", "1")}, {st("STRLEN")},
			{st("SELECT", "1")}, {st("SELECT", "x")}, {st("CONFIG", "GET", "requirepass")}, {st("CONFIG", "SET", "requirepass", "")}, {st("ECHO", "hi")},
			{rawStep("+PING\r\n")}, {rawStep("*0\r\n")}, {rawStep("*1\r\n$-1\r\n")}, {rawStep(":1\r\n")}, {st("AUTH")}, {st("AUTH", "a", "b", "c")}}
		for _, first := range firsts {
			for _, refused := range [][]sysStep{nil, {st("AUTH", "nope")}, {st("AUTH", "", "nope")}} {
				sched := append(append(append([]sysStep{}, first...), refused...), probe(0)...)
				emit(sysLine(1, &pw, "r b:76", sched))
				// ... and the exact password behind all that still opens it
				emit(sysLine(1, &pw, "r b:76", append(append(append(append([]sysStep{}, first...), refused...), st("AUTH", pw)), probe(0)...)))
			}
		}
	}
	// all interleavings of 2..3 connections, total length <= 6 (quick) / 7 (thorough)
	pw := "secret"
	menu := func(id int) [][]sysStep {
		return [][]sysStep{
			{mkStep(id, nil, []byte("AUTH"), []byte(pw)), mkStep(id, nil, []byte("GET"), []byte("k"))},
			{mkStep(id, nil, []byte("AUTH"), []byte("secre")), mkStep(id, nil, []byte("GET"), []byte("k"))},
			{mkStep(id, nil, []byte("GET"), []byte("k")), mkStep(id, nil, []byte("AUTH"), []byte(pw)), mkStep(id, nil, []byte("SET"), []byte("k"), []byte("v"))},
			{mkStep(id, nil, []byte("AUTH"), []byte("")), mkStep(id, nil, []byte("PING"))},
			{mkStep(id, nil, []byte("PING")), mkStep(id, nil, []byte("QUIT"))},
			{mkStep(id, nil, []byte("SELECT"), []byte("2")), mkStep(id, nil, []byte("AUTH"), []byte(""), []byte(pw)), mkStep(id, nil, []byte("DEL"), []byte("k"))},
		}
	}
	for a := 0; a < 6; a++ {
		for b := 0; b < 6; b++ {
			interleavings([][]sysStep{menu(0)[a], menu(1)[b]}, func(s []sysStep) { emit(sysLine(2, &pw, "r b:76", s)) })
		}
	}
	if tier == "thorough" {
		for a := 0; a < 6; a++ {
			for b := 0; b < 6; b++ {
				for c := 0; c < 6; c++ {
					progs := [][]sysStep{menu(0)[a][:2], menu(1)[b][:2], menu(2)[c][:2]}
					interleavings(progs, func(s []sysStep) { emit(sysLine(3, &pw, "r b:76", s)) })
				}
			}
		}
	}
	// random longer histories
	n := 300
	if tier == "thorough" {
		n = 20000
	}
	for i := 0; i < n; i++ {
		pw := pws[r.Intn(len(pws))]
		k := 1 + r.Intn(3)
		dict := authDictionary(pw)
		var sched []sysStep
		for j := 2 + r.Intn(12); j > 0; j-- {
			id := r.Intn(k)
			switch r.Intn(6) {
			case 0:
				sched = append(sched, mkStep(id, nil, []byte("AUTH"), []byte(pw)))
			case 1, 2:
				sched = append(sched, mkStep(id, nil, dict[r.Intn(len(dict))]...))
			default:
				t := genRequest(r, allForms()[r.Intn(len(allForms()))])
				if t.cmd == "AUTH" {
					continue
				}
				sched = append(sched, mkStep(id, nil, t.argv()...))
			}
		}
		emit(sysLine(k, &pw, genScript(r, 1+r.Intn(3), false), sched))
	}
}

func isExactAuth(pw string, argv [][]byte) bool {
	if len(argv) < 2 || argv[0] == nil || strings.ToUpper(string(argv[0])) != "AUTH" {
		return false
	}
	if len(argv) == 2 {
		return argv[1] != nil && string(argv[1]) == pw
	}
	return argv[1] != nil && argv[2] != nil && string(argv[1]) == "" && string(argv[2]) == pw
}

func oracleC08(pw *string, sched []sysStep, events []string) (string, []string) {
	tags := []string{"nt", fmt.Sprintf("steps%s", bucket(len(sched)))}
	if pw == nil {
		return "na", tags
	}
	// Walk the events and the schedule together: each connection answers its requests in order, one write each.
	authed := map[int]bool{} // an exact AUTH was presented by this connection (before the current request)
	pending := map[int][]sysStep{}
	for _, s := range sched {
		pending[s.id] = append(pending[s.id], s)
	}
	exactSeen := map[int]bool{}
	for _, e := range events {
		colon := strings.IndexByte(e, ':')
		id, _ := strconv.Atoi(e[1:colon])
		body := e[colon+1:]
		cur := sysStep{}
		if len(pending[id]) > 0 {
			cur = pending[id][0]
		}
		switch {
		case strings.HasPrefix(body, "hc:"):
			if !authed[id] {
				return fmt.Sprintf("fail:handler invoked on connection %d before it presented the exact password: %s", id, trunc(body, 80)), tags
			}
		case strings.HasPrefix(body, "wr:"):
			exact := isExactAuth(*pw, cur.argv)
			isAuth := len(cur.argv) > 0 && cur.argv[0] != nil && strings.ToUpper(string(cur.argv[0])) == "AUTH"
			switch {
			case exact && body != "wr:"+hx([]byte("+OK\r\n")):
				return fmt.Sprintf("fail:AUTH with the exact password was refused on connection %d", id), tags
			case isAuth && !exact && body != "wr:E":
				return fmt.Sprintf("fail:AUTH with wrong credentials was not refused on connection %d (%q)", id, cur.argv[1:]), tags
			case !isAuth && !authed[id] && body != "wr:E":
				return fmt.Sprintf("fail:a command other than AUTH was executed on connection %d before the exact password", id), tags
			}
			if exact {
				authed[id] = true
				exactSeen[id] = true
			}
			if len(pending[id]) > 0 {
				pending[id] = pending[id][1:]
			}
		}
	}
	if len(exactSeen) > 0 {
		tags = append(tags, "exact-auth")
	}
	return "ok", tags
}

func genC13(tier string, seed uint64, emit0 func(string)) {
	r := NewRng(seed)
	// the application stops or restarts the server while a command of a connection is inside the handler: what the
	// handler sees of that connection stays what the connection's own requests made it, to the end of the command
	for _, how := range []string{"stop", "restart"} {
		emit0("stopinflight 3 - " + how)
		emit0("stopinflight 7 secret " + how)
		emit0("stopinflight 0 secret " + how)
	}
	nth := 0
	emit := func(line string) {
		emit0(line)
		nth++
		if nth%4 == 0 && strings.HasPrefix(line, "sys n=") && strings.Contains(line, " pw=") {
			emit0("sys authmsg " + line[4:])
		}
	}
	data := func(id int) sysStep {
		switch r.Intn(4) {
		case 0:
			return mkStep(id, nil, []byte("GET"), []byte("k"))
		case 1:
			return mkStep(id, nil, []byte("SET"), []byte("k"), []byte("v"))
		case 2:
			return mkStep(id, nil, []byte("LLEN"), []byte("l"))
		}
		return mkStep(id, nil, []byte("HGET"), []byte("h"), []byte("f"))
	}
	sel := func(id, n int) sysStep { return mkStep(id, nil, []byte("SELECT"), []byte(strconv.Itoa(n))) }
	// systematic two-connection orderings, <= 3 commands each
	for a := 0; a < 4; a++ {
		for b := 0; b < 4; b++ {
			p0 := [][]sysStep{
				{sel(0, 1), data(0), data(0)}, {data(0), sel(0, 2), data(0)}, {sel(0, 3), sel(0, 4), data(0)},
				{mkStep(0, nil, []byte("SELECT"), []byte("x")), data(0), data(0)}}[a]
			p1 := [][]sysStep{
				{sel(1, 5), data(1), data(1)}, {data(1), sel(1, 6), data(1)}, {sel(1, 7), data(1), sel(1, 8)},
				{data(1), data(1), mkStep(1, nil, []byte("QUIT"))}}[b]
			interleavings([][]sysStep{p0, p1}, func(s []sysStep) { emit(sysLine(2, nil, "r b:76", s)) })
		}
	}
	// database indexes at the borders of 32 and 64 bits: the database a handler sees is the one that was selected (an
	// index that does not fit is an error and changes nothing), and never another connection's
	for _, big := range []string{"2147483647", "2147483648", "4294967296", "4294967297", "-1", "-2147483648", "-2147483649", "-4294967295", "9223372036854775807",
		"-9223372036854775808", "9223372036854775808", "18446744073709551617", "1e3", "0x10"} {
		selBig := mkStep(0, nil, []byte("SELECT"), []byte(big))
		emit(sysLine(2, nil, "r b:76", []sysStep{sel(1, 1), data(1), selBig, data(0), data(0), data(1), sel(1, 0), data(1), data(0)}))
		emit(sysLine(2, nil, "r b:76", []sysStep{sel(0, 5), selBig, data(0), mkStep(0, nil, []byte("AUTH"), []byte("x")), data(0), data(1)}))
	}
	// one connection reconfigures the server (CONFIG SET, also requirepass) while others are connected and have not sent
	// anything yet: what a connection may do is decided by its own history, not by what another one configured meanwhile
	for _, param := range []string{"requirepass", "port", "x"} {
		cs := mkStep(0, nil, []byte("CONFIG"), []byte("SET"), []byte(param), []byte("hunter2"))
		for _, first := range [][]sysStep{{sel(1, 3), data(1)}, {data(1), sel(1, 2)}, {mkStep(1, nil, []byte("PING")), data(1)}} {
			emit(sysLine(2, nil, "r b:76", append([]sysStep{cs}, first...)))
			emit(sysLine(3, nil, "r b:76", append(append([]sysStep{data(2), cs}, first...), data(2), data(0))))
		}
	}
	n := 400
	if tier == "thorough" {
		n = 20000
	}
	pw := "secret"
	for i := 0; i < n; i++ {
		k := 2 + r.Intn(7)
		var pwp *string
		if r.Chance(1, 3) {
			pwp = &pw
		}
		var sched []sysStep
		for j := 4 + r.Intn(20); j > 0; j-- {
			id := r.Intn(k)
			switch r.Intn(8) {
			case 0, 1:
				sched = append(sched, sel(id, r.Intn(16)))
			case 2:
				if pwp != nil {
					sched = append(sched, mkStep(id, nil, []byte("AUTH"), []byte(pw)))
				} else if r.Chance(1, 3) {
					sched = append(sched, mkStep(id, nil, []byte("CONFIG"), []byte("SET"), []byte([]string{"requirepass", "x"}[r.Intn(2)]), []byte("hunter2")))
				}
			case 3:
				if pwp != nil {
					sched = append(sched, mkStep(id, nil, []byte("AUTH"), []byte("wrong")))
				}
			case 4:
				// the two-argument form leaves a user name on the connection that sent it - and on no other
				if r.Bool() {
					sched = append(sched, mkStep(id, nil, []byte("AUTH"), []byte("user-"+strconv.Itoa(id)), []byte([]string{pw, "wrong"}[r.Intn(2)])))
				} else {
					sched = append(sched, data(id))
				}
			default:
				sched = append(sched, data(id))
			}
		}
		emit(sysLine(k, pwp, genScript(r, 1+r.Intn(3), false), sched))
	}
}

func oracleC13(pw *string, sched []sysStep, events []string) (string, []string) {
	tags := []string{"nt", fmt.Sprintf("steps%s", bucket(len(sched)))}
	db := map[int]int{}
	authed := map[int]bool{}
	pending := map[int][]sysStep{}
	conns := map[int]bool{}
	for _, s := range sched {
		pending[s.id] = append(pending[s.id], s)
		conns[s.id] = true
	}
	tags = append(tags, fmt.Sprintf("conns%d", len(conns)))
	hcSeen := map[int]bool{} // the request in progress on a connection reached the handler (an error may then be the handler's)
	for _, e := range events {
		colon := strings.IndexByte(e, ':')
		id, _ := strconv.Atoi(e[1:colon])
		body := e[colon+1:]
		cur := sysStep{}
		if len(pending[id]) > 0 {
			cur = pending[id][0]
		}
		switch {
		case strings.HasPrefix(body, "hc:"):
			at := strings.LastIndexByte(body, '@')
			f := strings.Split(body[at+1:], ",")
			wantAuth := "1"
			if pw != nil && !authed[id] {
				wantAuth = "0"
			}
			hcSeen[id] = true
			if f[0] != strconv.Itoa(db[id]) || f[1] != wantAuth || f[2] != "own" {
				return fmt.Sprintf("fail:handler call on connection %d saw state %s, its own history says db=%d auth=%s own", id, body[at+1:], db[id], wantAuth), tags
			}
		case strings.HasPrefix(body, "wr:"):
			// whether a connection is served depends on its own history: on a server started without a password, or
			// after its own exact AUTH, a well-formed data command is not refused - whatever other connections
			// configured or presented meanwhile (the double answers data commands with a bulk string, never an error)
			if len(cur.argv) > 0 && cur.argv[0] != nil && body == "wr:E" && (pw == nil || authed[id]) {
				switch name := strings.ToUpper(string(cur.argv[0])); {
				case (name == "GET" && len(cur.argv) == 2) || (name == "LLEN" && len(cur.argv) == 2) || (name == "HGET" && len(cur.argv) == 3) ||
					(name == "SET" && len(cur.argv) == 3) || (name == "PING" && len(cur.argv) == 1):
					if !hcSeen[id] {
						return fmt.Sprintf("fail:%s on connection %d was refused although its own history (no password at connect / its own AUTH) authorizes it", name, id), tags
					}
				}
			}
			// the outcome of a one-argument AUTH depends on its own argument only - not on what this or any other
			// connection sent before
			if pw != nil && len(cur.argv) == 2 && cur.argv[0] != nil && strings.ToUpper(string(cur.argv[0])) == "AUTH" {
				if exact := string(cur.argv[1]) == *pw; exact != (body != "wr:E") {
					return fmt.Sprintf("fail:AUTH %q on connection %d was answered %s; with its own argument alone it must be %v", cur.argv[1], id, trunc(body, 20), map[bool]string{true: "+OK", false: "an error"}[exact]), tags
				}
			}
			if len(cur.argv) > 0 && cur.argv[0] != nil && body != "wr:E" {
				switch strings.ToUpper(string(cur.argv[0])) {
				case "SELECT":
					if len(cur.argv) > 1 {
						if n, err := strconv.Atoi(string(cur.argv[1])); err == nil {
							db[id] = n
						}
					}
				case "AUTH":
					authed[id] = true
				}
			}
			if len(pending[id]) > 0 {
				pending[id] = pending[id][1:]
			}
			hcSeen[id] = false
		}
	}
	return "ok", tags
}
