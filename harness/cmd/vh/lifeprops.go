package main

import (
	"fmt"
	"strings"
)

func init() {
	properties["C15"] = &Property{Gen: genC15, Run: lifeRunner(oracleC15)}
	properties["C19"] = &Property{Gen: genC19, Run: lifeRunner(oracleC19)}
	properties["C09"] = &Property{Gen: genC09, Run: lifeRunner(oracleC09)}
}

type lifeOracle func(cfg []string, results []string) string

func lifeRunner(oracle lifeOracle) func(toks []string) Result {
	return func(toks []string) Result {
		obs, hung := runLife(toks)
		secs := splitSections(toks[1:])
		// how a dead connection shows on the client side (EOF, RST, write error) is the kernel's choice
		for _, g := range []string{"=eof", "=rst", "=werr", "=timeout"} {
			obs = strings.ReplaceAll(obs, g, "=gone")
		}
		obs = strings.ReplaceAll(obs, "=gone/down", "=gone/down")
		or := "ok"
		if hung {
			or = "fail:a lifecycle call or client action did not return"
		} else {
			or = oracle(secs[0], strings.Fields(obs))
		}
		return Result{Obs: obs, Oracle: or, Tags: []string{"nt", "actions" + bucket(len(secs[1]))}}
	}
}

func lifeLine(cfg string, actions []string) string {
	return "life " + cfg + " | " + strings.Join(actions, " ")
}

func hasTok(cfg []string, t string) bool {
	for _, c := range cfg {
		if c == t || (t == "tls" && c == "tlsfiles") {
			return true
		}
	}
	return false
}

// ---------------------------------------------------------------------------------------------------
// C15
// ---------------------------------------------------------------------------------------------------

func genC15(tier string, seed uint64, emit func(string)) {
	maxLen := 4
	if tier == "thorough" {
		maxLen = 6
	}
	// a port disabled in the configuration while the server runs (by the application, or by a client's CONFIG SET): Stop
	// still closes what Start opened and returns; once the port is restored the next Start serves it again
	for _, cfg := range []string{"plain", "plain tls"} {
		ks := []string{"p"}
		if strings.Contains(cfg, "tls") {
			ks = []string{"p", "t"}
		}
		for _, k := range ks {
			emit(lifeLine(cfg, []string{"start", "open:p:a", "portoff:" + k, "obs", "stop", "obs", "alive:a", "porton:" + k, "start", "ping:" + k, "obs", "stop", "obs"}))
			emit(lifeLine(cfg, []string{"start", "open:p:a", "cfgport:a:" + k, "obs", "stop", "obs", "alive:a", "porton:" + k, "start", "ping:" + k, "stop", "obs"}))
		}
		emit(lifeLine(cfg, []string{"start", "portoff:p", "portoff:t", "stop", "obs", "porton:p", "porton:t", "restart", "ping:p", "obs", "stop", "obs"}))
	}
	// a request that makes the application's handler panic ends its own connection only: the others are served, new
	// clients are served, Stop and Restart return
	emit(lifeLine("plain tls", []string{"start", "open:p:a", "open:p:b", "open:t:c", "crash:a", "obs", "cmd:b", "cmd:c", "ping:p", "ping:t", "alive:b", "stop", "obs", "alive:b", "alive:c"}))
	emit(lifeLine("plain", []string{"start", "open:p:a", "open:p:b", "crash:a", "cmd:b", "restart", "obs", "alive:b", "ping:p", "open:p:d", "crash:d", "ping:p", "stop", "obs"}))
	// Stop and Restart with a client that has stopped reading its replies (the server's write to it is blocked): the call
	// returns, the client is disconnected, nothing stays behind
	emit(lifeLine("plain tls", []string{"start", "open:p:a", "open:t:b", "open:p:c", "flood:a", "flood:b", "obs", "stop", "obs", "drain:a", "drain:b", "alive:c", "start", "ping:p", "ping:t", "stop", "obs"}))
	emit(lifeLine("plain", []string{"start", "open:p:a", "flood:a", "restart", "obs", "drain:a", "ping:p", "open:p:d", "flood:d", "restart", "drain:d", "stop", "obs"}))
	calls := []string{"start", "stop", "restart"}
	for _, cfg := range []string{"plain", "plain tls"} {
		var rec func(prefix []string)
		rec = func(prefix []string) {
			if len(prefix) > 0 {
				var acts []string
				for i, c := range prefix {
					acts = append(acts, c, "obs", "ping:p")
					if strings.Contains(cfg, "tls") {
						acts = append(acts, "ping:t")
					}
					// a client that connects and idles across the next lifecycle call
					acts = append(acts, fmt.Sprintf("open:p:c%d", i), "obs")
					if i > 0 {
						acts = append(acts, fmt.Sprintf("alive:c%d", i-1))
					}
				}
				acts = append(acts, "stop", "obs")
				for i := range prefix {
					acts = append(acts, fmt.Sprintf("alive:c%d", i))
				}
				emit(lifeLine(cfg, acts))
			}
			if len(prefix) == maxLen {
				return
			}
			for _, c := range calls {
				rec(append(append([]string{}, prefix...), c))
			}
		}
		if cfg == "plain tls" && tier != "thorough" {
			maxLen = 3
		}
		rec(nil)
	}
	// clients connecting, idling and disconnecting between the calls
	r := NewRng(seed)
	n := 40
	if tier == "thorough" {
		n = 600
	}
	for i := 0; i < n; i++ {
		acts := []string{"start"}
		open := []string{}
		for j := 0; j < 4+r.Intn(10); j++ {
			switch r.Intn(7) {
			case 0:
				acts = append(acts, calls[r.Intn(3)], "obs")
				if acts[len(acts)-2] != "start" {
					open = nil
				}
			case 1, 2:
				id := fmt.Sprintf("k%d", j)
				acts = append(acts, "open:p:"+id)
				open = append(open, id)
			case 3:
				if len(open) > 0 {
					k := r.Intn(len(open))
					acts = append(acts, []string{"cclose:", "quit:", "rst:", "unread:"}[r.Intn(4)]+open[k])
					open = append(open[:k], open[k+1:]...)
				}
			case 4:
				acts = append(acts, "ping:p")
			default:
				acts = append(acts, "obs")
			}
		}
		acts = append(acts, "stop", "obs")
		emit(lifeLine("plain", acts))
	}
	// clients whose TLS handshake fails (and who keep their side open) are disconnected, before and across Stop
	for _, kind := range []string{"plaintext", "none", "garbage", "foreign"} {
		k := kind
		emit(lifeLine("plain tls", []string{"start", "tlsbad:" + k, "obs", "ping:t", "stop", "obs", "start", "tlsbad:" + k, "tlsbad:" + k, "restart", "ping:t", "stop", "obs"}))
	}
	// "while running, the registry contains exactly the connections being served": clients that complete the handshake
	// and are turned away afterwards (name rule, wrong / stray / intermediate name), next to a client that is served
	for _, cfg := range []string{"plain tls cn=client", "tls cn=client pw=secret", "plain tlsfiles cn=client"} {
		emit(lifeLine(cfg, []string{"start", "open:t:g", "obs", "tlsbad:wrongcn", "obs", "tlsbad:intercn", "tlsbad:straycn", "tlsbad:wrongcn", "obs", "cmd:g",
			"restart", "obs", "tlsbad:wrongcn", "obs", "open:t:h", "tlsbad:wrongcn", "obs", "cclose:h", "obs", "stop", "obs"}))
	}
	// ... and served connections that end in every way (orderly, reset - also underneath TLS -, unread replies, QUIT, a
	// malformed frame, a partial request, a crashing request) next to one that stays: the registry follows
	for _, cfg := range []string{"plain tls", "plain tls cn=client"} {
		for _, k := range []string{"p", "t"} {
			acts := []string{"start", "open:" + k + ":stay"}
			for i, e := range []string{"rst", "cclose", "unread", "quit", "bad", "half", "halfcr", "halfbulk", "crash", "rst"} {
				id := fmt.Sprintf("c%d", i)
				acts = append(acts, "open:"+k+":"+id, "cmd:"+id, e+":"+id, "obs")
			}
			acts = append(acts, "cmd:stay", "obs", "stop", "obs")
			emit(lifeLine(cfg, acts))
		}
	}
	// forced schedules (hook H2): in each scenario the goroutines reaching the chosen schedule points are held back for
	// 25 ms, so that the lifecycle call, the accept loops and the connection goroutines overtake each other in
	// every order of those points - all single points and all pairs (quick), all subsets (thorough)
	points := []string{"start-opened", "accepted", "loop-exit", "registered", "conn-start", "stop-listeners-closed", "stop-loops-done", "stop-conns-closed"}
	scenarios := [][]string{
		{"start", "open:p:a", "restart", "obs", "ping:p", "open:p:b", "alive:a", "stop", "obs", "alive:b"},
		{"start", "open:p:a", "stopstorm", "obs", "alive:a", "start", "ping:p", "stop", "obs"},
		{"start", "ping:p", "open:p:a", "cclose:a", "obs", "restart", "ping:p", "restart", "obs", "ping:p", "stop", "obs"},
	}
	var subsets [][]string
	for i := range points {
		subsets = append(subsets, []string{points[i]})
		for j := i + 1; j < len(points); j++ {
			subsets = append(subsets, []string{points[i], points[j]})
		}
	}
	if tier == "thorough" {
		subsets = nil
		for m := 1; m < 1<<len(points); m++ {
			var sub []string
			for i := range points {
				if m&(1<<i) != 0 {
					sub = append(sub, points[i])
				}
			}
			subsets = append(subsets, sub)
		}
	}
	for _, sc := range scenarios {
		for _, sub := range subsets {
			var ds []string
			for _, p := range sub {
				ds = append(ds, p+":25")
			}
			emit(lifeLine("plain delay="+strings.Join(ds, ","), sc))
		}
	}
	// Stop while clients keep connecting: a connection accepted while Stop runs must not survive it or block it
	storms := 4
	if tier == "thorough" {
		storms = 40
	}
	for i := 0; i < storms; i++ {
		var acts []string
		for j := 0; j < 10; j++ {
			acts = append(acts, "start", "open:p:a", "stopstorm", "obs", "alive:a")
		}
		emit(lifeLine("plain", acts))
	}
}

func oracleC15(cfg []string, results []string) string {
	running := false
	// "while running, the registry contains exactly the connections being served": followed through histories made of
	// the actions whose effect on the set of served connections is known here (anything else ends the bookkeeping)
	exact := true
	served := map[string]bool{}
	for i, r := range results {
		kv := strings.SplitN(r, "=", 2)
		a, v := kv[0], kv[1]
		f := strings.Split(a, ":")
		switch {
		case f[0] == "open" && len(f) == 3:
			if v == "ok" {
				served[f[2]] = true
			}
		case (f[0] == "cclose" || f[0] == "rst" || f[0] == "unread" || f[0] == "quit" || f[0] == "bad" || f[0] == "half" || f[0] == "halfcr" || f[0] == "halfbulk" || f[0] == "crash") && len(f) == 2:
			// however a connection ends, it is not served any more
			delete(served, f[1])
		case f[0] == "stop" || f[0] == "restart":
			served = map[string]bool{}
		case f[0] == "start" || f[0] == "obs" || f[0] == "cmd" || f[0] == "ping" || f[0] == "alive":
		case f[0] == "tlsbad" && len(f) == 2 && f[1] != "stall":
		default:
			exact = false
		}
		if a == "obs" && running && exact && !strings.HasPrefix(v, fmt.Sprintf("conns=%d,", len(served))) {
			return fmt.Sprintf("fail:while running the registry does not hold exactly the %d connections being served: %s (step %d)", len(served), v, i)
		}
		switch {
		case a == "start" && v == "ok", a == "restart" && v == "ok":
			running = true
		case a == "stop" && v == "ok", a == "stopstorm" && v == "ok":
			running = false
		case strings.HasPrefix(a, "tlsbad:") && (v == "hang" || strings.HasPrefix(v, "served")):
			{
				return fmt.Sprintf("fail:a client whose TLS handshake failed was neither served nor disconnected (%s at step %d)", r, i)
			}
		case a == "stopstorm":
			return fmt.Sprintf("fail:Stop did not return while clients kept connecting (%s at step %d)", r, i)
		case (a == "stop" || a == "restart") && (v == "hang" || v == "HANG"):
			return fmt.Sprintf("fail:%s did not return within its watchdog (%s at step %d)", a, r, i)
		case (a == "ping:p" || a == "ping:t") && running && v != "ok":
			return fmt.Sprintf("fail:after a successful Start/Restart the server does not serve (%s at step %d)", r, i)
		case strings.HasPrefix(a, "open:p") && running && v != "ok":
			return fmt.Sprintf("fail:after a successful Start/Restart the server does not serve (%s at step %d)", r, i)
		case a == "obs" && !running:
			if !strings.HasPrefix(v, "conns=0,") || strings.Contains(v, "=open") || !strings.Contains(v, ",gor=0,") {
				return fmt.Sprintf("fail:after Stop returned: %s (step %d)", v, i)
			}
		case strings.HasPrefix(a, "alive:") && !running && v == "up":
			return fmt.Sprintf("fail:a client connection survived Stop (%s)", r)
		}
	}
	return "ok"
}

// ---------------------------------------------------------------------------------------------------
// C19
// ---------------------------------------------------------------------------------------------------

var endings = []string{"cclose", "rst", "quit", "bad", "half", "unread", "halfcr", "halfbulk", "crash"}
var tlsFaults = []string{"plaintext", "garbage", "abort", "none", "selfsigned", "foreign", "expired"}

func genC19(tier string, seed uint64, emit func(string)) {
	// the application looks at the registry (Server.Conns) all the time while clients come and go on both ports
	emit("pollchurn 4 8 700")
	emit("pollchurn 2 3 400")
	if tier == "thorough" {
		emit("pollchurn 8 16 5000")
	}
	r := NewRng(seed)
	// every ending mode at several positions of a pipeline, plain and TLS
	for _, k := range []string{"p", "t"} {
		for _, e := range endings {
			for pos := 0; pos <= 2; pos++ {
				acts := []string{"start", "obs", "open:" + k + ":a"}
				for i := 0; i < pos; i++ {
					acts = append(acts, "cmd:a")
				}
				acts = append(acts, "obs", e+":a", "obs", "ping:"+k, "stop", "obs")
				emit(lifeLine("plain tls", acts))
			}
		}
	}
	for _, f := range tlsFaults {
		emit(lifeLine("plain tls", []string{"start", "obs", "tlsbad:" + f, "obs", "ping:t", "ping:p", "stop", "obs"}))
		emit(lifeLine("plain tls cn=client", []string{"start", "obs", "tlsbad:" + f, "tlsbad:wrongcn", "obs", "ping:t", "stop", "obs"}))
	}
	// a stalled handshake is released by the client going away, or by Stop
	emit(lifeLine("plain tls", []string{"start", "tlsbad:stall:s", "obs", "ping:t", "cclose:s", "obs", "stop", "obs"}))
	emit(lifeLine("plain tls", []string{"start", "tlsbad:stall:s", "obs", "stop", "obs", "alive:s"}))
	// the three cut points between CR and LF of a header line (the id's length selects the cut)
	for _, k := range []string{"p", "t"} {
		for _, id := range []string{"abc", "a", "ab"} {
			emit(lifeLine("plain tls", []string{"start", "open:" + k + ":" + id, "cmd:" + id, "halfcr:" + id, "obs", "ping:" + k, "stop", "obs"}))
		}
	}
	// Stop while a client is stalled inside a request (inside a header line, between CR and LF, inside a bulk payload)
	for _, st := range []string{"*2\\r\\n$3", "*2\\r", "*2\\r\\n$4\\r\\nECHO\\r\\n$10\\r\\nabc"} {
		_ = st
	}
	emit(lifeLine("plain tls", []string{"start", "open:p:a", "open:t:b", "open:p:c", "stallreq:a", "stallreq:b", "stallreq:c", "obs", "stop", "obs", "alive:a", "alive:b", "alive:c"}))
	// a handler panic as the ending of a connection, with other connections open: exactly that connection is released
	emit(lifeLine("plain tls", []string{"start", "open:p:a", "open:t:b", "open:p:c", "cmd:a", "crash:a", "obs", "cmd:b", "cmd:c", "crash:b", "obs", "ping:p", "ping:t", "stop", "obs", "alive:c"}))
	// clients that stop reading: the server's write to them is blocked when the connection ends - by Stop, by Restart, or by
	// the client going away
	emit(lifeLine("plain tls", []string{"start", "open:p:a", "open:t:b", "flood:a", "flood:b", "obs", "stop", "obs", "drain:a", "drain:b"}))
	emit(lifeLine("plain", []string{"start", "open:p:a", "open:p:c", "flood:a", "restart", "obs", "drain:a", "alive:c", "ping:p", "stop", "obs"}))
	emit(lifeLine("plain tls", []string{"start", "open:p:a", "open:t:b", "flood:a", "flood:b", "cclose:a", "rst:b", "obs", "ping:p", "ping:t", "stop", "obs"}))
	// a second Start on the running server fails (ports in use) and must leave the served connections releasable
	emit(lifeLine("plain tls", []string{"start", "open:p:a", "open:t:b", "start", "obs", "cmd:a", "cmd:b", "cclose:a", "obs", "start", "stop", "obs", "alive:b"}))
	emit(lifeLine("plain", []string{"start", "open:p:a", "start", "start", "obs", "restart", "obs", "alive:a", "open:p:c", "start", "stop", "obs", "alive:c"}))
	// Stop as the ending, with several connections in flight
	emit(lifeLine("plain tls", []string{"start", "open:p:a", "open:t:b", "open:p:c", "obs", "stop", "obs", "alive:a", "alive:b", "alive:c"}))
	// churn mixing all endings
	cycles := 150
	if tier == "thorough" {
		cycles = 10000
	}
	perCase := 50
	for done := 0; done < cycles; done += perCase {
		acts := []string{"start", "obs"}
		var open []string
		for i := 0; i < perCase; i++ {
			id := fmt.Sprintf("x%d", i)
			k := []string{"p", "t"}[r.Intn(2)]
			acts = append(acts, "open:"+k+":"+id)
			open = append(open, id)
			if r.Chance(1, 5) {
				acts = append(acts, "tlsbad:"+tlsFaults[r.Intn(len(tlsFaults))])
			}
			for len(open) > r.Intn(32) {
				j := r.Intn(len(open))
				acts = append(acts, endings[r.Intn(len(endings))]+":"+open[j])
				open = append(open[:j], open[j+1:]...)
			}
		}
		for _, id := range open {
			acts = append(acts, endings[r.Intn(len(endings))]+":"+id)
		}
		acts = append(acts, "obs", "ping:p", "ping:t", "stop", "obs")
		emit(lifeLine("plain tls", acts))
	}
}

func oracleC19(cfg []string, results []string) string {
	// every `obs` is taken when all clients opened so far and not yet ended are idle: the registry and the
	// goroutine count must be exactly the connections still open (+ the accept loops)
	open := map[string]bool{}
	running := false
	loops := 0
	for i, r := range results {
		kv := strings.SplitN(r, "=", 2)
		a, v := kv[0], kv[1]
		f := strings.Split(a, ":")
		if (f[0] == "stop" || f[0] == "restart") && (v == "hang" || v == "HANG") {
			return fmt.Sprintf("fail:%s did not return within its watchdog: what it waits for was not released (%s at step %d)", f[0], r, i)
		}
		switch f[0] {
		case "start", "restart":
			if v == "ok" {
				running = true
				loops = 0
				if hasTok(cfg, "plain") {
					loops++
				}
				if hasTok(cfg, "tls") {
					loops++
				}
				if f[0] == "restart" {
					open = map[string]bool{}
				}
			}
		case "stop":
			running = false
			loops = 0
			open = map[string]bool{}
		case "open":
			if v == "ok" {
				open[f[2]] = true
			}
		case "tlsbad":
			if f[1] == "stall" && v == "pending" {
				open[f[len(f)-1]] = true
			}
		case "cclose", "rst", "quit", "bad", "half", "unread", "halfcr", "halfbulk", "crash":
			delete(open, f[1])
		case "obs":
			want := fmt.Sprintf("conns=%d,", len(open))
			wantG := fmt.Sprintf(",gor=%d,", loops+len(open))
			if !strings.HasPrefix(v, want) || !strings.Contains(v, wantG) {
				return fmt.Sprintf("fail:resources not at their baseline at step %d: %s, expected %d connections and %d goroutines", i, v, len(open), loops+len(open))
			}
			if !running && strings.Contains(v, "=open") {
				return fmt.Sprintf("fail:a listening socket is still open after Stop (%s)", v)
			}
		case "ping":
			if running && v != "ok" {
				return fmt.Sprintf("fail:server no longer serves after the endings so far (%s at step %d)", r, i)
			}
		case "alive":
			if !running && v == "up" {
				return "fail:a connection survived Stop: " + r
			}
		}
	}
	return "ok"
}

// ---------------------------------------------------------------------------------------------------
// C09
// ---------------------------------------------------------------------------------------------------

func genC09(tier string, seed uint64, emit func(string)) {
	creds := []string{"none", "plaintext", "selfsigned", "foreign", "expired", "wrongcn", "intercn", "straycn", "straygood", "good", "garbage", "abort", "stall"}
	// (tlsfiles: the TLS configuration built by the framework from certificate, key and CA files, with a host trust
	// store that contains the foreign CA)
	for _, cfg := range []string{"plain tls", "plain tls cn=client", "plain tls cn=client pw=secret", "tls cn=client", "plain tlsfiles", "tlsfiles cn=client"} {
		for _, c := range creds {
			fault := "tlsbad:" + c
			if c == "good" {
				fault = "ping:t:good"
			}
			// the faulty client first, between two good clients, and while a good client is connected
			emit(lifeLine(cfg, []string{"start", fault, "obs", "ping:t", "ping:p", "obs", "stop", "obs"}))
			emit(lifeLine(cfg, []string{"start", "ping:t", fault, "obs", "ping:t", fault, "ping:t", "ping:p", "stop", "obs"}))
			emit(lifeLine(cfg, []string{"start", "open:t:g", fault, "obs", "cmd:g", "ping:t", "cclose:g", "stop", "obs"}))
		}
		// every faulty client in a row, then a good one
		var acts []string
		acts = append(acts, "start")
		for _, c := range creds {
			if c != "good" {
				acts = append(acts, "tlsbad:"+c)
			}
		}
		acts = append(acts, "obs", "ping:t", "ping:p", "stop", "obs")
		emit(lifeLine(cfg, acts))
	}
	// "no sequence of faulty clients, of any length": 150 (thorough 700) faulty clients of the quick kinds one after another,
	// a good one, a Restart, 150 more, a good one - anything a failed handshake leaves behind adds up
	for _, cfg := range []string{"plain tls cn=client", "plain tlsfiles"} {
		quick := []string{"none", "plaintext", "selfsigned", "foreign", "expired", "wrongcn", "garbage", "abort"}
		n := 150
		if tier == "thorough" {
			n = 700
		}
		acts := []string{"start"}
		for i := 0; i < n; i++ {
			acts = append(acts, "tlsbad:"+quick[i%len(quick)])
		}
		acts = append(acts, "obs", "ping:t", "ping:p", "restart")
		for i := 0; i < n; i++ {
			acts = append(acts, "tlsbad:"+quick[(i+3)%len(quick)])
		}
		acts = append(acts, "obs", "ping:t", "ping:p", "stop", "obs")
		emit(lifeLine(cfg, acts))
	}
	// the CA is replaced while the server runs (certificate files re-read, then Restart or Stop/Start, as on SIGHUP): from
	// the next start on the clients of the retired CA are foreign, and only until then the clients of the new CA are
	for _, cfg := range []string{"plain tlsfiles", "tlsfiles cn=client", "plain tlsfiles cn=client pw=secret"} {
		emit(lifeLine(cfg, []string{"start", "ping:t", "tlsbad:foreign", "setca:foreign", "ping:t", "tlsbad:foreign", "restart", "ping:t:good", "tlsbad:good", "tlsbad:foreign",
			"tlsbad:wrongcn", "tlsbad:none", "ping:p", "obs", "setca:main", "tlsbad:foreign", "restart", "ping:t", "tlsbad:foreign", "stop", "obs"}))
		emit(lifeLine(cfg, []string{"setca:foreign", "start", "tlsbad:good", "tlsbad:foreign", "tlsbad:expired", "obs", "stop", "setca:main", "start", "ping:t", "tlsbad:foreign", "obs",
			"setca:foreign", "setca:main", "restart", "ping:t", "tlsbad:foreign", "stop", "obs"}))
		emit(lifeLine(cfg, []string{"start", "open:t:g", "setca:foreign", "cmd:g", "restart", "alive:g", "tlsbad:good", "tlsbad:foreign", "stop", "obs"}))
	}
	if tier == "thorough" {
		r := NewRng(seed)
		for i := 0; i < 300; i++ {
			cfg := []string{"plain tls", "plain tls cn=client", "plain tls cn=client pw=secret"}[r.Intn(3)]
			acts := []string{"start"}
			for j := 0; j < 12; j++ {
				c := creds[r.Intn(len(creds))]
				if c == "good" {
					acts = append(acts, "ping:t")
				} else if c == "stall" {
					acts = append(acts, fmt.Sprintf("tlsbad:stall:s%d", j))
				} else {
					acts = append(acts, "tlsbad:"+c)
				}
			}
			acts = append(acts, "obs", "ping:t", "ping:p", "stop", "obs")
			emit(lifeLine(cfg, acts))
		}
	}
}

func oracleC09(cfg []string, results []string) string {
	rule := false
	pw := false
	for _, c := range cfg {
		if strings.HasPrefix(c, "cn=") {
			rule = true
		}
		if strings.HasPrefix(c, "pw=") {
			pw = true
		}
	}
	running := false
	calls := 0
	// the CA in the configuration and the CA in force (the one configured when the server was last started)
	cfgCA, ca := "main", "main"
	issuer := func(kind string) string {
		switch kind {
		case "foreign":
			return "foreign"
		case "good", "wrongcn", "intercn", "straycn", "straygood", "expired":
			return "main"
		}
		return "-"
	}
	for i, r := range results {
		kv := strings.SplitN(r, "=", 2)
		a, v := kv[0], kv[1]
		f := strings.Split(a, ":")
		switch f[0] {
		case "setca":
			cfgCA = f[1]
		case "start", "restart":
			if v == "ok" {
				ca = cfgCA
			}
			running = running || v == "ok"
		case "stop":
			running = false
		case "tlsbad":
			kind := f[1]
			mustReject := kind != "stall" && !((kind == "wrongcn" || kind == "intercn" || kind == "straycn" || kind == "straygood") && !rule)
			if kind == "good" || kind == "foreign" {
				mustReject = false
			}
			if kind != "stall" && issuer(kind) != ca {
				mustReject = true
			}
			if mustReject && strings.HasPrefix(v, "served") {
				return fmt.Sprintf("fail:a TLS client with credentials '%s' was served (%s)", kind, v)
			}
			if mustReject && v != "rejected" {
				return fmt.Sprintf("fail:a TLS client with credentials '%s' was not disconnected (%s)", kind, v)
			}
			if strings.HasPrefix(v, "served") {
				calls++
			}
		case "ping", "open":
			enabled := (f[1] == "p" && hasTok(cfg, "plain")) || (f[1] == "t" && hasTok(cfg, "tls"))
			if f[1] == "t" && ca != "main" {
				// the well-behaved client's certificate was issued by the CA that has been retired
				if v == "ok" {
					return fmt.Sprintf("fail:a client of the retired CA is still served after the server was restarted with another CA (%s at step %d)", r, i)
				}
				continue
			}
			if running && enabled && v != "ok" && !(f[1] == "p" && rule && pw) {
				return fmt.Sprintf("fail:a well-behaved client is no longer served after the faulty clients so far (%s at step %d)", r, i)
			}
			if v == "ok" {
				calls++
			}
		case "cmd":
			if v == "ok" {
				calls++
			}
		case "obs":
			// commands were executed only for served clients
			at := strings.Index(v, "calls=")
			if at >= 0 && v[at+6:] != fmt.Sprint(calls) {
				return fmt.Sprintf("fail:%s handler calls although only %d commands of served clients were sent", v[at+6:], calls)
			}
			if running && (strings.Contains(v, "plain=closed") || strings.Contains(v, "tls=closed")) {
				return "fail:a listener died: " + v
			}
		}
	}
	return "ok"
}
