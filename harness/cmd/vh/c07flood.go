package main

import (
	"bufio"
	"bytes"
	"net"
	"os"
	"strconv"
	"time"

	exserver "github.com/cybergarage/go-redis/examples/go-redisd/server"
)

func init() {
	opRunners["flood07"] = runFlood07
}

// case "flood07 <prefix hex|-> <pattern hex> <MiB>": one connection sends <prefix> (complete requests, or nothing) and
// then <MiB> MiB of <pattern> repeated - bytes where the next request is expected (blank lines, separators, padding);
// a witness connection opened before must be served afterwards, and the process must still be there.  Always in a child
// process: what such a stream can provoke (a stack that no longer grows, memory that runs out) is a fatal error no
// recover() catches.
func runFlood07(toks []string) Result {
	tags := []string{"nt", "byte-flood"}
	if os.Getenv("VH_CHILD") == "" {
		r := runIsolatedFor("C07", toks, 100*time.Second)
		r.Tags = append(r.Tags, tags...)
		return r
	}
	var stream []byte
	if toks[1] != "-" {
		stream = unhx(toks[1])
	}
	pat := unhx(toks[2])
	mib, _ := strconv.Atoi(toks[3])
	stream = append(stream, bytes.Repeat(pat, mib<<20/len(pat))...)
	srv := exserver.NewServer()
	wcl, wsv := net.Pipe()
	go func() {
		defer func() { recover() }()
		srv.VerifServeConn(wsv, nil)
	}()
	defer wcl.Close()
	conn := &scriptConn{log: &eventLog{}, segs: [][]byte{stream}}
	done := make(chan struct{})
	go func() {
		defer close(done)
		defer func() { recover() }()
		srv.VerifServeConn(conn, nil)
	}()
	select {
	case <-done:
	case <-time.After(80 * time.Second):
		return Result{Obs: "flooder-not-finished", Oracle: "fail:the connection that sent the flood was still being worked on after 80 s", Tags: tags}
	}
	wcl.SetDeadline(time.Now().Add(3 * time.Second))
	wcl.Write(reqS("PING"))
	rep, err := readReply(bufio.NewReader(wcl))
	if err != nil || string(rep) != "+PONG\r\n" {
		return Result{Obs: "witness-not-served", Oracle: "fail:a witness connection was not served after another connection sent a byte flood", Tags: tags}
	}
	return Result{Obs: "witness-served", Oracle: "ok", Tags: tags}
}
