package main

// Structured generators for RESP value trees, shared by C01, C02, C06.

// utf8Traps: no CR or LF byte in any of them, but code points whose low byte is one
var utf8Traps = []string{"\u4e0d", "\u4e0a", "\u010d", "\u010a", "\u040d", "x\u4e0d\u4e0a+FORGED\u4e0d\u4e0a:1\u4e0d\u4e0a", "\u4e0d\u652f\u6301\u7684\u547d\u4ee4", "a\u010d\u010ab", "\u00e9\u00ff"}

var payloadAlphabet = []byte{'a', '\r', '\n', '$'}

// genPayload draws a payload from the classes the properties name.
func genPayload(r *Rng, lineSafe bool, big bool) []byte {
	var p []byte
	switch r.Intn(13) {
	case 12: // valid UTF-8 whose code points end in 0x0D / 0x0A (U+4E0D U+4E0A U+010D U+010A U+040D): bytes, not runes
		p = []byte(utf8Traps[r.Intn(len(utf8Traps))])
	case 0:
		p = []byte{}
	case 1:
		p = []byte("OK")
	case 2: // all 256 byte values
		p = make([]byte, 256)
		for i := range p {
			p[i] = byte(i)
		}
	case 3: // CR/LF/NUL mix
		n := 1 + r.Intn(8)
		for i := 0; i < n; i++ {
			p = append(p, []byte{'\r', '\n', 0, 'x'}[r.Intn(4)])
		}
	case 4: // forged frame after CRLF
		p = []byte("x\r\n" + []string{"+OK", ":1", "$-1", "*0", "-ERR"}[r.Intn(5)] + "\r\n")
	case 5: // type bytes at frame-looking positions
		n := 1 + r.Intn(6)
		for i := 0; i < n; i++ {
			p = append(p, []byte{'+', '-', ':', '$', '*', '1', '\r', '\n'}[r.Intn(8)])
		}
	case 6: // digits (looks like a length)
		p = []byte([]string{"0", "-1", "12", "9223372036854775807", "+5", "007"}[r.Intn(6)])
	case 7:
		if big {
			p = r.Bytes([]int{1000, 4096, 65535, 65536}[r.Intn(4)])
		} else {
			p = r.Bytes(r.Intn(40))
		}
	case 8: // trailing CR / ends with CRLF
		p = append(r.Bytes(r.Intn(4)), '\r')
		if r.Bool() {
			p = append(p, '\n')
		}
	default:
		p = r.Bytes(r.Intn(12))
	}
	if lineSafe {
		q := p[:0:0]
		for _, c := range p {
			if c != '\r' && c != '\n' {
				q = append(q, c)
			}
		}
		p = q
		if p == nil {
			p = []byte{}
		}
	}
	return p
}

// genTree draws a value tree.  lineSafe: line payloads never contain CR/LF (the property's domain).
func genTree(r *Rng, depth int, maxArity int, lineSafe bool, big bool) *Node {
	k := r.Intn(10)
	if depth <= 0 && k >= 7 {
		k = r.Intn(7)
	}
	switch k {
	case 0:
		return &Node{Kind: 's', P: genPayload(r, lineSafe, false)}
	case 1:
		return &Node{Kind: 'e', P: genPayload(r, lineSafe, false)}
	case 2:
		return &Node{Kind: 'i', P: genPayload(r, lineSafe, false)}
	case 3, 4, 5:
		return &Node{Kind: 'b', P: genPayload(r, false, big)}
	case 6:
		return &Node{Kind: 'n'}
	default:
		n := &Node{Kind: 'a', Es: []*Node{}}
		ar := r.Intn(5)
		if r.Chance(1, 8) {
			ar = r.Intn(maxArity + 1)
		}
		for i := 0; i < ar; i++ {
			n.Es = append(n.Es, genTree(r, depth-1, maxArity/2+1, lineSafe, false))
		}
		return n
	}
}

// enumSmallTrees enumerates all trees with at most maxNodes nodes whose payloads are words of length
// <= maxLen over payloadAlphabet.
func enumSmallTrees(maxNodes int, maxLen int) []*Node {
	words := [][]byte{{}}
	frontier := [][]byte{{}}
	for l := 1; l <= maxLen; l++ {
		var next [][]byte
		for _, w := range frontier {
			for _, c := range payloadAlphabet {
				nw := append(append([]byte{}, w...), c)
				next = append(next, nw)
			}
		}
		words = append(words, next...)
		frontier = next
	}
	// trees[k] = all trees with exactly k nodes
	trees := make([][]*Node, maxNodes+1)
	// forests[k][j] = all forests (lists of trees) with total k nodes -- computed lazily by recursion
	var forests func(k int) [][]*Node
	memo := map[int][][]*Node{}
	forests = func(k int) [][]*Node {
		if f, ok := memo[k]; ok {
			return f
		}
		var out [][]*Node
		if k == 0 {
			out = [][]*Node{{}}
		} else {
			for first := 1; first <= k; first++ {
				for _, t := range trees[first] {
					for _, rest := range forests(k - first) {
						out = append(out, append([]*Node{t}, rest...))
					}
				}
			}
		}
		memo[k] = out
		return out
	}
	for k := 1; k <= maxNodes; k++ {
		var ts []*Node
		if k == 1 {
			for _, kind := range []byte{'s', 'e', 'i', 'b'} {
				for _, w := range words {
					ts = append(ts, &Node{Kind: kind, P: w})
				}
			}
			ts = append(ts, &Node{Kind: 'n'})
		}
		for _, f := range forests(k - 1) {
			ts = append(ts, &Node{Kind: 'a', Es: f})
		}
		trees[k] = ts
		delete(memo, k) // forests(k) depends on trees[k]; recompute next round
		for kk := range memo {
			if kk >= k {
				delete(memo, kk)
			}
		}
	}
	var all []*Node
	for k := 1; k <= maxNodes; k++ {
		all = append(all, trees[k]...)
	}
	return all
}

func (n *Node) lineSafe() bool {
	switch n.Kind {
	case 's', 'e', 'i':
		for _, c := range n.P {
			if c == '\r' || c == '\n' {
				return false
			}
		}
	case 'a':
		for _, e := range n.Es {
			if !e.lineSafe() {
				return false
			}
		}
	case 'z', 'Z':
		return false
	}
	return true
}

func (n *Node) depth() int {
	d := 0
	for _, e := range n.Es {
		if x := e.depth() + 1; x > d {
			d = x
		}
	}
	if n.Kind == 'a' && d == 0 {
		d = 1
	}
	return d
}

func (n *Node) size() int {
	s := 1
	for _, e := range n.Es {
		s += e.size()
	}
	return s
}

func (n *Node) payloadBytes() int {
	s := len(n.P)
	for _, e := range n.Es {
		s += e.payloadBytes()
	}
	return s
}
