package main

import (
	"sync"

	"github.com/cybergarage/go-redis/redis"
)

// safeHandler is a handler double whose own state is guarded by a mutex: C14 is about the framework's shared
// state, not the store's.
type safeHandler struct {
	mu sync.Mutex
	d  *double
}

func newSafeHandler() *safeHandler {
	return &safeHandler{d: &double{log: &eventLog{}, script: []scriptedResult{{msg: &Node{Kind: 'b', P: []byte("v")}}}}}
}

func (h *safeHandler) Del(conn *redis.Conn, keys []string) (*redis.Message, error) {
	h.mu.Lock()
	defer h.mu.Unlock()
	h.d.log.evs = h.d.log.evs[:0]
	return h.d.Del(conn, keys)
}

func (h *safeHandler) Exists(conn *redis.Conn, keys []string) (*redis.Message, error) {
	h.mu.Lock()
	defer h.mu.Unlock()
	h.d.log.evs = h.d.log.evs[:0]
	return h.d.Exists(conn, keys)
}

func (h *safeHandler) Expire(conn *redis.Conn, key string, opt redis.ExpireOption) (*redis.Message, error) {
	h.mu.Lock()
	defer h.mu.Unlock()
	h.d.log.evs = h.d.log.evs[:0]
	return h.d.Expire(conn, key, opt)
}

func (h *safeHandler) Keys(conn *redis.Conn, pattern string) (*redis.Message, error) {
	h.mu.Lock()
	defer h.mu.Unlock()
	h.d.log.evs = h.d.log.evs[:0]
	return h.d.Keys(conn, pattern)
}

func (h *safeHandler) Rename(conn *redis.Conn, key string, newkey string, opt redis.RenameOption) (*redis.Message, error) {
	h.mu.Lock()
	defer h.mu.Unlock()
	h.d.log.evs = h.d.log.evs[:0]
	return h.d.Rename(conn, key, newkey, opt)
}

func (h *safeHandler) Type(conn *redis.Conn, key string) (*redis.Message, error) {
	h.mu.Lock()
	defer h.mu.Unlock()
	h.d.log.evs = h.d.log.evs[:0]
	return h.d.Type(conn, key)
}

func (h *safeHandler) TTL(conn *redis.Conn, key string) (*redis.Message, error) {
	h.mu.Lock()
	defer h.mu.Unlock()
	h.d.log.evs = h.d.log.evs[:0]
	return h.d.TTL(conn, key)
}

func (h *safeHandler) Scan(conn *redis.Conn, cursor int, opt redis.ScanOption) (*redis.Message, error) {
	h.mu.Lock()
	defer h.mu.Unlock()
	h.d.log.evs = h.d.log.evs[:0]
	return h.d.Scan(conn, cursor, opt)
}

func (h *safeHandler) Get(conn *redis.Conn, key string) (*redis.Message, error) {
	h.mu.Lock()
	defer h.mu.Unlock()
	h.d.log.evs = h.d.log.evs[:0]
	return h.d.Get(conn, key)
}

func (h *safeHandler) Set(conn *redis.Conn, key string, val string, opt redis.SetOption) (*redis.Message, error) {
	h.mu.Lock()
	defer h.mu.Unlock()
	h.d.log.evs = h.d.log.evs[:0]
	return h.d.Set(conn, key, val, opt)
}

func (h *safeHandler) HDel(conn *redis.Conn, key string, fields []string) (*redis.Message, error) {
	h.mu.Lock()
	defer h.mu.Unlock()
	h.d.log.evs = h.d.log.evs[:0]
	return h.d.HDel(conn, key, fields)
}

func (h *safeHandler) HSet(conn *redis.Conn, key string, field string, val string, opt redis.HSetOption) (*redis.Message, error) {
	h.mu.Lock()
	defer h.mu.Unlock()
	h.d.log.evs = h.d.log.evs[:0]
	return h.d.HSet(conn, key, field, val, opt)
}

func (h *safeHandler) HGet(conn *redis.Conn, key string, field string) (*redis.Message, error) {
	h.mu.Lock()
	defer h.mu.Unlock()
	h.d.log.evs = h.d.log.evs[:0]
	return h.d.HGet(conn, key, field)
}

func (h *safeHandler) HGetAll(conn *redis.Conn, key string) (*redis.Message, error) {
	h.mu.Lock()
	defer h.mu.Unlock()
	h.d.log.evs = h.d.log.evs[:0]
	return h.d.HGetAll(conn, key)
}

func (h *safeHandler) LPush(conn *redis.Conn, key string, elements []string, opt redis.PushOption) (*redis.Message, error) {
	h.mu.Lock()
	defer h.mu.Unlock()
	h.d.log.evs = h.d.log.evs[:0]
	return h.d.LPush(conn, key, elements, opt)
}

func (h *safeHandler) RPush(conn *redis.Conn, key string, elements []string, opt redis.PushOption) (*redis.Message, error) {
	h.mu.Lock()
	defer h.mu.Unlock()
	h.d.log.evs = h.d.log.evs[:0]
	return h.d.RPush(conn, key, elements, opt)
}

func (h *safeHandler) LPop(conn *redis.Conn, key string, count int) (*redis.Message, error) {
	h.mu.Lock()
	defer h.mu.Unlock()
	h.d.log.evs = h.d.log.evs[:0]
	return h.d.LPop(conn, key, count)
}

func (h *safeHandler) RPop(conn *redis.Conn, key string, count int) (*redis.Message, error) {
	h.mu.Lock()
	defer h.mu.Unlock()
	h.d.log.evs = h.d.log.evs[:0]
	return h.d.RPop(conn, key, count)
}

func (h *safeHandler) LRange(conn *redis.Conn, key string, start int, stop int) (*redis.Message, error) {
	h.mu.Lock()
	defer h.mu.Unlock()
	h.d.log.evs = h.d.log.evs[:0]
	return h.d.LRange(conn, key, start, stop)
}

func (h *safeHandler) LIndex(conn *redis.Conn, key string, index int) (*redis.Message, error) {
	h.mu.Lock()
	defer h.mu.Unlock()
	h.d.log.evs = h.d.log.evs[:0]
	return h.d.LIndex(conn, key, index)
}

func (h *safeHandler) LLen(conn *redis.Conn, key string) (*redis.Message, error) {
	h.mu.Lock()
	defer h.mu.Unlock()
	h.d.log.evs = h.d.log.evs[:0]
	return h.d.LLen(conn, key)
}

func (h *safeHandler) SAdd(conn *redis.Conn, key string, members []string) (*redis.Message, error) {
	h.mu.Lock()
	defer h.mu.Unlock()
	h.d.log.evs = h.d.log.evs[:0]
	return h.d.SAdd(conn, key, members)
}

func (h *safeHandler) SMembers(conn *redis.Conn, key string) (*redis.Message, error) {
	h.mu.Lock()
	defer h.mu.Unlock()
	h.d.log.evs = h.d.log.evs[:0]
	return h.d.SMembers(conn, key)
}

func (h *safeHandler) SRem(conn *redis.Conn, key string, members []string) (*redis.Message, error) {
	h.mu.Lock()
	defer h.mu.Unlock()
	h.d.log.evs = h.d.log.evs[:0]
	return h.d.SRem(conn, key, members)
}

func (h *safeHandler) ZAdd(conn *redis.Conn, key string, members []*redis.ZSetMember, opt redis.ZAddOption) (*redis.Message, error) {
	h.mu.Lock()
	defer h.mu.Unlock()
	h.d.log.evs = h.d.log.evs[:0]
	return h.d.ZAdd(conn, key, members, opt)
}

func (h *safeHandler) ZRange(conn *redis.Conn, key string, start int, stop int, opt redis.ZRangeOption) (*redis.Message, error) {
	h.mu.Lock()
	defer h.mu.Unlock()
	h.d.log.evs = h.d.log.evs[:0]
	return h.d.ZRange(conn, key, start, stop, opt)
}

func (h *safeHandler) ZRangeByScore(conn *redis.Conn, key string, min float64, max float64, opt redis.ZRangeOption) (*redis.Message, error) {
	h.mu.Lock()
	defer h.mu.Unlock()
	h.d.log.evs = h.d.log.evs[:0]
	return h.d.ZRangeByScore(conn, key, min, max, opt)
}

func (h *safeHandler) ZRem(conn *redis.Conn, key string, members []string) (*redis.Message, error) {
	h.mu.Lock()
	defer h.mu.Unlock()
	h.d.log.evs = h.d.log.evs[:0]
	return h.d.ZRem(conn, key, members)
}

func (h *safeHandler) ZScore(conn *redis.Conn, key string, member string) (*redis.Message, error) {
	h.mu.Lock()
	defer h.mu.Unlock()
	h.d.log.evs = h.d.log.evs[:0]
	return h.d.ZScore(conn, key, member)
}

func (h *safeHandler) ZIncBy(conn *redis.Conn, key string, inc float64, member string) (*redis.Message, error) {
	h.mu.Lock()
	defer h.mu.Unlock()
	h.d.log.evs = h.d.log.evs[:0]
	return h.d.ZIncBy(conn, key, inc, member)
}
