package main

import (
	"bufio"
	"fmt"
	"net"
	"strconv"
	"time"

	exserver "github.com/cybergarage/go-redis/examples/go-redisd/server"
	"github.com/cybergarage/go-redis/redis"
)

func init() {
	opRunners["stallw"] = runStallW
}

// case: "stallw <store> <stalled> <requests>": <stalled> clients send <requests> pipelined requests each and never
// read a byte of the replies (net.Pipe is unbuffered, so the server's write of the first reply blocks for good);
// a witness connection opened afterwards must still get exact replies, and so must a connection opened later.
func runStallW(toks []string) Result {
	stalled, _ := strconv.Atoi(toks[2])
	reqs, _ := strconv.Atoi(toks[3])
	var serve func(net.Conn)
	if toks[1] == "example" {
		srv := exserver.NewServer()
		serve = func(c net.Conn) { srv.VerifServeConn(c, nil) }
	} else {
		srv := redis.NewServer()
		srv.SetCommandHandler(newSafeHandler())
		serve = func(c net.Conn) { srv.VerifServeConn(c, nil) }
	}
	open := func() net.Conn {
		cl, sv := net.Pipe()
		go func() {
			defer func() { recover() }()
			serve(sv)
		}()
		return cl
	}
	var offenders []net.Conn
	for i := 0; i < stalled; i++ {
		c := open()
		offenders = append(offenders, c)
		go func(c net.Conn) {
			var b []byte
			for j := 0; j < reqs; j++ {
				b = append(b, reqS("GET", "k")...)
			}
			c.SetWriteDeadline(time.Now().Add(3 * time.Second))
			c.Write(b) // blocks once the server stops reading because its own write is stuck: that is the point
		}(c)
	}
	time.Sleep(20 * time.Millisecond)
	obs := ""
	for round := 0; round < 2; round++ {
		w := open()
		br := bufio.NewReader(w)
		for i, req := range [][]byte{reqS("PING"), reqS("ECHO", "witness"), reqS("PING", "x")} {
			w.SetDeadline(time.Now().Add(2 * time.Second))
			if _, err := w.Write(req); err != nil {
				obs += fmt.Sprintf("w%d.%d:werr ", round, i)
				break
			}
			rep, err := readReply(br)
			if err != nil {
				obs += fmt.Sprintf("w%d.%d:timeout ", round, i)
				break
			}
			obs += fmt.Sprintf("w%d.%d:%s ", round, i, hx(rep))
		}
		w.Close()
	}
	for _, c := range offenders {
		c.Close()
	}
	want := ""
	for round := 0; round < 2; round++ {
		want += fmt.Sprintf("w%d.0:%s w%d.1:%s w%d.2:%s ", round, hx([]byte("+PONG\r\n")), round, hx([]byte("$7\r\nwitness\r\n")), round, hx([]byte("$1\r\nx\r\n")))
	}
	tags := []string{"nt", "stalled-writer", "store-" + toks[1]}
	if obs != want {
		return Result{Obs: obs, Oracle: "fail:a witness connection got no (or a wrong) reply while " + toks[2] + " other client(s) had stopped reading their replies: " + trunc(obs, 120), Tags: tags}
	}
	return Result{Obs: "witness-served", Oracle: "ok", Tags: tags}
}
