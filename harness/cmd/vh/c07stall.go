package main

import (
	"bufio"
	"fmt"
	"net"
	"strconv"
	"strings"
	"sync"
	"sync/atomic"
	"time"

	exserver "github.com/cybergarage/go-redis/examples/go-redisd/server"
	"github.com/cybergarage/go-redis/redis"
)

func init() {
	opRunners["stallw"] = runStallW
	opRunners["massdisc"] = runMassDisc
	opRunners["cfgstorm"] = runCfgStorm
	opRunners["stallr"] = runStallR
	opRunners["panicw"] = runPanicW
}

// nilHandler answers Get / ZRange / SMembers on the key "poison" with (nil, nil): the framework's composed commands
// then dereference a nil message, i.e. panic inside the connection goroutine while executing a command.
type nilHandler struct{ *safeHandler }

func (h *nilHandler) Get(conn *redis.Conn, key string) (*redis.Message, error) {
	if key == "poison" {
		return nil, nil
	}
	return h.safeHandler.Get(conn, key)
}

func (h *nilHandler) ZRange(conn *redis.Conn, key string, start int, stop int, opt redis.ZRangeOption) (*redis.Message, error) {
	if key == "poison" {
		return nil, nil
	}
	return h.safeHandler.ZRange(conn, key, start, stop, opt)
}

// case: "panicw <n> <cmd>": <n> connections each send a composed command on the key "poison" (the request crashes
// inside the framework and the connection is dropped); witness connections - one opened before, one after - must
// keep getting exact replies.
func runPanicW(toks []string) Result {
	n, _ := strconv.Atoi(toks[1])
	srv := redis.NewServer()
	srv.SetCommandHandler(&nilHandler{newSafeHandler()})
	open := func() net.Conn {
		cl, sv := net.Pipe()
		go func() {
			defer func() { recover() }()
			srv.VerifServeConn(sv, nil)
		}()
		return cl
	}
	ask := func(c net.Conn, req []byte) string {
		c.SetDeadline(time.Now().Add(2 * time.Second))
		if _, err := c.Write(req); err != nil {
			return "werr"
		}
		rep, err := readReply(bufio.NewReader(c))
		if err != nil {
			return "noreply"
		}
		return hx(rep)
	}
	before := open()
	defer before.Close()
	obs := "b0:" + ask(before, reqS("PING")) + " "
	for i := 0; i < n; i++ {
		c := open()
		var req []byte
		switch toks[2] {
		case "INCR":
			req = reqS("INCR", "poison")
		case "APPEND":
			req = reqS("APPEND", "poison", "x")
		case "ZREVRANGE":
			req = reqS("ZREVRANGE", "poison", "0", "-1")
		default:
			req = reqS("STRLEN", "poison")
		}
		r := ask(c, req)
		if r != "noreply" && r != hx([]byte("-E\r\n")) {
			obs += "offender-answered:" + r + " "
		}
		c.Close()
	}
	after := open()
	defer after.Close()
	obs += "b1:" + ask(before, reqS("ECHO", "x")) + " a0:" + ask(after, reqS("PING")) + " a1:" + ask(after, reqS("GET", "k"))
	want := "b0:" + hx([]byte("+PONG\r\n")) + " b1:" + hx([]byte("$1\r\nx\r\n")) + " a0:" + hx([]byte("+PONG\r\n")) + " a1:" + hx([]byte("$1\r\nv\r\n"))
	tags := []string{"nt", "panic-witness"}
	if obs != want {
		return Result{Obs: obs, Oracle: "fail:after a request crashed inside the framework on another connection, witness connections were not served: " + trunc(obs, 120), Tags: tags}
	}
	return Result{Obs: "witness-served", Oracle: "ok", Tags: tags}
}

// case: "massdisc <clients> <rounds>": <clients> connections are opened, each sends one PING, then all of them are
// closed at the same instant; a witness connection must be served afterwards and the registry must be empty.
func runMassDisc(toks []string) Result {
	n, _ := strconv.Atoi(toks[1])
	rounds, _ := strconv.Atoi(toks[2])
	srv := redis.NewServer()
	srv.SetCommandHandler(newSafeHandler())
	var swg sync.WaitGroup
	open := func() net.Conn {
		cl, sv := net.Pipe()
		swg.Add(1)
		go func() {
			defer swg.Done()
			defer func() { recover() }()
			srv.VerifServeConn(sv, nil)
		}()
		return cl
	}
	for round := 0; round < rounds; round++ {
		conns := make([]net.Conn, n)
		for i := range conns {
			conns[i] = open()
		}
		var wg sync.WaitGroup
		gate := make(chan struct{})
		for _, c := range conns {
			wg.Add(1)
			go func(c net.Conn) {
				defer wg.Done()
				c.SetDeadline(time.Now().Add(3 * time.Second))
				c.Write(reqS("PING"))
				readReply(bufio.NewReader(c))
				<-gate
				c.Close()
			}(c)
		}
		time.Sleep(5 * time.Millisecond)
		close(gate)
		wg.Wait()
	}
	done := make(chan struct{})
	go func() { swg.Wait(); close(done) }()
	select {
	case <-done:
	case <-time.After(5 * time.Second):
		return Result{Obs: "goroutines-left", Oracle: "fail:connection goroutines did not end after their clients went away", Tags: []string{"nt", "mass-disconnect"}}
	}
	w := open()
	defer w.Close()
	w.SetDeadline(time.Now().Add(2 * time.Second))
	w.Write(reqS("PING"))
	rep, err := readReply(bufio.NewReader(w))
	if err != nil || string(rep) != "+PONG\r\n" {
		return Result{Obs: "witness-not-served", Oracle: "fail:a witness connection was not served after a mass disconnect", Tags: []string{"nt", "mass-disconnect"}}
	}
	if k := len(srv.Conns()); k != 1 {
		return Result{Obs: fmt.Sprintf("registry=%d", k), Oracle: fmt.Sprintf("fail:%d connections registered after all but one client went away", k), Tags: []string{"nt", "mass-disconnect"}}
	}
	return Result{Obs: "witness-served", Oracle: "ok", Tags: []string{"nt", "mass-disconnect"}}
}

// case: "cfgstorm <writers> <connectors> <ms>": <writers> clients pipeline CONFIG SET / CONFIG GET without a pause while
// <connectors> clients connect, send one ECHO and disconnect in a loop, for <ms> milliseconds; then a witness connection
// must be served. Whatever the configuration traffic of some clients, connections are set up and answered.
func runCfgStorm(toks []string) Result {
	writers, _ := strconv.Atoi(toks[1])
	connectors, _ := strconv.Atoi(toks[2])
	ms, _ := strconv.Atoi(toks[3])
	tags := []string{"nt", "config-storm"}
	srv := redis.NewServer()
	srv.SetCommandHandler(newSafeHandler())
	open := func() net.Conn {
		cl, sv := net.Pipe()
		go func() {
			defer func() { recover() }()
			srv.VerifServeConn(sv, nil)
		}()
		return cl
	}
	stop := make(chan struct{})
	var wg sync.WaitGroup
	var served, frozen int64
	for w := 0; w < writers; w++ {
		wg.Add(1)
		go func(w int) {
			defer wg.Done()
			c := open()
			defer c.Close()
			rd := bufio.NewReader(c)
			for i := 0; ; i++ {
				select {
				case <-stop:
					return
				default:
				}
				c.SetDeadline(time.Now().Add(3 * time.Second))
				if i%3 == 2 {
					c.Write(reqS("CONFIG", "GET", "k"+strconv.Itoa(w), "port"))
				} else {
					c.Write(reqS("CONFIG", "SET", "k"+strconv.Itoa(w), strconv.Itoa(i)))
				}
				if _, err := readReply(rd); err != nil {
					atomic.AddInt64(&frozen, 1)
					return
				}
			}
		}(w)
	}
	for k := 0; k < connectors; k++ {
		wg.Add(1)
		go func() {
			defer wg.Done()
			for {
				select {
				case <-stop:
					return
				default:
				}
				c := open()
				c.SetDeadline(time.Now().Add(3 * time.Second))
				c.Write(reqS("ECHO", "hi"))
				rep, err := readReply(bufio.NewReader(c))
				c.Close()
				if err != nil || string(rep) != "$2\r\nhi\r\n" {
					atomic.AddInt64(&frozen, 1)
					return
				}
				atomic.AddInt64(&served, 1)
			}
		}()
	}
	time.Sleep(time.Duration(ms) * time.Millisecond)
	close(stop)
	done := make(chan struct{})
	go func() { wg.Wait(); close(done) }()
	select {
	case <-done:
	case <-time.After(8 * time.Second):
		return Result{Obs: "frozen", Oracle: "fail:clients were still waiting 8 s after the workload ended", Tags: tags}
	}
	if f := atomic.LoadInt64(&frozen); f > 0 {
		return Result{Obs: "frozen", Oracle: fmt.Sprintf("fail:%d clients got no reply within 3 s (after %d served connections)", f, atomic.LoadInt64(&served)), Tags: tags}
	}
	w := open()
	defer w.Close()
	w.SetDeadline(time.Now().Add(2 * time.Second))
	w.Write(reqS("PING"))
	rep, err := readReply(bufio.NewReader(w))
	if err != nil || string(rep) != "+PONG\r\n" {
		return Result{Obs: "frozen", Oracle: "fail:a witness connection was not served after the configuration traffic", Tags: tags}
	}
	return Result{Obs: "witness-served", Oracle: "ok", Tags: tags}
}

// case: "stallr <payload> <prefix> <pause ms>": the client pipelines ECHO <payload bytes>, PING, ECHO x over an
// unbuffered pipe, reads <prefix> bytes of the first reply, pauses, then reads everything.
func runStallR(toks []string) Result {
	size, _ := strconv.Atoi(toks[1])
	prefix, _ := strconv.Atoi(toks[2])
	pause, _ := strconv.Atoi(toks[3])
	srv := redis.NewServer()
	srv.SetCommandHandler(newSafeHandler())
	cl, sv := net.Pipe()
	go func() {
		defer func() { recover() }()
		srv.VerifServeConn(sv, nil)
	}()
	defer cl.Close()
	payload := strings.Repeat("p", size)
	var reqs []byte
	reqs = append(reqs, reqS("ECHO", payload)...)
	reqs = append(reqs, reqS("PING")...)
	reqs = append(reqs, reqS("ECHO", "x")...)
	go cl.Write(reqs)
	want := fmt.Sprintf("$%d\r\n%s\r\n+PONG\r\n$1\r\nx\r\n", size, payload)
	var got []byte
	buf := make([]byte, 4096)
	cl.SetReadDeadline(time.Now().Add(3 * time.Second))
	for len(got) < prefix {
		n, err := cl.Read(buf[:prefix-len(got)])
		got = append(got, buf[:n]...)
		if err != nil {
			break
		}
	}
	time.Sleep(time.Duration(pause) * time.Millisecond)
	cl.SetReadDeadline(time.Now().Add(3 * time.Second))
	for len(got) < len(want) {
		n, err := cl.Read(buf)
		got = append(got, buf[:n]...)
		if err != nil {
			break
		}
	}
	tags := []string{"nt", "stalled-reader"}
	if string(got) != want {
		_, ok := refFrames(got)
		return Result{Obs: fmt.Sprintf("got %d bytes, frames ok=%v", len(got), ok), Oracle: fmt.Sprintf("fail:a reader that paused %d ms inside a %d-byte reply received %d bytes that are not the three complete replies (well-formed=%v)", pause, size, len(got), ok), Tags: tags}
	}
	return Result{Obs: "replies-complete", Oracle: "ok", Tags: tags}
}

// case: "stallw <store> <stalled> <requests>": <stalled> clients send <requests> pipelined requests each and never
// read a byte of the replies (net.Pipe is unbuffered, so the server's write of the first reply blocks for good);
// a witness connection opened afterwards must still get exact replies, and so must a connection opened later.
func runStallW(toks []string) Result {
	stalled, _ := strconv.Atoi(toks[2])
	reqs, _ := strconv.Atoi(toks[3])
	var serve func(net.Conn)
	if toks[1] == "example" {
		srv := exserver.NewServer()
		serve = func(c net.Conn) { srv.VerifServeConn(c, nil) }
	} else {
		srv := redis.NewServer()
		srv.SetCommandHandler(newSafeHandler())
		serve = func(c net.Conn) { srv.VerifServeConn(c, nil) }
	}
	open := func() net.Conn {
		cl, sv := net.Pipe()
		go func() {
			defer func() { recover() }()
			serve(sv)
		}()
		return cl
	}
	var offenders []net.Conn
	for i := 0; i < stalled; i++ {
		c := open()
		offenders = append(offenders, c)
		go func(c net.Conn) {
			var b []byte
			for j := 0; j < reqs; j++ {
				b = append(b, reqS("GET", "k")...)
			}
			c.SetWriteDeadline(time.Now().Add(3 * time.Second))
			c.Write(b) // blocks once the server stops reading because its own write is stuck: that is the point
		}(c)
	}
	time.Sleep(20 * time.Millisecond)
	obs := ""
	for round := 0; round < 2; round++ {
		w := open()
		br := bufio.NewReader(w)
		for i, req := range [][]byte{reqS("PING"), reqS("ECHO", "witness"), reqS("PING", "x")} {
			w.SetDeadline(time.Now().Add(2 * time.Second))
			if _, err := w.Write(req); err != nil {
				obs += fmt.Sprintf("w%d.%d:werr ", round, i)
				break
			}
			rep, err := readReply(br)
			if err != nil {
				obs += fmt.Sprintf("w%d.%d:timeout ", round, i)
				break
			}
			obs += fmt.Sprintf("w%d.%d:%s ", round, i, hx(rep))
		}
		w.Close()
	}
	for _, c := range offenders {
		c.Close()
	}
	want := ""
	for round := 0; round < 2; round++ {
		want += fmt.Sprintf("w%d.0:%s w%d.1:%s w%d.2:%s ", round, hx([]byte("+PONG\r\n")), round, hx([]byte("$7\r\nwitness\r\n")), round, hx([]byte("$1\r\nx\r\n")))
	}
	tags := []string{"nt", "stalled-writer", "store-" + toks[1]}
	if obs != want {
		return Result{Obs: obs, Oracle: "fail:a witness connection got no (or a wrong) reply while " + toks[2] + " other client(s) had stopped reading their replies: " + trunc(obs, 120), Tags: tags}
	}
	return Result{Obs: "witness-served", Oracle: "ok", Tags: tags}
}
