package main

// Rng is a splitmix64 generator: every random choice of a run derives from one seed.
type Rng struct{ s uint64 }

func NewRng(seed uint64) *Rng { return &Rng{s: seed*0x9E3779B97F4A7C15 + 0x1234567} }

func (r *Rng) U64() uint64 {
	r.s += 0x9E3779B97F4A7C15
	z := r.s
	z = (z ^ (z >> 30)) * 0xBF58476D1CE4E5B9
	z = (z ^ (z >> 27)) * 0x94D049BB133111EB
	return z ^ (z >> 31)
}

// Intn returns a value in [0, n).
func (r *Rng) Intn(n int) int {
	if n <= 0 {
		return 0
	}
	return int(r.U64() % uint64(n))
}

func (r *Rng) Bool() bool { return r.U64()&1 == 1 }

// Chance returns true with probability num/den.
func (r *Rng) Chance(num, den int) bool { return r.Intn(den) < num }

func (r *Rng) Pick(xs []string) string { return xs[r.Intn(len(xs))] }

func (r *Rng) Bytes(n int) []byte {
	b := make([]byte, n)
	for i := range b {
		b[i] = byte(r.U64())
	}
	return b
}
