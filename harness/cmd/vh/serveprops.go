package main

import (
	"bytes"
	"fmt"
	"math"
	"sort"
	"strconv"
	"strings"
)

// Properties decided on the connection loop (C03, C04, C05, C07, C10, C11, C20): they share the `serve`
// case format and the model's `serve` function; each adds its own generator and its own direct oracle.

func init() {
	properties["C03"] = &Property{Gen: genC03, Run: serveRunner(oracleC03)}
	properties["C04"] = &Property{Gen: genC04, Run: serveRunner(oracleC04)}
	properties["C05"] = &Property{Gen: genC05, Run: serveRunner(oracleC05)}
	properties["C07"] = &Property{Gen: genC07, Run: serveRunner(oracleC07)}
	properties["C10"] = &Property{Gen: genC10, Run: serveRunner(oracleC10)}
	c11serve, c11life := serveRunner(oracleC11), lifeRunner(oracleC19)
	properties["C11"] = &Property{Gen: genC11, Run: func(toks []string) Result {
		if toks[0] == "life" {
			// the "connection is released" clause on real sockets (plain and TLS), where closing can itself fail
			return c11life(toks)
		}
		return c11serve(toks)
	}}
	properties["C20"] = &Property{Gen: genC20, Run: serveRunner(oracleC20)}
}

// extra (5th) section of a serve case: free-form expectations for the oracle, ignored by the model.
func extraSection(toks []string) []string {
	secs := splitSections(toks[1:])
	if len(secs) > 4 {
		return secs[4]
	}
	return nil
}

type oracleFn func(c *serveCase, extra []string, res *serveResult) (string, []string)

func serveRunner(oracle oracleFn) func(toks []string) Result {
	return func(toks []string) Result {
		c := parseServeCase(toks)
		// keep an untouched copy of the segments for the oracle (the connection consumes them)
		orig := make([][]byte, len(c.segs))
		for i, s := range c.segs {
			orig[i] = append([]byte{}, s...)
		}
		obs, res := serveObs(c)
		c.segs = orig
		or, tags := oracle(c, extraSection(toks), res)
		return Result{Obs: obs, Oracle: or, Tags: tags}
	}
}

func serveLine(cfg string, segs [][]byte, script string, floats string, extra string) string {
	var sb strings.Builder
	sb.WriteString("serve ")
	sb.WriteString(cfg)
	sb.WriteString(" |")
	for _, s := range segs {
		sb.WriteByte(' ')
		sb.WriteString(hx(s))
	}
	sb.WriteString(" | ")
	sb.WriteString(script)
	sb.WriteString(" | ")
	sb.WriteString(withStreamFloats(floats, segs))
	sb.WriteString(" | ")
	sb.WriteString(extra)
	return sb.String()
}

// withStreamFloats completes a float table with every bulk payload that actually occurs in the stream (mutated
// requests carry tokens their generator never listed): the model's float oracle must know every token the
// implementation can hand to strconv.ParseFloat.
func withStreamFloats(floats string, segs [][]byte) string {
	seen := map[string]bool{}
	for _, f := range strings.Fields(floats) {
		if i := strings.IndexByte(f, '='); i > 0 {
			seen[f[:i]] = true
		}
	}
	var all []byte
	for _, s := range segs {
		all = append(all, s...)
	}
	parts := []string{}
	if strings.TrimSpace(floats) != "" {
		parts = append(parts, strings.TrimSpace(floats))
	}
	add := func(tok []byte) {
		if len(tok) == 0 || len(tok) > 40 || seen[hx(tok)] {
			return
		}
		seen[hx(tok)] = true
		if f, err := strconv.ParseFloat(string(tok), 64); err == nil {
			parts = append(parts, fmt.Sprintf("%s=%016x", hx(tok), math.Float64bits(f)))
		}
	}
	for i := 0; i < len(all); i++ {
		// a line value (+ - :) or the payload of a bulk string starting here
		switch all[i] {
		case '+', '-', ':':
			if j := bytes.IndexByte(all[i+1:], '\r'); j >= 0 && j <= 40 {
				add(all[i+1 : i+1+j])
			}
		case '$':
			j := i + 1
			n := 0
			for j < len(all) && all[j] >= '0' && all[j] <= '9' && j-i < 4 {
				n = n*10 + int(all[j]-'0')
				j++
			}
			if j > i+1 && j+1 < len(all) && all[j] == '\r' && j+2+n <= len(all) && n <= 40 {
				tok := all[j+2 : j+2+n]
				add(tok)
				if len(tok) > 0 && tok[0] == '(' {
					add(tok[1:])
				}
			}
		}
	}
	return strings.Join(parts, " ")
}

func allForms() []string {
	var out []string
	out = append(out, simpleForms...)
	out = append(out, compositeForms...)
	out = append(out, systemForms...)
	return out
}

func hcalls(res *serveResult) []string {
	var out []string
	for _, e := range res.events {
		if strings.HasPrefix(e, "hc:") {
			out = append(out, e[3:])
		}
	}
	return out
}

func inputOf(c *serveCase) []byte {
	var b []byte
	for _, s := range c.segs {
		b = append(b, s...)
	}
	return b
}

func baseFail(res *serveResult) string {
	switch {
	case res.hung:
		return "fail:connection loop did not return (spin)"
	case res.panicked != "":
		return "fail:panic escaped the connection loop: " + trunc(res.panicked, 80)
	}
	return ""
}

func trunc(s string, n int) string {
	s = strings.ReplaceAll(strings.ReplaceAll(s, "\n", " "), "\t", " ")
	if len(s) > n {
		return s[:n]
	}
	return s
}

// ---------------------------------------------------------------------------------------------------
// C05: commands reach the handler with exactly the arguments sent
// ---------------------------------------------------------------------------------------------------

func genC05(tier string, seed uint64, emit func(string)) {
	r := NewRng(seed)
	per := 60
	if tier == "thorough" {
		per = 2500
	}
	for _, cmd := range simpleForms {
		for i := 0; i < per; i++ {
			t := genRequest(r, cmd)
			script := genScript(r, 1, false)
			emit(serveLine("-", [][]byte{requestBytes(t.argv(), nil)}, script, floatTable(t.argv()), "x "+t.expected))
		}
	}
	// commands keep reaching the handler after a request crashed inside the framework on another connection
	for _, cmd := range []string{"INCR", "ZREVRANGE"} {
		emit(fmt.Sprintf("panicw %d %s", 1+r.Intn(2), cmd))
	}
	// what the handler returned is what the client receives, on the connection the request arrived on, also while
	// other connections are being answered: 2..6 connections with large replies read slowly
	nc4 := 4
	if tier == "thorough" {
		nc4 = 60
	}
	for i := 0; i < nc4; i++ {
		genConc4(r, emit)
	}
	// wide requests: list arguments around the sizes of internal buffers and tables
	for _, n := range []int{255, 256, 257, 1023, 1024, 1025, 5000} {
		for _, cmd := range []string{"DEL", "EXISTS", "RPUSH", "LPUSH", "SADD", "SREM", "HDEL", "ZREM"} {
			forceListN = n
			t := genRequest(r, cmd)
			forceListN = 0
			emit(serveLine("-", [][]byte{requestBytes(t.argv(), nil)}, genScript(r, 1, false), floatTable(t.argv()), "x "+t.expected))
		}
	}
	// a connection that is already some seconds old when the command arrives: relative times are relative to the
	// moment the command is executed, not to anything earlier
	for _, lag := range []int{2600} {
		for _, cmd := range []string{"EXPIRE", "SETEX", "SET"} {
			t := genRequest(r, cmd)
			emit(serveLine(fmt.Sprintf("lag=%d", lag), [][]byte{requestBytes(t.argv(), nil)}, genScript(r, 1, false), floatTable(t.argv()), "x "+t.expected))
		}
	}
	// executors the application registers itself are found like the built-in ones: any letter case, names of any length
	appNames := []string{"MYAPP.GET", "MYAPPLICATION.GT", "MYAPPLICATION.GET", "TDIGEST.BYREVRANK_MEMBER", "X.THIS-IS-A-RATHER-LONG-APPLICATION-COMMAND.NAME.OF.64.BYTES.....", "A"}
	var appHex []string
	for _, n := range appNames {
		appHex = append(appHex, hx([]byte(n)))
	}
	appCfg := "app=" + strings.Join(appHex, ",")
	for _, name := range appNames {
		spellings := [][]byte{[]byte(name), []byte(strings.ToLower(name))}
		for i := 0; i < 6; i++ {
			spellings = append(spellings, randCase(r, name))
		}
		for _, sp := range spellings {
			key := gS(r)
			argv := [][]byte{sp, key}
			emit(serveLine(appCfg, [][]byte{requestBytes(argv, nil)}, genScript(r, 1, false), "", "x get("+hx(key)+")"))
		}
		// a name that is not registered (one byte more, one byte less) stays unknown; a missing argument is an error
		emit(serveLine(appCfg, [][]byte{requestBytes([][]byte{[]byte(name + "X"), gS(r)}, nil)}, genScript(r, 1, false), "", "unknown"))
		if len(name) > 1 {
			emit(serveLine(appCfg, [][]byte{requestBytes([][]byte{[]byte(name[:len(name)-1]), gS(r)}, nil)}, genScript(r, 1, false), "", "unknown"))
		}
	}
	// key/value lists (MSET, MSETNX, HMSET): the handler is called once per key, with the last value given for it
	for i := 0; i < 4*per; i++ {
		cmd := []string{"MSET", "MSETNX", "HMSET"}[i%3]
		pool := []string{"a", "b", "", "k\r\n", "a"}
		n := 1 + r.Intn(5)
		argv := [][]byte{randCase(r, cmd)}
		if cmd == "HMSET" {
			argv = append(argv, []byte("h"))
		}
		last := map[string]string{}
		var order []string
		for j := 0; j < n; j++ {
			k, v := pool[r.Intn(len(pool))], string(gS(r))
			if j > 0 && r.Chance(1, 3) {
				k = order[r.Intn(len(order))]
			}
			if _, ok := last[k]; !ok {
				order = append(order, k)
			}
			last[k] = v
			argv = append(argv, []byte(k), []byte(v))
		}
		var want, script []string
		for _, k := range order {
			switch cmd {
			case "MSET":
				want = append(want, fmt.Sprintf("set(%s,%s,0000,-)@0,1", hx([]byte(k)), hx([]byte(last[k]))))
			case "MSETNX":
				want = append(want, fmt.Sprintf("get(%s)@0,1", hx([]byte(k))), fmt.Sprintf("set(%s,%s,1000,-)@0,1", hx([]byte(k)), hx([]byte(last[k]))))
				script = append(script, "r n")
			case "HMSET":
				want = append(want, fmt.Sprintf("hset(68,%s,%s,0)@0,1", hx([]byte(k)), hx([]byte(last[k]))))
			}
		}
		for range order {
			script = append(script, map[string]string{"MSET": "r s:4f4b", "MSETNX": "r i:31", "HMSET": "r i:31"}[cmd])
		}
		sort.Strings(want)
		emit(serveLine("-", [][]byte{requestBytes(argv, nil)}, strings.Join(script, " ; "), "", "kv "+strings.Join(want, ";")))
	}
	// unknown commands: error reply, no handler call
	for i := 0; i < per; i++ {
		// (incl. names whose Unicode upper case would spell a command: U+017F long s, U+0131 dotless i, U+212A Kelvin)
		name := []byte([]string{"NOSUCH", "GETX", "", "G E T", "SE", "get\x00", "FLUSHALL", "ZADDX", "\u017fet", "p\u0131ng", "\u017fcan", "\u212aEYS", "g\u00e9t"}[r.Intn(13)])
		argv := [][]byte{name, gS(r)}
		emit(serveLine("-", [][]byte{requestBytes(argv, nil)}, genScript(r, 1, false), "", "unknown"))
	}
}

func oracleC05(c *serveCase, extra []string, res *serveResult) (string, []string) {
	if f := baseFail(res); f != "" {
		return f, nil
	}
	calls := hcalls(res)
	frames, ok := refFrames(res.written)
	tags := []string{"nt"}
	if len(extra) > 0 && extra[0] == "unknown" {
		tags = append(tags, "unknown-command")
		switch {
		case len(calls) != 0:
			return "fail:unknown command invoked the handler", tags
		case !ok || len(frames) != 1 || frames[0].Kind != 'e':
			return "fail:unknown command was not answered with one error reply", tags
		}
		return "ok", tags
	}
	if len(extra) >= 2 && extra[0] == "kv" {
		tags = append(tags, "kv-list")
		got := append([]string{}, calls...)
		sort.Strings(got)
		if strings.Join(got, ";") != extra[1] {
			return "fail:a key/value list reached the handler as " + trunc(strings.Join(calls, " "), 160) + " expected (in any order) " + trunc(extra[1], 160), tags
		}
		if !ok || len(frames) != 1 || frames[0].Kind == 'e' {
			return "fail:a well-formed key/value command was not answered with one non-error reply", tags
		}
		return "ok", tags
	}
	if len(extra) < 2 || extra[1] == "" {
		return "na", tags
	}
	expected := extra[1] + "@0,1"
	tags = append(tags, "cmd-"+expected[:strings.IndexByte(expected, '(')])
	if len(calls) != 1 {
		return fmt.Sprintf("fail:%d handler calls for one well-formed request (expected %s)", len(calls), expected), tags
	}
	if calls[0] != expected {
		return "fail:handler called with " + trunc(calls[0], 120) + " expected " + trunc(expected, 120), tags
	}
	// what the handler returns is what the client receives
	if len(c.script) == 1 {
		s := c.script[0]
		switch {
		case s.err != nil:
			if !ok || len(frames) != 1 || frames[0].Kind != 'e' {
				return "fail:handler error did not become one error reply", tags
			}
		case s.msg != nil && s.msg.lineSafe():
			var want []byte
			s.msg.refEnc(&want)
			if !bytes.Equal(res.written, want) {
				return "fail:reply differs from the handler's result", tags
			}
		}
	}
	return "ok", tags
}

// ---------------------------------------------------------------------------------------------------
// C10: ill-formed arguments are rejected without side effects
// ---------------------------------------------------------------------------------------------------

var optionForms = map[string]bool{"EXPIRE": true, "EXPIREAT": true, "SCAN": true, "SET": true, "LPOP": true, "RPOP": true, "ZADD": true,
	"ZRANGE": true, "ZRANGEBYSCORE": true, "ZREVRANGE": true, "ZREVRANGEBYSCORE": true, "PING": true}

func genC10(tier string, seed uint64, emit func(string)) {
	r := NewRng(seed)
	rounds := 2
	if tier == "thorough" {
		rounds = 40
	}
	ping := reqS("PING")
	for round := 0; round < rounds; round++ {
		for _, cmd := range allForms() {
			if cmd == "PING" || cmd == "AUTH" {
				continue
			}
			// commands with optional clauses are drawn several times so that every clause (LIMIT offset count, COUNT n,
			// MATCH p, EX n ...) is present in some request and its positions get mutated too
			draws := 1
			if optionForms[cmd] {
				draws = 8
			}
			seen := map[string]bool{}
			for d := 0; d < draws; d++ {
				t := genRequest(r, cmd)
				for _, m := range illFormed(t) {
					line := serveLine("-", [][]byte{append(requestBytes(m.argv, m.nulls), ping...)}, genScript(r, 2, false), floatTable(m.argv), "class "+m.class+" "+cmd)
					key := m.class + "|" + string(requestBytes(m.argv, m.nulls))
					if seen[key] {
						continue
					}
					seen[key] = true
					emit(line)
					if r.Chance(1, 6) {
						// the same on a server with a password, on a connection that authenticated before: the rejected
						// request leaves the connection as it was
						emit(serveLine("pw="+hx([]byte("sesame")), [][]byte{append(append(reqS("AUTH", "sesame"), requestBytes(m.argv, m.nulls)...), ping...)},
							genScript(r, 2, false), floatTable(m.argv), "class "+m.class+" "+cmd+" authed"))
					}
				}
			}
		}
		// ill-formed AUTH requests, before and after a successful AUTH
		for _, m := range []mutation{
			{argv: bs("AUTH"), class: "omit"},
			{argv: [][]byte{[]byte("AUTH"), nil}, nulls: map[int]bool{1: true}, class: "null"},
			{argv: [][]byte{[]byte("auth"), []byte("user"), nil}, nulls: map[int]bool{2: true}, class: "null"},
			{argv: [][]byte{[]byte("AUTH"), nil, []byte("sesame")}, nulls: map[int]bool{1: true}, class: "null"},
		} {
			emit(serveLine("-", [][]byte{append(requestBytes(m.argv, m.nulls), ping...)}, genScript(r, 2, false), "", "class "+m.class+" AUTH"))
			emit(serveLine("pw="+hx([]byte("sesame")), [][]byte{append(append(reqS("AUTH", "sesame"), requestBytes(m.argv, m.nulls)...), ping...)},
				genScript(r, 2, false), "", "class "+m.class+" AUTH authed"))
		}
		for _, m := range setExclusive(r) {
			emit(serveLine("-", [][]byte{append(requestBytes(m.argv, m.nulls), ping...)}, genScript(r, 2, false), floatTable(m.argv), "class "+m.class+" SET"))
		}
	}
}

func oracleC10(c *serveCase, extra []string, res *serveResult) (string, []string) {
	if f := baseFail(res); f != "" {
		return f, nil
	}
	tags := []string{"nt"}
	if len(extra) >= 3 {
		tags = append(tags, "class-"+extra[1], "cmd-"+extra[2])
	}
	calls := hcalls(res)
	frames, ok := refFrames(res.written)
	if len(extra) >= 4 && extra[3] == "authed" {
		// AUTH sesame came first: its +OK, then as below
		if !ok || len(frames) != 3 || !(frames[0].Kind == 's' && string(frames[0].P) == "OK") {
			return fmt.Sprintf("fail:expected +OK, an error reply and the PING reply, got %d frames", len(frames)), append(tags, "authed")
		}
		frames = frames[1:]
		tags = append(tags, "authed")
	}
	switch {
	case len(calls) != 0:
		return "fail:handler invoked for an ill-formed request: " + trunc(calls[0], 100), tags
	case !ok || len(frames) != 2:
		return fmt.Sprintf("fail:expected an error reply and the PING reply, got %d frames", len(frames)), tags
	case frames[0].Kind != 'e':
		return "fail:ill-formed request was not answered with an error reply: " + trunc(frames[0].String(), 60), tags
	case !(frames[1].Kind == 's' && string(frames[1].P) == "PONG"):
		return "fail:the request following an ill-formed one was not processed normally", tags
	}
	return "ok", tags
}

// ---------------------------------------------------------------------------------------------------
// pipelines shared by C03 / C11 / C20
// ---------------------------------------------------------------------------------------------------

type pipeline struct {
	reqs  [][]byte // wire form of each request
	argvs [][][]byte
	names []string
	quit  int // index of the first QUIT, or -1
}

func genPipeline(r *Rng, maxReqs int, validOnly bool) *pipeline {
	p := &pipeline{quit: -1}
	forms := allForms()
	n := 1 + r.Intn(maxReqs)
	for i := 0; i < n; i++ {
		var argv [][]byte
		var nulls map[int]bool
		name := forms[r.Intn(len(forms))]
		if name == "AUTH" {
			name = "PING"
		}
		switch k := r.Intn(20); {
		case k == 0 && !validOnly: // unknown command
			argv = [][]byte{[]byte("NOSUCH"), gS(r)}
			name = "NOSUCH"
		case k == 1: // QUIT
			argv = [][]byte{randCase(r, "QUIT")}
			name = "QUIT"
		case k <= 5 && !validOnly: // ill-formed
			t := genRequest(r, name)
			ms := illFormed(t)
			if len(ms) > 0 {
				m := ms[r.Intn(len(ms))]
				argv, nulls = m.argv, m.nulls
			} else {
				argv = t.argv()
			}
		case k == 6 && !validOnly: // surplus arguments
			t := genRequest(r, name)
			argv = append(t.argv(), gS(r), gS(r))
		default:
			argv = genRequest(r, name).argv()
		}
		if name == "QUIT" && p.quit < 0 {
			p.quit = i
		}
		p.reqs = append(p.reqs, requestBytes(argv, nulls))
		p.argvs = append(p.argvs, argv)
		p.names = append(p.names, name)
	}
	return p
}

func (p *pipeline) bytes() []byte {
	var b []byte
	for _, q := range p.reqs {
		b = append(b, q...)
	}
	return b
}

func (p *pipeline) chunkings(r *Rng) [][][]byte {
	b := p.bytes()
	out := [][][]byte{{b}}
	var per [][]byte
	for _, q := range p.reqs {
		per = append(per, q)
	}
	out = append(out, per)
	if len(b) <= 400 {
		out = append(out, oneByteSegs(b))
	}
	out = append(out, partition(r, b, 2+r.Intn(6)), partition(r, b, 2+r.Intn(20)))
	return out
}

// expectedServed is the number of requests that must be answered: all up to and including the first QUIT.
func (p *pipeline) expectedServed() int {
	if p.quit >= 0 {
		return p.quit + 1
	}
	return len(p.reqs)
}

// ---------------------------------------------------------------------------------------------------
// C03: exactly one reply per request, in order, without needing more input
// ---------------------------------------------------------------------------------------------------

func genC03(tier string, seed uint64, emit func(string)) {
	r := NewRng(seed)
	// a neighbour connection that stops reading its replies must not keep this connection from being answered
	for _, store := range []string{"double", "example"} {
		for stalled := 1; stalled <= 2; stalled++ {
			emit(fmt.Sprintf("stallw %s %d %d", store, stalled, 1+r.Intn(40)))
		}
	}
	// several connections at the same time, composed commands next to plain reads and writes: every request is answered
	nconc := 3
	if tier == "thorough" {
		nconc = 60
	}
	for i := 0; i < nconc; i++ {
		emit(fmt.Sprintf("conc3 %d %d %d", 3+r.Intn(6), 200+r.Intn(400), r.U64()%1000000))
	}
	n := 700
	if tier == "thorough" {
		n = 40000
	}
	// every ZADD flag combination, every SET option: the loops that consume option tokens must advance
	for _, flags := range [][]string{{"NX"}, {"XX"}, {"GT"}, {"LT"}, {"CH"}, {"INCR"}, {"NX", "CH"}, {"xx", "gt", "ch", "incr"}} {
		argv := [][]byte{[]byte("ZADD"), []byte("z")}
		for _, f := range flags {
			argv = append(argv, []byte(f))
		}
		argv = append(argv, []byte("1"), []byte("m"))
		p := &pipeline{reqs: [][]byte{requestBytes(argv, nil), reqS("PING")}, quit: -1}
		emit(serveLine("blk", [][]byte{p.bytes()}, "r i:31", floatTable(argv), fmt.Sprintf("served 2 ends %d %d", len(p.reqs[0]), len(p.bytes()))))
	}
	// argument values that mean something elsewhere (command names, sentinel error texts, parameter names): an error
	// reply that carries such a word is an error reply like any other, the connection stays usable
	for _, w := range meaningWords {
		for _, argv := range [][][]byte{bs("CONFIG", w), bs("CONFIG", w, w), bs("ECHO", w), bs("GET", w), bs(w)} {
			p := &pipeline{reqs: [][]byte{requestBytes(argv, nil), reqS("PING"), reqS("ECHO", "hi")}, quit: -1}
			if strings.EqualFold(w, "QUIT") && len(argv) == 1 {
				continue
			}
			l0, l1 := len(p.reqs[0]), len(p.reqs[0])+len(p.reqs[1])
			emit(serveLine("blk", [][]byte{p.bytes()}, "r b:76", floatTable(argv), fmt.Sprintf("served 3 ends %d %d %d", l0, l1, len(p.bytes()))))
		}
	}
	// numbers at the borders of the 64-bit range (and at 2^62, where a doubled value leaves it) in every count, index,
	// offset and limit position, over a handler whose reply has something to select from: such a request is answered
	// like any other and the connection stays usable
	for _, argv := range borderRequests() {
		p := &pipeline{reqs: [][]byte{requestBytes(argv, nil), reqS("PING"), reqS("ECHO", "hi")}, quit: -1}
		l0, l1 := len(p.reqs[0]), len(p.reqs[0])+len(p.reqs[1])
		emit(serveLine("blk", [][]byte{p.bytes()}, "r a6 b:61 b:31 b:62 b:32 b:63 b:33", floatTable(argv), fmt.Sprintf("served 3 ends %d %d %d", l0, l1, len(p.bytes()))))
	}
	// a connection that is idle for longer than any timeout a server may have (really idle: wall-clock time) between two
	// requests: the next request is answered like the first, and so are the ones behind it
	gaps := []int{31000}
	if tier == "thorough" {
		gaps = []int{31000, 46000} // (a case has to finish within the 60 s the shard watchdog of bin/check allows)
	}
	for _, g := range gaps {
		first, rest := reqS("PING"), append(append([]byte{}, reqS("ECHO", "after-idle")...), reqS("PING")...)
		l0, l1 := len(first), len(first)+len(reqS("ECHO", "after-idle"))
		emit(serveLine(fmt.Sprintf("blk gap=%d", g), [][]byte{first, rest}, "r b:76", "", fmt.Sprintf("served 3 ends %d %d %d", l0, l1, len(first)+len(rest))))
	}
	// the empty string in every argument position of every command (a key, a value, a number, a score bound, an option
	// word, a pattern): answered like any other request, the connection stays usable
	for _, cmd := range append(append(append([]string{}, simpleForms...), compositeForms...), systemForms...) {
		for round := 0; round < 2; round++ {
			t := genRequest(r, cmd)
			if t == nil {
				continue
			}
			base := t.argv()
			for pos := 1; pos <= len(base); pos++ {
				argv := make([][]byte, len(base))
				copy(argv, base)
				if pos == len(base) {
					argv = append(argv, []byte{}) // one more, empty, argument
				} else {
					argv[pos] = []byte{}
				}
				if strings.EqualFold(string(argv[0]), "QUIT") {
					continue
				}
				p := &pipeline{reqs: [][]byte{requestBytes(argv, nil), reqS("PING"), reqS("ECHO", "hi")}, quit: -1}
				l0, l1 := len(p.reqs[0]), len(p.reqs[0])+len(p.reqs[1])
				emit(serveLine("blk", [][]byte{p.bytes()}, "r b:76 ; r a2 b:61 b:31", floatTable(argv), fmt.Sprintf("served 3 ends %d %d %d", l0, l1, len(p.bytes()))))
			}
		}
	}
	for i := 0; i < n; i++ {
		p := genPipeline(r, 12, false)
		script := genScript(r, 1+r.Intn(4), false)
		var ends []string
		off := 0
		for _, q := range p.reqs {
			off += len(q)
			ends = append(ends, strconv.Itoa(off))
		}
		extra := fmt.Sprintf("served %d ends %s", p.expectedServed(), strings.Join(ends, " "))
		// a quarter of the pipelines run against a handler that keeps its reply objects and hands the same object out
		// again (whatever a command does with a reply must not change what the next command gets)
		cfg3 := "blk"
		if r.Chance(1, 4) {
			cfg3 = "blk memo"
		}
		for _, segs := range p.chunkings(r) {
			emit(serveLine(cfg3, segs, script, floatTable(p.argvs...), extra))
		}
	}
}

// borderInts: the integers around which 64-bit arithmetic on counts, offsets and indexes goes wrong.
var borderInts = []string{"0", "1", "2", "-1", "-2", "4611686018427387903", "4611686018427387904", "-4611686018427387904", "-4611686018427387905",
	"9223372036854775806", "9223372036854775807", "-9223372036854775807", "-9223372036854775808", "3074457345618258603", "6148914691236517206"}

// borderRequests: every command with a count / index / offset / limit position, with every pair of border integers.
func borderRequests() [][][]byte {
	var out [][][]byte
	for _, a := range borderInts {
		for _, b := range borderInts {
			for _, ws := range [][]string{nil, {"WITHSCORES"}} {
				out = append(out, bs(append([]string{"ZREVRANGEBYSCORE", "z", "+inf", "-inf", "LIMIT", a, b}, ws...)...))
				out = append(out, bs(append([]string{"ZRANGEBYSCORE", "z", "-inf", "+inf", "LIMIT", a, b}, ws...)...))
				out = append(out, bs(append([]string{"ZREVRANGE", "z", a, b}, ws...)...))
			}
			out = append(out, bs("ZRANGE", "z", "-inf", "+inf", "BYSCORE", "REV", "LIMIT", a, b))
			out = append(out, bs("ZRANGE", "z", a, b, "REV"))
			out = append(out, bs("GETRANGE", "k", a, b), bs("SUBSTR", "k", a, b), bs("LRANGE", "l", a, b))
		}
		out = append(out, bs("LPOP", "l", a), bs("RPOP", "l", a), bs("LINDEX", "l", a), bs("INCRBY", "k", a), bs("DECRBY", "k", a), bs("SCAN", a, "COUNT", a),
			bs("EXPIRE", "k", a), bs("SETEX", "k", a, "v"), bs("SET", "k", "v", "EX", a), bs("SET", "k", "v", "PXAT", a), bs("SELECT", a))
	}
	return out
}

func oracleC03(c *serveCase, extra []string, res *serveResult) (string, []string) {
	if f := baseFail(res); f != "" {
		return f, nil
	}
	tags := []string{"nt", describeSegs(c.segs)}
	served, _ := strconv.Atoi(extra[1])
	var ends []int
	for _, e := range extra[3:] {
		v, _ := strconv.Atoi(e)
		ends = append(ends, v)
	}
	tags = append(tags, "reqs"+bucket(len(ends)))
	if served < len(ends) {
		tags = append(tags, "quit-inside")
	}
	frames, ok := refFrames(res.written)
	if !ok {
		return "fail:reply stream is not a sequence of complete frames", tags
	}
	if len(frames) != served {
		return fmt.Sprintf("fail:%d replies for %d requests to be answered", len(frames), served), tags
	}
	// promptness: at every point where the loop waited for unsent bytes, every fully received request
	// (up to the QUIT cut-off) had been answered
	delivered := 0
	for j, n := range res.blocks {
		if j >= len(c.segs) {
			break
		}
		delivered += len(c.segs[j])
		want := 0
		for i, e := range ends {
			if e <= delivered && i < served {
				want++
			}
		}
		if n != want {
			return fmt.Sprintf("fail:after %d delivered bytes %d requests were complete but %d replies had been written when the server waited for more input", delivered, want, n), tags
		}
	}
	if res.conns != 0 {
		return "fail:connection still registered after the loop returned", tags
	}
	return "ok", tags
}

// ---------------------------------------------------------------------------------------------------
// C04: the reply stream is always well-formed RESP
// ---------------------------------------------------------------------------------------------------

func genC04(tier string, seed uint64, emit func(string)) {
	r := NewRng(seed)
	// several connections with large array replies and slow readers: every connection must still receive exactly its
	// own well-formed replies
	// composed readers twice in a row over a handler that keeps its reply objects
	for _, seq := range [][][]string{{{"SMEMBERS", "k"}, {"SISMEMBER", "k", "b"}, {"SMEMBERS", "k"}, {"SCARD", "k"}, {"SCARD", "k"}},
		{{"HKEYS", "h"}, {"HVALS", "h"}, {"HLEN", "h"}, {"HGETALL", "h"}, {"HKEYS", "h"}}, {{"ZCARD", "z"}, {"ZCARD", "z"}, {"ZRANGE", "z", "0", "-1"}, {"ZREVRANGE", "z", "0", "-1"}, {"ZREVRANGE", "z", "0", "-1"}}} {
		var b []byte
		for _, argv := range seq {
			b = append(b, reqS(argv...)...)
		}
		emit(serveLine("memo", [][]byte{b}, "r a4 b:61 b:62 b:63 b:64", "", ""))
	}
	// a reader that pauses in the middle of a large reply for longer than any plausible write timeout, with further
	// requests already pipelined: what it finally receives must still be complete frames
	pauses := 1
	if tier == "thorough" {
		pauses = 3
	}
	for i := 0; i < pauses; i++ {
		emit(fmt.Sprintf("stallr %d %d %d", 20000+r.Intn(60000), 5+r.Intn(40), 6000+i*1000))
	}
	nconc := 6
	if tier == "thorough" {
		nconc = 120
	}
	for i := 0; i < nconc; i++ {
		genConc4(r, emit)
	}
	n := 2500
	if tier == "thorough" {
		n = 120000
	}
	// replies carrying a bulk string whose length sits on a digit-count border (10^k) or a buffer-size border (2^k):
	// the value comes from the client (ECHO) and from the handler (GET, and inside an array reply), carries forged frames
	// at the offset where a length prefix that is one digit short would end, and is followed by a further request
	{
		var lens []int
		top := 100000
		if tier == "thorough" {
			top = 10000000
		}
		for v := 10; v <= top; v *= 10 {
			lens = append(lens, v-1, v, v+1)
		}
		lens = append(lens, 1000000, 4095, 4096, 4097, 65535, 65536, 65537)
		for _, ln := range lens {
			p := bytes.Repeat([]byte{'v'}, ln)
			copy(p[ln/10:], "\r\n+FORGED\r\n:1\r\n$-1\r\n")
			stream := append(append(requestBytes([][]byte{[]byte("ECHO"), p}, nil), reqS("GET", "k")...), reqS("LRANGE", "l", "0", "-1")...)
			stream = append(stream, reqS("PING")...)
			emit(serveLine("-", [][]byte{stream}, "r b:"+hx(p)+" ; r a2 b:"+hx(p)+" b:61", "", ""))
		}
	}
	for _, cfg := range []string{"-", "memo"} {
		for _, l := range composedShapeCases(cfg, true) {
			emit(l)
		}
	}
	// a reply that cannot be serialised (an absent element, a nil array, a nil message) behind several KiB of elements that
	// can: nothing of it may reach the client (a reply is written whole or not at all), and what follows is framed
	{
		big := hx(bytes.Repeat([]byte{'x'}, 3000))
		for _, bad := range []string{"z", "Z", "a2 b:61 z"} {
			for _, n := range []int{1, 2, 3, 6} {
				var els []string
				for i := 0; i < n; i++ {
					els = append(els, "b:"+big)
				}
				direct := fmt.Sprintf("r a%d %s %s b:7a", n+2, strings.Join(els, " "), bad)
				for _, cmd := range [][]string{{"LRANGE", "l", "0", "-1"}, {"SMEMBERS", "s"}, {"HGETALL", "h"}, {"HKEYS", "h"}, {"ZRANGE", "z", "0", "-1"}, {"ZREVRANGE", "z", "0", "-1"}, {"KEYS", "*"}} {
					stream := append(append(reqS("PING"), reqS(cmd...)...), reqS("PING")...)
					emit(serveLine("-", [][]byte{stream}, direct, "", ""))
				}
				// element by element (MGET / HMGET ask the handler once per key)
				var calls []string
				keys := []string{"MGET"}
				for i := 0; i < n; i++ {
					calls = append(calls, "r b:"+big)
					keys = append(keys, fmt.Sprintf("k%d", i))
				}
				calls = append(calls, "r "+bad, "r b:7a")
				keys = append(keys, "bad", "z")
				emit(serveLine("-", [][]byte{append(append(reqS("PING"), reqS(keys...)...), reqS("PING")...)}, strings.Join(calls, " ; "), "", ""))
				keys[0] = "HMGET"
				emit(serveLine("-", [][]byte{append(append(reqS("PING"), reqS(append([]string{"HMGET", "h"}, keys[1:]...)...)...), reqS("PING")...)}, strings.Join(calls, " ; "), "", ""))
			}
		}
	}
	forged := append([]string{"foo\r\n+OK\r\n", "x\r\n:1\r\n", "k\r\n$-1\r\n", "\r", "\n", "a\rb", "-ERR\r\n"}, utf8Traps...)
	for i := 0; i < n; i++ {
		var stream []byte
		var argvs [][][]byte
		m := 1 + r.Intn(4)
		for j := 0; j < m; j++ {
			switch r.Intn(8) {
			case 0: // a request value of any RESP type
				genTree(r, r.Intn(3), 4, false, false).refEnc(&stream)
			case 1: // command name with forged frames
				argv := [][]byte{[]byte(forged[r.Intn(len(forged))]), gS(r)}
				argvs = append(argvs, argv)
				stream = append(stream, requestBytes(argv, nil)...)
			case 2: // null or nested command name, empty array
				stream = append(stream, []string{"*1\r\n$-1\r\n", "*1\r\n*1\r\n$4\r\nPING\r\n", "*0\r\n", "*1\r\n*0\r\n", "*2\r\n:1\r\n$1\r\na\r\n", "*1\r\n+PING\r\n", "*-1\r\n"}[r.Intn(7)]...)
			case 3: // valid command with forged bytes in every argument
				forms := allForms()
				t := genRequest(r, forms[r.Intn(len(forms))])
				argv := t.argv()
				for k := 1; k < len(argv); k++ {
					if t.args[k].kind == 'S' || t.args[k].kind == 'L' || t.args[k].kind == 'K' || t.args[k].kind == 'V' {
						if r.Bool() {
							argv[k] = []byte(forged[r.Intn(len(forged))])
						}
					}
				}
				argvs = append(argvs, argv)
				stream = append(stream, requestBytes(argv, nil)...)
			default:
				p := genPipeline(r, 1, false)
				argvs = append(argvs, p.argvs...)
				stream = append(stream, p.bytes()...)
			}
		}
		cfg := "-"
		if r.Chance(1, 10) {
			cfg = "nohandler"
		} else if r.Chance(1, 4) {
			cfg = "memo"
		}
		emit(serveLine(cfg, [][]byte{stream}, genScript(r, 1+r.Intn(4), true), floatTable(argvs...), ""))
	}
}

// composedShapeCases: every command the framework derives from other operations (and every command whose executor walks
// the handler's reply) against every reply shape a handler can hand back - the right one, and wrong ones: nothing, an
// error, a value of another type, arrays with null, nested, integer, status or missing elements, odd lengths.  Each
// request is followed by a PING, so that what the connection does next is part of the observable.
func composedShapeCases(cfg string, wild bool) []string {
	cmds := [][]string{{"HKEYS", "h"}, {"HVALS", "h"}, {"HLEN", "h"}, {"HSTRLEN", "h", "f"}, {"HEXISTS", "h", "f"}, {"HMGET", "h", "f", "g"},
		{"SCARD", "s"}, {"SISMEMBER", "s", "a"}, {"ZCARD", "z"}, {"ZREVRANGE", "z", "0", "-1"}, {"ZREVRANGE", "z", "0", "-1", "WITHSCORES"},
		{"ZREVRANGEBYSCORE", "z", "+inf", "-inf"}, {"ZREVRANGEBYSCORE", "z", "+inf", "-inf", "WITHSCORES", "LIMIT", "1", "2"},
		{"STRLEN", "k"}, {"GETRANGE", "k", "0", "-1"}, {"SUBSTR", "k", "1", "2"}, {"APPEND", "k", "x"}, {"INCR", "k"}, {"DECRBY", "k", "3"},
		{"MGET", "k", "j"}, {"MSETNX", "k", "v", "j", "w"}, {"MSET", "k", "v", "j", "w"}, {"HMSET", "h", "f", "v", "g", "w"},
		{"GETSET", "k", "v"}, {"SETNX", "k", "v"}, {"GET", "k"}, {"HGETALL", "h"}, {"SMEMBERS", "s"}, {"KEYS", "*"}, {"SCAN", "0"}}
	shapes := []string{"r n", "r z", "r Z", "r s:4f4b", "r i:35", "r i:2d31", "r b:", "r b:3432", "r b:6162", "r b:610d0a62", "e 45525220626f6f6d", "re 626f7468 b:61",
		"r a0", "r a1 b:61", "r a1 n", "r a1 a0", "r a1 i:31", "r a1 s:61", "r a2 b:61 b:31", "r a2 b:61 n", "r a2 n b:31", "r a2 b:61 a0", "r a2 a0 b:31",
		"r a2 b:61 z", "r a2 i:31 i:32", "r a3 b:61 b:31 b:62", "r a3 b:61 a1 b:78 b:62", "r a4 b:61 b:31 b:62 b:32", "r a4 b:61 n b:62 b:32",
		"r a4 b:61 b:31 a0 b:32", "r a4 b:61 b:31 b:62 i:32", "r a5 b:61 b:31 b:62 b:32 b:63", "r a1 a2 b:61 b:62", "r e:45525220696e6e6572"}
	var out []string
	for _, c := range cmds {
		for _, sh := range shapes {
			// a handler that returns neither a message nor an error, or an array with absent elements, breaks the handler
			// contract (the request may then end in a recovered panic): only for the properties that cover such handlers
			if !wild && (strings.Contains(sh, " z") || strings.Contains(sh, " Z")) {
				continue
			}
			stream := append(reqS(c...), reqS("PING")...)
			script := sh + " ; " + sh + " ; " + sh
			out = append(out, serveLine(cfg, [][]byte{stream}, script, floatTable(bs(c...)), ""))
		}
	}
	return out
}

// allocWindow: counts that are too large to allocate but small enough for make to try (a preallocation that trusts a
// client's number ends in "fatal error: out of memory", which no recover can contain), and the 32-bit borders.
var allocWindow = []string{"2147483647", "2147483648", "4294967296", "100000000000", "1099511627776", "4000000000000", "10000000000000", "8796093022209", "17592186044416", "17592186044417"}

// extremeStoreCases: the bundled example store behind the framework: a small data set, then one command with extreme
// numbers in every count / index / offset / limit / increment position (and empty values), then a PING.
func extremeStoreCases() []string {
	setup := [][][]byte{bs("RPUSH", "l", "a", "b", "c"), bs("SADD", "s", "a", "b"), bs("ZADD", "z", "1", "a", "2", "b", "2", "c", "3", "d"), bs("SET", "k", "hello"), bs("SET", "n", "10"), bs("HSET", "h", "f", "v")}
	var out []string
	one := func(argv ...string) {
		prog := append(append([][][]byte{}, setup...), bs(argv...), bs("PING"), bs("LRANGE", "l", "0", "-1"), bs("ZRANGE", "z", "0", "-1"))
		out = append(out, xserveLine(prog))
	}
	nums := append(append([]string{}, borderInts...), allocWindow...)
	for _, a := range nums {
		one("LPOP", "l", a)
		one("RPOP", "l", a)
		one("LINDEX", "l", a)
		one("INCRBY", "n", a)
		one("DECRBY", "n", a)
		one("INCRBY", "fresh", a)
		for _, b := range nums {
			small := func(x string) bool { return len(x) <= 2 }
			if !(small(a) || small(b)) && !(len(a) >= 18 && len(b) >= 18) {
				continue
			}
			one("LRANGE", "l", a, b)
			one("ZRANGE", "z", a, b)
			one("ZRANGE", "z", a, b, "REV", "WITHSCORES")
			one("ZREVRANGE", "z", a, b)
			one("ZRANGEBYSCORE", "z", "-inf", "+inf", "LIMIT", a, b)
			one("ZREVRANGEBYSCORE", "z", "+inf", "-inf", "WITHSCORES", "LIMIT", a, b)
			one("ZRANGE", "z", "1", "3", "BYSCORE", "LIMIT", a, b)
			one("GETRANGE", "k", a, b)
		}
	}
	// a key and a pattern on which a backtracking matcher does not come back
	longKey := strings.Repeat("a", 64)
	for _, pat := range []string{strings.Repeat("*a", 24) + "*b", strings.Repeat("*?", 24) + "b", strings.Repeat("a*", 24) + "c"} {
		out = append(out, xserveLine([][][]byte{bs("SET", longKey, "v"), bs("SET", "other", "w"), bs("KEYS", pat), bs("PING"), bs("KEYS", "*")}))
	}
	for _, argv := range [][]string{{"SET", "", ""}, {"GET", ""}, {"APPEND", "", ""}, {"GETRANGE", "", "0", "0"}, {"RPUSH", "", ""}, {"LPOP", ""}, {"SADD", "", ""}, {"SREM", "s", ""},
		{"HSET", "", "", ""}, {"HGET", "h", ""}, {"HDEL", "h", ""}, {"ZADD", "", "0", ""}, {"ZREM", "z", ""}, {"ZSCORE", "z", ""}, {"RENAME", "k", ""}, {"DEL", ""}, {"MSET", "", ""}, {"MGET", "", ""},
		{"ZRANGEBYSCORE", "z", "+inf", "-inf"}, {"ZRANGEBYSCORE", "z", "(2", "(2"}, {"ZREVRANGEBYSCORE", "z", "-inf", "+inf"}, {"LRANGE", "l", "2", "0"}, {"ZRANGE", "z", "3", "1"}, {"ZREVRANGE", "z", "-1", "-3"},
		{"GETRANGE", "k", "4", "1"}, {"LPOP", "l", "0"}, {"LPOP", "l", "-1"}, {"RPOP", "l", "-9223372036854775808"}, {"ZRANGEBYSCORE", "z", "1", "3", "LIMIT", "0", "0"}, {"ZRANGEBYSCORE", "z", "1", "3", "LIMIT", "-1", "-1"}} {
		one(argv...)
	}
	return out
}

func oracleC04(c *serveCase, extra []string, res *serveResult) (string, []string) {
	tags := []string{"nt"}
	if res.hung {
		return "na", append(tags, "spin")
	}
	if res.panicked != "" {
		tags = append(tags, "panic")
	}
	frames, ok := refFrames(res.written)
	tags = append(tags, "frames"+bucket(len(frames)))
	if !ok {
		return "fail:bytes written to the client are not a concatenation of complete, valid RESP values: " + trunc(fmt.Sprintf("%q", res.written), 100), tags
	}
	return "ok", tags
}

// ---------------------------------------------------------------------------------------------------
// C07: no client can crash the server
// ---------------------------------------------------------------------------------------------------

func genC07(tier string, seed uint64, emit func(string)) {
	r := NewRng(seed)
	n := 2500
	if tier == "thorough" {
		n = 120000
	}
	hostile := []string{"*0\r\n", "*1\r\n$-1\r\n", "*1\r\n*0\r\n", "*-1\r\n", "+PING\r\n", ":1\r\n", "$-1\r\n", "-ERR\r\n", "*1\r\n*1\r\n*1\r\n*0\r\n"}
	for _, h := range hostile {
		emit(serveLine("-", [][]byte{append([]byte(h), reqS("PING")...)}, "r s:4f4b", "", ""))
	}
	// megabytes of bytes where the next request is expected (blank lines, separators, padding), at the start of a
	// connection and behind a complete request: the other connections are served, the process stays
	floodMiB := 16
	if tier == "thorough" {
		floodMiB = 64
	}
	for _, pat := range []string{"\r\n", "\n", "\r", " ", "\x00", "\r\n\r\n \t", "*0\r\n", "*-1\r\n", "$-1\r\n"} {
		mib := floodMiB
		if pat[0] == '*' || pat[0] == '$' {
			// complete values: every one of them is a request that is answered, so the size is what bounds the time
			mib = 2
		}
		emit(fmt.Sprintf("flood07 - %s %d", hx([]byte(pat)), mib))
		emit(fmt.Sprintf("flood07 %s %s %d", hx(reqS("PING")), hx([]byte(pat)), mib))
	}
	// a request that crashes inside the framework (a handler answering nil, nil to a composed command) ends its own
	// connection only: connections opened before and after it are served
	for _, cmd := range []string{"INCR", "APPEND", "ZREVRANGE", "STRLEN"} {
		emit(fmt.Sprintf("panicw %d %s", 1+r.Intn(3), cmd))
	}
	// several connections with large replies and slow readers: every connection keeps receiving exactly its own replies
	for i := 0; i < 4; i++ {
		genConc4(r, emit)
	}
	// many clients going away at the same instant (every connection goroutine unregisters itself at that moment)
	for _, n := range []int{50, 200} {
		emit(fmt.Sprintf("massdisc %d %d", n, 1+r.Intn(3)))
		// configuration traffic racing with connection set-up
		emit(fmt.Sprintf("cfgstorm %d %d %d", 2+r.Intn(4), 2+r.Intn(6), 700))
	}
	for _, l := range composedShapeCases("-", true) {
		emit(l)
	}
	// the bundled example store as the handler, with extreme numbers, inverted ranges and empty values
	for _, l := range extremeStoreCases() {
		emit(l)
	}
	// clients that stop reading their replies must not disturb a witness connection
	for _, store := range []string{"double", "example"} {
		for stalled := 1; stalled <= 3; stalled++ {
			emit(fmt.Sprintf("stallw %s %d %d", store, stalled, 1+r.Intn(40)))
		}
	}
	for i := 0; i < n; i++ {
		var stream []byte
		var argvs [][][]byte
		m := 1 + r.Intn(4)
		for j := 0; j < m; j++ {
			switch r.Intn(6) {
			case 0:
				stream = append(stream, hostile[r.Intn(len(hostile))]...)
			case 1: // mutated valid request
				p := genPipeline(r, 1, false)
				b := p.bytes()
				for k := 1 + r.Intn(2); k > 0; k-- {
					b = mutate(r, b)
				}
				if bigDecl.Match(b) {
					b = p.bytes()
				}
				argvs = append(argvs, p.argvs...)
				stream = append(stream, b...)
			default:
				p := genPipeline(r, 2, false)
				argvs = append(argvs, p.argvs...)
				stream = append(stream, p.bytes()...)
			}
		}
		// disconnect at an arbitrary point
		if r.Chance(1, 3) && len(stream) > 0 {
			stream = stream[:r.Intn(len(stream)+1)]
		}
		emit(serveLine("-", [][]byte{stream}, genScript(r, 1+r.Intn(4), true), floatTable(argvs...), ""))
	}
}

func oracleC07(c *serveCase, extra []string, res *serveResult) (string, []string) {
	tags := []string{"nt"}
	if f := baseFail(res); f != "" {
		return f, tags
	}
	if res.conns != 0 {
		return "fail:connection still registered after the loop returned", tags
	}
	return "ok", tags
}

// ---------------------------------------------------------------------------------------------------
// C11: a request is executed only if it was received completely
// ---------------------------------------------------------------------------------------------------

func genC11(tier string, seed uint64, emit func(string)) {
	// on a real socket: a pipeline of large requests followed by a cut one, the client half-closes and reads late - the
	// replies to the complete requests must all arrive although the server is the side that closes
	for _, k := range []string{"p", "t"} {
		emit(fmt.Sprintf("cutsock %s 48 65536 300", k))
		emit(fmt.Sprintf("cutsock %s 3 17 0", k))
		emit(fmt.Sprintf("cutsock %s 200 4096 150", k))
	}
	// a request cut off by the client going away - orderly, by reset, between CR and LF, inside a bulk payload - on real
	// plain and TLS connections: the connection must leave the registry, its goroutine and socket must go
	for _, k := range []string{"p", "t"} {
		for _, e := range []string{"half", "halfcr", "halfbulk", "rst", "unread"} {
			emit(lifeLine("plain tls", []string{"start", "open:" + k + ":ab", "cmd:ab", e + ":ab", "obs", "ping:" + k, "stop", "obs"}))
		}
		emit(lifeLine("plain tls", []string{"start", "open:" + k + ":abc", "stallreq:abc", "rst:abc", "obs", "ping:" + k, "stop", "obs"}))
	}
	// several connections open at the same time that end, inside a request, in every order of arrival and departure:
	// each leaves the registry when it ends, whatever the others did before it
	perms := [][]string{{"a", "b", "c"}, {"a", "c", "b"}, {"b", "a", "c"}, {"b", "c", "a"}, {"c", "a", "b"}, {"c", "b", "a"}}
	for pi, perm := range perms {
		k := []string{"p", "t"}[pi%2]
		acts := []string{"start", "open:" + k + ":a", "open:p:b", "open:" + k + ":c", "obs"}
		ends := []string{"half", "cclose", "halfbulk", "rst", "halfcr", "unread"}
		for i, id := range perm {
			acts = append(acts, "cmd:"+id, ends[(pi+i)%len(ends)]+":"+id, "obs")
		}
		acts = append(acts, "ping:p", "open:p:d", "half:d", "obs", "stop", "obs")
		emit(lifeLine("plain tls", acts))
	}
	r := NewRng(seed)
	n := 60
	if tier == "thorough" {
		n = 2500
	}
	// long values (around and beyond 4 KiB / 64 KiB / 128 KiB) that themselves contain CR LF pairs and look-alike frames,
	// cut at the offsets where a lenient reader could take the fragment for a complete value: right behind every
	// embedded CR LF (+0, +1, +2), around the declared end, and at random offsets
	longSizes := []int{4200, 66000}
	if tier == "thorough" {
		longSizes = []int{4094, 4200, 65534, 65535, 66000, 70000, 131080, 200000}
	}
	for _, sz := range longSizes {
		var val []byte
		for len(val) < sz {
			val = append(val, []byte(fmt.Sprintf("line %d of the document\r\n", len(val)))...)
			if len(val)%7 == 0 {
				val = append(val, []byte("+OK\r\n$3\r\nabc\r\n")...)
			}
		}
		val = val[:sz]
		req := requestBytes([][]byte{[]byte("SET"), []byte("doc"), val}, nil)
		b := append(append(reqS("PING"), req...), reqS("PING")...)
		first := len(reqS("PING"))
		cuts := map[int]bool{}
		for i := first; i+1 < first+len(req); i++ {
			if b[i] == '\r' && b[i+1] == '\n' {
				if len(cuts) < 400 || r.Chance(1, 20) {
					cuts[i+2], cuts[i+3], cuts[i+1] = true, true, true
				}
			}
		}
		for d := -4; d <= 4; d++ {
			cuts[first+len(req)+d] = true
		}
		for k := 0; k < 100; k++ {
			cuts[first+r.Intn(len(req))] = true
		}
		var cutList []int
		for cut := range cuts {
			cutList = append(cutList, cut)
		}
		sort.Ints(cutList)
		for _, cut := range cutList {
			if cut < 0 || cut > len(b) {
				continue
			}
			complete := 0
			for _, e := range []int{first, first + len(req), len(b)} {
				if e <= cut {
					complete++
				}
			}
			emit(serveLine("-", [][]byte{b[:cut]}, "r s:4f4b", "", fmt.Sprintf("complete %d", complete)))
			if cut >= first+len(req)-1 {
				emit(serveLine("deof", [][]byte{b[:cut]}, "r s:4f4b", "", fmt.Sprintf("complete %d", complete)))
			}
		}
	}
	for i := 0; i < n; i++ {
		p := genPipeline(r, 4, true)
		if p.quit >= 0 {
			continue
		}
		script := "r s:4f4b"
		b := p.bytes()
		var ends []int
		off := 0
		for _, q := range p.reqs {
			off += len(q)
			ends = append(ends, off)
		}
		for cut := 0; cut <= len(b); cut++ {
			complete := 0
			for _, e := range ends {
				if e <= cut {
					complete++
				}
			}
			segs := [][]byte{b[:cut]}
			if cut > 2 && r.Chance(1, 4) {
				segs = partition(r, b[:cut], 2+r.Intn(3))
			}
			cfg11 := "-"
			if cut > 0 && (cut == len(b) || r.Chance(1, 3)) {
				// the transport delivers the last bytes together with the end of the stream
				cfg11 = "deof"
				if cut == len(b) {
					emit(serveLine("-", segs, script, floatTable(p.argvs...), fmt.Sprintf("complete %d", complete)))
				}
			}
			emit(serveLine(cfg11, segs, script, floatTable(p.argvs...), fmt.Sprintf("complete %d", complete)))
			if complete >= 2 && r.Chance(1, 3) {
				// the client has gone away altogether: the write of the first (second) reply and of every later one fails
				emit(serveLine(fmt.Sprintf("wfail=%d", 1+r.Intn(2)), [][]byte{b[:cut]}, script, floatTable(p.argvs...), fmt.Sprintf("complete %d", complete)))
			}
		}
	}
}

func oracleC11(c *serveCase, extra []string, res *serveResult) (string, []string) {
	tags := []string{"nt"}
	if f := baseFail(res); f != "" {
		return f, tags
	}
	complete, _ := strconv.Atoi(extra[1])
	tags = append(tags, "complete"+bucket(complete))
	if c.wfail > 0 {
		// the client is gone (its replies cannot be written): every request that was received completely is executed
		// and answered all the same - the replies the loop attempted to write are counted
		tags = append(tags, "client-gone")
		attempted := 0
		for _, e := range res.events {
			if strings.HasPrefix(e, "wr:") {
				attempted++
			}
		}
		if attempted != complete {
			return fmt.Sprintf("fail:%d of the %d requests that were received completely were executed and answered (the client had gone away: writes fail from the %d. on)", attempted, complete, c.wfail), tags
		}
	} else {
		frames, ok := refFrames(res.written)
		if !ok {
			return "fail:reply stream is not a sequence of complete frames", tags
		}
		if len(frames) != complete {
			return fmt.Sprintf("fail:%d replies although %d requests were received completely", len(frames), complete), tags
		}
	}
	// handler calls can only come from the complete requests: replay the complete prefix alone and compare
	if res.conns != 0 {
		return "fail:connection still registered after the stream ended", tags
	}
	return "ok", tags
}

// ---------------------------------------------------------------------------------------------------
// C20: tracing spans are balanced
// ---------------------------------------------------------------------------------------------------

func genC20(tier string, seed uint64, emit func(string)) {
	r := NewRng(seed)
	// requests of several connections contending for the dispatch lock: the spans of every connection stay balanced
	nconc := 6
	if tier == "thorough" {
		nconc = 200
	}
	for i := 0; i < nconc; i++ {
		emit(fmt.Sprintf("conc20 %d %d %d", 2+r.Intn(6), 3+r.Intn(10), r.U64()%1000000))
	}
	// composed commands on every path out of their executors (the inner command fails, answers with the wrong type, ...)
	for _, l := range composedShapeCases("trace", false) {
		emit(l)
	}
	n := 900
	if tier == "thorough" {
		n = 40000
	}
	for i := 0; i < n; i++ {
		p := genPipeline(r, 6, false)
		script := genScript(r, 1+r.Intn(4), false)
		b := p.bytes()
		cfg := "trace"
		if r.Chance(1, 6) {
			cfg = "trace pw=736563726574" // unauthorized state
		}
		emit(serveLine(cfg, [][]byte{b}, script, floatTable(p.argvs...), ""))
		// end of stream at a request boundary and at a sampled inner offset
		if len(p.reqs) > 1 {
			emit(serveLine(cfg, [][]byte{b[:len(b)-len(p.reqs[len(p.reqs)-1])]}, script, floatTable(p.argvs...), ""))
		}
		emit(serveLine(cfg, [][]byte{b[:r.Intn(len(b)+1)]}, script, floatTable(p.argvs...), ""))
		// requests that are well-formed RESP values but not command arrays (a status line, an integer, a bulk string, a
		// null, an error, an empty or nested array) between ordinary commands
		if i%4 == 2 {
			odd := [][]byte{[]byte("+OK\r\n"), []byte(":1\r\n"), []byte("$3\r\nfoo\r\n"), []byte("$-1\r\n"), []byte("-ERR x\r\n"), []byte("*0\r\n"), []byte("*-1\r\n"),
				[]byte("*1\r\n*1\r\n$4\r\nPING\r\n"), []byte("*1\r\n$-1\r\n"), []byte("*2\r\n:1\r\n$4\r\nPING\r\n")}
			var mixed []byte
			for _, q := range p.reqs {
				if r.Bool() {
					mixed = append(mixed, odd[r.Intn(len(odd))]...)
				}
				mixed = append(mixed, q...)
			}
			mixed = append(mixed, odd[r.Intn(len(odd))]...)
			mixed = append(mixed, reqS("PING")...)
			emit(serveLine(cfg, [][]byte{mixed}, script, floatTable(p.argvs...), ""))
		}
		// the stream ends with the socket closed underneath the reader (Stop) or reset by the peer, at a request
		// boundary and inside a request
		if i%3 == 1 {
			mode := []string{"closed", "reset"}[r.Intn(2)]
			// (only at request boundaries: inside a request the parser's end-of-line tolerance applies to EOF alone,
			// which the model, knowing one kind of end of stream, does not distinguish)
			emit(serveLine(cfg+" rerr="+mode, [][]byte{b}, script, floatTable(p.argvs...), ""))
			cut := 0
			for k := 0; k < r.Intn(len(p.reqs)+1) && k < len(p.reqs); k++ {
				cut += len(p.reqs[k])
			}
			emit(serveLine(cfg+" rerr="+mode, [][]byte{b[:cut]}, script, floatTable(p.argvs...), ""))
		}
		// the client goes away before a reply can be written: the k-th and every later write fails
		if i%3 == 0 {
			emit(serveLine(cfg+" wfail="+strconv.Itoa(1+r.Intn(len(p.reqs))), [][]byte{b}, script, floatTable(p.argvs...), ""))
		}
	}
}

// spanBalance checks a log of span events (ids are global, every start names its parent): every span started once and
// finished once; a child starts while its parent is open and finishes before it. Returns "" or the failure, and the
// number of root spans.
func spanBalance(events []string) (string, int) {
	// balanced: every span started once and finished once; a child starts after its parent started and
	// finishes before its parent finishes; one root per request
	type sp struct {
		parent   int
		started  bool
		finished bool
		open     int // children still open
	}
	spans := map[int]*sp{}
	roots := 0
	for _, e := range events {
		switch {
		case strings.HasPrefix(e, "start:"):
			f := strings.SplitN(e, ":", 4)
			id, _ := strconv.Atoi(f[1])
			par, _ := strconv.Atoi(f[2])
			if spans[id] != nil {
				return xx("fail:span %d started twice", id), roots
			}
			spans[id] = &sp{parent: par, started: true}
			if par == 0 {
				roots++
			} else {
				pp := spans[par]
				if pp == nil || pp.finished {
					return xx("fail:span %d started under a parent that is not open", id), roots
				}
				pp.open++
			}
		case strings.HasPrefix(e, "fin:"):
			id, _ := strconv.Atoi(e[4:])
			s := spans[id]
			switch {
			case s == nil:
				return xx("fail:span %d finished but never started", id), roots
			case s.finished:
				return xx("fail:span %d finished twice", id), roots
			case s.open != 0:
				return xx("fail:span %d finished while a child span is still open", id), roots
			}
			s.finished = true
			if s.parent != 0 {
				spans[s.parent].open--
			}
		}
	}
	for id, s := range spans {
		if !s.finished {
			return xx("fail:span %d left open", id), roots
		}
	}
	return "", roots
}

func xx(format string, a ...any) string { return fmt.Sprintf(format, a...) }

func oracleC20(c *serveCase, extra []string, res *serveResult) (string, []string) {
	tags := []string{"nt"}
	if f := baseFail(res); f != "" {
		return "na", append(tags, "panic-or-spin")
	}
	if f, _ := spanBalance(res.events); f != "" {
		return f, tags
	}
	roots := 0
	for _, e := range res.events {
		if strings.HasPrefix(e, "start:") && strings.SplitN(e, ":", 4)[2] == "0" {
			roots++
		}
	}
	// one root span per request value processed (plus the iteration that saw the end of the stream / the error);
	// requests are counted by the replies the loop attempted to write (a write that fails because the client is
	// gone still belongs to its request)
	answered := 0
	for _, e := range res.events {
		if strings.HasPrefix(e, "wr:") {
			answered++
		}
	}
	if roots < answered || roots > answered+1 {
		return fmt.Sprintf("fail:%d root spans for %d answered requests", roots, answered), tags
	}
	tags = append(tags, "roots"+bucket(roots))
	return "ok", tags
}
