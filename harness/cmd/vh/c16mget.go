package main

import (
	"bufio"
	"fmt"
	"io"
	"net"
	"strconv"
	"strings"
	"sync"
	"sync/atomic"
	"time"

	exserver "github.com/cybergarage/go-redis/examples/go-redisd/server"
)

var _ = io.EOF

func readBulkArray(br *bufio.Reader) ([]string, error) {
	line, err := br.ReadString('\n')
	if err != nil {
		return nil, err
	}
	if len(line) == 0 || line[0] != '*' {
		if len(line) > 0 && line[0] == '$' {
			n, _ := strconv.Atoi(strings.TrimSpace(line[1:]))
			if n >= 0 {
				io.CopyN(io.Discard, br, int64(n+2))
			}
		}
		return nil, nil
	}
	n, _ := strconv.Atoi(strings.TrimSpace(line[1:]))
	out := make([]string, 0, n)
	for i := 0; i < n; i++ {
		h, err := br.ReadString('\n')
		if err != nil {
			return nil, err
		}
		if len(h) == 0 || h[0] != '$' {
			out = append(out, strings.TrimSpace(h))
			continue
		}
		l, _ := strconv.Atoi(strings.TrimSpace(h[1:]))
		if l < 0 {
			out = append(out, "<nil>")
			continue
		}
		b := make([]byte, l+2)
		if _, err := io.ReadFull(br, b); err != nil {
			return nil, err
		}
		out = append(out, string(b[:l]))
	}
	return out, nil
}

// case "snap mget|hmget <keys> <readers> <ms> <seed>": <keys> string keys (fields of one hash) all hold the same
// generation number; one writer raises all of them to the next generation with ONE MSET (HMSET); readers read all of them
// with ONE MGET (HMGET).  A command is atomic: every reply shows one generation in all its elements.
func runMGetSnap(toks []string) Result {
	kind := toks[1]
	size, _ := strconv.Atoi(toks[2])
	readers, _ := strconv.Atoi(toks[3])
	ms, _ := strconv.Atoi(toks[4])
	tags := []string{"nt", "snap-" + kind, "size" + bucket(size)}
	srv := exserver.NewServer()
	var swg sync.WaitGroup
	connect := func() (net.Conn, *bufio.Reader) {
		cl, sv := net.Pipe()
		swg.Add(1)
		go func() {
			defer swg.Done()
			defer func() { recover() }()
			srv.VerifServeConn(sv, nil)
		}()
		return cl, bufio.NewReaderSize(cl, 1<<16)
	}
	name := func(i int) string { return fmt.Sprintf("k:%05d", i) }
	write := func(gen int) []string {
		argv := []string{"MSET"}
		if kind == "hmget" {
			argv = []string{"HMSET", "c"}
		}
		for i := 0; i < size; i++ {
			argv = append(argv, name(i), strconv.Itoa(gen))
		}
		return argv
	}
	read := []string{"MGET"}
	if kind == "hmget" {
		read = []string{"HMGET", "c"}
	}
	for i := 0; i < size; i++ {
		read = append(read, name(i))
	}
	wc, wbr := connect()
	defer wc.Close()
	wc.SetDeadline(time.Now().Add(20 * time.Second))
	wc.Write(reqS(write(0)...))
	if _, err := wbr.ReadString('\n'); err != nil {
		return Result{Obs: "not-linearizable # ", Oracle: "fail:filling failed: " + err.Error(), Tags: tags}
	}
	stop := make(chan struct{})
	var wg sync.WaitGroup
	var bad atomic.Value
	var reads atomic.Int64
	for rd := 0; rd < readers; rd++ {
		wg.Add(1)
		go func() {
			defer wg.Done()
			c, br := connect()
			defer c.Close()
			for {
				select {
				case <-stop:
					return
				default:
				}
				c.SetDeadline(time.Now().Add(20 * time.Second))
				c.Write(reqS(read...))
				els, err := readBulkArray(br)
				if err != nil {
					bad.CompareAndSwap(nil, "a reader got no reply: "+err.Error())
					return
				}
				reads.Add(1)
				if len(els) != size {
					bad.CompareAndSwap(nil, fmt.Sprintf("%s over %d keys answered with %d elements", read[0], size, len(els)))
					return
				}
				for i, e := range els {
					if e != els[0] {
						bad.CompareAndSwap(nil, fmt.Sprintf("%s shows %s=%s next to %s=%s: one %s wrote both, no state ever held this mix", read[0], name(0), els[0], name(i), e, strings.TrimPrefix(read[0], "")))
						return
					}
				}
			}
		}()
	}
	deadline := time.Now().Add(time.Duration(ms) * time.Millisecond)
	gen := 0
	for time.Now().Before(deadline) && bad.Load() == nil {
		gen++
		wc.SetDeadline(time.Now().Add(20 * time.Second))
		wc.Write(reqS(write(gen)...))
		if _, err := wbr.ReadString('\n'); err != nil {
			break
		}
	}
	close(stop)
	wg.Wait()
	if b := bad.Load(); b != nil {
		return Result{Obs: "not-linearizable # ", Oracle: "fail:" + b.(string), Tags: tags}
	}
	if reads.Load() == 0 || gen == 0 {
		tags = append(tags, "no-overlap")
	}
	return Result{Obs: "linearizable # ", Oracle: "ok", Tags: tags}
}
