package main

import "strconv"

// refParse is an independent strict RESP2 reader used as an oracle: it accepts exactly canonical frames
// (CRLF line ends, no CR or LF inside line payloads, decimal lengths without sign except -1, exact
// payload lengths).  Returns the value, the remaining bytes and ok; ok=false with a nil node means the
// input is not a (complete) canonical frame.
func refParse(b []byte) (*Node, []byte, bool) {
	if len(b) == 0 {
		return nil, b, false
	}
	line := func(b []byte) ([]byte, []byte, bool) {
		for i := 0; i < len(b); i++ {
			if b[i] == '\n' {
				return nil, nil, false
			}
			if b[i] == '\r' {
				if i+1 < len(b) && b[i+1] == '\n' {
					return b[:i], b[i+2:], true
				}
				return nil, nil, false
			}
		}
		return nil, nil, false
	}
	num := func(p []byte) (int, bool) {
		if len(p) == 0 || len(p) > 18 {
			return 0, false
		}
		if string(p) == "-1" {
			return -1, true
		}
		for _, c := range p {
			if c < '0' || c > '9' {
				return 0, false
			}
		}
		if len(p) > 1 && p[0] == '0' {
			return 0, false
		}
		n, err := strconv.Atoi(string(p))
		return n, err == nil
	}
	switch b[0] {
	case '+', '-', ':':
		p, rest, ok := line(b[1:])
		if !ok {
			return nil, b, false
		}
		k := map[byte]byte{'+': 's', '-': 'e', ':': 'i'}[b[0]]
		return &Node{Kind: k, P: append([]byte{}, p...)}, rest, true
	case '$':
		p, rest, ok := line(b[1:])
		if !ok {
			return nil, b, false
		}
		n, ok := num(p)
		if !ok {
			return nil, b, false
		}
		if n < 0 {
			return &Node{Kind: 'n'}, rest, true
		}
		if len(rest) < n+2 || rest[n] != '\r' || rest[n+1] != '\n' {
			return nil, b, false
		}
		return &Node{Kind: 'b', P: append([]byte{}, rest[:n]...)}, rest[n+2:], true
	case '*':
		p, rest, ok := line(b[1:])
		if !ok {
			return nil, b, false
		}
		n, ok := num(p)
		if !ok || n < 0 {
			return nil, b, false
		}
		node := &Node{Kind: 'a', Es: []*Node{}}
		for i := 0; i < n; i++ {
			var e *Node
			e, rest, ok = refParse(rest)
			if !ok {
				return nil, b, false
			}
			node.Es = append(node.Es, e)
		}
		return node, rest, true
	}
	return nil, b, false
}

// refFrames splits a byte stream into canonical frames; ok=false if the stream is not a concatenation of
// complete canonical frames.
func refFrames(b []byte) ([]*Node, bool) {
	var out []*Node
	for len(b) > 0 {
		n, rest, ok := refParse(b)
		if !ok {
			return out, false
		}
		out = append(out, n)
		b = rest
	}
	return out, true
}
