package main

import (
	"fmt"
	"github.com/cybergarage/go-redis/redis"
	"math"
	"strconv"
	"strings"
	"time"
)

func init() {
	properties["C12"] = &Property{Gen: genC12, Run: serveRunner(oracleC12)}
}

// c12Line is a program (before scripting): the Lean reference store turns it into a `serve` case whose handler
// results are the reference store's (bin/check pipes these lines through `modeldriver prep`).
func c12Line(reqs [][][]byte, expect string) string {
	var b []byte
	for _, argv := range reqs {
		b = append(b, requestBytes(argv, nil)...)
	}
	return "prep c12prog | " + hx(b) + " | " + floatTable(reqs...) + " | " + expect
}

// redisGetRange is written from the Redis documentation of GETRANGE (the oracle for the index arithmetic).
func redisGetRange(v string, start, end int) string {
	n := len(v)
	if start < 0 && end < 0 && start > end {
		return ""
	}
	if start < 0 {
		start = n + start
	}
	if end < 0 {
		end = n + end
	}
	if start < 0 {
		start = 0
	}
	if end < 0 {
		end = 0
	}
	if end >= n {
		end = n - 1
	}
	if n == 0 || start > end {
		return ""
	}
	return v[start : end+1]
}

// redisRevRange: members in descending order, positions start..stop with Redis index normalisation.
func redisRevRange(asc []string, start, stop int) []string {
	n := len(asc)
	desc := make([]string, n)
	for i, m := range asc {
		desc[n-1-i] = m
	}
	if start < 0 {
		start = n + start
	}
	if stop < 0 {
		stop = n + stop
	}
	if start < 0 {
		start = 0
	}
	if stop >= n {
		stop = n - 1
	}
	if start > stop || start >= n {
		return []string{}
	}
	return desc[start : stop+1]
}

func bulkReply(s string) string { return hx([]byte(fmt.Sprintf("$%d\r\n%s\r\n", len(s), s))) }
func arrayReply(ss []string) string {
	var sb strings.Builder
	fmt.Fprintf(&sb, "*%d\r\n", len(ss))
	for _, s := range ss {
		fmt.Fprintf(&sb, "$%d\r\n%s\r\n", len(s), s)
	}
	return hx([]byte(sb.String()))
}

func init() {
	opRunners["sserve"] = runSServe
}

// runSServe: the framework in front of a real (stateful) string store: what a derived command leaves in the store
// is seen by the commands after it.  case: "sserve | <hex stream> | <floats>"
func runSServe(toks []string) Result {
	secs := splitSections(toks[1:])
	var stream []byte
	for _, s := range hexSegs(secs[1]) {
		stream = append(stream, s...)
	}
	log := &eventLog{}
	srv := redis.NewServer()
	srv.SetCommandHandler(&linStore{double: &double{log: &eventLog{}}, m: map[string]string{}, jitter: 7})
	conn := &scriptConn{log: log, segs: [][]byte{stream}}
	done := make(chan struct{})
	panicked := ""
	go func() {
		defer close(done)
		defer func() {
			if r := recover(); r != nil {
				panicked = fmt.Sprint(r)
			}
		}()
		srv.VerifServeConn(conn, nil)
	}()
	select {
	case <-done:
	case <-time.After(10 * time.Second):
		return Result{Obs: "spin", Oracle: "fail:the connection loop did not return"}
	}
	if panicked != "" {
		return Result{Obs: "panic", Oracle: "fail:panic " + trunc(panicked, 80)}
	}
	// oracle: the independent sequential specification
	m := map[string]string{}
	var writes []string
	for _, e := range log.evs {
		if strings.HasPrefix(e, "wr:") {
			writes = append(writes, e[3:])
		}
	}
	oracle := "ok"
	rest := stream
	for i := 0; len(rest) > 0; i++ {
		node, r2, ok := refParse(rest)
		if !ok || node == nil {
			break
		}
		rest = r2
		var argv []string
		for _, el := range node.Es {
			argv = append(argv, string(el.P))
		}
		argv[0] = strings.ToUpper(argv[0])
		var want string
		want, m = seqApply(m, argv)
		w := hx([]byte(want))
		if strings.HasPrefix(want, "-") {
			w = "E"
		}
		if i >= len(writes) || writes[i] != w {
			got := "nothing"
			if i < len(writes) {
				got = writes[i]
			}
			oracle = fmt.Sprintf("fail:request %d (%s) over a real store answered %s, Redis defines %s", i, strings.Join(argv, " "), trunc(got, 40), trunc(w, 40))
			break
		}
	}
	return Result{Obs: strings.Join(log.evs, " "), Oracle: oracle, Tags: []string{"nt", "real-store"}}
}

func genC12(tier string, seed uint64, emit func(string)) {
	r := NewRng(seed)
	// GETRANGE: lengths 0..6 x start,end in -9..9, exhaustively
	for n := 0; n <= 6; n++ {
		val := "abcdef"[:n]
		for s := -9; s <= 9; s++ {
			for e := -9; e <= 9; e++ {
				reqs := [][][]byte{bs("GETRANGE", "k", strconv.Itoa(s), strconv.Itoa(e))}
				if n > 0 {
					reqs = append([][][]byte{bs("SET", "k", val)}, reqs...)
				}
				cmd := "GETRANGE"
				if (s+e)%2 != 0 {
					cmd = "SUBSTR"
					reqs[len(reqs)-1][0] = []byte(cmd)
				}
				want := redisGetRange(val, s, e)
				if n == 0 {
					want = ""
				}
				emit(c12Line(reqs, fmt.Sprintf("expect %d %s", len(reqs)-1, bulkReply(want))))
			}
		}
	}
	// ZREVRANGE: sizes 0..5 x start,stop in -7..7, with and without scores
	members := []string{"a", "b", "c", "d", "e"}
	for n := 0; n <= 5; n++ {
		for s := -7; s <= 7; s++ {
			for e := -7; e <= 7; e++ {
				for _, ws := range []bool{false, true} {
					var reqs [][][]byte
					if n > 0 {
						z := bs("ZADD", "z")
						for i := 0; i < n; i++ {
							z = append(z, []byte(strconv.Itoa(i+1)), []byte(members[i]))
						}
						reqs = append(reqs, z)
					}
					q := bs("ZREVRANGE", "z", strconv.Itoa(s), strconv.Itoa(e))
					want := redisRevRange(members[:n], s, e)
					if ws {
						q = append(q, []byte("WITHSCORES"))
						var w2 []string
						for _, m := range want {
							w2 = append(w2, m, strconv.Itoa(strings.Index("abcde", m)+1))
						}
						want = w2
						if want == nil {
							want = []string{}
						}
					}
					reqs = append(reqs, q)
					emit(c12Line(reqs, fmt.Sprintf("expect %d %s", len(reqs)-1, arrayReply(want))))
				}
			}
		}
	}
	// ZREVRANGEBYSCORE: every pair of bounds (open, closed, infinite) x WITHSCORES x LIMIT over a set with a score tie,
	// against the Redis definition: members with min <= score <= max in descending (score, member) order, LIMIT
	// counted from the highest
	type zm struct {
		m string
		s int
	}
	zs := []zm{{"a", 1}, {"b", 2}, {"c", 2}, {"d", 3}} // ascending (score, member)
	bounds := []string{"-inf", "0", "1", "(1", "2", "(2", "3", "(3", "4", "+inf"}
	inBound := func(score int, b string, lower bool) bool {
		ex := strings.HasPrefix(b, "(")
		b = strings.TrimPrefix(b, "(")
		switch b {
		case "-inf":
			return lower
		case "+inf":
			return !lower
		}
		v, _ := strconv.Atoi(b)
		if lower {
			return score > v || (!ex && score == v)
		}
		return score < v || (!ex && score == v)
	}
	limits := [][2]int{{0, -2}, {0, 1}, {1, 2}, {0, -1}, {2, 5}, {-1, 2}, {1, 0},
		{1, math.MaxInt64}, {2, math.MaxInt64 - 1}, {0, math.MaxInt64}, {3, math.MaxInt64 - 2}, {math.MaxInt64, 1}, {math.MaxInt64, math.MaxInt64}, {1, math.MinInt64}}
	for _, mx := range bounds {
		for _, mn := range bounds {
			for _, ws := range []bool{false, true} {
				for li, lim := range limits {
					q := bs("ZREVRANGEBYSCORE", "z", mx, mn)
					if ws {
						q = append(q, []byte("WITHSCORES"))
					}
					var sel []zm
					for i := len(zs) - 1; i >= 0; i-- {
						if inBound(zs[i].s, mn, true) && inBound(zs[i].s, mx, false) {
							sel = append(sel, zs[i])
						}
					}
					if li > 0 {
						q = append(q, []byte("LIMIT"), []byte(strconv.Itoa(lim[0])), []byte(strconv.Itoa(lim[1])))
						switch {
						case lim[0] < 0 || lim[0] >= len(sel):
							sel = nil
						default:
							sel = sel[lim[0]:]
							if lim[1] >= 0 && lim[1] < len(sel) {
								sel = sel[:lim[1]]
							}
						}
					}
					want := []string{}
					for _, e := range sel {
						want = append(want, e.m)
						if ws {
							want = append(want, strconv.Itoa(e.s))
						}
					}
					emit(c12Line([][][]byte{bs("ZADD", "z", "2", "c", "1", "a", "3", "d", "2", "b"), q}, "expect 1 "+arrayReply(want)))
				}
			}
		}
	}
	// CONFIG GET returns, in request order, the values last stored with CONFIG SET - under exactly the names used (names
	// in several letter cases, also of the parameters the server reads itself)
	for _, name := range []string{"timeout", "Timeout", "TIMEOUT", "port", "Port", "PORT", "tls-port", "Tls-Port", "TLS-PORT", "tls-cert-file", "TLS-Cert-File",
		"tls-key-file", "Tls-Key-File", "tls-ca-cert-file", "TLS-CA-CERT-FILE", "maxmemory", "MaxMemory", "x y", ""} {
		emit(c12Line([][][]byte{bs("CONFIG", "SET", name, "v1"), bs("CONFIG", "GET", name)}, "expect 1 "+arrayReply([]string{name, "v1"})))
		emit(c12Line([][][]byte{bs("CONFIG", "SET", name, "v1", "other", "o"), bs("CONFIG", "SET", name, "v2"), bs("CONFIG", "GET", "other", name, "other")},
			"expect 2 "+arrayReply([]string{"other", "o", name, "v2", "other", "o"})))
	}
	// wide composites: MGET / HMGET with many keys (sizes around internal table sizes); the keys are set one by one,
	// MSET/HMSET iterate a Go map whose order the scripted double cannot follow for hundreds of entries
	for _, n := range []int{255, 256, 257, 1024, 1100} {
		mget, hmget := bs("MGET"), bs("HMGET", "h")
		for i := 0; i < n; i++ {
			mget = append(mget, []byte(fmt.Sprintf("k%d", i)))
			hmget = append(hmget, []byte(fmt.Sprintf("k%d", i)))
		}
		last := fmt.Sprintf("k%d", n-1)
		emit(c12Line([][][]byte{bs("SET", "k0", "first"), bs("SET", last, "last"), bs("SET", "k7", ""), mget, bs("MGET", "k0", "nokey", last)}, ""))
		emit(c12Line([][][]byte{bs("HSET", "h", "k0", "first"), bs("HSET", "h", last, "last"), hmget, bs("HLEN", "h"), bs("HKEYS", "h")}, ""))
	}
	// counters at the boundaries
	for _, c := range []struct {
		val  string
		cmd  []string
		want string
	}{
		{"9223372036854775807", []string{"INCR", "n"}, "E"},
		{"9223372036854775806", []string{"INCR", "n"}, ":9223372036854775807"},
		{"-9223372036854775808", []string{"DECR", "n"}, "E"},
		{"-9223372036854775807", []string{"DECR", "n"}, ":-9223372036854775808"},
		{"5", []string{"INCRBY", "n", "9223372036854775807"}, "E"},
		{"-5", []string{"DECRBY", "n", "9223372036854775807"}, "E"},
		{"0", []string{"DECRBY", "n", "-9223372036854775808"}, "E"},
		{"abc", []string{"INCR", "n"}, "E"},
		{"0x10", []string{"INCR", "n"}, "E"},
		{"0b11", []string{"DECR", "n"}, "E"},
		{"0o17", []string{"INCRBY", "n", "1"}, "E"},
		{"1_000", []string{"DECR", "n"}, "E"},
		{"1e3", []string{"INCR", "n"}, "E"},
		{" 5", []string{"INCR", "n"}, "E"},
		{"5 ", []string{"INCR", "n"}, "E"},
		{"\xd9\xa3", []string{"INCR", "n"}, "E"},
		{"1.5", []string{"INCRBY", "n", "2"}, "E"},
		{"", []string{"INCR", "n"}, "E"},
		// the most negative decrement is refused whatever the value (its negation does not exist); sums and differences
		// that land exactly on a border are computed, one beyond is refused
		{"-1", []string{"DECRBY", "n", "-9223372036854775808"}, "E"},
		{"-42", []string{"DECRBY", "n", "-9223372036854775808"}, "E"},
		{"-9223372036854775808", []string{"DECRBY", "n", "-9223372036854775808"}, "E"},
		{"7", []string{"DECRBY", "n", "-9223372036854775808"}, "E"},
		{"-1", []string{"DECRBY", "n", "9223372036854775807"}, ":-9223372036854775808"},
		{"-2", []string{"DECRBY", "n", "9223372036854775807"}, "E"},
		{"0", []string{"DECRBY", "n", "9223372036854775807"}, ":-9223372036854775807"},
		{"5", []string{"INCRBY", "n", "-9223372036854775808"}, ":-9223372036854775803"},
		{"-5", []string{"INCRBY", "n", "-9223372036854775808"}, "E"},
		{"0", []string{"INCRBY", "n", "-9223372036854775808"}, ":-9223372036854775808"},
		{"9223372036854775807", []string{"DECRBY", "n", "-1"}, "E"},
		{"-9223372036854775808", []string{"INCRBY", "n", "-1"}, "E"},
		{"-9223372036854775808", []string{"INCRBY", "n", "9223372036854775807"}, ":-1"},
		{"9223372036854775807", []string{"DECRBY", "n", "9223372036854775807"}, ":0"},
		{"10", []string{"DECRBY", "n", "3"}, ":7"},
		{"10", []string{"INCRBY", "n", "-3"}, ":7"},
	} {
		want := "E"
		if c.want != "E" {
			want = hx([]byte(c.want + "\r\n"))
		}
		emit(c12Line([][][]byte{bs("SET", "n", c.val), bs(c.cmd...), bs("GET", "n")}, fmt.Sprintf("expect 1 %s", want)))
		// the same against a real string store behind the framework: a refused command leaves the value as it was
		var sb []byte
		for _, argv := range [][][]byte{bs("SET", "n", c.val), bs(c.cmd...), bs("GET", "n"), bs("STRLEN", "n")} {
			sb = append(sb, requestBytes(argv, nil)...)
		}
		emit("sserve | " + hx(sb) + " | " + floatTable(bs("SET", "n", c.val), bs(c.cmd...)))
	}
	emit(c12Line([][][]byte{bs("INCR", "fresh"), bs("GET", "fresh")}, "expect 0 "+hx([]byte(":1\r\n"))))
	// random programs over the derived commands, on top of state built with primitive and derived writes
	menus := [][][]byte{}
	menus = append(menus, menuStrings()...)
	menus = append(menus, menuHashes()...)
	menus = append(menus, menuSets()...)
	menus = append(menus, menuZSets()...)
	// MSETNX over several keys of which more than one exists stops at whichever existing key Go's map iteration
	// reaches first, so the reference store's script cannot anticipate the probe: multi-key MSETNX is generated
	// only where none of its keys exists (the all-or-nothing behaviour with existing keys is exercised against the real example store in C18)
	var filtered [][][]byte
	for _, m := range menus {
		if strings.ToUpper(string(m[0])) == "MSETNX" && len(m) > 3 {
			continue
		}
		filtered = append(filtered, m)
	}
	menus = append(filtered, bs("PING"), bs("PING", "hello"), bs("ECHO", "x\r\ny"), bs("CONFIG", "SET", "a", "1", "b", "2", "a", "3"), bs("CONFIG", "GET", "b", "a", "zz", "a"),
		bs("CONFIG", "GET", "port"), bs("CONFIG", "SET", "Tls-Port", "7443", "PORT", "1", "TLS-Cert-File", "x.pem"), bs("CONFIG", "GET", "Tls-Port", "tls-port", "PORT", "port", "TLS-Cert-File", "tls-cert-file"),
		bs("CONFIG", "SET", "Timeout", "5"), bs("CONFIG", "GET", "Timeout", "timeout", "TIMEOUT"), bs("MSETNX", "s1", "3"), bs("MGET", "s1", "fresh1", "s7", "s1"))
	for _, prog := range [][][][]byte{
		{bs("MSETNX", "a", "1", "b", "2"), bs("MGET", "a", "b")},
		{bs("MSETNX", "a", "1", "b", "2", "c", "3"), bs("MSETNX", "a", "9"), bs("MGET", "a", "b", "c")},
	} {
		emit(c12Line(prog, ""))
	}
	// string programs whose every reply is also checked against the independent sequential specification
	strMenu := [][][]byte{bs("SET", "a", "0x10"), bs("SET", "a", "1_000"), bs("SET", "c", "0b1"), bs("SET", "a", "1"), bs("SET", "a", "xyz"), bs("SET", "b", ""), bs("GET", "a"), bs("GET", "b"), bs("GET", "c"), bs("SETNX", "a", "5"), bs("SETNX", "c", "7"),
		bs("GETSET", "a", "2"), bs("GETSET", "c", ""), bs("INCR", "a"), bs("INCR", "c"), bs("DECR", "b"), bs("INCRBY", "a", "10"), bs("DECRBY", "a", "3"), bs("INCRBY", "c", "0"),
		bs("APPEND", "a", "7"), bs("APPEND", "c", ""), bs("APPEND", "b", ""), bs("APPEND", "b", "1"), bs("STRLEN", "a"), bs("STRLEN", "c"), bs("EXISTS", "a", "b", "c"), bs("EXISTS", "c"),
		bs("MSETNX", "c", "1"), bs("MSETNX", "a", "1"), bs("MSET", "a", "4", "c", ""), bs("MGET", "a", "b", "c", "a"), bs("DEL", "a"), bs("DEL", "c"), bs("DEL", "a", "b", "c"),
		// a key named more than once in one key/value list: the last value is the one stored
		bs("MSETNX", "d", "first", "d", "last"), bs("MSETNX", "c", "1", "c", "3"), bs("MSET", "a", "1", "a", "2"), bs("MSET", "d", "x", "c", "y", "d", ""), bs("GET", "d"), bs("STRLEN", "d"), bs("DEL", "d"), bs("MGET", "d", "c", "d")}
	ns := 1200
	if tier == "thorough" {
		ns = 40000
	}
	for i := 0; i < ns; i++ {
		var prog [][][]byte
		for j := 1 + r.Intn(10); j > 0; j-- {
			prog = append(prog, strMenu[r.Intn(len(strMenu))])
		}
		emit(c12Line(prog, "seqspec"))
		// the same program with a real string store behind the framework: state left by one command is what the next sees
		var sb []byte
		for _, argv := range prog {
			sb = append(sb, requestBytes(argv, nil)...)
		}
		emit("sserve | " + hx(sb) + " | " + floatTable(prog...))
	}
	n := 1500
	if tier == "thorough" {
		n = 60000
	}
	for i := 0; i < n; i++ {
		var prog [][][]byte
		for j := 1 + r.Intn(12); j > 0; j-- {
			prog = append(prog, menus[r.Intn(len(menus))])
		}
		emit(c12Line(prog, ""))
	}
}

func oracleC12(c *serveCase, extra []string, res *serveResult) (string, []string) {
	tags := []string{"nt"}
	if f := baseFail(res); f != "" {
		return f, tags
	}
	if len(extra) >= 1 && extra[0] == "seqspec" {
		// string-only program: every reply is compared with an independent sequential Redis specification
		var stream []byte
		for _, s := range c.segs {
			stream = append(stream, s...)
		}
		var writes []string
		for _, e := range res.events {
			if strings.HasPrefix(e, "wr:") {
				writes = append(writes, e[3:])
			}
		}
		m := map[string]string{}
		i := 0
		for len(stream) > 0 {
			node, rest, ok := refParse(stream)
			if !ok || node == nil {
				break
			}
			stream = rest
			var argv []string
			for _, el := range node.Es {
				argv = append(argv, string(el.P))
			}
			argv[0] = strings.ToUpper(argv[0])
			var want string
			want, m = seqApply(m, argv)
			w := hx([]byte(want))
			if strings.HasPrefix(want, "-") {
				w = "E"
			}
			if i >= len(writes) {
				return fmt.Sprintf("fail:request %d (%s) was not answered", i, argv[0]), append(tags, "seqspec")
			}
			if writes[i] != w {
				return fmt.Sprintf("fail:reply %s to request %d (%s) differs from what Redis defines (%s)", trunc(writes[i], 40), i, strings.Join(argv, " "), trunc(w, 40)), append(tags, "seqspec")
			}
			i++
		}
		return "ok", append(tags, "seqspec")
	}
	if len(extra) < 3 || extra[0] != "expect" {
		return "na", tags
	}
	idx, _ := strconv.Atoi(extra[1])
	var writes []string
	for _, e := range res.events {
		if strings.HasPrefix(e, "wr:") {
			writes = append(writes, e[3:])
		}
	}
	tags = append(tags, "expected-reply")
	if idx >= len(writes) {
		return fmt.Sprintf("fail:request %d was not answered", idx), tags
	}
	if writes[idx] != extra[2] {
		return fmt.Sprintf("fail:reply %s differs from what Redis defines (%s)", trunc(writes[idx], 60), trunc(extra[2], 60)), tags
	}
	return "ok", tags
}
