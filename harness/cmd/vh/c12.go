package main

import (
	"fmt"
	"strconv"
	"strings"
)

func init() {
	properties["C12"] = &Property{Gen: genC12, Run: serveRunner(oracleC12)}
}

// c12Line is a program (before scripting): the Lean reference store turns it into a `serve` case whose handler
// results are the reference store's (bin/check pipes these lines through `modeldriver prep`).
func c12Line(reqs [][][]byte, expect string) string {
	var b []byte
	for _, argv := range reqs {
		b = append(b, requestBytes(argv, nil)...)
	}
	return "prep c12prog | " + hx(b) + " | " + floatTable(reqs...) + " | " + expect
}

// redisGetRange is written from the Redis documentation of GETRANGE (the oracle for the index arithmetic).
func redisGetRange(v string, start, end int) string {
	n := len(v)
	if start < 0 && end < 0 && start > end {
		return ""
	}
	if start < 0 {
		start = n + start
	}
	if end < 0 {
		end = n + end
	}
	if start < 0 {
		start = 0
	}
	if end < 0 {
		end = 0
	}
	if end >= n {
		end = n - 1
	}
	if n == 0 || start > end {
		return ""
	}
	return v[start : end+1]
}

// redisRevRange: members in descending order, positions start..stop with Redis index normalisation.
func redisRevRange(asc []string, start, stop int) []string {
	n := len(asc)
	desc := make([]string, n)
	for i, m := range asc {
		desc[n-1-i] = m
	}
	if start < 0 {
		start = n + start
	}
	if stop < 0 {
		stop = n + stop
	}
	if start < 0 {
		start = 0
	}
	if stop >= n {
		stop = n - 1
	}
	if start > stop || start >= n {
		return []string{}
	}
	return desc[start : stop+1]
}

func bulkReply(s string) string { return hx([]byte(fmt.Sprintf("$%d\r\n%s\r\n", len(s), s))) }
func arrayReply(ss []string) string {
	var sb strings.Builder
	fmt.Fprintf(&sb, "*%d\r\n", len(ss))
	for _, s := range ss {
		fmt.Fprintf(&sb, "$%d\r\n%s\r\n", len(s), s)
	}
	return hx([]byte(sb.String()))
}

func genC12(tier string, seed uint64, emit func(string)) {
	r := NewRng(seed)
	// GETRANGE: lengths 0..6 x start,end in -9..9, exhaustively
	for n := 0; n <= 6; n++ {
		val := "abcdef"[:n]
		for s := -9; s <= 9; s++ {
			for e := -9; e <= 9; e++ {
				reqs := [][][]byte{bs("GETRANGE", "k", strconv.Itoa(s), strconv.Itoa(e))}
				if n > 0 {
					reqs = append([][][]byte{bs("SET", "k", val)}, reqs...)
				}
				cmd := "GETRANGE"
				if (s+e)%2 != 0 {
					cmd = "SUBSTR"
					reqs[len(reqs)-1][0] = []byte(cmd)
				}
				want := redisGetRange(val, s, e)
				if n == 0 {
					want = ""
				}
				emit(c12Line(reqs, fmt.Sprintf("expect %d %s", len(reqs)-1, bulkReply(want))))
			}
		}
	}
	// ZREVRANGE: sizes 0..5 x start,stop in -7..7, with and without scores
	members := []string{"a", "b", "c", "d", "e"}
	for n := 0; n <= 5; n++ {
		for s := -7; s <= 7; s++ {
			for e := -7; e <= 7; e++ {
				for _, ws := range []bool{false, true} {
					var reqs [][][]byte
					if n > 0 {
						z := bs("ZADD", "z")
						for i := 0; i < n; i++ {
							z = append(z, []byte(strconv.Itoa(i+1)), []byte(members[i]))
						}
						reqs = append(reqs, z)
					}
					q := bs("ZREVRANGE", "z", strconv.Itoa(s), strconv.Itoa(e))
					want := redisRevRange(members[:n], s, e)
					if ws {
						q = append(q, []byte("WITHSCORES"))
						var w2 []string
						for _, m := range want {
							w2 = append(w2, m, strconv.Itoa(strings.Index("abcde", m)+1))
						}
						want = w2
						if want == nil {
							want = []string{}
						}
					}
					reqs = append(reqs, q)
					emit(c12Line(reqs, fmt.Sprintf("expect %d %s", len(reqs)-1, arrayReply(want))))
				}
			}
		}
	}
	// ZREVRANGEBYSCORE: every pair of bounds (open, closed, infinite) x WITHSCORES x LIMIT over a set with a score tie,
	// against the Redis definition: members with min <= score <= max in descending (score, member) order, LIMIT
	// counted from the highest
	type zm struct {
		m string
		s int
	}
	zs := []zm{{"a", 1}, {"b", 2}, {"c", 2}, {"d", 3}} // ascending (score, member)
	bounds := []string{"-inf", "0", "1", "(1", "2", "(2", "3", "(3", "4", "+inf"}
	inBound := func(score int, b string, lower bool) bool {
		ex := strings.HasPrefix(b, "(")
		b = strings.TrimPrefix(b, "(")
		switch b {
		case "-inf":
			return lower
		case "+inf":
			return !lower
		}
		v, _ := strconv.Atoi(b)
		if lower {
			return score > v || (!ex && score == v)
		}
		return score < v || (!ex && score == v)
	}
	limits := [][2]int{{0, -2}, {0, 1}, {1, 2}, {0, -1}, {2, 5}, {-1, 2}, {1, 0}}
	for _, mx := range bounds {
		for _, mn := range bounds {
			for _, ws := range []bool{false, true} {
				for li, lim := range limits {
					q := bs("ZREVRANGEBYSCORE", "z", mx, mn)
					if ws {
						q = append(q, []byte("WITHSCORES"))
					}
					var sel []zm
					for i := len(zs) - 1; i >= 0; i-- {
						if inBound(zs[i].s, mn, true) && inBound(zs[i].s, mx, false) {
							sel = append(sel, zs[i])
						}
					}
					if li > 0 {
						q = append(q, []byte("LIMIT"), []byte(strconv.Itoa(lim[0])), []byte(strconv.Itoa(lim[1])))
						switch {
						case lim[0] < 0 || lim[0] >= len(sel):
							sel = nil
						default:
							sel = sel[lim[0]:]
							if lim[1] >= 0 && lim[1] < len(sel) {
								sel = sel[:lim[1]]
							}
						}
					}
					want := []string{}
					for _, e := range sel {
						want = append(want, e.m)
						if ws {
							want = append(want, strconv.Itoa(e.s))
						}
					}
					emit(c12Line([][][]byte{bs("ZADD", "z", "2", "c", "1", "a", "3", "d", "2", "b"), q}, "expect 1 "+arrayReply(want)))
				}
			}
		}
	}
	// counters at the boundaries
	for _, c := range []struct {
		val  string
		cmd  []string
		want string
	}{
		{"9223372036854775807", []string{"INCR", "n"}, "E"},
		{"9223372036854775806", []string{"INCR", "n"}, ":9223372036854775807"},
		{"-9223372036854775808", []string{"DECR", "n"}, "E"},
		{"-9223372036854775807", []string{"DECR", "n"}, ":-9223372036854775808"},
		{"5", []string{"INCRBY", "n", "9223372036854775807"}, "E"},
		{"-5", []string{"DECRBY", "n", "9223372036854775807"}, "E"},
		{"0", []string{"DECRBY", "n", "-9223372036854775808"}, "E"},
		{"abc", []string{"INCR", "n"}, "E"},
		{"1.5", []string{"INCRBY", "n", "2"}, "E"},
		{"", []string{"INCR", "n"}, "E"},
		{"10", []string{"DECRBY", "n", "3"}, ":7"},
		{"10", []string{"INCRBY", "n", "-3"}, ":7"},
	} {
		want := "E"
		if c.want != "E" {
			want = hx([]byte(c.want + "\r\n"))
		}
		emit(c12Line([][][]byte{bs("SET", "n", c.val), bs(c.cmd...), bs("GET", "n")}, fmt.Sprintf("expect 1 %s", want)))
	}
	emit(c12Line([][][]byte{bs("INCR", "fresh"), bs("GET", "fresh")}, "expect 0 "+hx([]byte(":1\r\n"))))
	// random programs over the derived commands, on top of state built with primitive and derived writes
	menus := [][][]byte{}
	menus = append(menus, menuStrings()...)
	menus = append(menus, menuHashes()...)
	menus = append(menus, menuSets()...)
	menus = append(menus, menuZSets()...)
	// MSETNX over several keys of which more than one exists stops at whichever existing key Go's map iteration
	// reaches first, so the reference store's script cannot anticipate the probe: multi-key MSETNX is generated
	// only where none of its keys exists (the all-or-nothing behaviour with existing keys is exercised against the real example store in C18)
	var filtered [][][]byte
	for _, m := range menus {
		if strings.ToUpper(string(m[0])) == "MSETNX" && len(m) > 3 {
			continue
		}
		filtered = append(filtered, m)
	}
	menus = append(filtered, bs("PING"), bs("PING", "hello"), bs("ECHO", "x\r\ny"), bs("CONFIG", "SET", "a", "1", "b", "2", "a", "3"), bs("CONFIG", "GET", "b", "a", "zz", "a"),
		bs("CONFIG", "GET", "port"), bs("MSETNX", "s1", "3"), bs("MGET", "s1", "fresh1", "s7", "s1"))
	for _, prog := range [][][][]byte{
		{bs("MSETNX", "a", "1", "b", "2"), bs("MGET", "a", "b")},
		{bs("MSETNX", "a", "1", "b", "2", "c", "3"), bs("MSETNX", "a", "9"), bs("MGET", "a", "b", "c")},
	} {
		emit(c12Line(prog, ""))
	}
	n := 1500
	if tier == "thorough" {
		n = 60000
	}
	for i := 0; i < n; i++ {
		var prog [][][]byte
		for j := 1 + r.Intn(12); j > 0; j-- {
			prog = append(prog, menus[r.Intn(len(menus))])
		}
		emit(c12Line(prog, ""))
	}
}

func oracleC12(c *serveCase, extra []string, res *serveResult) (string, []string) {
	tags := []string{"nt"}
	if f := baseFail(res); f != "" {
		return f, tags
	}
	if len(extra) < 3 || extra[0] != "expect" {
		return "na", tags
	}
	idx, _ := strconv.Atoi(extra[1])
	var writes []string
	for _, e := range res.events {
		if strings.HasPrefix(e, "wr:") {
			writes = append(writes, e[3:])
		}
	}
	tags = append(tags, "expected-reply")
	if idx >= len(writes) {
		return fmt.Sprintf("fail:request %d was not answered", idx), tags
	}
	if writes[idx] != extra[2] {
		return fmt.Sprintf("fail:reply %s differs from what Redis defines (%s)", trunc(writes[idx], 60), trunc(extra[2], 60)), tags
	}
	return "ok", tags
}
