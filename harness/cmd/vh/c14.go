package main

import (
	"bufio"
	"crypto/tls"
	"errors"
	"fmt"
	"net"
	"os"
	"regexp"
	"runtime"
	"sort"
	"strconv"
	"strings"
	"sync"
	"time"

	"github.com/cybergarage/go-redis/redis"
)

func init() {
	properties["C14"] = &Property{Gen: genC14, Run: runC14}
}

// case: "race <clients> <rounds> <seed> <flags>"  flags: config, churn, conns, lifecycle
func genC14(tier string, seed uint64, emit func(string)) {
	r := NewRng(seed)
	n := 16
	if tier == "thorough" {
		n = 96
	}
	combos := []string{"config", "churn", "conns", "config,churn,conns", "config,churn,conns,lifecycle", "churn,lifecycle", "auth,config,churn", "auth,config,churn,conns,lifecycle",
		"tls,flap,churn,lifecycle", "tls,config,churn,conns,lifecycle", "tls,flap,auth,config,churn,conns,lifecycle", "flap,churn,lifecycle",
		"badclose,churn", "badclose,tls,config,churn,conns", "sweep,churn", "sweep,config,conns"}
	for i := 0; i < n; i++ {
		clients := []int{2, 4, 8, 16, 32}[r.Intn(5)]
		emit(fmt.Sprintf("race %d %d %d %s", clients, 30+r.Intn(60), r.U64()%1000000, combos[i%len(combos)]))
	}
}

var raceFrame = regexp.MustCompile(`github\.com/cybergarage/go-redis/redis[^\s(]*\.\(?\*?[A-Za-z]+\)?\.[A-Za-z0-9_.]+`)

// one request of every command family (strings, counters, keys, hashes, lists, sets, sorted sets, connection)
var familyRequests = [][]byte{
	reqS("GET", "k"), reqS("SET", "k", "v", "EX", "100"), reqS("MSET", "a", "1", "b", "2"), reqS("MGET", "a", "b"), reqS("APPEND", "k", "x"),
	reqS("INCR", "n"), reqS("DECRBY", "n", "3"), reqS("GETRANGE", "k", "0", "-1"), reqS("SETNX", "k", "v"), reqS("STRLEN", "k"),
	reqS("DEL", "a", "b"), reqS("EXISTS", "a"), reqS("EXPIRE", "a", "10"), reqS("KEYS", "*"), reqS("RENAME", "a", "b"), reqS("TYPE", "a"), reqS("TTL", "a"),
	reqS("SCAN", "0", "MATCH", "a*", "COUNT", "5"),
	reqS("HSET", "h", "f", "v"), reqS("HGET", "h", "f"), reqS("HGETALL", "h"), reqS("HMSET", "h", "f", "1", "g", "2"), reqS("HLEN", "h"), reqS("HSTRLEN", "h", "f"),
	reqS("LPUSH", "l", "a", "b"), reqS("RPOP", "l"), reqS("LRANGE", "l", "0", "-1"), reqS("LLEN", "l"),
	reqS("SADD", "s", "a"), reqS("SMEMBERS", "s"), reqS("SISMEMBER", "s", "a"), reqS("SCARD", "s"),
	reqS("ZADD", "z", "1", "m"), reqS("ZRANGE", "z", "0", "-1", "WITHSCORES"), reqS("ZRANGEBYSCORE", "z", "-inf", "+inf"), reqS("ZSCORE", "z", "m"), reqS("ZINCRBY", "z", "1", "m"),
	reqS("ECHO", "hello"), reqS("PING", "x"), reqS("NOSUCH"), reqS("GET"),
}

// lockedDouble is a handler double that is itself race free (the store is not the subject of C14).
type lockedDouble struct {
	mu sync.Mutex
	d  *double
}

func runC14(toks []string) Result {
	clients, _ := strconv.Atoi(toks[1])
	rounds, _ := strconv.Atoi(toks[2])
	seed, _ := strconv.ParseUint(toks[3], 10, 64)
	flags := map[string]bool{}
	for _, f := range strings.Split(toks[4], ",") {
		flags[f] = true
	}
	if !raceEnabled {
		return Result{Obs: "no-race-detector", Oracle: "na", Tags: []string{"norace"}}
	}
	srv := redis.NewServer()
	h := newSafeHandler()
	srv.SetCommandHandler(h)
	port := freePort()
	srv.SetPort(port)
	if flags["auth"] {
		srv.SetRequirePass("pw")
	}
	tlsAddr := ""
	if flags["tls"] {
		tlsPort := freePort()
		srv.SetTLSPort(tlsPort)
		srv.SetTLSConfig(&tls.Config{MinVersion: tls.VersionTLS12, Certificates: []tls.Certificate{getPKI().serverCert}})
		tlsAddr = "127.0.0.1:" + strconv.Itoa(tlsPort)
	}
	if flags["flap"] {
		// lifecycle calls back to back, before any accept loop had a chance to run: first with one processor (the
		// loops spawned by Start run only once the caller blocks in Stop), then with all of them
		prev := runtime.GOMAXPROCS(1)
		for i := 0; i < 3; i++ {
			if err := srv.Start(); err != nil {
				runtime.GOMAXPROCS(prev)
				return Result{Obs: "start-failed", Oracle: "fail:start failed: " + err.Error()}
			}
			srv.Stop()
		}
		runtime.GOMAXPROCS(prev)
		for i := 0; i < 40; i++ {
			srv.Restart()
		}
		srv.Stop()
	}
	if err := srv.Start(); err != nil {
		return Result{Obs: "start-failed", Oracle: "fail:start failed: " + err.Error()}
	}
	addr := "127.0.0.1:" + strconv.Itoa(port)
	var wg sync.WaitGroup
	stop := make(chan struct{})
	var lifeMu sync.RWMutex // lifecycle calls are made by one application thread while clients hammer
	for c := 0; c < clients; c++ {
		wg.Add(1)
		go func(c int) {
			defer wg.Done()
			r := NewRng(seed + uint64(c)*7919)
			var conn net.Conn
			for i := 0; i < rounds; i++ {
				select {
				case <-stop:
					return
				default:
				}
				if conn == nil {
					lifeMu.RLock()
					var cc net.Conn
					var err error
					if tlsAddr != "" && c%2 == 1 {
						cc, err = tls.DialWithDialer(&net.Dialer{Timeout: time.Second}, "tcp", tlsAddr, &tls.Config{InsecureSkipVerify: true})
					} else {
						cc, err = net.DialTimeout("tcp", addr, time.Second)
					}
					lifeMu.RUnlock()
					if err != nil {
						time.Sleep(2 * time.Millisecond)
						continue
					}
					conn = cc
					if flags["auth"] && roundTrip(conn, reqS("AUTH", "pw")) == "" {
						conn.Close()
						conn = nil
						continue
					}
				}
				var req []byte
				switch r.Intn(8) {
				case 0:
					if flags["config"] {
						req = reqS("CONFIG", "SET", "k"+strconv.Itoa(r.Intn(4)), "v"+strconv.Itoa(i))
					}
				case 1:
					if flags["config"] {
						req = reqS("CONFIG", "GET", "k"+strconv.Itoa(r.Intn(4)), "port")
					}
				case 2:
					if flags["auth"] && flags["config"] {
						req = reqS("CONFIG", "SET", "requirepass", "pw")
					} else {
						req = reqS("SET", "k", "v")
					}
				case 3:
					req = reqS("SELECT", strconv.Itoa(r.Intn(4)))
				case 4:
					req = reqS("PING")
				default:
					req = familyRequests[r.Intn(len(familyRequests))]
				}
				if req == nil {
					req = reqS("PING")
				}
				if roundTrip(conn, req) == "" {
					conn.Close()
					conn = nil
				}
				if flags["churn"] && r.Chance(1, 6) {
					conn.Close()
					conn = nil
				}
			}
			if conn != nil {
				conn.Close()
			}
		}(c)
	}
	if flags["conns"] {
		wg.Add(1)
		go func() {
			defer wg.Done()
			for i := 0; i < rounds*2; i++ {
				for _, c := range srv.Conns() {
					_ = c.UUID()
				}
				time.Sleep(200 * time.Microsecond)
			}
		}()
	}
	if flags["lifecycle"] {
		wg.Add(1)
		go func() {
			defer wg.Done()
			for i := 0; i < 3; i++ {
				time.Sleep(15 * time.Millisecond)
				lifeMu.Lock()
				srv.Restart()
				if flags["flap"] {
					srv.Restart()
					srv.Stop()
					srv.Start()
				}
				lifeMu.Unlock()
			}
		}()
	}
	if flags["badclose"] {
		// connections whose Close fails (the peer is gone, the close_notify cannot be written ...): several of them are
		// still registered when Stop closes the registry
		for i := 0; i < 8; i++ {
			cl, sv := net.Pipe()
			go func() {
				defer func() { recover() }()
				srv.VerifServeConn(&failingCloseConn{Conn: sv}, nil)
			}()
			cl.SetDeadline(time.Now().Add(2 * time.Second))
			cl.Write(reqS("PING"))
			readReply(bufio.NewReader(cl))
			defer cl.Close()
		}
	}
	done := make(chan struct{})
	go func() { wg.Wait(); close(done) }()
	stuck := ""
	select {
	case <-done:
	case <-time.After(40 * time.Second):
		close(stop)
		stuck = "the workload did not finish within 40 s (a client or the lifecycle thread is blocked)"
	}
	if flags["sweep"] && stuck == "" {
		// clients that connect (and stay idle) at the very moment Stop sweeps the registry: whatever the interleaving of
		// accept, registration and the sweep, Stop returns, every accepted connection is closed and the registry is empty
		for round := 0; round < 12 && stuck == ""; round++ {
			if round > 0 {
				if err := srv.Start(); err != nil {
					stuck = "Start failed after a Stop: " + err.Error()
					break
				}
			}
			var mu sync.Mutex
			var held []net.Conn
			var dg sync.WaitGroup
			begin := make(chan struct{})
			for i := 0; i < 8; i++ {
				dg.Add(1)
				go func() {
					defer dg.Done()
					<-begin
					for {
						c, err := net.DialTimeout("tcp", addr, time.Second)
						if err != nil {
							return
						}
						mu.Lock()
						held = append(held, c)
						n := len(held)
						mu.Unlock()
						if n > 1500 {
							return
						}
					}
				}()
			}
			close(begin)
			time.Sleep(time.Duration(200+137*(round%9)) * time.Microsecond)
			swept := make(chan struct{})
			go func() { srv.Stop(); close(swept) }()
			timedOut := false
			select {
			case <-swept:
			case <-time.After(3 * time.Second):
				timedOut = true
			}
			dg.Wait()
			survivors := len(srv.Conns())
			mu.Lock()
			for _, c := range held {
				c.Close()
			}
			mu.Unlock()
			if timedOut {
				<-swept
				stuck = fmt.Sprintf("Stop did not return within 3 s while idle clients were connecting; %d connection(s) were still registered and open after the registry had been swept", survivors)
			} else if survivors != 0 {
				stuck = fmt.Sprintf("%d connection(s) registered after Stop returned (connect storm during Stop)", survivors)
			}
		}
		if stuck == "" {
			if err := srv.Start(); err != nil {
				stuck = "Start failed after a Stop: " + err.Error()
			}
		}
	}
	stopped := make(chan struct{})
	go func() { srv.Stop(); close(stopped) }()
	select {
	case <-stopped:
	case <-time.After(10 * time.Second):
		stuck = "Stop did not return within 10 s after the workload"
	}
	time.Sleep(20 * time.Millisecond)
	reports := collectRaceReports()
	tags := []string{"nt", "clients" + toks[1]}
	for f := range flags {
		tags = append(tags, "wl-"+f)
	}
	if stuck != "" {
		sort.Strings(tags[2:])
		obs := "stuck"
		if len(reports) > 0 {
			sort.Strings(reports)
			obs = "stuck,races:" + strings.Join(reports, "|")
		}
		return Result{Obs: obs, Oracle: "fail:" + stuck, Tags: tags}
	}
	sort.Strings(tags[2:])
	if len(reports) == 0 {
		return Result{Obs: "race-free", Oracle: "ok", Tags: tags}
	}
	sort.Strings(reports)
	return Result{Obs: "races:" + strings.Join(reports, "|"), Oracle: "fail:data race in the framework: " + trunc(reports[0], 160), Tags: tags}
}

// failingCloseConn closes its connection and reports an error (as a TLS connection does when its close_notify cannot
// be written any more).
type failingCloseConn struct{ net.Conn }

func (c *failingCloseConn) Close() error {
	c.Conn.Close()
	return errors.New("close failed")
}

// collectRaceReports reads the race detector's log files (GORACE=log_path) and returns the distinct pairs of
// framework frames of the reports that involve the framework.
var raceLogOffset int64

func collectRaceReports() []string {
	prefix := os.Getenv("VH_RACE_LOG")
	if prefix == "" {
		return nil
	}
	// the detector of this process writes to <prefix>.<pid>; only what was appended since the last case counts
	files := []string{fmt.Sprintf("%s.%d", prefix, os.Getpid())}
	seen := map[string]bool{}
	for _, fn := range files {
		f, err := os.Open(fn)
		if err != nil {
			continue
		}
		if st, err := f.Stat(); err == nil {
			if st.Size() < raceLogOffset {
				raceLogOffset = 0
			}
			f.Seek(raceLogOffset, 0)
			defer func(sz int64) { raceLogOffset = sz }(st.Size())
		}
		sc := bufio.NewScanner(f)
		sc.Buffer(make([]byte, 1<<20), 1<<24)
		var cur []string
		flush := func() {
			if len(cur) > 0 {
				seen[strings.Join(cur, "<>")] = true
			}
			cur = nil
		}
		inReport := false
		section := ""
		for sc.Scan() {
			line := sc.Text()
			switch {
			case strings.HasPrefix(line, "WARNING: DATA RACE"):
				flush()
				inReport = true
			case strings.HasPrefix(line, "=================="):
				flush()
				inReport = false
			case inReport && (strings.HasPrefix(line, "Read at") || strings.HasPrefix(line, "Write at") || strings.HasPrefix(line, "Previous read at") || strings.HasPrefix(line, "Previous write at")):
				section = strings.Fields(line)[0]
				if section == "Previous" {
					section = strings.Fields(line)[1]
				}
				// the first framework frame below this line identifies the access site
				cur = append(cur, "?"+section)
			case inReport && len(cur) > 0 && strings.HasPrefix(cur[len(cur)-1], "?"):
				if m := raceFrame.FindString(line); m != "" {
					cur[len(cur)-1] = cur[len(cur)-1][1:] + "@" + strings.TrimPrefix(m, "github.com/cybergarage/go-redis/")
				}
			}
		}
		flush()
		f.Close()
		os.Remove(fn)
	}
	var out []string
	for k := range seen {
		if strings.Contains(k, "@redis") {
			out = append(out, k)
		}
	}
	return out
}
