package main

import (
	"bufio"
	"fmt"
	"io"
	"math"
	"net"
	"runtime"
	"sort"
	"strconv"
	"strings"
	"sync"
	"sync/atomic"
	"time"

	exserver "github.com/cybergarage/go-redis/examples/go-redisd/server"
	"github.com/cybergarage/go-redis/redis"
)

func init() {
	properties["C16"] = &Property{Gen: genC16, Run: runC16}
}

// case: "lin <store> <clients> <opsPerClient> <keys> <seed> <kinds>"   store: example | ref
func genC16(tier string, seed uint64, emit func(string)) {
	r := NewRng(seed)
	n := 120
	if tier == "thorough" {
		n = 4000
	}
	// whole-container reads against a writer that keeps taking one entry out and putting it back
	for _, kind := range []string{"set", "hash", "zset", "list"} {
		sizes := []int{40, 3000}
		if tier == "thorough" {
			sizes = []int{3, 40, 500, 3000, 8000}
		}
		for _, size := range sizes {
			ms := 250
			if tier == "thorough" {
				ms = 1500
			}
			emit(fmt.Sprintf("snap %s %d %d %d %d", kind, size, 2+r.Intn(2), ms, r.U64()%1000000))
		}
	}
	// one MGET / HMGET over 40..300 keys against one MSET / HMSET that raises them all: every reply shows one generation
	for _, kind := range []string{"mget", "hmget"} {
		for _, size := range []int{40, 130, 300} {
			ms := 250
			if tier == "thorough" {
				ms = 1500
			}
			emit(fmt.Sprintf("snap %s %d %d %d %d", kind, size, 2+r.Intn(2), ms, r.U64()%1000000))
		}
	}
	// a started server on which a second Start failed, then concurrent INCRs on one key over real sockets
	emit(fmt.Sprintf("snap start2 %d 1500 0 %d", 6+r.Intn(4), r.U64()%1000000))
	emit(fmt.Sprintf("snap start2 %d 400 0 %d", 12+r.Intn(8), r.U64()%1000000))
	// keys with a time to live that are overwritten around the moment it elapses: an acknowledged plain SET stays
	ttlRuns := 2
	if tier == "thorough" {
		ttlRuns = 12
	}
	for i := 0; i < ttlRuns; i++ {
		emit(fmt.Sprintf("snap ttl %d %d 0 %d", []int{4000, 16000}[i%2], 4+r.Intn(5), r.U64()%1000000))
	}
	// large arguments from several clients at once (what a command is given is what its client sent, whatever buffers the
	// request passed through on the way)
	for _, size := range []int{5000, 49152, 200000} {
		rounds := 30
		if tier == "thorough" {
			rounds = 300
		}
		emit(fmt.Sprintf("bigarg %d %d %d %d", 4+r.Intn(9), rounds, size, r.U64()%1000000))
	}
	kindSets := []string{"incr", "incr,decrby,get", "append,get", "setnx,get", "setnx,del", "msetnx,get", "msetnx,del,setnx", "getset,set,get", "set,get,del",
		"incr,append,set,get", "all", "all"}
	for i := 0; i < n; i++ {
		clients := 2 + r.Intn(7)
		total := 6 + r.Intn(9) // total operations 6..14 so that the complete search stays feasible
		ops := total / clients
		if ops < 1 {
			ops = 1
		}
		store := "ref"
		if i%2 == 1 {
			store = "example"
		}
		line := fmt.Sprintf("lin %s %d %d %d %d %s", store, clients, ops, 1+r.Intn(3), r.U64()%100000000, kindSets[i%len(kindSets)])
		switch i % 6 {
		case 2:
			// all clients but the first connect only when they issue their first command
			line += " late"
		case 3:
			// every client first sends requests that are answered with an error and change nothing (missing argument,
			// not a number, unknown command): an error reply leaves the connection as it was
			line += " errfirst"
		case 5:
			line += " late,errfirst"
		}
		emit(line)
	}
}

// ---- the reference store handler: every primitive is atomic (as a Redis primitive is), with scheduling points
// around it so that composed commands of different connections interleave if nothing serialises them

type linStore struct {
	*double
	mu     sync.Mutex
	m      map[string]string
	jitter uint64
	ctr    atomic.Uint64
}

func (s *linStore) yield() {
	n := s.ctr.Add(0x9E3779B97F4A7C15) ^ s.jitter
	switch n >> 61 {
	case 0, 1, 2:
		runtime.Gosched()
	case 3:
		time.Sleep(time.Duration(20+(n>>50)%200) * time.Microsecond)
	}
}

func (s *linStore) Get(conn *redis.Conn, key string) (*redis.Message, error) {
	s.yield()
	s.mu.Lock()
	v, ok := s.m[key]
	s.mu.Unlock()
	s.yield()
	if !ok {
		return redis.NewNilMessage(), nil
	}
	return redis.NewBulkMessage(v), nil
}

func (s *linStore) Set(conn *redis.Conn, key string, val string, opt redis.SetOption) (*redis.Message, error) {
	s.yield()
	s.mu.Lock()
	old, ok := s.m[key]
	if opt.NX && ok {
		s.mu.Unlock()
		s.yield()
		return redis.NewIntegerMessage(0), nil
	}
	s.m[key] = val
	s.mu.Unlock()
	s.yield()
	switch {
	case opt.NX:
		return redis.NewIntegerMessage(1), nil
	case opt.GET:
		if ok {
			return redis.NewBulkMessage(old), nil
		}
		return redis.NewNilMessage(), nil
	}
	return redis.NewOKMessage(), nil
}

func (s *linStore) Exists(conn *redis.Conn, keys []string) (*redis.Message, error) {
	s.mu.Lock()
	n := 0
	for _, k := range keys {
		if _, ok := s.m[k]; ok {
			n++
		}
	}
	s.mu.Unlock()
	return redis.NewIntegerMessage(n), nil
}

func (s *linStore) Del(conn *redis.Conn, keys []string) (*redis.Message, error) {
	s.yield()
	s.mu.Lock()
	n := 0
	for _, k := range keys {
		if _, ok := s.m[k]; ok {
			delete(s.m, k)
			n++
		}
	}
	s.mu.Unlock()
	s.yield()
	return redis.NewIntegerMessage(n), nil
}

// ---- history

type linOp struct {
	client   int
	inv, res int64
	argv     []string
	req      []byte
	reply    []byte // canonical: error replies are "-E\r\n"
}

func (o *linOp) String() string {
	return fmt.Sprintf("%d:%d:%d:%s:%s", o.client, o.inv, o.res, hx(o.req), hx(o.reply))
}

// readReply reads one RESP reply (the op kinds of C16 answer with a line or a bulk string).
func readReply(br *bufio.Reader) ([]byte, error) {
	line, err := br.ReadBytes('\n')
	if err != nil {
		return nil, err
	}
	if len(line) > 0 && line[0] == '$' {
		n, _ := strconv.Atoi(strings.TrimSpace(string(line[1:])))
		if n >= 0 {
			body := make([]byte, n+2)
			if _, err := io.ReadFull(br, body); err != nil {
				return nil, err
			}
			line = append(line, body...)
		}
	}
	if len(line) > 0 && line[0] == '-' {
		return []byte("-E\r\n"), nil
	}
	return line, nil
}

func genLinOp(r *Rng, kinds []string, keys int, client, i int) []string {
	k := func() string { return "k" + strconv.Itoa(r.Intn(keys)) }
	kind := kinds[r.Intn(len(kinds))]
	if kind == "all" {
		kind = []string{"get", "set", "setnx", "getset", "incr", "decrby", "append", "msetnx", "del"}[r.Intn(9)]
	}
	uniq := strconv.Itoa(client*100 + i + 1) // numeric and distinct per operation: counters keep working on it
	switch kind {
	case "get":
		return []string{"GET", k()}
	case "set":
		return []string{"SET", k(), uniq}
	case "setnx":
		return []string{"SETNX", k(), uniq}
	case "getset":
		return []string{"GETSET", k(), uniq}
	case "incr":
		return []string{"INCR", k()}
	case "decrby":
		return []string{"DECRBY", k(), strconv.Itoa(1 + r.Intn(3))}
	case "append":
		return []string{"APPEND", k(), strconv.Itoa(1 + r.Intn(9))}
	case "msetnx":
		if keys >= 2 {
			a := r.Intn(keys)
			b := (a + 1 + r.Intn(keys-1)) % keys
			return []string{"MSETNX", "k" + strconv.Itoa(a), uniq, "k" + strconv.Itoa(b), uniq}
		}
		return []string{"MSETNX", "k0", uniq}
	case "del":
		if keys >= 2 && r.Bool() {
			return []string{"DEL", "k0", "k1"}
		}
		return []string{"DEL", k()}
	}
	return []string{"GET", k()}
}

type verifServer interface {
	VerifServeConn(conn net.Conn, tlsState interface{}) error
}

// runSnap: "snap <set|hash|zset|list> <size> <readers> <ms> <seed>": a container of <size> entries in the bundled example
// store; one writer keeps taking one entry out and putting it back (SREM m; SADD m / HDEL f; HSET f v / ZREM m; ZADD s m /
// LPOP; RPUSH x), readers keep reading the whole container.  Every reply of a reader must be a state the container was
// in at some moment: entries of the universe only, none of them twice, at most one missing - a reply that shows an entry
// twice, or lacks two, is a state that never existed (whatever happens to a reply after the command was executed is part
// of the command).  The recorded history handed to the checker is empty: the verdict is the oracle's.
func runSnap(toks []string) Result {
	kind := toks[1]
	if kind == "mget" || kind == "hmget" {
		return runMGetSnap(toks)
	}
	if kind == "ttl" {
		return runTTLSnap(toks)
	}
	if kind == "start2" {
		return runStart2Snap(toks)
	}
	size, _ := strconv.Atoi(toks[2])
	readers, _ := strconv.Atoi(toks[3])
	ms, _ := strconv.Atoi(toks[4])
	tags := []string{"nt", "snap-" + kind, "size" + bucket(size)}
	srv := exserver.NewServer()
	var swg sync.WaitGroup
	connect := func() (net.Conn, *bufio.Reader) {
		cl, sv := net.Pipe()
		swg.Add(1)
		go func() {
			defer swg.Done()
			defer func() { recover() }()
			srv.VerifServeConn(sv, nil)
		}()
		return cl, bufio.NewReaderSize(cl, 1<<16)
	}
	name := func(i int) string { return fmt.Sprintf("m:%06d", i) }
	// one reply, as the list of its bulk elements (or nil for anything that is not an array of bulks)
	readArray := func(br *bufio.Reader) ([]string, error) {
		line, err := br.ReadString('\n')
		if err != nil {
			return nil, err
		}
		if len(line) == 0 || line[0] != '*' {
			if len(line) > 0 && line[0] == '$' {
				n, _ := strconv.Atoi(strings.TrimSpace(line[1:]))
				if n >= 0 {
					io.CopyN(io.Discard, br, int64(n+2))
				}
			}
			return nil, nil
		}
		n, _ := strconv.Atoi(strings.TrimSpace(line[1:]))
		out := make([]string, 0, n)
		for i := 0; i < n; i++ {
			h, err := br.ReadString('\n')
			if err != nil {
				return nil, err
			}
			if len(h) == 0 || h[0] != '$' {
				out = append(out, strings.TrimSpace(h))
				continue
			}
			l, _ := strconv.Atoi(strings.TrimSpace(h[1:]))
			if l < 0 {
				out = append(out, "<nil>")
				continue
			}
			b := make([]byte, l+2)
			if _, err := io.ReadFull(br, b); err != nil {
				return nil, err
			}
			out = append(out, string(b[:l]))
		}
		return out, nil
	}
	fail := func(msg string) Result {
		return Result{Obs: "not-linearizable # ", Oracle: "fail:" + msg, Tags: tags}
	}
	// fill
	wc, wbr := connect()
	defer wc.Close()
	for lo := 0; lo < size; lo += 500 {
		var argv []string
		switch kind {
		case "set":
			argv = []string{"SADD", "c"}
		case "hash":
			argv = []string{"HMSET", "c"}
		case "zset":
			argv = []string{"ZADD", "c"}
		default:
			argv = []string{"RPUSH", "c"}
		}
		for i := lo; i < size && i < lo+500; i++ {
			switch kind {
			case "hash":
				argv = append(argv, name(i), "v")
			case "zset":
				argv = append(argv, strconv.Itoa(i), name(i))
			default:
				argv = append(argv, name(i))
			}
		}
		wc.SetDeadline(time.Now().Add(20 * time.Second))
		wc.Write(reqS(argv...))
		if _, err := readArray(wbr); err != nil {
			return fail("filling the container failed: " + err.Error())
		}
	}
	stop := make(chan struct{})
	var wg sync.WaitGroup
	var bad atomic.Value
	var reads atomic.Int64
	read := map[string][]string{"set": {"SMEMBERS", "c"}, "hash": {"HKEYS", "c"}, "zset": {"ZRANGE", "c", "0", "-1"}, "list": {"LRANGE", "c", "0", "-1"}}[kind]
	for rd := 0; rd < readers; rd++ {
		wg.Add(1)
		go func() {
			defer wg.Done()
			c, br := connect()
			defer c.Close()
			for {
				select {
				case <-stop:
					return
				default:
				}
				c.SetDeadline(time.Now().Add(20 * time.Second))
				c.Write(reqS(read...))
				els, err := readArray(br)
				if err != nil {
					bad.CompareAndSwap(nil, "a reader got no reply: "+err.Error())
					return
				}
				reads.Add(1)
				seen := make(map[string]bool, len(els))
				for _, e := range els {
					if seen[e] {
						bad.CompareAndSwap(nil, fmt.Sprintf("%s shows %q twice (%d elements of %d): a state the %s was never in", read[0], e, len(els), size, kind))
						return
					}
					seen[e] = true
					if !strings.HasPrefix(e, "m:") {
						bad.CompareAndSwap(nil, fmt.Sprintf("%s shows %q, which was never stored", read[0], e))
						return
					}
				}
				if len(els) < size-1 || len(els) > size {
					bad.CompareAndSwap(nil, fmt.Sprintf("%s shows %d elements while the %s always held %d or %d", read[0], len(els), kind, size-1, size))
					return
				}
			}
		}()
	}
	deadline := time.Now().Add(time.Duration(ms) * time.Millisecond)
	rounds := 0
	for i := 0; time.Now().Before(deadline) && bad.Load() == nil; i = (i + 7) % size {
		var out, in []string
		switch kind {
		case "set":
			out, in = []string{"SREM", "c", name(i)}, []string{"SADD", "c", name(i)}
		case "hash":
			out, in = []string{"HDEL", "c", name(i)}, []string{"HSET", "c", name(i), "v"}
		case "zset":
			out, in = []string{"ZREM", "c", name(i)}, []string{"ZADD", "c", strconv.Itoa(i), name(i)}
		default:
			out = []string{"LPOP", "c"}
		}
		wc.SetDeadline(time.Now().Add(20 * time.Second))
		wc.Write(reqS(out...))
		if kind == "list" {
			line, err := wbr.ReadString('\n')
			if err != nil || len(line) == 0 || line[0] != '$' {
				bad.CompareAndSwap(nil, "LPOP on a non-empty list did not answer with an element")
				break
			}
			l, _ := strconv.Atoi(strings.TrimSpace(line[1:]))
			b := make([]byte, l+2)
			io.ReadFull(wbr, b)
			in = []string{"RPUSH", "c", string(b[:l])}
		} else if _, err := readArray(wbr); err != nil {
			break
		}
		wc.Write(reqS(in...))
		if _, err := readArray(wbr); err != nil {
			break
		}
		rounds++
	}
	close(stop)
	wg.Wait()
	wc.Close()
	swg.Wait()
	tags = append(tags, "reads"+bucket(int(reads.Load())))
	if b := bad.Load(); b != nil {
		return fail(b.(string))
	}
	return Result{Obs: "linearizable # ", Oracle: "ok", Tags: tags}
}

// runBigArg: "bigarg <clients> <rounds> <size> <seed>": every client owns one key and keeps writing a value of <size>
// bytes that names the client and the round - as a non-last argument (SET k v EX n, MSETNX k v k2 v2, RPUSH l v x) and as
// the last one - and reading it back.  Nobody else writes the key, so every read must return exactly the value the
// client wrote last: anything else is a value that was never written to that key.  (Oracle only; empty history.)
func runBigArg(toks []string) Result {
	clients, _ := strconv.Atoi(toks[1])
	rounds, _ := strconv.Atoi(toks[2])
	size, _ := strconv.Atoi(toks[3])
	tags := []string{"nt", "bigarg", "clients" + toks[1], "size" + bucket(size)}
	srv := exserver.NewServer()
	var wg, swg sync.WaitGroup
	var bad atomic.Value
	start := make(chan struct{})
	for c := 0; c < clients; c++ {
		cl, sv := net.Pipe()
		swg.Add(1)
		go func() {
			defer swg.Done()
			defer func() { recover() }()
			srv.VerifServeConn(sv, nil)
		}()
		wg.Add(1)
		go func(c int) {
			defer wg.Done()
			defer cl.Close()
			br := bufio.NewReaderSize(cl, 1<<16)
			key := fmt.Sprintf("big:%d", c)
			<-start
			for i := 0; i < rounds && bad.Load() == nil; i++ {
				tag := fmt.Sprintf("<client %d round %d>", c, i)
				val := tag + strings.Repeat(string(rune('a'+c%26)), size-len(tag))
				var req []byte
				switch i % 3 {
				case 0:
					req = reqS("SET", key, val, "EX", "3600")
				case 1:
					req = reqS("SET", key, val)
				default:
					req = reqS("SET", key, val, "KEEPTTL")
				}
				cl.SetDeadline(time.Now().Add(20 * time.Second))
				// the request is written from a goroutine of its own: net.Pipe is synchronous, and the server may answer
				// only after it has read everything
				werr := make(chan error, 1)
				go func() { _, err := cl.Write(append(req, reqS("GET", key)...)); werr <- err }()
				r1, err1 := readAnyReply(br)
				r2, err2 := readAnyReply(br)
				if err := <-werr; err != nil || err1 != nil || err2 != nil {
					bad.CompareAndSwap(nil, fmt.Sprintf("client %d round %d: no reply", c, i))
					return
				}
				want := fmt.Sprintf("$%d\r\n%s\r\n", len(val), val)
				if string(r1) != "+OK\r\n" || string(r2) != want {
					got := string(r2)
					if len(got) > 60 {
						got = got[:60]
					}
					bad.CompareAndSwap(nil, fmt.Sprintf("client %d round %d: GET %s returned a value that was never written to it (%d bytes, starts %q; SET answered %q)", c, i, key, len(r2), got, trunc(string(r1), 20)))
					return
				}
			}
		}(c)
	}
	close(start)
	wg.Wait()
	swg.Wait()
	if b := bad.Load(); b != nil {
		return Result{Obs: "not-linearizable # ", Oracle: "fail:" + b.(string), Tags: tags}
	}
	return Result{Obs: "linearizable # ", Oracle: "ok", Tags: tags}
}

func runC16(toks []string) Result {
	if toks[0] == "snap" {
		return runSnap(toks)
	}
	if toks[0] == "bigarg" {
		return runBigArg(toks)
	}
	store := toks[1]
	clients, _ := strconv.Atoi(toks[2])
	ops, _ := strconv.Atoi(toks[3])
	keys, _ := strconv.Atoi(toks[4])
	seed, _ := strconv.ParseUint(toks[5], 10, 64)
	kinds := strings.Split(toks[6], ",")

	var serve func(net.Conn)
	switch store {
	case "example":
		srv := exserver.NewServer()
		serve = func(c net.Conn) { srv.VerifServeConn(c, nil) }
	default:
		srv := redis.NewServer()
		srv.SetCommandHandler(&linStore{double: &double{log: &eventLog{}}, m: map[string]string{}, jitter: seed})
		serve = func(c net.Conn) { srv.VerifServeConn(c, nil) }
	}
	var clock atomic.Int64
	hist := make([][]*linOp, clients)
	var wg, swg sync.WaitGroup
	start := make(chan struct{})
	hung := atomic.Bool{}
	late := len(toks) > 7 && strings.Contains(toks[7], "late")
	errFirst := len(toks) > 7 && strings.Contains(toks[7], "errfirst")
	for c := 0; c < clients; c++ {
		connect := func() net.Conn {
			cl, sv := net.Pipe()
			swg.Add(1)
			go func() {
				defer swg.Done()
				defer func() { recover() }()
				serve(sv)
			}()
			return cl
		}
		var pre net.Conn
		if !late || c == 0 {
			pre = connect()
		}
		wg.Add(1)
		go func(c int, conn net.Conn) {
			defer wg.Done()
			r := NewRng(seed*31 + uint64(c)*7919 + 1)
			<-start
			if conn == nil {
				// this client connects only now, while the clients before it already have commands in flight
				time.Sleep(time.Duration(r.Intn(400)) * time.Microsecond)
				conn = connect()
			}
			defer conn.Close()
			br := bufio.NewReader(conn)
			if errFirst {
				for _, bad := range [][]string{{"GET"}, {"INCRBY", "n", "not-a-number"}, {"NOSUCHCOMMAND", "x"}}[:1+r.Intn(3)] {
					conn.SetDeadline(time.Now().Add(10 * time.Second))
					conn.Write(reqS(bad...))
					if reply, err := readReply(br); err != nil || len(reply) == 0 || reply[0] != '-' {
						hung.Store(true)
						return
					}
				}
			}
			for i := 0; i < ops; i++ {
				argv := genLinOp(r, kinds, keys, c, i)
				req := reqS(argv...)
				op := &linOp{client: c, argv: argv, req: req}
				conn.SetDeadline(time.Now().Add(10 * time.Second))
				op.inv = clock.Add(1)
				if _, err := conn.Write(req); err != nil {
					hung.Store(true)
					return
				}
				reply, err := readReply(br)
				op.res = clock.Add(1)
				if err != nil {
					hung.Store(true)
					return
				}
				op.reply = reply
				hist[c] = append(hist[c], op)
			}
		}(c, pre)
	}
	close(start)
	wg.Wait()
	swg.Wait()
	var all []*linOp
	for _, h := range hist {
		all = append(all, h...)
	}
	sort.Slice(all, func(i, j int) bool { return all[i].inv < all[j].inv })
	kindSet := map[string]bool{}
	var parts []string
	for _, o := range all {
		parts = append(parts, o.String())
		kindSet[strings.ToLower(o.argv[0])] = true
	}
	tags := []string{"nt", "store-" + store, "clients" + toks[2]}
	var ks []string
	for k := range kindSet {
		ks = append(ks, k)
	}
	sort.Strings(ks)
	tags = append(tags, "kinds-"+strings.Join(ks, "+"))
	if hung.Load() {
		return Result{Obs: "hung # " + strings.Join(parts, " "), Oracle: "fail:a client got no reply (connection closed or deadline exceeded)", Tags: tags}
	}
	ok := linearizable(all)
	verdict := "linearizable"
	oracle := "ok"
	if !ok {
		verdict = "not-linearizable"
		oracle = "fail:history of " + strings.Join(ks, "+") + " by " + toks[2] + " clients on the " + store + " store has no sequential explanation"
	}
	return Result{Obs: verdict + " # " + strings.Join(parts, " "), Oracle: oracle, Tags: tags}
}

// ---- an independent sequential specification (Redis strings) and a complete linearizability search with memo

func seqApply(m map[string]string, argv []string) (string, map[string]string) {
	cp := func() map[string]string {
		n := make(map[string]string, len(m)+2)
		for k, v := range m {
			n[k] = v
		}
		return n
	}
	bulk := func(s string) string { return fmt.Sprintf("$%d\r\n%s\r\n", len(s), s) }
	switch argv[0] {
	case "GET":
		if v, ok := m[argv[1]]; ok {
			return bulk(v), m
		}
		return "$-1\r\n", m
	case "SET":
		n := cp()
		n[argv[1]] = argv[2]
		return "+OK\r\n", n
	case "SETNX":
		if _, ok := m[argv[1]]; ok {
			return ":0\r\n", m
		}
		n := cp()
		n[argv[1]] = argv[2]
		return ":1\r\n", n
	case "GETSET":
		old, ok := m[argv[1]]
		n := cp()
		n[argv[1]] = argv[2]
		if ok {
			return bulk(old), n
		}
		return "$-1\r\n", n
	case "INCR", "DECR", "INCRBY", "DECRBY":
		d := int64(1)
		switch argv[0] {
		case "DECR":
			d = -1
		case "INCRBY":
			d, _ = strconv.ParseInt(argv[2], 10, 64)
		case "DECRBY":
			x, _ := strconv.ParseInt(argv[2], 10, 64)
			if x == math.MinInt64 {
				// Redis: "decrement would overflow" - the negation of the most negative decrement does not exist
				return "-E\r\n", m
			}
			d = -x
		}
		cur := int64(0)
		if v, ok := m[argv[1]]; ok {
			x, err := strconv.ParseInt(v, 10, 64)
			if err != nil {
				return "-E\r\n", m
			}
			cur = x
		}
		sum := cur + d
		if (d > 0 && sum < cur) || (d < 0 && sum > cur) {
			return "-E\r\n", m
		}
		n := cp()
		n[argv[1]] = strconv.FormatInt(sum, 10)
		return fmt.Sprintf(":%d\r\n", sum), n
	case "APPEND":
		n := cp()
		n[argv[1]] = m[argv[1]] + argv[2]
		return fmt.Sprintf(":%d\r\n", len(n[argv[1]])), n
	case "MSETNX":
		for i := 1; i+1 < len(argv); i += 2 {
			if _, ok := m[argv[i]]; ok {
				return ":0\r\n", m
			}
		}
		n := cp()
		for i := 1; i+1 < len(argv); i += 2 {
			n[argv[i]] = argv[i+1]
		}
		return ":1\r\n", n
	case "MSET":
		n := cp()
		for i := 1; i+1 < len(argv); i += 2 {
			n[argv[i]] = argv[i+1]
		}
		return "+OK\r\n", n
	case "MGET":
		out := fmt.Sprintf("*%d\r\n", len(argv)-1)
		for _, k := range argv[1:] {
			if v, ok := m[k]; ok {
				out += bulk(v)
			} else {
				out += "$-1\r\n"
			}
		}
		return out, m
	case "EXISTS":
		c := 0
		for _, k := range argv[1:] {
			if _, ok := m[k]; ok {
				c++
			}
		}
		return fmt.Sprintf(":%d\r\n", c), m
	case "STRLEN":
		return fmt.Sprintf(":%d\r\n", len(m[argv[1]])), m
	case "DEL":
		n := cp()
		c := 0
		for _, k := range argv[1:] {
			if _, ok := n[k]; ok {
				delete(n, k)
				c++
			}
		}
		return fmt.Sprintf(":%d\r\n", c), n
	}
	return "-E\r\n", m
}

func stateKey(m map[string]string) string {
	ks := make([]string, 0, len(m))
	for k := range m {
		ks = append(ks, k)
	}
	sort.Strings(ks)
	var sb strings.Builder
	for _, k := range ks {
		sb.WriteString(k + "=" + m[k] + ";")
	}
	return sb.String()
}

func linearizable(ops []*linOp) bool {
	n := len(ops)
	if n > 30 {
		return true
	}
	full := uint32(1)<<uint(n) - 1
	dead := map[string]bool{}
	var rec func(done uint32, m map[string]string) bool
	rec = func(done uint32, m map[string]string) bool {
		if done == full {
			return true
		}
		key := strconv.FormatUint(uint64(done), 16) + "|" + stateKey(m)
		if dead[key] {
			return false
		}
		for i := 0; i < n; i++ {
			if done&(1<<uint(i)) != 0 {
				continue
			}
			minimal := true
			for j := 0; j < n; j++ {
				if j != i && done&(1<<uint(j)) == 0 && ops[j].res < ops[i].inv {
					minimal = false
					break
				}
			}
			if !minimal {
				continue
			}
			out, m2 := seqApply(m, ops[i].argv)
			if out != string(ops[i].reply) {
				continue
			}
			if rec(done|1<<uint(i), m2) {
				return true
			}
		}
		dead[key] = true
		return false
	}
	return rec(0, map[string]string{})
}
