import GoRedisModel.Properties.C05
open GoRedis
#print axioms C05_placeholder
