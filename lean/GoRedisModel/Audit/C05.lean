import GoRedisModel.Properties.C05
open GoRedis
#print axioms C05_dispatch_table
#print axioms C05_reply_is_handler_result
#print axioms C05_exactly_one_call
#print axioms C05_set
#print axioms C05_kv_last_wins
#print axioms C05_list_order_preserved
#print axioms C05_unknown_command
#print axioms C05_case_insensitive
#print axioms C05_source_commands_match_model
#print axioms C05_expire
#print axioms C05_pop
#print axioms C05_scan
#print axioms C05_range_options
#print axioms C05_zrangebyscore
#print axioms C05_scan_invalid_utf8
#print axioms C05_zrange_index
#print axioms C05_zrange_byscore
#print axioms C05_zadd
#print axioms C05_source_shapes_match_model
#print axioms C05_source_ascii_case
#print axioms C05_app_executor_dispatched
#print axioms C05_app_executor_one_call
#print axioms C05_source_conn_loop_is_the_modelled_one
