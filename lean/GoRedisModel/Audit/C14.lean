import GoRedisModel.Properties.C14
open GoRedis
#print axioms C14_table_discipline
#print axioms C14_table_covers_shared_state
#print axioms C14_lifecycle_facts
#print axioms C14_prediction
#print axioms C14_site_block_follows
#print axioms C14_race_free
#print axioms C14_unguarded_site_rejected
#print axioms GoRedis.Lockset.conflicting_accesses_ordered
#print axioms GoRedis.Lockset.follows_disciplined
