import GoRedisModel.Properties.C04
open GoRedis
#print axioms C04_placeholder
