import GoRedisModel.Properties.C04
open GoRedis
#print axioms C04_every_write_is_a_frame
#print axioms C04_framed
#print axioms C04_line_reply_sanitised
#print axioms C04_uninterpretable_request
#print axioms C04_source_conn_loop_is_the_modelled_one
