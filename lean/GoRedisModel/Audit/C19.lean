import GoRedisModel.Properties.C19
open GoRedis
#print axioms C19_conn_end_releases
#print axioms C19_receive_always_releases
#print axioms C19_stop_releases
#print axioms C19_ending_removes_exactly
#print axioms C19_tls_fault_leaves_nothing
#print axioms C19_churn_baseline
#print axioms C19_source_releases_deferred
#print axioms C19_source_conn_loop_is_the_modelled_one
