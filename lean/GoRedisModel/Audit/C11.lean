import GoRedisModel.Properties.C11
open GoRedis
#print axioms C11_prefix_is_error
#print axioms C11_prefix_is_error_chunked
#print axioms C11_partial_request_not_executed
#print axioms C11_released
#print axioms C11_source_conn_loop_is_the_modelled_one
