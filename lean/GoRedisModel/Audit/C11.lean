import GoRedisModel.Properties.C11
open GoRedis
#print axioms C11_placeholder
