import GoRedisModel.Properties.C10
open GoRedis
#print axioms C10_placeholder
