import GoRedisModel.Properties.C10
open GoRedis
#print axioms C10_rejected_table
#print axioms C10_rejected_no_call
#print axioms C10_bad_integer_tokens
#print axioms C10_dangling_pair
#print axioms C10_mset_dangling
#print axioms C10_mset_empty
#print axioms C10_zadd_dangling_score
#print axioms C10_zadd_lone_score
#print axioms C10_set_conflict
#print axioms C10_set_bad_expiry
#print axioms C10_setex_nonpositive
#print axioms C10_zrange_fractional_index
#print axioms C10_strlen_missing_key
#print axioms C10_source_shapes_match_model
