import GoRedisModel.Properties.C01
open GoRedis
#print axioms C01_parse_enc
#print axioms C01_reencode
#print axioms C01_bulk_binary_safe
#print axioms C01_len_prefix
#print axioms C01_null_bulk
#print axioms C01_ctor_int
#print axioms C01_ctor_status
#print axioms C01_ctor_error
#print axioms C01_ctor_ok
#print axioms C01_ctor_bulk
#print axioms C01_ctor_nil
#print axioms C01_ctor_string_array
#print axioms C01_ctor_float
#print axioms C01_source_type_bytes
#print axioms C01_source_serializer_is_the_modelled_one
