import GoRedisModel.Properties.C12
open GoRedis
#print axioms C12_getrange_inrange
#print axioms C12_getrange_end_clamped
#print axioms C12_getrange_negative
#print axioms C12_getrange_empty
#print axioms C12_getrange_infix
#print axioms C12_getrange_missing_key
#print axioms C12_zrevrange_slice
#print axioms C12_reverse_pairs_even
#print axioms C12_incr_ok
#print axioms C12_incr_missing_key_is_zero
#print axioms C12_incr_overflow
#print axioms C12_incr_not_an_integer
#print axioms C12_append
#print axioms C12_append_missing_key
#print axioms C12_mget_order
#print axioms C12_config_get_after_set
#print axioms C12_hkeys_hvals
#print axioms C12_card
#print axioms C12_sismember
#print axioms C12_ping_echo
#print axioms C12_limit_members
#print axioms C12_limit_pairs
#print axioms C12_zrevrangebyscore_reply
