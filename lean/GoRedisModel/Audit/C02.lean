import GoRedisModel.Properties.C02
open GoRedis
#print axioms C02_next_chunked
#print axioms C02_exact_consumption
#print axioms C02_sequence
#print axioms C02_source_parser_is_the_modelled_one
