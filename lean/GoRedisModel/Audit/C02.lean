import GoRedisModel.Properties.C02
open GoRedis
#print axioms C02_next_chunked
#print axioms C02_exact_consumption
#print axioms C02_sequence
