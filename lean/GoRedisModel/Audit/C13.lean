import GoRedisModel.Properties.C13
open GoRedis
#print axioms C13_noninterference
#print axioms C13_defaults
#print axioms C13_user_commands_keep_state
#print axioms C13_select
#print axioms C13_select_failed
