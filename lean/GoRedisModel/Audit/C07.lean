import GoRedisModel.Properties.C07
open GoRedis
#print axioms C07_placeholder
