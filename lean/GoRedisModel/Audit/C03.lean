import GoRedisModel.Properties.C03
open GoRedis
#print axioms C03_placeholder
