import GoRedisModel.Properties.C03
open GoRedis
#print axioms C03_loop_is_request_semantics
#print axioms C03_one_reply_each
#print axioms C03_replies_in_order
#print axioms C03_reply_count
#print axioms C03_reply_before_next
#print axioms C03_quit_cuts_off
#print axioms C03_quit_reply
#print axioms C03_handler_error_usable
#print axioms C03_handler_error_reply
#print axioms C03_zadd_flags_terminate
#print axioms C03_no_read_ahead
#print axioms GoRedis.inext_frame
#print axioms C03_source_conn_loop_is_the_modelled_one
