import GoRedisModel.Properties.C20
open GoRedis
#print axioms C20_balanced
#print axioms C20_executor_balanced
#print axioms C20_request_block
