import GoRedisModel.Properties.C20
open GoRedis
#print axioms C20_placeholder
