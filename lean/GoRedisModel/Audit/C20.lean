import GoRedisModel.Properties.C20
open GoRedis
#print axioms C20_balanced
#print axioms C20_executor_balanced
#print axioms C20_request_block
#print axioms C20_source_conn_loop_is_the_modelled_one
