import GoRedisModel.Properties.C17
open GoRedis
#print axioms C17_matcher_correct
#print axioms C17_translation
#print axioms C17_translation_correct
#print axioms C17_metacharacters_quoted
#print axioms C17_total
#print axioms C17_scan_uses_glob
#print axioms C17_fast_matcher
#print axioms C17_source_glob_is_the_modelled_one
