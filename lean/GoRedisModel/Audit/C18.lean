import GoRedisModel.Properties.C18
open GoRedis
#print axioms C18_get_after_set
#print axioms C18_set_leaves_other_keys
#print axioms C18_exists_after_set
#print axioms C18_del_removes
#print axioms C18_del_counts_existing
#print axioms C18_rename_onto_itself
#print axioms C18_rename_moves
#print axioms C18_renamenx_existing_target
#print axioms C18_type
#print axioms C18_rpush_appends
#print axioms C18_lpush_prepends_in_argument_order
#print axioms C18_lrange_all
#print axioms C18_lpop_takes_the_head
#print axioms C18_rpop_takes_the_tail
#print axioms C18_llen_does_not_create
#print axioms C18_emptied_list_is_removed
#print axioms C18_sadd_no_duplicates
#print axioms C18_one_entry_per_member
#print axioms zInsert_mem
