import GoRedisModel.Properties.C08
open GoRedis
#print axioms C08_gate
#print axioms C08_per_connection
#print axioms C08_refusal
#print axioms C08_exact_succeeds
#print axioms C08_dictionary
#print axioms authCreds_one
#print axioms authCreds_two
#print axioms C08_source_gate
