import GoRedisModel.Properties.C16
open GoRedis
#print axioms C16_checker_sound
#print axioms C16_checker_complete
#print axioms C16_checker_decides
#print axioms C16_serialized_server_linearizable
#print axioms C16_dispatch_is_serialized
#print axioms C16_setnx_one_winner
#print axioms C16_lost_update_rejected
#print axioms C16_no_lost_update_accepted
#print axioms C16_lost_update_not_linearizable
#print axioms C16_stale_read_rejected
#print axioms GoRedis.Lin.sys_linearizable
#print axioms GoRedis.Lin.atomic_linearizable
