import GoRedisModel.Properties.C09
open GoRedis
#print axioms C09_served_only_if
#print axioms C09_intermediate_name_is_not_enough
#print axioms C09_unverified_never_served
#print axioms C09_no_command_for_rejected
#print axioms C09_listeners_survive
#print axioms C09_good_client_served_afterwards
#print axioms C09_credential_table
#print axioms C09_ca_fixed_by_clients
#print axioms C09_only_current_ca
#print axioms C09_rotation_effective
#print axioms C09_retired_ca_rejected
#print axioms C09_source_lifecycle_is_the_modelled_one
