import GoRedisModel.Properties.C06
open GoRedis
#print axioms C06_total
#print axioms C06_no_absent
#print axioms C06_progress
#print axioms C06_bulk_limit
#print axioms C06_truncated_array_is_error
#print axioms C06_source_bulk_length
