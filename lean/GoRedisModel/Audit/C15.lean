import GoRedisModel.Properties.C15
open GoRedis
#print axioms C15_invariant
#print axioms C15_serving
#print axioms C15_stop_clean
#print axioms C15_registry_exact
#print axioms C15_exiting_loop_is_harmless
#print axioms C15_stop_waits_for_loops
#print axioms C15_stop_waits_for_connections
#print axioms C15_seq_stop
#print axioms C15_seq_start_serves
#print axioms C15_source_lifecycle
#print axioms C15_source_lifecycle_is_the_modelled_one
