import GoRedisModel.Model.Resp
/-! The flat reference reader: recursive descent over one byte list.  This is the *specification* of the
parser; `ParserImpl` mirrors `parser.go` read by read over a chunked transport and is proved equal to it. -/
namespace GoRedis

/-- `nextLineBytes` on a flat stream: bytes up to the first CR; the CR and the byte after it are dropped
(whatever that byte is); at end of stream the bytes read so far are returned. -/
def takeLine : Bytes → Bytes × Bytes
  | [] => ([], [])
  | b :: bs => if b == CR then ([], bs.drop 1) else ((takeLine bs).1.cons b, (takeLine bs).2)

inductive PRes where
  | ok (m : Msg) (rest : Bytes)
  | eof            -- clean end of stream: no byte of a next value was available
  | err            -- protocol error (the connection loop drops the connection)
  | fuel           -- nesting deeper than the fuel; never for fuel > input length
deriving Repr, Inhabited

/-- the element loop of `newArrayWithParser`; an element that hits end of stream is an error -/
def parseElems (p : Bytes → PRes) : Nat → Bytes → List Msg → PRes
  | 0, r, acc => .ok (.arr acc.reverse) r
  | n+1, r, acc =>
    match p r with
    | .ok m r' => parseElems p n r' (m :: acc)
    | .eof => .err
    | e => e

def parse : Nat → Bytes → PRes
  | 0, _ => .fuel
  | _+1, [] => .eof
  | f+1, t :: bs =>
    if t == arrayByte then
      match atoi (takeLine bs).1 with
      | none => .err
      | some n => if n < 0 then .ok (.arr []) (takeLine bs).2
                  else parseElems (parse f) n.toNat (takeLine bs).2 []
    else if t == bulkByte then
      match atoi (takeLine bs).1 with
      | none => .err
      | some n =>
        if n < 0 then .ok (.bulk none) (takeLine bs).2
        else if n.toNat > maxBulk then .err
        else
          let r := (takeLine bs).2
          let k := n.toNat
          if r.length < k + 2 then .err
          else if (r.drop k).take 2 == CRLF then .ok (.bulk (some (r.take k))) (r.drop (k+2))
          else .err
    else match lineTy? t with
      | none => .err
      | some ty => .ok (.line ty (takeLine bs).1) (takeLine bs).2

/-- Parse values until end of stream or error: the values, and how the stream ended. -/
def parseAll : Nat → Nat → Bytes → List Msg × PRes
  | 0, _, _ => ([], .fuel)
  | k+1, f, bs =>
    match parse f bs with
    | .ok m rest => let (ms, e) := parseAll k f rest; (m :: ms, e)
    | e => ([], e)

end GoRedis
