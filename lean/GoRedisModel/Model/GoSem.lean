import GoRedisModel.Model.Dec
/-! The fragment of Go's semantics that `bin/extract`'s translator (`harness/cmd/extract/translate.go`) targets.
`Generated/Translated.lean` is written by that translator from /repo's source on every run: straight-line integer
code with `if` and `return` becomes a Lean definition over these operations, statement for statement.  Go's `int` is
64 bits wide: `+`, `-` and unary `-` wrap around (`wadd`, `wsub`, `wneg`); a slice or index expression outside the
bounds is a run-time panic (`Res.panic`), not a default value. -/
namespace GoRedis.GoSem

def wadd (a b : Int) : Int := wrap64 (a + b)
def wsub (a b : Int) : Int := wrap64 (a - b)
def wneg (a : Int) : Int := wrap64 (-a)
def wmul (a b : Int) : Int := wrap64 (a * b)
/-- `^a` -/
def wnot (a : Int) : Int := -a - 1

/-- the outcome of a translated fragment: a value, a Go `error` return, or a run-time panic -/
inductive Res (α : Type) where
  | ok (a : α)
  | err (text : String)
  | panic
  deriving Repr, DecidableEq

/-- `x[lo:hi]` (`none` = panic: "slice bounds out of range") -/
def slice {α : Type} (x : List α) (lo hi : Int) : Option (List α) :=
  if 0 ≤ lo ∧ lo ≤ hi ∧ hi ≤ (x.length : Int) then some ((x.drop lo.toNat).take (hi.toNat - lo.toNat)) else none
/-- `x[lo:]` -/
def sliceFrom {α : Type} (x : List α) (lo : Int) : Option (List α) :=
  if 0 ≤ lo ∧ lo ≤ (x.length : Int) then some (x.drop lo.toNat) else none
/-- `x[:hi]` -/
def sliceTo {α : Type} (x : List α) (hi : Int) : Option (List α) :=
  if 0 ≤ hi ∧ hi ≤ (x.length : Int) then some (x.take hi.toNat) else none
/-- `x[i]` (`none` = panic: "index out of range") -/
def index {α : Type} (x : List α) (i : Int) : Option α :=
  if 0 ≤ i ∧ i < (x.length : Int) then x[i.toNat]? else none

end GoRedis.GoSem
