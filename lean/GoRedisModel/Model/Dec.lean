import GoRedisModel.Model.Bytes
/-! Decimal printing and reading: `strconv.Itoa` / `strconv.Atoi` for a 64-bit `int`. -/
namespace GoRedis

/-- One decimal digit as its ASCII byte.  Kept as a named function so `simp` does not normalise it away. -/
def digit (d : Nat) : UInt8 := (48 + d).toUInt8

/-- Digits of `n`, most significant first; `fuel` bounds the number of digits. -/
def natDigits : Nat → Nat → Bytes
  | 0, _ => []
  | f+1, n => if n < 10 then [digit n] else natDigits f (n / 10) ++ [digit (n % 10)]

/-- `strconv.Itoa` on a non-negative value. -/
def dec (n : Nat) : Bytes := natDigits (n + 1) n

/-- `strconv.Itoa`. -/
def itoa (i : Int) : Bytes :=
  match i with
  | .ofNat n => dec n
  | .negSucc n => 45 :: dec (n + 1)

/-- digits → value; `none` if a non-digit occurs.  (Empty input is handled by the caller.) -/
def digitsVal : Bytes → Nat → Option Nat
  | [], acc => some acc
  | b :: bs, acc => if 48 ≤ b ∧ b ≤ 57 then digitsVal bs (acc * 10 + (b.toNat - 48)) else none

def maxInt : Nat := 9223372036854775807

/-- `strconv.Atoi` for a 64-bit `int`: optional sign, at least one ASCII digit, nothing else, in range. -/
def atoi (s : Bytes) : Option Int :=
  match s with
  | [] => none
  | 45 :: ds => if ds = [] then none else
      match digitsVal ds 0 with
      | some v => if v ≤ maxInt + 1 then some (- (v : Int)) else none
      | none => none
  | 43 :: ds => if ds = [] then none else
      match digitsVal ds 0 with
      | some v => if v ≤ maxInt then some v else none
      | none => none
  | ds => match digitsVal ds 0 with
      | some v => if v ≤ maxInt then some v else none
      | none => none

/-- 64-bit two's-complement wrap of an integer (Go `int` arithmetic). -/
def wrap64 (i : Int) : Int :=
  let m := i % 18446744073709551616
  if m ≥ 9223372036854775808 then m - 18446744073709551616 else m

def inInt64 (i : Int) : Bool := decide (-9223372036854775808 ≤ i ∧ i ≤ 9223372036854775807)

end GoRedis
