import GoRedisModel.Model.Conn
/-! A Redis-like reference store: the primitive handler operations with the semantics of the Redis command
reference (DESIGN.md Appendix B).  It is the specification the bundled example store is compared with (C18)
and the "primitive operations that behave like Redis" under the framework-implemented commands (C12).

Scores are exact: a score is an integer number of halves (so 1, -0.5, 2.5 … are representable and add
exactly); range bounds may also be ±∞.  No floating point appears in any definition or theorem. -/
namespace GoRedis

inductive Val where
  | str (v : Bytes)
  | hash (fs : List (Bytes × Bytes))      -- one entry per field, insertion order
  | list (es : List Bytes)
  | set (ms : List Bytes)                 -- no duplicates, insertion order
  | zset (ms : List (Int × Bytes))        -- sorted by (score, member), one entry per member
deriving Repr, DecidableEq, Inhabited

/-- keys in insertion order, one entry per key -/
abbrev Store := List (Bytes × Val)

def Store.get (s : Store) (k : Bytes) : Option Val := s.lookup k
def Store.del (s : Store) (k : Bytes) : Store := s.filter fun p => p.1 != k
/-- replace in place, or append a new key -/
def Store.put : Store → Bytes → Val → Store
  | [], k, v => [(k, v)]
  | (k', v') :: rest, k, v => if k' == k then (k, v) :: rest else (k', v') :: Store.put rest k v

/-- a score or a range bound -/
inductive Bound where
  | fin (halves : Int)
  | posInf
  | negInf
deriving Repr, DecidableEq, Inhabited

/-- decoding of the float bit patterns that occur in a case (supplied with the case: the inverse of the float
table restricted to the exactly representable pool) -/
abbrev ScoreTable := UInt64 → Option Bound

/-- bytewise lexicographic order on members -/
def bytesLt : Bytes → Bytes → Bool
  | [], [] => false
  | [], _ :: _ => true
  | _ :: _, [] => false
  | a :: as, b :: bs => a < b || (a == b && bytesLt as bs)

/-- order of a sorted set: by score, then by member -/
def zLt (a b : Int × Bytes) : Bool := a.1 < b.1 || (a.1 == b.1 && bytesLt a.2 b.2)

def zInsert (x : Int × Bytes) : List (Int × Bytes) → List (Int × Bytes)
  | [] => [x]
  | y :: ys => if zLt x y then x :: y :: ys else y :: zInsert x ys

/-- `strconv.FormatFloat(score, 'g', -1, 64)` for a score that is an exact number of halves below 2^53: plain decimal
notation below 10^6, exponent notation `d.ddde+XX` (shortest digits = the exact decimal digits without trailing zeros)
from 10^6 on -/
def fmtScore (h : Int) : Bytes :=
  if h.natAbs < 2000000 then
    if h % 2 = 0 then itoa (h / 2)
    else (if h < 0 then b!"-" else []) ++ dec (h.natAbs / 2) ++ b!".5"
  else
    let n := h.natAbs
    -- the decimal digits of |h|/2, and the exponent of the leading digit
    let digits := if n % 2 = 0 then dec (n / 2) else dec (n * 5)
    let exp := if n % 2 = 0 then digits.length - 1 else digits.length - 2
    let m := (digits.reverse.dropWhile (· == 48)).reverse
    (if h < 0 then b!"-" else []) ++ m.take 1 ++ (if m.length > 1 then b!"." ++ m.drop 1 else []) ++
      b!"e+" ++ (if exp < 10 then b!"0" else []) ++ dec exp

example : fmtScore 33554434 = b!"1.6777217e+07" ∧ fmtScore 2000001 = b!"1.0000005e+06" ∧ fmtScore 2000000 = b!"1e+06" ∧
    fmtScore (-24000000) = b!"-1.2e+07" ∧ fmtScore 1999999 = b!"999999.5" ∧ fmtScore (-3) = b!"-1.5" := by decide

/-- Redis index normalisation for LRANGE / ZRANGE / LINDEX: negative indexes count from the end; the range
is clamped to the sequence; `none` = empty -/
def rangeBounds (len start stop : Int) : Option (Nat × Nat) :=
  let s := max 0 (normIdx len start)
  let e := min (len - 1) (normIdx len stop)
  if s > e then none else some (s.toNat, e.toNat)

def rangeSlice {α : Type} (l : List α) (start stop : Int) : List α :=
  match rangeBounds l.length start stop with
  | none => []
  | some (s, e) => (l.drop s).take (e + 1 - s)

def inBound (lo hi : Bound) (loEx hiEx : Bool) (score : Int) : Bool :=
  (match lo with
   | .negInf => true
   | .posInf => false
   | .fin l => if loEx then l < score else l ≤ score) &&
  (match hi with
   | .posInf => true
   | .negInf => false
   | .fin h => if hiEx then score < h else score ≤ h)

/-- LIMIT offset count: skip `offset`, take `count` (negative count = all); a negative offset selects nothing -/
def limitSlice {α : Type} (l : List α) (offset count : Int) : List α :=
  if offset < 0 then [] else
  let rest := l.drop offset.toNat
  if count < 0 then rest else rest.take count.toNat

def okRes (m : Msg) : HRes := { msg := m }
def errRes (t : Bytes) : HRes := { err := some t }
def intRes (n : Int) : HRes := okRes (newInteger n)
def bulks' (l : List Bytes) : Msg := .arr (l.map newBulk)

def typeName : Val → Bytes
  | .str _ => b!"string" | .hash _ => b!"hash" | .list _ => b!"list" | .set _ => b!"set" | .zset _ => b!"zset"

def dedup : List Bytes → List Bytes
  | [] => []
  | x :: xs => if xs.contains x then dedup xs else x :: dedup xs

def zMembers (withscores : Bool) (l : List (Int × Bytes)) : Msg :=
  .arr (l.flatMap fun p => if withscores then [newBulk p.2, newBulk (fmtScore p.1)] else [newBulk p.2])

/-- put a container back, or drop the key when it became empty -/
def Store.putOrDrop (s : Store) (k : Bytes) (v : Val) : Store :=
  let empty := match v with
    | .hash fs => fs.isEmpty | .list es => es.isEmpty | .set ms => ms.isEmpty | .zset ms => ms.isEmpty | .str _ => false
  if empty then s.del k else s.put k v

/-- one (score, member) pair of ZADD: the member's entry moves to its new score; it counts when the member is new
(a score the case's table cannot decode is outside the program space: skipped) -/
def zaddStep (sc : ScoreTable) (acc : Int × List (Int × Bytes)) (p : UInt64 × Bytes) : Int × List (Int × Bytes) :=
  match sc p.1 with
  | some (.fin h) =>
    let isNew := !(acc.2.any fun q => q.2 == p.2)
    (if isNew then acc.1 + 1 else acc.1, zInsert (h, p.2) (acc.2.filter fun q => q.2 != p.2))
  | _ => acc

/-- the pairs of a ZADD with their scores decoded -/
def decodeScores (sc : ScoreTable) (ms : List (UInt64 × Bytes)) : List (Int × Bytes) :=
  ms.filterMap fun p => match sc p.1 with | some (.fin h) => some (h, p.2) | _ => none

/-- the primitive handler operations -/
def refHandle (sc : ScoreTable) (c : HCall) (s : Store) : HRes × Store :=
  match c with
  | .get k => (match s.get k with
      | some (.str v) => (okRes (newBulk v), s)
      | _ => (okRes newNil, s))
  | .set k v o =>
    if o.nx then (if (s.get k).isSome then (intRes 0, s) else (intRes 1, s.put k (.str v)))
    else if o.get then
      let old := match s.get k with | some (.str x) => newBulk x | _ => newNil
      (okRes old, s.put k (.str v))
    else (okRes okMsg, s.put k (.str v))
  | .del ks =>
    let (n, s') := ks.foldl (fun (acc : Int × Store) k => if (acc.2.get k).isSome then (acc.1 + 1, acc.2.del k) else acc) (0, s)
    (intRes n, s')
  | .exists_ ks => (intRes (ks.filter fun k => (s.get k).isSome).length, s)
  | .type_ k => (okRes (newStatus ((s.get k).elim b!"none" typeName)), s)
  | .keys p => (okRes (bulks' ((s.map Prod.fst).filter (globMatch p))), s)
  | .rename k nk nx =>
    (match s.get k with
     | none => (errRes b!"not found", s)
     | some v =>
       if nx && (s.get nk).isSome then (intRes 0, s)
       else if k = nk then (okRes (if nx then newInteger 1 else okMsg), s)
       else (okRes (if nx then newInteger 1 else okMsg), ((s.del k).put nk v)))
  | .hset k f v nx =>
    (match s.get k with
     | some (.hash fs) =>
       (match fs.lookup f with
        | some _ => if nx then (intRes 0, s) else (intRes 0, s.put k (.hash (fs.map fun p => if p.1 == f then (f, v) else p)))
        | none => (intRes 1, s.put k (.hash (fs ++ [(f, v)]))))
     | _ => (intRes 1, s.put k (.hash [(f, v)])))
  | .hget k f => (match s.get k with
      | some (.hash fs) => (okRes ((fs.lookup f).elim newNil newBulk), s)
      | _ => (okRes newNil, s))
  | .hgetall k => (match s.get k with
      | some (.hash fs) => (okRes (.arr (fs.flatMap fun p => [newBulk p.1, newBulk p.2])), s)
      | _ => (okRes (.arr []), s))
  | .hdel k fs' => (match s.get k with
      | some (.hash fs) =>
        let gone := (dedup fs').filter fun f => (fs.lookup f).isSome
        (intRes gone.length, s.putOrDrop k (.hash (fs.filter fun p => !gone.contains p.1)))
      | _ => (intRes 0, s))
  | .lpush k es x => (match s.get k with
      | some (.list l) => let l' := es.reverse ++ l; (intRes l'.length, s.put k (.list l'))
      | none => if x then (intRes 0, s) else (intRes es.length, s.putOrDrop k (.list es.reverse))
      | _ => (errRes b!"wrong type", s))
  | .rpush k es x => (match s.get k with
      | some (.list l) => let l' := l ++ es; (intRes l'.length, s.put k (.list l'))
      | none => if x then (intRes 0, s) else (intRes es.length, s.putOrDrop k (.list es))
      | _ => (errRes b!"wrong type", s))
  | .lpop k n => (match s.get k with
      | some (.list l) =>
        if n < 1 then (okRes newNil, s) else
        let popped := l.take n.toNat
        let s' := s.putOrDrop k (.list (l.drop n.toNat))
        if popped.isEmpty then (okRes newNil, s')
        else if n = 1 then (okRes (newBulk (popped.headD [])), s') else (okRes (bulks' popped), s')
      | _ => (okRes newNil, s))
  | .rpop k n => (match s.get k with
      | some (.list l) =>
        if n < 1 then (okRes newNil, s) else
        let popped := (l.reverse.take n.toNat)
        let s' := s.putOrDrop k (.list (l.take (l.length - n.toNat)))
        if popped.isEmpty then (okRes newNil, s')
        else if n = 1 then (okRes (newBulk (popped.headD [])), s') else (okRes (bulks' popped), s')
      | _ => (okRes newNil, s))
  | .lrange k a b => (match s.get k with
      | some (.list l) => (okRes (bulks' (rangeSlice l a b)), s)
      | _ => (okRes (.arr []), s))
  | .lindex k i => (match s.get k with
      | some (.list l) => (okRes ((rangeSlice l i i).head?.elim newNil newBulk), s)
      | _ => (okRes newNil, s))
  | .llen k => (match s.get k with
      | some (.list l) => (intRes l.length, s)
      | _ => (intRes 0, s))
  | .sadd k ms => (match s.get k with
      | some (.set cur) =>
        let fresh := (dedup ms.reverse).reverse.filter fun m => !cur.contains m
        (intRes fresh.length, s.put k (.set (cur ++ fresh)))
      | none => let fresh := (dedup ms.reverse).reverse; (intRes fresh.length, s.putOrDrop k (.set fresh))
      | _ => (errRes b!"wrong type", s))
  | .smembers k => (match s.get k with
      | some (.set cur) => (okRes (bulks' cur), s)
      | _ => (okRes (.arr []), s))
  | .srem k ms => (match s.get k with
      | some (.set cur) =>
        let gone := (dedup ms).filter fun m => cur.contains m
        (intRes gone.length, s.putOrDrop k (.set (cur.filter fun m => !gone.contains m)))
      | _ => (intRes 0, s))
  | .zadd k ms _ =>
    (match (match s.get k with | some (.zset cur) => some cur | none => some [] | _ => none) with
     | none => (errRes b!"wrong type", s)
     | some cur =>
       let (n, cur') := ms.foldl (zaddStep sc) (0, cur)
       (intRes n, s.putOrDrop k (.zset cur')))
  | .zrange k a b o => (match s.get k with
      -- with REV the indexes count from the highest (score, member): the slice of the descending order
      | some (.zset cur) => (okRes (zMembers o.withscores (rangeSlice (if o.rev then cur.reverse else cur) a b)), s)
      | _ => (okRes (.arr []), s))
  | .zrangebyscore k lo hi o => (match s.get k with
      | some (.zset cur) =>
        (match sc lo, sc hi with
         | some l, some h =>
           let sel := cur.filter fun p => inBound l h o.minex o.maxex p.1
           (okRes (zMembers o.withscores (limitSlice sel o.offset o.count)), s)
         | _, _ => (okRes (.arr []), s))
      | _ => (okRes (.arr []), s))
  | .zrem k ms => (match s.get k with
      | some (.zset cur) =>
        let gone := (dedup ms).filter fun m => cur.any fun q => q.2 == m
        (intRes gone.length, s.putOrDrop k (.zset (cur.filter fun q => !gone.contains q.2)))
      | _ => (intRes 0, s))
  | .zscore k m => (match s.get k with
      | some (.zset cur) => (okRes ((cur.find? fun q => q.2 == m).elim newNil fun q => newBulk (fmtScore q.1)), s)
      | _ => (okRes newNil, s))
  | .zincrby k inc m =>
    (match (match s.get k with | some (.zset cur) => some cur | none => some [] | _ => none), sc inc with
     | some cur, some (.fin d) =>
       let old := (cur.find? fun q => q.2 == m).elim 0 Prod.fst
       let nw := old + d
       (okRes (newBulk (fmtScore nw)), s.put k (.zset (zInsert (nw, m) (cur.filter fun q => q.2 != m))))
     | _, _ => (errRes b!"wrong type or score", s))
  -- operations outside the claimed program space (expiry, cursors, authentication): inert
  | .expire _ _ _ _ => (intRes 0, s)
  | .ttl _ => (intRes (-1), s)
  | .scan _ _ _ => (okRes (.arr [newBulk b!"0", .arr []]), s)
  | .auth _ _ => (okRes okMsg, s)

/-! ## Running executors against a stateful handler -/

/-- run against a handler function with state `σ` -/
def Prog.runH {α σ : Type} (view : ConnSt) (h : HCall → σ → HRes × σ) : Prog α → σ → List Ev × Option α × σ
  | .ret a, s => ([], some a, s)
  | .panic, s => ([], none, s)
  | .emit e k, s => let (evs, a, s') := Prog.runH view h k s; (Prog.SpanOp.ev e :: evs, a, s')
  | .call c k, s =>
    let (r, s1) := h c s
    let (evs, a, s') := Prog.runH view h (k r) s1
    (.hcall c view :: evs, a, s')

def UProg.runH {α σ : Type} (h : HCall → σ → HRes × σ) : UProg α → σ → Option α × σ
  | .ret a, s => (some a, s)
  | .panic, s => (none, s)
  | .call c k, s => let (r, s1) := h c s; UProg.runH h (k r) s1

/-- the connection loop over a stateful handler (same loop as `serveLoop`, the handler is a function instead of
a script) -/
def serveLoopH {σ : Type} (pf : FloatOracle) (h : HCall → σ → HRes × σ) : Nat → SrvSt → ConnSt → Bytes → σ → List Ev
  | 0, _, _, _, _ => []
  | n+1, srv, conn, input, st =>
    [Ev.rootStart, .spanStart b!"parse"] ++
    match parse (input.length + 1) input with
    | .ok m rest =>
      let (evs, res, st') := (handleMessage pf srv conn m).runH conn h st
      Ev.spanFinish :: (evs ++ match res with
        | none => [.crash]
        | some (out, conn', srv') =>
          match replyBytes out with
          | none => [.spanStart b!"response", .crash]
          | some bs =>
            [.spanStart b!"response", .wr bs, .spanFinish, .topFinish] ++
              if out.isQuit then [] else serveLoopH pf h n srv' conn' rest st')
    | _ => [.spanFinish, .topFinish]

/-- the handler state at the end of the connection (same loop as `serveLoopH`) -/
def serveLoopFinal {σ : Type} (pf : FloatOracle) (h : HCall → σ → HRes × σ) : Nat → SrvSt → ConnSt → Bytes → σ → σ
  | 0, _, _, _, st => st
  | n+1, srv, conn, input, st =>
    match parse (input.length + 1) input with
    | .ok m rest =>
      let (_, res, st') := (handleMessage pf srv conn m).runH conn h st
      (match res with
        | none => st'
        | some (out, conn', srv') =>
          match replyBytes out with
          | none => st'
          | some _ => if out.isQuit then st' else serveLoopFinal pf h n srv' conn' rest st')
    | _ => st

end GoRedis
