import GoRedisModel.Model.Bytes
/-! The lifecycle as a transition system over *all interleavings* of the application thread's
Start / Stop (in its four phases) with the accept loops and the connection goroutines
(`server.go` after the lifecycle repair).  An action that is not enabled leaves the state unchanged, so a
schedule is any list of actions. -/
namespace GoRedis

structure LoopSt where
  gen : Nat
  tls : Bool
  exited : Bool := false
deriving Repr, DecidableEq, Inhabited

structure ConnG where
  id : Nat
  /-- in the connection registry -/
  registered : Bool := true
  /-- the server side of the socket is open -/
  sockOpen : Bool := true
  /-- the connection goroutine is alive -/
  alive : Bool := true
deriving Repr, DecidableEq, Inhabited

inductive StopPhase | idle | closedListeners | waitedLoops | closedConns
deriving Repr, DecidableEq, Inhabited

structure LS where
  gen : Nat := 0
  /-- generation of the listeners the server's fields hold (`none` = nil fields) -/
  field : Option Nat := none
  /-- listeners currently open: (generation, tls?) -/
  openL : List (Nat × Bool) := []
  loops : List LoopSt := []
  conns : List ConnG := []
  nextId : Nat := 0
  phase : StopPhase := .idle
  plain : Bool := true
  tls : Bool := false
deriving Repr, Inhabited

inductive LAct where
  | start                      -- Start: open the listeners, spawn the accept loops
  | accept (gen : Nat) (tls : Bool)   -- an accept loop accepts a client: registered, goroutine started
  | connEnd (id : Nat)         -- a connection goroutine ends (client gone, QUIT, error, closed by Stop)
  | clientClose (id : Nat)     -- the client side goes away (the goroutine will end)
  | stopCloseListeners         -- Stop, phase 1
  | loopExit (gen : Nat) (tls : Bool) -- an accept loop whose listener was closed returns
  | stopWaitLoops              -- Stop, phase 2: `acceptGroup.Wait()` returns
  | stopCloseConns             -- Stop, phase 3: `ConnManager.Stop()`
  | stopWaitConns              -- Stop, phase 4: `connGroup.Wait()` returns; Stop returns
deriving Repr, DecidableEq, Inhabited

def LS.kinds (s : LS) : List Bool := (if s.plain then [false] else []) ++ (if s.tls then [true] else [])

def LS.step (s : LS) : LAct → LS
  | .start =>
    -- Start while running fails in `open` (address in use) and leaves everything as it is; Start during a Stop
    -- cannot happen (same application thread)
    if s.field.isSome || s.phase != .idle then s else
    let g := s.gen + 1
    { s with gen := g, field := some g, openL := s.openL ++ s.kinds.map (fun k => (g, k)),
             loops := s.loops ++ s.kinds.map (fun k => { gen := g, tls := k }) }
  | .accept g k =>
    if s.openL.contains (g, k) && s.loops.any (fun l => l.gen == g && l.tls == k && !l.exited) then
      { s with conns := s.conns ++ [{ id := s.nextId }], nextId := s.nextId + 1 }
    else s
  | .clientClose _ => s
  | .connEnd id =>
    { s with conns := s.conns.map fun c => if c.id == id then { c with registered := false, sockOpen := false, alive := false } else c }
  | .stopCloseListeners =>
    if s.phase != .idle then s else
    match s.field with
    | none => { s with phase := .closedListeners }
    | some g => { s with field := none, openL := s.openL.filter (fun l => l.1 != g), phase := .closedListeners }
  | .loopExit g k =>
    if s.openL.contains (g, k) then s else
    { s with loops := s.loops.map fun l => if l.gen == g && l.tls == k then { l with exited := true } else l }
  | .stopWaitLoops =>
    if s.phase == .closedListeners && s.loops.all (fun l => l.exited) then { s with phase := .waitedLoops, loops := [] } else s
  | .stopCloseConns =>
    if s.phase == .waitedLoops then
      { s with phase := .closedConns,
               conns := s.conns.map fun c => if c.registered then { c with registered := false, sockOpen := false } else c }
    else s
  | .stopWaitConns =>
    if s.phase == .closedConns && s.conns.all (fun c => !c.alive) then { s with phase := .idle, conns := [] } else s

def LS.run (s : LS) (sched : List LAct) : LS := sched.foldl LS.step s

end GoRedis
