import GoRedisModel.Model.Args
/-! The handler interfaces (`handler.go`, `options.go`) as abstract calls. -/
namespace GoRedis

inductive ExpKind | ex | px | exat | pxat
deriving Repr, DecidableEq, Inhabited

structure SetOpt where
  nx : Bool := false
  xx : Bool := false
  keepttl : Bool := false
  get : Bool := false
  /-- the expiry option and its integer argument as sent (seconds, milliseconds, unix seconds, unix ms) -/
  expire : Option (ExpKind × Int) := none
deriving Repr, DecidableEq, Inhabited

inductive ExpFlag | none | nx | xx | gt | lt
deriving Repr, DecidableEq, Inhabited

structure ZAddOpt where
  xx : Bool := false
  nx : Bool := false
  lt : Bool := false
  gt : Bool := false
  ch : Bool := false
  incr : Bool := false
deriving Repr, DecidableEq, Inhabited

structure ZRangeOpt where
  byscore : Bool := false
  bylex : Bool := false
  rev : Bool := false
  withscores : Bool := false
  minex : Bool := false
  maxex : Bool := false
  offset : Int := 0
  count : Int := -1
deriving Repr, DecidableEq, Inhabited

/-- One call on the application's command handler, with exactly the decoded arguments.
Floats are IEEE-754 bit patterns; EXPIRE carries the relative seconds, EXPIREAT the unix seconds. -/
inductive HCall where
  | auth (user pass : Bytes)
  | del (keys : List Bytes)
  | exists_ (keys : List Bytes)
  | expire (key : Bytes) (relative : Bool) (secs : Int) (flag : ExpFlag)
  | keys (pattern : Bytes)
  | rename (key newkey : Bytes) (nx : Bool)
  | type_ (key : Bytes)
  | ttl (key : Bytes)
  | scan (cursor : Int) (regex : Bytes) (count : Int)
  | get (key : Bytes)
  | set (key val : Bytes) (opt : SetOpt)
  | hdel (key : Bytes) (fields : List Bytes)
  | hset (key field val : Bytes) (nx : Bool)
  | hget (key field : Bytes)
  | hgetall (key : Bytes)
  | lpush (key : Bytes) (elems : List Bytes) (x : Bool)
  | rpush (key : Bytes) (elems : List Bytes) (x : Bool)
  | lpop (key : Bytes) (count : Int)
  | rpop (key : Bytes) (count : Int)
  | lrange (key : Bytes) (start stop : Int)
  | lindex (key : Bytes) (index : Int)
  | llen (key : Bytes)
  | sadd (key : Bytes) (members : List Bytes)
  | smembers (key : Bytes)
  | srem (key : Bytes) (members : List Bytes)
  | zadd (key : Bytes) (members : List (UInt64 × Bytes)) (opt : ZAddOpt)
  | zrange (key : Bytes) (start stop : Int) (opt : ZRangeOpt)
  | zrangebyscore (key : Bytes) (min max : UInt64) (opt : ZRangeOpt)
  | zrem (key : Bytes) (members : List Bytes)
  | zscore (key member : Bytes)
  | zincrby (key : Bytes) (inc : UInt64) (member : Bytes)
deriving Repr, DecidableEq, Inhabited

/-- What a handler method returns: Go's `(*Message, error)`; `msg = .absent` is a nil message. -/
structure HRes where
  msg : Msg := .absent
  err : Option Bytes := none
deriving Repr, Inhabited

end GoRedis
