import GoRedisModel.Model.Conn
import GoRedisModel.Model.Wire
/-! Canonical text of handler calls and traces (the observable the tie compares). -/
namespace GoRedis

def b01 (b : Bool) : String := if b then "1" else "0"
def hexList (l : List Bytes) : String := "[" ++ String.intercalate "," (l.map hex) ++ "]"

def hex16 (v : UInt64) : String :=
  let rec go : Nat → Nat → List Char → List Char
    | 0, _, acc => acc
    | k+1, n, acc => go k (n / 16) (hexDigit (n % 16) :: acc)
  String.ofList (go 16 v.toNat [])

def showExp : Option (ExpKind × Int) → String
  | none => "-"
  | some (.ex, n) => let v := wrap64 (n * 1000000000); if v = 0 then "-" else s!"ex:{v}"
  | some (.px, n) => let v := wrap64 (n * 1000000); if v = 0 then "-" else s!"px:{v}"
  | some (.exat, n) => s!"exat:{n}"
  | some (.pxat, n) => s!"pxat:{n}"

def showSetOpt (o : SetOpt) : String := s!"{b01 o.nx}{b01 o.xx}{b01 o.keepttl}{b01 o.get},{showExp o.expire}"

def showFlag : ExpFlag → String
  | .none => "none" | .nx => "nx" | .xx => "xx" | .gt => "gt" | .lt => "lt"

def showZROpt (o : ZRangeOpt) : String :=
  s!"{b01 o.byscore}{b01 o.bylex}{b01 o.rev}{b01 o.withscores}{b01 o.minex}{b01 o.maxex},{o.offset},{o.count}"

def showCall : HCall → String
  | .auth u p => s!"auth({hex u},{hex p})"
  | .del ks => s!"del({hexList ks})"
  | .exists_ ks => s!"exists({hexList ks})"
  | .expire k rel n f => s!"expire({hex k},{if rel then "rel" else "abs"},{n},{showFlag f})"
  | .keys p => s!"keys({hex p})"
  | .rename k n nx => s!"rename({hex k},{hex n},{b01 nx})"
  | .type_ k => s!"type({hex k})"
  | .ttl k => s!"ttl({hex k})"
  | .scan c p n => s!"scan({c},{hex p},{n})"
  | .get k => s!"get({hex k})"
  | .set k v o => s!"set({hex k},{hex v},{showSetOpt o})"
  | .hdel k fs => s!"hdel({hex k},{hexList fs})"
  | .hset k f v nx => s!"hset({hex k},{hex f},{hex v},{b01 nx})"
  | .hget k f => s!"hget({hex k},{hex f})"
  | .hgetall k => s!"hgetall({hex k})"
  | .lpush k es x => s!"lpush({hex k},{hexList es},{b01 x})"
  | .rpush k es x => s!"rpush({hex k},{hexList es},{b01 x})"
  | .lpop k n => s!"lpop({hex k},{n})"
  | .rpop k n => s!"rpop({hex k},{n})"
  | .lrange k s e => s!"lrange({hex k},{s},{e})"
  | .lindex k i => s!"lindex({hex k},{i})"
  | .llen k => s!"llen({hex k})"
  | .sadd k ms => s!"sadd({hex k},{hexList ms})"
  | .smembers k => s!"smembers({hex k})"
  | .srem k ms => s!"srem({hex k},{hexList ms})"
  | .zadd k ms o =>
    let parts := ms.map fun (p : UInt64 × Bytes) => hex16 p.1 ++ ":" ++ hex p.2
    s!"zadd({hex k},[{String.intercalate "," parts}],{b01 o.xx}{b01 o.nx}{b01 o.lt}{b01 o.gt}{b01 o.ch}{b01 o.incr})"
  | .zrange k s e o => s!"zrange({hex k},{s},{e},{showZROpt o})"
  | .zrangebyscore k mn mx o => s!"zrangebyscore({hex k},{hex16 mn},{hex16 mx},{showZROpt o})"
  | .zrem k ms => s!"zrem({hex k},{hexList ms})"
  | .zscore k m => s!"zscore({hex k},{hex m})"
  | .zincrby k i m => s!"zincrby({hex k},{hex16 i},{hex m})"

def canonReply (b : Bytes) : String :=
  match b with
  | 45 :: _ => "E"
  | _ => hex b

/-- span events with ids, as a recording tracer sees them -/
structure SpanSim where
  next : Nat := 0
  stack : List Nat := []

/-- Render a trace as the tie's observable tokens.  `trace = false` drops the span events (no tracer). -/
def showTrace (trace : Bool) : List Ev → SpanSim → List String
  | [], _ => []
  | e :: es, sim =>
    match e with
    | .wr bs => s!"wr:{canonReply bs}" :: showTrace trace es sim
    | .hcall c v => s!"hc:{showCall c}@{v.db},{b01 v.authorized}" :: showTrace trace es sim
    | .rootStart =>
      let id := sim.next + 1
      (if trace then [s!"start:{id}:0:root"] else []) ++ showTrace trace es { next := id, stack := [id] }
    | .spanStart name =>
      let id := sim.next + 1
      let parent := sim.stack.headD 0
      (if trace then [s!"start:{id}:{parent}:{String.ofList (name.map fun b => Char.ofNat b.toNat)}"] else []) ++
        showTrace trace es { next := id, stack := id :: sim.stack }
    | .spanFinish =>
      (if trace then [s!"fin:{sim.stack.headD 0}"] else []) ++ showTrace trace es { sim with stack := sim.stack.tail }
    | .topFinish => (if trace then [s!"fin:{sim.stack.headD 0}"] else []) ++ showTrace trace es sim
    | .register => showTrace trace es sim
    | .deregister => showTrace trace es sim
    | .close => "close" :: showTrace trace es sim
    | .crash => showTrace trace es sim

end GoRedis
