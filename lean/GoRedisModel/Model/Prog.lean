import GoRedisModel.Model.Handler
/-! Interaction trees: what an executor does, as a tree of handler calls and observable events. -/
namespace GoRedis

/-- connection-scoped state -/
structure ConnSt where
  authorized : Bool := false
  db : Int := 0
  user : Bytes := []
  pass : Bytes := []
  /-- a password was presented with AUTH on this connection (even an empty one) -/
  hasPass : Bool := false
deriving Repr, DecidableEq, Inhabited

/-- observable events of one connection -/
inductive Ev where
  | wr (bs : Bytes)                    -- one `conn.Write`
  | hcall (c : HCall) (view : ConnSt)  -- a call on the application's handler, with the connection state it sees
  | rootStart                          -- `Tracer.StartSpan` (a new span context whose stack holds the root)
  | spanStart (name : Bytes)           -- `conn.StartSpan(name)`: child of the top of the stack, pushed
  | spanFinish                         -- `conn.FinishSpan()`: pop and finish
  | topFinish                          -- `span.Span().Finish()`: finish the top of the stack without popping
  | register | deregister | close
  | crash                              -- a panic reached the connection goroutine's top (caught by its barrier)
deriving Repr, Inhabited, DecidableEq

/-- what an executor can do to the span stack -/
inductive SpanOp where
  | start (name : Bytes)   -- `conn.StartSpan(name)`
  | finish                 -- `conn.FinishSpan()`
deriving Repr, Inhabited

/-- Executors that only talk to the application's handler: handler calls, a result, or a Go panic. -/
inductive UProg (α : Type) where
  | ret (a : α)
  | call (c : HCall) (k : HRes → UProg α)
  | panic

/-- Executors in general: additionally they may start and finish spans (nothing else is observable). -/
inductive Prog (α : Type) where
  | ret (a : α)
  | call (c : HCall) (k : HRes → Prog α)
  | emit (s : SpanOp) (k : Prog α)
  | panic

def UProg.lift {α : Type} : UProg α → Prog α
  | .ret a => .ret a
  | .call c k => .call c (fun r => (k r).lift)
  | .panic => .panic

namespace Prog

def bind {α β : Type} : Prog α → (α → Prog β) → Prog β
  | ret a, f => f a
  | call c k, f => call c (fun r => bind (k r) f)
  | emit e k, f => emit e (bind k f)
  | panic, _ => panic

/-- `defer conn.FinishSpan()`: the span is finished when the body returns *and* when it panics -/
def andFinish {α : Type} : Prog α → Prog α
  | ret a => emit .finish (ret a)
  | call c k => call c (fun r => andFinish (k r))
  | emit e k => emit e (andFinish k)
  | panic => emit .finish panic

def SpanOp.ev : SpanOp → Ev
  | .start n => .spanStart n
  | .finish => .spanFinish

/-- Run against a script of handler results (call i gets the head of the script, which is then dropped
unless it is the last entry: the last entry repeats; an empty script answers every call with a nil message
and no error).  Returns the events, the result (`none` = panicked) and the remaining script. -/
def run {α : Type} (view : ConnSt) : Prog α → List HRes → List Ev × Option α × List HRes
  | ret a, s => ([], some a, s)
  | panic, s => ([], none, s)
  | emit e k, s => let (evs, a, s') := run view k s; (SpanOp.ev e :: evs, a, s')
  | call c k, s =>
    let r := s.headD {}
    let s1 := match s with | _ :: (x :: xs) => x :: xs | other => other
    let (evs, a, s') := run view (k r) s1
    (.hcall c view :: evs, a, s')

end Prog
end GoRedis
