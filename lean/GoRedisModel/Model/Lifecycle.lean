import GoRedisModel.Model.Bytes
/-! The server lifecycle (`server.go`: Start / Stop / Restart, the accept loops, the per-connection
goroutines) and the TLS client-certificate gate (`auth/authenticator_certificate.go`), as a state machine
over client-visible actions.  Each action is observed after the server has become quiescent. -/
namespace GoRedis

structure LifeCfg where
  plain : Bool := false
  tls : Bool := false
  /-- common-name rule of the certificate authenticator -/
  cn : Option String := none
  /-- a password is required -/
  pw : Bool := false
deriving Repr, Inhabited

/-- what `crypto/tls` (trusted) decides about a client, and the names on the chain it presents -/
structure ClientCert where
  /-- the handshake verifies: the chain leads to the configured CA and every certificate is currently valid -/
  verified : Bool
  leafCN : String
  /-- common names of the other certificates the client sends (intermediates, and certificates no chain needs) -/
  chainCNs : List String := []
deriving Repr, Inhabited

def certOf : String → ClientCert
  | "good" => { verified := true, leafCN := "client" }
  | "wrongcn" => { verified := true, leafCN := "somebody-else" }
  | "intercn" => { verified := true, leafCN := "leaf-without-the-name", chainCNs := ["client"] }
  | "straycn" => { verified := true, leafCN := "somebody-else", chainCNs := ["client"] }
  | "straygood" => { verified := true, leafCN := "somebody-else", chainCNs := ["client"] }
  | "expired" => { verified := false, leafCN := "client" }
  | "foreign" => { verified := false, leafCN := "client" }
  | "selfsigned" => { verified := false, leafCN := "client" }
  | _ => { verified := false, leafCN := "" }       -- no certificate at all

/-- which CA issued the chain of a client credential (`main` = the CA of the initial configuration) -/
def issuerOf : String → String
  | "foreign" => "foreign"
  | "selfsigned" => "self"
  | "none" => "-"
  | _ => "main"

/-- the credential as the handshake sees it when the listener trusts `ca`: the verdict `verified` is relative to the CA
in force (`certOf` is the case `ca = main`); after a CA rotation the chains of the retired CA no longer verify and
those of the new one do -/
def certIn (ca : String) (name : String) : ClientCert :=
  if ca == "main" then certOf name
  else { certOf name with verified := issuerOf name == ca && name != "expired" }

/-- **The certificate gate**: a TLS client is served iff its handshake verified and, when a common-name
rule is configured, its own (leaf) certificate carries that name. -/
def tlsServed (cfg : LifeCfg) (c : ClientCert) : Bool :=
  c.verified && (match cfg.cn with | none => true | some name => c.leafCN == name)

structure LifeSt where
  running : Bool := false
  /-- connections the server currently holds: client id, and whether it is a stalled TLS handshake -/
  conns : List (String × Bool) := []
  /-- handler calls made so far -/
  calls : Nat := 0
  /-- the CA the TLS listener trusts (fixed when the listener's TLS configuration is built, at Start) -/
  ca : String := "main"
  /-- the CA in the configuration (`SetTLSCaCertFile`); read by the next Start -/
  cfgCa : String := "main"
deriving Repr, Inhabited

def LifeSt.has (s : LifeSt) (id : String) : Bool := s.conns.any fun c => c.1 == id
def LifeSt.drop (s : LifeSt) (id : String) : LifeSt := { s with conns := s.conns.filter fun c => c.1 != id }

/-- what a session (optional AUTH, then one GET) on a plain connection yields -/
def plainSession (cfg : LifeCfg) : String :=
  -- with a certificate rule installed, AUTH on a non-TLS connection is refused by the certificate authenticator
  if cfg.pw && cfg.cn.isSome then "auth-E" else "ok"

/-- the client-visible actions -/
inductive LifeAct where
  | start | stop | restart
  | stopstorm                               -- Stop while clients keep connecting
  | setpw (pw : String)                     -- the application changes the required password (effective at the next Start)
  | setca (ca : String)                     -- the application replaces the CA certificate file (effective at the next Start)
  | pingold (tls : Bool)                    -- a client presenting the previous password
  | ping (tls : Bool) (cert : String)       -- connect, one session, disconnect
  | open_ (tls : Bool) (id : String)        -- connect, one session, stay connected
  | cclose (id : String) | rst (id : String) | half (id : String) | quit (id : String) | bad (id : String)
  | unread (id : String)                    -- pipelines requests and goes away without reading the replies
  | halfcr (id : String) | halfbulk (id : String)   -- goes away between CR and LF of a header / inside a bulk payload
  | stallreq (id : String)                  -- sends part of a request and stays connected
  | alive (id : String) | cmd (id : String)
  /-- the client pipelines requests with large replies and does not read them: the server's write blocks; the client
  stays connected -/
  | flood (id : String)
  /-- the client's request makes the application's handler panic: the server drops that connection (C07), and nothing
  else changes - the other connections are served, Stop returns -/
  | crash (id : String)
  /-- the client reads whatever is there until the connection ends (`down`) or nothing more comes (`up`) -/
  | drain (id : String)
  | tlsbad (kind : String) (id : String)    -- a faulty client on the TLS port
  /-- the application (`portoff`, `SetPort(0)` / `SetTLSPort(0)`) or a connected client (`cfgport`, `CONFIG SET port 0`)
  disables a port in the configuration while the server runs; `porton` restores it.  The configuration is read by the
  next Start: a running server keeps the listeners it opened and Stop closes exactly those.  (Domain: between
  disabling and restoring only Stop and observations occur — the driver rejects other sequences.) -/
  | portoff (tls : Bool) | porton (tls : Bool) | cfgport (id : String) (tls : Bool)
  | obs
deriving Repr, Inhabited

def LifeCfg.up (cfg : LifeCfg) (s : LifeSt) (tls : Bool) : Bool := s.running && (if tls then cfg.tls else cfg.plain)

/-- one action: the result token and the next state -/
def lifeStepA (cfg : LifeCfg) (s : LifeSt) : LifeAct → String × LifeSt
  | .start => if s.running then ("err", s) else ("ok", { s with running := true, ca := s.cfgCa })
  | .stop => ("ok", { s with running := false, conns := [] })
  | .stopstorm => ("ok", { s with running := false, conns := [] })
  | .setpw _ => ("ok", s)
  | .setca ca => ("ok", { s with cfgCa := ca })
  -- after a restart exactly the new password is accepted: the previous one is refused, nothing is executed
  | .pingold tls => if !cfg.up s tls then ("refused", s) else ("auth-E", s)
  | .restart => ("ok", { s with running := true, conns := [], ca := s.cfgCa })
  | .ping tls cert =>
    if !cfg.up s tls then ("refused", s) else
    if !tls then
      let r := plainSession cfg
      (r, if r == "ok" then { s with calls := s.calls + 1 } else s)
    else if tlsServed cfg (certIn s.ca cert) then ("ok", { s with calls := s.calls + 1 })
    else ("rejected", s)
  | .open_ tls id =>
    if !cfg.up s tls then ("refused", s) else
    if !tls then
      let r := plainSession cfg
      (r, if r == "ok" then { s with calls := s.calls + 1, conns := s.conns ++ [(id, false)] } else s)
    else if tlsServed cfg (certIn s.ca "good") then ("ok", { s with calls := s.calls + 1, conns := s.conns ++ [(id, false)] })
    else ("rejected", s)
  | .cclose id => ("ok", s.drop id)
  | .rst id => ("ok", s.drop id)
  | .half id => ("ok", s.drop id)
  | .unread id => ("ok", s.drop id)
  | .halfcr id => ("ok", s.drop id)
  | .halfbulk id => ("ok", s.drop id)
  | .stallreq _ => ("ok", s)
  | .flood _ => ("ok", s)
  | .crash id => (if s.has id then "down" else "gone", s.drop id)
  | .drain id => (if s.has id then "up" else "down", s)
  | .quit id => (if s.has id then "+OK/down" else "gone/down", s.drop id)
  | .bad id => ("down", s.drop id)
  | .alive id => (if s.has id then "up" else "down", s)
  | .cmd id => if s.has id then ("ok", { s with calls := s.calls + 1 }) else ("gone", s)
  | .tlsbad kind id =>
    if !cfg.up s true then ("refused", s) else
    if kind == "stall" then ("pending", { s with conns := s.conns ++ [(id, true)] })
    else if kind == "plaintext" || kind == "garbage" || kind == "abort" then ("rejected", s)
    else if tlsServed cfg (certIn s.ca kind) then ("served:ok", { s with calls := s.calls + 1 })
    else ("rejected", s)
  | .portoff _ => ("ok", s)
  | .porton _ => ("ok", s)
  | .cfgport id _ => (if s.has id then "ok" else "gone", s)
  | .obs =>
    let port (on : Bool) : String := if !on then "-" else if s.running then "open" else "closed"
    let loops := if s.running then (if cfg.plain then 1 else 0) + (if cfg.tls then 1 else 0) else 0
    (s!"conns={s.conns.length},plain={port cfg.plain},tls={port cfg.tls},gor={loops + s.conns.length},calls={s.calls}", s)

def parseLifeAct (action : String) : Option LifeAct :=
  match action.splitOn ":" with
  | ["start"] => some .start
  | ["stop"] => some .stop
  | ["stopstorm"] => some .stopstorm
  | ["setpw", pw] => some (.setpw pw)
  | ["setca", ca] => some (.setca ca)
  | ["pingold", k] => some (.pingold (k == "t"))
  | ["restart"] => some .restart
  | "ping" :: k :: rest => some (.ping (k == "t") (rest.headD "good"))
  | ["open", k, id] => some (.open_ (k == "t") id)
  | ["cclose", id] => some (.cclose id)
  | ["rst", id] => some (.rst id)
  | ["half", id] => some (.half id)
  | ["unread", id] => some (.unread id)
  | ["halfcr", id] => some (.halfcr id)
  | ["halfbulk", id] => some (.halfbulk id)
  | ["stallreq", id] => some (.stallreq id)
  | ["flood", id] => some (.flood id)
  | ["crash", id] => some (.crash id)
  | ["drain", id] => some (.drain id)
  | ["quit", id] => some (.quit id)
  | ["bad", id] => some (.bad id)
  | ["alive", id] => some (.alive id)
  | ["cmd", id] => some (.cmd id)
  | "tlsbad" :: kind :: rest => some (.tlsbad kind (rest.headD "stall"))
  | ["portoff", k] => some (.portoff (k == "t"))
  | ["porton", k] => some (.porton (k == "t"))
  | ["cfgport", id, k] => some (.cfgport id (k == "t"))
  | ["obs"] => some .obs
  | _ => none

def lifeStep (cfg : LifeCfg) (s : LifeSt) (action : String) : String × LifeSt :=
  match parseLifeAct action with
  | some a => lifeStepA cfg s a
  | none => ("bad-action", s)

def lifeRun (cfg : LifeCfg) : LifeSt → List String → List String
  | _, [] => []
  | s, a :: as => let (r, s') := lifeStep cfg s a; (a ++ "=" ++ r) :: lifeRun cfg s' as

def lifeFold (cfg : LifeCfg) (s : LifeSt) (as : List LifeAct) : LifeSt :=
  as.foldl (fun st a => (lifeStepA cfg st a).2) s

/-- The lifecycle functions of `redis/server.go` that `Lifecycle` and `LifeSys` model, with the fingerprint of the source
they were written from; regenerated and compared on every run (`source_lifecycle_is_the_modelled_one`). -/
def lifecycleModelled : List (String × Nat × String) := [
  ("Server.Start", 9059626223932565288, "LifeAct.start / LAct.start"),
  ("Server.Stop", 14500269630613429132, "LifeAct.stop / the four phases of Stop in LS"),
  ("Server.Restart", 18336081763700950141, "LifeAct.restart"),
  ("Server.open", 17490067933075582671, "start (listeners)"),
  ("Server.close", 9518650073759857088, "stop phase 1"),
  ("Server.serve", 15229405390670845273, "LAct.accept / loopExit"),
  ("Server.tlsServe", 12960034846157918446, "LAct.accept / loopExit (TLS)"),
  ("Server.startConn", 11630650059779855581, "accept: register, spawn, handshake in the goroutine")]

end GoRedis
