import GoRedisModel.Model.Ctor
/-! The request cursor (`proto.Array` + the `next…Argument` helpers of `handler_func.go`). -/
namespace GoRedis

/-- A Go `error` as far as the executors can tell errors apart: `eom` is `errors.Is(err, proto.ErrEOM)`
(it survives `%w` wrapping); `text` is what ends up in an error reply (never compared by the tie, but
it may embed client bytes, which matters for reply framing). -/
structure Err where
  eom : Bool := false
  text : Bytes := []
deriving Repr, DecidableEq, Inhabited

/-- reader over the unread request elements -/
abbrev R (α : Type) := List Msg → Except Err (α × List Msg)

@[inline] def R.pure {α : Type} (a : α) : R α := fun s => .ok (a, s)
@[inline] def R.bind {α β : Type} (x : R α) (f : α → R β) : R β := fun s =>
  match x s with
  | .ok (a, s') => f a s'
  | .error e => .error e
@[inline] def R.fail {α : Type} (e : Err) : R α := fun _ => .error e
instance : Monad R where pure := R.pure; bind := R.bind

def errMissing (what : Bytes) (e : Err) : Err := { eom := e.eom, text := what ++ b!": missing argument " ++ e.text }
def errEOM : Err := { eom := true, text := b!"EOM" }
def errNil : Err := { text := b!"NIL" }
def errType : Err := { text := b!"invalid message type" }
def errAtoi : Err := { text := b!"strconv.Atoi: invalid syntax" }
def errFloat : Err := { text := b!"strconv.ParseFloat: invalid syntax" }
def errInvalid (what : Bytes) : Err := { text := what ++ b!": invalid argument" }
def errUnknown (cmd what : Bytes) : Err := { text := cmd ++ b!": unknown argument (" ++ what ++ b!")" }

/-- `Message.String()`: status line or non-null bulk -/
def msgStr : Msg → Except Err Bytes
  | .line .str p => .ok p
  | .bulk (some p) => .ok p
  | .bulk none => .error errNil
  | _ => .error errType

/-- `Message.Integer()` -/
def msgInt : Msg → Except Err Int
  | .line .int p => (atoi p).elim (.error errAtoi) .ok
  | .line .str p => (atoi p).elim (.error errAtoi) .ok
  | .bulk (some p) => (atoi p).elim (.error errAtoi) .ok
  | .bulk none => .error errAtoi
  | _ => .error errType

/-- `Array.Next`: a nil element counts as "no message" but is consumed -/
def next? : R (Option Msg)
  | [] => .ok (none, [])
  | .absent :: rest => .ok (none, rest)
  | m :: rest => .ok (some m, rest)

/-- `Array.NextString` (errors unwrapped) -/
def nextStringRaw : R Bytes := fun s =>
  match s with
  | [] => .error errEOM
  | .absent :: _ => .error errEOM
  | m :: rest => match msgStr m with
    | .ok b => .ok (b, rest)
    | .error e => .error e

def nextIntegerRaw : R Int := fun s =>
  match s with
  | [] => .error errEOM
  | .absent :: _ => .error errEOM
  | m :: rest => match msgInt m with
    | .ok b => .ok (b, rest)
    | .error e => .error e

/-- `nextStringArgument`: the error is wrapped (`%w`), so `eom` is preserved -/
def nextString (what : Bytes) : R Bytes := fun s =>
  match nextStringRaw s with
  | .ok x => .ok x
  | .error e => .error (errMissing what e)

def nextInteger (what : Bytes) : R Int := fun s =>
  match nextIntegerRaw s with
  | .ok x => .ok x
  | .error e => .error (errMissing what e)

/-- Float parsing is a parameter: `pf tok = some bits` iff `strconv.ParseFloat(tok, 64)` succeeds, with
the IEEE-754 bit pattern of the result. -/
abbrev FloatOracle := Bytes → Option UInt64

/-- `nextFloatArgument` -/
def nextFloat (pf : FloatOracle) (what : Bytes) : R UInt64 := fun s =>
  match nextStringRaw s with
  | .error e => .error (errMissing what e)
  | .ok (tok, rest) => match pf tok with
    | some v => .ok (v, rest)
    | none => .error (errMissing what errFloat)

/-- the loop of `nextStringArrayArguments`: strings until the end of the request; any element that is not
a string is an error -/
def readStrings : List Msg → Except Err (List Bytes)
  | [] => .ok []
  | .absent :: _ => .ok []
  | m :: ms => match msgStr m with
    | .error e => .error e
    | .ok b => match readStrings ms with
      | .ok bs => .ok (b :: bs)
      | .error e => .error e

/-- `nextStringArrayArguments`: at least one string is required -/
def nextStrings (what : Bytes) : R (List Bytes) := fun s =>
  match readStrings s with
  | .error e => .error (errMissing what e)
  | .ok [] => .error (errMissing what errEOM)
  | .ok bs => .ok (bs, [])

/-- the loop of `nextStringMapArguments`: key/value pairs until the end; a key without a value is an error -/
def readPairs : List Msg → Except Err (List (Bytes × Bytes))
  | [] => .ok []
  | .absent :: _ => .ok []
  | [_] => .error (errMissing b!"value" errEOM)
  | k :: v :: ms => match msgStr k with
    | .error e => .error e
    | .ok kb => match v with
      | .absent => .error (errMissing kb errEOM)
      | _ => match msgStr v with
        | .error e => .error (errMissing kb e)
        | .ok vb => match readPairs ms with
          | .ok ps => .ok ((kb, vb) :: ps)
          | .error e => .error e

/-- a Go `map[string]string` built by assigning the pairs in order: one entry per key, last value wins.
The order of the result is the order of first occurrence (Go's iteration order is unspecified; the tie
compares these call groups as sets). -/
def mapOfPairs : List (Bytes × Bytes) → List (Bytes × Bytes)
  | [] => []
  | (k, v) :: ps =>
    let rest := mapOfPairs ps
    match rest.lookup k with
    | some v' => (k, v') :: rest.filter (fun p => p.1 != k)
    | none => (k, v) :: rest

/-- `nextStringMapArguments`: at least one pair is required -/
def nextPairs : R (List (Bytes × Bytes)) := fun s =>
  match readPairs s with
  | .error e => .error e
  | .ok [] => .error (errMissing b!"key" errEOM)
  | .ok ps => .ok (mapOfPairs ps, [])

/-- a request element as clients send it: a non-null bulk string -/
def B (b : Bytes) : Msg := .bulk (some b)

end GoRedis
