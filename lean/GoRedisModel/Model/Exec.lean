import GoRedisModel.Model.Prog
import GoRedisModel.Model.Glob
/-! The command executors (`core_commander.go`, `sugar_commander.go`, `system_commander.go`,
`server_auth.go`, `server_handler.go`), as interaction trees. -/
namespace GoRedis

/-- Go's `(*Message, error)` result of an executor, as the connection loop distinguishes it. -/
inductive Out where
  | reply (m : Msg)          -- `(m, nil)`; `m = .absent` is a nil message
  | error (e : Err)          -- an error other than `ErrQuit`
  | quit (m : Msg)           -- `(m, ErrQuit)`
deriving Repr, Inhabited

/-- server-wide state kept by the framework itself -/
structure SrvSt where
  /-- `Config.params` -/
  config : List (Bytes × Bytes) := []
  /-- the clear-text password authenticator installed by `Start` (user name ""), if any -/
  authPw : Option Bytes := none
  /-- a certificate authenticator is installed (it rejects every non-TLS `AUTH`; its rule is in `Tls`) -/
  certAuth : Bool := false
  /-- an application command handler is installed -/
  hasHandler : Bool := true
  /-- names under which the application registered executors of its own (`RegisterExexutor`, names in upper case as
  the built-in ones are); the executor modelled is the simplest one that reaches the handler: it decodes one string
  argument and calls `Get` -/
  appGet : List Bytes := []
deriving Repr, Inhabited

def outOf (r : HRes) : Out :=
  match r.err with
  | some t => .error { text := t }
  | none => .reply r.msg

abbrev UExec := List Msg → UProg Out

def callRet (c : HCall) : UProg Out := .call c (fun r => .ret (outOf r))
def failE (e : Err) : UProg Out := .ret (.error e)
def replyP (m : Msg) : UProg Out := .ret (.reply m)

def withArgs {α : Type} (r : R α) (args : List Msg) (k : α → List Msg → UProg Out) : UProg Out :=
  match r args with
  | .error e => failE e
  | .ok (a, rest) => k a rest

/-! ## Argument shapes shared by most commands -/

def shapeS (mk : Bytes → HCall) : UExec := fun args =>
  withArgs (nextString b!"key") args fun k _ => callRet (mk k)

def shapeSS (mk : Bytes → Bytes → HCall) : UExec := fun args =>
  withArgs (nextString b!"key") args fun a rest =>
  withArgs (nextString b!"arg") rest fun b _ => callRet (mk a b)

def shapeSSS (mk : Bytes → Bytes → Bytes → HCall) : UExec := fun args =>
  withArgs (nextString b!"key") args fun a rest =>
  withArgs (nextString b!"arg") rest fun b rest =>
  withArgs (nextString b!"arg") rest fun c _ => callRet (mk a b c)

def shapeSI (mk : Bytes → Int → HCall) : UExec := fun args =>
  withArgs (nextString b!"key") args fun a rest =>
  withArgs (nextInteger b!"arg") rest fun i _ => callRet (mk a i)

def shapeSII (mk : Bytes → Int → Int → HCall) : UExec := fun args =>
  withArgs (nextString b!"key") args fun a rest =>
  withArgs (nextInteger b!"arg") rest fun i rest =>
  withArgs (nextInteger b!"arg") rest fun j _ => callRet (mk a i j)

def shapeSFS (pf : FloatOracle) (mk : Bytes → UInt64 → Bytes → HCall) : UExec := fun args =>
  withArgs (nextString b!"key") args fun a rest =>
  withArgs (nextFloat pf b!"arg") rest fun f rest =>
  withArgs (nextString b!"arg") rest fun c _ => callRet (mk a f c)

/-- `S+` -/
def shapeL (mk : List Bytes → HCall) : UExec := fun args =>
  withArgs (nextStrings b!"keys") args fun l _ => callRet (mk l)

/-- `S S+` -/
def shapeSL (mk : Bytes → List Bytes → HCall) : UExec := fun args =>
  withArgs (nextString b!"key") args fun a rest =>
  withArgs (nextStrings b!"elements") rest fun l _ => callRet (mk a l)

/-! ## Commands with their own argument grammar -/

/-- `nextSetOptionArguments` -/
def setOpts (cmd : Bytes) : SetOpt → List Msg → Except Err SetOpt
  | o, [] => .ok o
  | o, .absent :: _ => .ok o
  | o, m :: ms =>
    match msgStr m with
    | .error e => .error e
    | .ok a =>
      let u := upper a
      if u = b!"NX" then (if o.nx || o.xx then .error (errInvalid cmd) else setOpts cmd { o with nx := true } ms)
      else if u = b!"XX" then (if o.nx || o.xx then .error (errInvalid cmd) else setOpts cmd { o with xx := true } ms)
      else if u = b!"KEEPTTL" then (if o.keepttl then .error (errInvalid cmd) else setOpts cmd { o with keepttl := true } ms)
      else if u = b!"GET" then (if o.get then .error (errInvalid cmd) else setOpts cmd { o with get := true } ms)
      else
        let kind : Option ExpKind :=
          if u = b!"EX" then some .ex else if u = b!"PX" then some .px
          else if u = b!"EXAT" then some .exat else if u = b!"PXAT" then some .pxat else none
        match kind with
        | none => .error (errUnknown cmd u)
        | some kd =>
          if o.expire.isSome then .error (errInvalid cmd) else
          match ms with
          | [] => .error (errMissing u errEOM)
          | .absent :: _ => .error (errMissing u errEOM)
          | v :: ms' =>
            match msgInt v with
            | .error e => .error e
            | .ok n => if n < 1 then .error (errInvalid cmd) else setOpts cmd { o with expire := some (kd, n) } ms'

def execSet : UExec := fun args =>
  withArgs (nextString b!"key") args fun k rest =>
  withArgs (nextString b!"value") rest fun v rest =>
  match setOpts b!"SET" {} rest with
  | .error e => failE e
  | .ok o => callRet (.set k v o)

def execSetEx : UExec := fun args =>
  withArgs (nextString b!"key") args fun k rest =>
  withArgs (nextInteger b!"seconds") rest fun n rest =>
  if n < 1 then failE (errInvalid b!"seconds") else
  withArgs (nextString b!"value") rest fun v _ => callRet (.set k v { expire := some (.ex, n) })

/-- `nextExpireArgument`: at most one of NX/XX/GT/LT -/
def expireFlag (cmd : Bytes) : List Msg → Except Err ExpFlag
  | [] => .ok .none
  | .absent :: _ => .ok .none
  | m :: _ =>
    match msgStr m with
    | .error e => .error e
    | .ok a =>
      let u := upper a
      if u = b!"NX" then .ok .nx else if u = b!"XX" then .ok .xx
      else if u = b!"GT" then .ok .gt else if u = b!"LT" then .ok .lt
      else .error (errUnknown cmd a)

def execExpire (relative : Bool) : UExec := fun args =>
  withArgs (nextString b!"key") args fun k rest =>
  withArgs (nextInteger b!"ttl") rest fun n rest =>
  match expireFlag b!"EXPIRE" rest with
  | .error e => failE e
  | .ok f => callRet (.expire k relative n f)

/-- `nextPopArguments`: the count is optional, default 1 -/
def execPop (mk : Bytes → Int → HCall) : UExec := fun args =>
  withArgs (nextString b!"key") args fun k rest =>
  match rest with
  | [] => callRet (mk k 1)
  | .absent :: _ => callRet (mk k 1)
  | m :: _ => match msgInt m with
    | .error e => failE (errMissing b!"count" e)
    | .ok n => callRet (mk k n)

def defaultScanRegex : Bytes := globRegex b!"*"

/-- `nextScanArgument` (unknown tokens are skipped, as the code does) -/
def scanOpts : Bytes → Int → List Msg → Except Err (Bytes × Int)
  | p, c, [] => .ok (p, c)
  | p, c, .absent :: _ => .ok (p, c)
  | p, c, m :: ms =>
    match msgStr m with
    | .error e => .error (errMissing b!"" e)
    | .ok a =>
      let u := upper a
      if u = b!"MATCH" then
        match ms with
        | [] => .error (errMissing b!"pattern" errEOM)
        | .absent :: _ => .error (errMissing b!"pattern" errEOM)
        | v :: ms' => match msgStr v with
          | .error e => .error (errMissing b!"pattern" e)
          | .ok pat =>
            -- `glob.Compile` fails on a pattern that is not valid UTF-8 (Go's regexp requires it)
            if validUtf8 pat then scanOpts (globRegex pat) c ms' else .error (errInvalid b!"pattern")
      else if u = b!"COUNT" then
        match ms with
        | [] => .error (errMissing b!"count" errEOM)
        | .absent :: _ => .error (errMissing b!"count" errEOM)
        | v :: ms' => match msgInt v with
          | .error e => .error (errMissing b!"count" e)
          | .ok n => scanOpts p n ms'
      else scanOpts p c ms

def execScan : UExec := fun args =>
  withArgs (nextInteger b!"cursor") args fun cur rest =>
  match scanOpts defaultScanRegex 10 rest with
  | .error e => failE e
  | .ok (p, c) => callRet (.scan cur p c)

/-- `nextRangeOptionArguments` (unknown tokens are skipped, as the code does) -/
def rangeOpts : ZRangeOpt → List Msg → Except Err ZRangeOpt
  | o, [] => .ok o
  | o, .absent :: _ => .ok o
  | o, m :: ms =>
    match msgStr m with
    | .error e => .error (errMissing b!"" e)
    | .ok a =>
      let u := upper a
      if u = b!"BYSCORE" then rangeOpts { o with byscore := true } ms
      else if u = b!"BYLEX" then rangeOpts { o with bylex := true } ms
      else if u = b!"REV" then rangeOpts { o with rev := true } ms
      else if u = b!"WITHSCORES" then rangeOpts { o with withscores := true } ms
      else if u = b!"LIMIT" then
        match ms with
        | off :: cnt :: ms' =>
          (match off, cnt with
           | .absent, _ => .error (errMissing b!"offset" errEOM)
           | _, .absent => .error (errMissing b!"count" errEOM)
           | _, _ =>
            match msgInt off with
            | .error e => .error (errMissing b!"offset" e)
            | .ok i => match msgInt cnt with
              | .error e => .error (errMissing b!"count" e)
              | .ok j => rangeOpts { o with offset := i, count := j } ms')
        | [off] => (match off with
          | .absent => .error (errMissing b!"offset" errEOM)
          | _ => match msgInt off with
            | .error e => .error (errMissing b!"offset" e)
            | .ok _ => .error (errMissing b!"count" errEOM))
        | [] => .error (errMissing b!"offset" errEOM)
      else rangeOpts o ms

/-- `nextRangeScoreIndexArgument` applied to a token: optional `(` then a float -/
def rangeScore (pf : FloatOracle) (tok : Bytes) : Except Err (UInt64 × Bool) :=
  match tok with
  | [] => .error (errMissing b!"range" {})
  | 40 :: rest => (match pf rest with | some v => .ok (v, true) | none => .error (errInvalid b!"range"))
  | t => (match pf t with | some v => .ok (v, false) | none => .error (errInvalid b!"range"))

def nextRangeScore (pf : FloatOracle) : R (UInt64 × Bool) := fun s =>
  match nextStringRaw s with
  | .error e => .error (errMissing b!"range" e)
  | .ok (tok, rest) => match rangeScore pf tok with
    | .ok x => .ok (x, rest)
    | .error e => .error e

/-- `Array.ReverseBy(2)`: complete pairs are taken from the end; with an odd length the leading element
keeps its place behind them -/
def reverseEvenPairs : List Msg → List Msg
  | a :: b :: rest => reverseEvenPairs rest ++ [a, b]
  | _ => []

def reversePairs (l : List Msg) : List Msg :=
  if l.length % 2 = 0 then reverseEvenPairs l else reverseEvenPairs l.tail ++ l.take 1

/-- LIMIT applied to a reply of `step`-element entries: skip `offset` entries, keep `count` (negative = all);
a negative offset selects nothing -/
def limitEntries (step : Nat) (offset count : Int) (l : List Msg) : List Msg :=
  if offset < 0 then [] else
  let rest := l.drop (offset.toNat * step)
  if count < 0 then rest else rest.take (count.toNat * step)

/-- what ZREVRANGE / ZREVRANGEBYSCORE do with the handler's reply (ZREVRANGEBYSCORE applies its LIMIT to the
reversed range) -/
def reverseReplyL (offset count : Int) (withscores : Bool) (r : HRes) : UProg Out :=
  match r.err with
  | some t => failE { text := t }
  | none =>
    match r.msg with
    | .absent => .panic
    | .arrNil => .panic
    | .arr es =>
      if withscores then replyP (.arr (limitEntries 2 offset count (reversePairs es)))
      else replyP (.arr (limitEntries 1 offset count es.reverse))
    | _ => failE errType

def reverseReply (withscores : Bool) (r : HRes) : UProg Out := reverseReplyL 0 (-1) withscores r

def execZRangeByScore (pf : FloatOracle) (rev : Bool) : UExec := fun args =>
  withArgs (nextString b!"key") args fun k rest =>
  withArgs (nextRangeScore pf) rest fun a rest =>
  withArgs (nextRangeScore pf) rest fun b rest =>
  match rangeOpts {} rest with
  | .error e => failE e
  | .ok o =>
    if rev then
      -- ZREVRANGEBYSCORE: (max, min); the whole range is requested, LIMIT is applied after reversing
      .call (.zrangebyscore k b.1 a.1 { o with minex := b.2, maxex := a.2, offset := 0, count := -1 })
        (reverseReplyL o.offset o.count o.withscores)
    else
      .call (.zrangebyscore k a.1 b.1 { o with minex := a.2, maxex := b.2 }) fun r => .ret (outOf r)

def execZRange (pf : FloatOracle) : UExec := fun args =>
  withArgs (nextString b!"key") args fun k rest =>
  withArgs (nextString b!"start") rest fun a rest =>
  withArgs (nextString b!"stop") rest fun b rest =>
  if a = [] ∨ b = [] then failE (errMissing b!"range" {}) else
  match rangeOpts {} rest with
  | .error e => failE e
  | .ok o =>
    if o.byscore then
      match rangeScore pf a, rangeScore pf b with
      | .ok (mn, mnx), .ok (mx, mxx) => callRet (.zrangebyscore k mn mx { o with minex := mnx, maxex := mxx })
      | .error e, _ => failE e
      | _, .error e => failE e
    else
      match atoi a, atoi b with
      | some i, some j => callRet (.zrange k i j o)
      | _, _ => failE (errInvalid b!"index")

def execZRevRange : UExec := fun args =>
  withArgs (nextString b!"key") args fun k rest =>
  withArgs (nextInteger b!"start") rest fun i rest =>
  withArgs (nextInteger b!"stop") rest fun j rest =>
  match rangeOpts {} rest with
  | .error e => failE e
  | .ok o =>
    -- the reverse-order slice [i, j] is the forward slice [-j-1, -i-1], reversed
    .call (.zrange k (-j - 1) (-i - 1) o) (reverseReply o.withscores)

def zaddFlag (u : Bytes) (o : ZAddOpt) : Option ZAddOpt :=
  if u = b!"NX" then some { o with nx := true } else if u = b!"XX" then some { o with xx := true }
  else if u = b!"GT" then some { o with gt := true } else if u = b!"LT" then some { o with lt := true }
  else if u = b!"CH" then some { o with ch := true } else if u = b!"INCR" then some { o with incr := true }
  else none

/-- score/member pairs after the first pair: a dangling score is an error -/
def zaddPairs (pf : FloatOracle) : List Msg → Except Err (List (UInt64 × Bytes))
  | [] => .ok []
  | .absent :: _ => .ok []
  | [_] => .error (errMissing b!"member" errEOM)
  | s :: m :: ms =>
    match msgStr s with
    | .error e => .error (errMissing b!"score" e)
    | .ok tok => match pf tok with
      | none => .error (errMissing b!"score" errFloat)
      | some v => match m with
        | .absent => .error (errMissing b!"member" errEOM)
        | _ => match msgStr m with
          | .error e => .error (errMissing b!"member" e)
          | .ok mb => match zaddPairs pf ms with
            | .ok ps => .ok ((v, mb) :: ps)
            | .error e => .error e

/-- the flag loop of ZADD, then the first score -/
def zaddHead (pf : FloatOracle) : ZAddOpt → List Msg → Except Err (ZAddOpt × List Msg)
  | _, [] => .error (errMissing b!"score" errEOM)
  | _, .absent :: _ => .error (errMissing b!"score" errEOM)
  | o, m :: ms =>
    match msgStr m with
    | .error e => .error (errMissing b!"score" e)
    | .ok a => match zaddFlag (upper a) o with
      | some o' => zaddHead pf o' ms
      | none => .ok (o, m :: ms)

def execZAdd (pf : FloatOracle) : UExec := fun args =>
  withArgs (nextString b!"key") args fun k rest =>
  match zaddHead pf {} rest with
  | .error e => failE e
  | .ok (o, rest) =>
    match zaddPairs pf rest with
    | .error e => failE e
    | .ok [] => failE (errMissing b!"score" errEOM)
    | .ok ps => callRet (.zadd k ps o)

/-! ## Composites over primitive handler operations -/

/-- call the handler once per element, stop at the first error, collect the replies -/
def callEach {α : Type} (mk : α → HCall) : List α → (List Msg → UProg Out) → UProg Out
  | [], k => k []
  | a :: as, k => .call (mk a) fun r =>
    match r.err with
    | some t => failE { text := t }
    | none => callEach mk as (fun ms => k (r.msg :: ms))

def execMSet : UExec := fun args =>
  withArgs nextPairs args fun kvs _ =>
  callEach (fun (p : Bytes × Bytes) => HCall.set p.1 p.2 {}) kvs fun _ => replyP okMsg

/-- the GET probes of MSETNX: an existing key answers `:0`; a nil message is dereferenced (panic) -/
def msetnxProbe : List (Bytes × Bytes) → UProg Out → UProg Out
  | [], k => k
  | (key, _) :: ps, k => .call (.get key) fun r =>
    match r.err with
    | some t => failE { text := t }
    | none => match r.msg with
      | .absent => .panic
      | .bulk none => msetnxProbe ps k
      | _ => replyP (newInteger 0)

def execMSetNX : UExec := fun args =>
  withArgs nextPairs args fun kvs _ =>
  msetnxProbe kvs <|
  callEach (fun (p : Bytes × Bytes) => HCall.set p.1 p.2 { nx := true }) kvs fun _ => replyP (newInteger 1)

def execMGet : UExec := fun args =>
  withArgs (nextStrings b!"keys") args fun ks _ =>
  callEach HCall.get ks fun ms => replyP (.arr ms)

def execHMSet : UExec := fun args =>
  withArgs (nextString b!"hash") args fun h rest =>
  withArgs nextPairs rest fun kvs _ =>
  callEach (fun (p : Bytes × Bytes) => HCall.hset h p.1 p.2 false) kvs fun _ => replyP okMsg

def execHMGet : UExec := fun args =>
  withArgs (nextString b!"hash") args fun h rest =>
  withArgs (nextStrings b!"keys") rest fun fs _ =>
  callEach (HCall.hget h) fs fun ms => replyP (.arr ms)

/-- INCR / DECR / INCRBY / DECRBY: GET, add, SET; non-integers and 64-bit overflow are errors -/
def incDec (key : Bytes) (delta : Int) : UProg Out :=
  .call (.get key) fun r =>
  match r.err with
  | some t => failE { text := t }
  | none =>
    let cur : Except Err Int := match r.msg with
      | .bulk none => .ok 0
      | m => msgInt m
    match r.msg with
    | .absent => .panic
    | _ => match cur with
      | .error e => failE e
      | .ok c =>
        let n := c + delta
        if !inInt64 n then failE { text := b!"increment or decrement would overflow" } else
        .call (.set key (itoa n) {}) fun r2 =>
        match r2.err with
        | some t => failE { text := t }
        | none => replyP (newInteger n)

def execIncDecBy (sign : Int) : UExec := fun args =>
  withArgs (nextString b!"key") args fun k rest =>
  withArgs (nextInteger b!"increment") rest fun d _ =>
  if sign < 0 ∧ d = -9223372036854775808 then failE { text := b!"decrement would overflow" }
  else incDec k (sign * d)

def execAppend : UExec := fun args =>
  withArgs (nextString b!"key") args fun k rest =>
  withArgs (nextString b!"value") rest fun v _ =>
  .call (.get k) fun r =>
  match r.err with
  | some t => failE { text := t }
  | none => match r.msg with
    | .absent => .panic
    | m =>
      let nv := match msgStr m with | .ok old => old ++ v | .error _ => v
      .call (.set k nv {}) fun r2 =>
      match r2.err with
      | some t => failE { text := t }
      | none => replyP (newInteger nv.length)

/-- a negative index counts from the end -/
def normIdx (len i : Int) : Int := if i < 0 then len + i else i

/-- Redis' GETRANGE index normalisation; `none` = empty result -/
def getRangeBounds (len start stop : Int) : Option (Nat × Nat) :=
  if start < 0 ∧ stop < 0 ∧ start > stop then none else
  let s := max 0 (normIdx len start)
  let e := min (len - 1) (max 0 (normIdx len stop))
  if len = 0 ∨ s > e then none else some (s.toNat, e.toNat)

def getRange (v : Bytes) (start stop : Int) : Bytes :=
  match getRangeBounds v.length start stop with
  | none => []
  | some (s, e) => (v.drop s).take (e + 1 - s)

def execGetRange : UExec := fun args =>
  withArgs (nextString b!"key") args fun k rest =>
  withArgs (nextInteger b!"start") rest fun s rest =>
  withArgs (nextInteger b!"end") rest fun e _ =>
  .call (.get k) fun r =>
  match r.err with
  | some t => failE { text := t }
  | none => match r.msg with
    | .absent => .panic
    | m => match msgStr m with
      | .error _ => replyP (newBulk [])
      | .ok v => replyP (newBulk (getRange v s e))

/-- count the elements of a handler-built array up to the first nil element (`for nextMsg != nil`) -/
def countUntilAbsent : List Msg → Nat
  | [] => 0
  | .absent :: _ => 0
  | _ :: ms => countUntilAbsent ms + 1

/-- SCARD / ZCARD on the handler's reply -/
def cardReply (r : HRes) : UProg Out :=
  match r.err with
  | some t => failE { text := t }
  | none => match r.msg with
    | .absent => .panic
    | .arrNil => .panic
    | .arr es => replyP (newInteger (countUntilAbsent es))
    | _ => replyP (newInteger 0)

def execSCard : UExec := fun args =>
  withArgs (nextString b!"key") args fun k _ => .call (.smembers k) cardReply

def execZCard : UExec := fun args =>
  withArgs (nextString b!"key") args fun k _ => .call (.zrange k 0 (-1) {}) cardReply

def isMemberOf (member : Bytes) : List Msg → Bool
  | [] => false
  | .absent :: _ => false
  | m :: ms => match msgStr m with
    | .error _ => false
    | .ok v => if v = member then true else isMemberOf member ms

def execSIsMember : UExec := fun args =>
  withArgs (nextString b!"key") args fun k rest =>
  withArgs (nextString b!"member") rest fun mem _ =>
  .call (.smembers k) fun r =>
  match r.err with
  | some t => failE { text := t }
  | none => match r.msg with
    | .absent => .panic
    | .arrNil => .panic
    | .arr es => replyP (newInteger (if isMemberOf mem es then 1 else 0))
    | _ => replyP (newInteger 0)

/-! ## The executor tables and `executeCommand` -/

def notSupported (cmd : Bytes) : Msg := .line .err (b!"'" ++ cmd ++ b!"' is not supported")
def errNotAuthorized : Err := { text := b!"not authrized" }

/-- executors that only talk to the application's handler: no connection or server state involved -/
def userTable (pf : FloatOracle) : List (Bytes × UExec) := [
  (b!"DEL", shapeL .del), (b!"EXISTS", shapeL .exists_),
  (b!"EXPIRE", execExpire true), (b!"EXPIREAT", execExpire false),
  (b!"KEYS", shapeS .keys), (b!"TYPE", shapeS .type_), (b!"TTL", shapeS .ttl),
  (b!"RENAME", shapeSS fun k n => .rename k n false), (b!"RENAMENX", shapeSS fun k n => .rename k n true),
  (b!"SCAN", execScan),
  (b!"GET", shapeS .get), (b!"SET", execSet), (b!"SETEX", execSetEx),
  (b!"GETSET", shapeSS fun k v => .set k v { get := true }), (b!"SETNX", shapeSS fun k v => .set k v { nx := true }),
  (b!"MSET", execMSet), (b!"MSETNX", execMSetNX), (b!"MGET", execMGet),
  (b!"HDEL", shapeSL .hdel), (b!"HGET", shapeSS .hget), (b!"HGETALL", shapeS .hgetall),
  (b!"HSET", shapeSSS fun h f v => .hset h f v false), (b!"HSETNX", shapeSSS fun h f v => .hset h f v true),
  (b!"HMSET", execHMSet), (b!"HMGET", execHMGet),
  (b!"LINDEX", shapeSI .lindex), (b!"LLEN", shapeS .llen), (b!"LRANGE", shapeSII .lrange),
  (b!"LPOP", execPop .lpop), (b!"RPOP", execPop .rpop),
  (b!"LPUSH", shapeSL fun k es => .lpush k es false), (b!"LPUSHX", shapeSL fun k es => .lpush k es true),
  (b!"RPUSH", shapeSL fun k es => .rpush k es false), (b!"RPUSHX", shapeSL fun k es => .rpush k es true),
  (b!"SADD", shapeSL .sadd), (b!"SMEMBERS", shapeS .smembers), (b!"SREM", shapeSL .srem),
  (b!"ZADD", execZAdd pf), (b!"ZINCRBY", shapeSFS pf .zincrby), (b!"ZRANGE", execZRange pf),
  (b!"ZREVRANGE", execZRevRange),
  (b!"ZRANGEBYSCORE", execZRangeByScore pf false),
  (b!"ZREVRANGEBYSCORE", execZRangeByScore pf true),
  (b!"ZREM", shapeSL .zrem), (b!"ZSCORE", shapeSS .zscore),
  (b!"APPEND", execAppend),
  (b!"INCR", fun args => withArgs (nextString b!"key") args fun k _ => incDec k 1),
  (b!"DECR", fun args => withArgs (nextString b!"key") args fun k _ => incDec k (-1)),
  (b!"INCRBY", execIncDecBy 1), (b!"DECRBY", execIncDecBy (-1)),
  (b!"GETRANGE", execGetRange),
  (b!"SCARD", execSCard), (b!"SISMEMBER", execSIsMember), (b!"ZCARD", execZCard)]

/-- names of the sugar commands that re-enter `executeCommand` -/
def nestedNames : List Bytes := [b!"STRLEN", b!"SUBSTR", b!"HEXISTS", b!"HKEYS", b!"HLEN", b!"HSTRLEN", b!"HVALS"]

def systemNames : List Bytes := [b!"AUTH", b!"PING", b!"ECHO", b!"SELECT", b!"QUIT", b!"CONFIG"]

/-- keys at even positions of an HGETALL reply, as the HKEYS loop walks them -/
def hkeysOf : List Msg → List Bytes
  | [] => []
  | .absent :: _ => []
  | [k] => (match msgStr k with | .ok kb => [kb] | .error _ => [])
  | k :: _ :: rest => match msgStr k with
    | .ok kb => kb :: hkeysOf rest
    | .error _ => []

/-- values at odd positions of an HGETALL reply, as the HVALS loop walks them -/
def hvalsOf : List Msg → List Bytes
  | [] => []
  | .absent :: _ => []
  | [_] => []
  | _ :: .absent :: _ => []
  | _ :: v :: rest => match msgStr v with
    | .ok vb => vb :: hvalsOf rest
    | .error _ => []

/-- the span-and-gate wrapper of `executeCommand` around a body -/
def gated (conn : ConnSt) (ucmd : Bytes) (body : Prog Out) : Prog Out :=
  .emit (.start ucmd) <|
    if !conn.authorized && ucmd != b!"AUTH" then .emit .finish (.ret (.error errNotAuthorized))
    else body.andFinish

/-- `executeCommand` for a command of the user table -/
def execUser (pf : FloatOracle) (srv : SrvSt) (conn : ConnSt) (cmd : Bytes) (args : List Msg) : Option (Prog Out) :=
  match (userTable pf).lookup (upper cmd) with
  | none => none
  | some ex => some (if !srv.hasHandler then .ret (.reply (notSupported cmd)) else gated conn (upper cmd) (ex args).lift)

/-- executors that nest other commands: they also start and finish spans -/
abbrev NExec := List Msg → Prog Out

def nreply (m : Msg) : Prog Out := .ret (.reply m)
def nfail (e : Err) : Prog Out := .ret (.error e)

/-- a nested `server.executeCommand(conn, name, args)` of a sugar command (name is a user-table command) -/
def nestedCall (pf : FloatOracle) (srv : SrvSt) (conn : ConnSt) (name : Bytes) (args : List Msg) (k : Out → Prog Out) : Prog Out :=
  match execUser pf srv conn name args with
  | none => k (.reply (notSupported name))
  | some p => p.bind k

def execHKeys (pf : FloatOracle) (srv : SrvSt) (conn : ConnSt) : NExec := fun args =>
  nestedCall pf srv conn b!"HGETALL" args fun o =>
  match o with
  | .reply .absent => .panic
  | .reply .arrNil => .panic
  | .reply (.arr es) => nreply (.arr ((hkeysOf es).map newBulk))
  | .reply _ => nreply (.arr [])
  | other => .ret other

def execHVals (pf : FloatOracle) (srv : SrvSt) (conn : ConnSt) : NExec := fun args =>
  nestedCall pf srv conn b!"HGETALL" args fun o =>
  match o with
  | .reply .absent => .panic
  | .reply .arrNil => .panic
  | .reply (.arr es) => nreply (.arr ((hvalsOf es).map newBulk))
  | .reply _ => nreply (.arr [])
  | other => .ret other

def execStrLen (pf : FloatOracle) (srv : SrvSt) (conn : ConnSt) : NExec := fun args =>
  nestedCall pf srv conn b!"GET" args fun o =>
  match o with
  | .reply .absent => .panic
  | .reply m => (match msgStr m with | .ok v => nreply (newInteger v.length) | .error _ => nreply (newInteger 0))
  | other => .ret other

def execHExists (pf : FloatOracle) (srv : SrvSt) (conn : ConnSt) : NExec := fun args =>
  nestedCall pf srv conn b!"HGET" args fun o =>
  match o with
  | .reply .absent => .panic
  | .reply m => (match msgStr m with | .ok _ => nreply (newInteger 1) | .error _ => nreply (newInteger 0))
  | other => .ret other

def execHStrLen (pf : FloatOracle) (srv : SrvSt) (conn : ConnSt) : NExec := fun args =>
  nestedCall pf srv conn b!"HGET" args fun o =>
  match o with
  | .reply .absent => .panic
  | .reply (.bulk none) => nreply (newInteger 0)
  | .reply m => (match msgStr m with | .ok v => nreply (newInteger v.length) | .error e => nfail e)
  | other => .ret other

/-- the sugar commands that nest one level -/
def nested1 (pf : FloatOracle) (srv : SrvSt) (conn : ConnSt) (ucmd : Bytes) : Option NExec :=
  if ucmd = b!"STRLEN" then some (execStrLen pf srv conn)
  else if ucmd = b!"SUBSTR" then some (fun args => nestedCall pf srv conn b!"GETRANGE" args .ret)
  else if ucmd = b!"HEXISTS" then some (execHExists pf srv conn)
  else if ucmd = b!"HKEYS" then some (execHKeys pf srv conn)
  else if ucmd = b!"HSTRLEN" then some (execHStrLen pf srv conn)
  else if ucmd = b!"HVALS" then some (execHVals pf srv conn)
  else none

/-- HLEN nests HKEYS, which nests HGETALL -/
def execHLen (pf : FloatOracle) (srv : SrvSt) (conn : ConnSt) : NExec := fun args =>
  (if !srv.hasHandler then nreply (notSupported b!"HKEYS") else gated conn b!"HKEYS" (execHKeys pf srv conn args)).bind fun o =>
  match o with
  | .reply (.arr es) => nreply (newInteger es.length)
  | .reply .absent => .panic
  | .reply .arrNil => nreply (newInteger 0)   -- not reachable: HKEYS always answers with an array
  | .reply _ => nfail errType
  | other => .ret other

/-! ## Connection-management and server-management commands -/

/-- `AuthManager.Authenticate` for a non-TLS `AUTH`: every installed authenticator must accept -/
def authenticate (srv : SrvSt) (conn : ConnSt) : Bool :=
  (match srv.authPw with
   | none => true
   | some pw => decide (conn.user = []) && (!conn.hasPass || decide (conn.pass = pw))) &&
  !srv.certAuth

/-- how the AUTH executor decodes its arguments: `AUTH password` or `AUTH user password` -/
def authCreds (args : List Msg) : Except Err (Bytes × Bytes) :=
  match nextStringRaw args with
  | .error e => .error (errMissing b!"password" e)
  | .ok (first, rest) =>
    match rest with
    | [] => .ok ([], first)
    | .absent :: _ => .ok ([], first)
    | m :: _ => (match msgStr m with | .ok tok => .ok (first, tok) | .error e => .error e)

def configGetReply (cfg : List (Bytes × Bytes)) (keys : List Bytes) : Msg :=
  .arr (keys.flatMap fun k => [newBulk k, newBulk ((cfg.lookup k).getD [])])

def configSet (cfg : List (Bytes × Bytes)) : List (Bytes × Bytes) → List (Bytes × Bytes)
  | [] => cfg
  | (k, v) :: ps => configSet ((k, v) :: cfg.filter (fun p => p.1 != k)) ps

/-- the six system executors; they may change the connection and the server configuration -/
def execSystem (srv : SrvSt) (conn : ConnSt) (ucmd : Bytes) (args : List Msg) : Option (Out × ConnSt × SrvSt) :=
  if ucmd = b!"AUTH" then some <|
    match authCreds args with
    | .error e => (.error e, conn, srv)
    | .ok (user, pass) =>
      let conn' := { conn with user := user, pass := pass, hasPass := true }
      if authenticate srv conn' then (.reply okMsg, { conn' with authorized := true }, srv)
      else (.error { text := b!"authrization failed" }, conn', srv)
  else if ucmd = b!"PING" then some <|
    match args with
    | [] => (.reply (newStatus b!"PONG"), conn, srv)
    | .absent :: _ => (.reply (newStatus b!"PONG"), conn, srv)
    | m :: _ => (match msgStr m with
      | .error e => (.error e, conn, srv)
      | .ok a => if a = [] then (.reply (newStatus b!"PONG"), conn, srv) else (.reply (newBulk a), conn, srv))
  else if ucmd = b!"ECHO" then some <|
    match nextStringRaw args with
    | .error e => (.error (errMissing b!"msg" e), conn, srv)
    | .ok (a, _) => (.reply (newBulk a), conn, srv)
  else if ucmd = b!"SELECT" then some <|
    match nextIntegerRaw args with
    | .error e => (.error (errMissing b!"id" e), conn, srv)
    | .ok (n, _) => (.reply okMsg, { conn with db := n }, srv)
  else if ucmd = b!"QUIT" then some (.quit okMsg, conn, srv)
  else if ucmd = b!"CONFIG" then some <|
    let sub : Except Err (Bytes × List Msg) := match args with
      | [] => .ok ([], [])
      | .absent :: rest => .ok ([], rest)
      | m :: rest => (match msgStr m with | .ok a => .ok (a, rest) | .error e => .error e)
    match sub with
    | .error e => (.error e, conn, srv)
    | .ok (opt, rest) =>
      if upper opt = b!"SET" then
        match nextPairs rest with
        | .error e => (.error e, conn, srv)
        | .ok (kvs, _) => (.reply okMsg, conn, { srv with config := configSet srv.config kvs })
      else if upper opt = b!"GET" then
        match nextStrings b!"params" rest with
        | .error e => (.error e, conn, srv)
        | .ok (ks, _) => (.reply (configGetReply srv.config ks), conn, srv)
      else (.error { text := opt }, conn, srv)
  else none

/-- `Server.executeCommand` at top level: lookup (case-insensitive), span, authorization gate, executor. -/
def executeCommand (pf : FloatOracle) (srv : SrvSt) (conn : ConnSt) (cmd : Bytes) (args : List Msg) :
    Prog (Out × ConnSt × SrvSt) :=
  let ucmd := upper cmd
  let keep (p : Prog Out) : Prog (Out × ConnSt × SrvSt) := p.bind fun o => .ret (o, conn, srv)
  if !srv.hasHandler then .ret (.reply (notSupported cmd), conn, srv) else
  match execSystem srv conn ucmd args with
  | some (o, conn', srv') =>
    .emit (.start ucmd) <|
      if !conn.authorized && ucmd != b!"AUTH" then .emit .finish (.ret (.error errNotAuthorized, conn, srv))
      else .emit .finish (.ret (o, conn', srv'))
  | none =>
    match execUser pf srv conn cmd args with
    | some p => keep p
    | none =>
      match nested1 pf srv conn ucmd with
      | some ex => keep (gated conn ucmd (ex args))
      | none =>
        if ucmd = b!"HLEN" then keep (gated conn ucmd (execHLen pf srv conn args))
        else if srv.appGet.contains ucmd then keep (gated conn ucmd (shapeS .get args).lift)
        else .ret (.reply (notSupported cmd), conn, srv)

end GoRedis
