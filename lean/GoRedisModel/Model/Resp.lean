import GoRedisModel.Model.Dec
/-! RESP values and the serializer (`proto.Message.RESPBytes`, `proto.Array.RESPBytes`). -/
namespace GoRedis

inductive LineTy | str | err | int
deriving Repr, DecidableEq, Inhabited

def LineTy.byte : LineTy → UInt8
  | .str => 43 | .err => 45 | .int => 58

def bulkByte : UInt8 := 36
def arrayByte : UInt8 := 42

def lineTy? (b : UInt8) : Option LineTy :=
  if b == 43 then some .str else if b == 45 then some .err else if b == 58 then some .int else none

/-- A `*proto.Message` as the Go code can build it.
`absent` is a nil `*Message` (it can only occur as a handler result or inside a handler-built array);
`arrNil` is an array-typed message whose `*Array` is nil.  The parser never produces either. -/
inductive Msg where
  | line (t : LineTy) (p : Bytes)
  | bulk (p : Option Bytes)
  | arr (es : List Msg)
  | absent
  | arrNil
deriving Repr, Inhabited

/-- CR and LF inside the payload of a status/error/integer line are replaced by a space when the line is
serialized (the single serialization point for line-type replies). -/
def sanByte (b : UInt8) : UInt8 := if b == CR || b == LF then 32 else b
def sanitize (p : Bytes) : Bytes := p.map sanByte

mutual
/-- `RESPBytes` for values without nil pointers (total). -/
def enc : Msg → Bytes
  | .line t p => t.byte :: sanitize p ++ CRLF
  | .bulk none => bulkByte :: 45 :: 49 :: CRLF
  | .bulk (some p) => bulkByte :: dec p.length ++ CRLF ++ p ++ CRLF
  | .arr es => arrayByte :: dec es.length ++ CRLF ++ encs es
  | .absent => []
  | .arrNil => []
def encs : List Msg → Bytes
  | [] => []
  | m :: ms => enc m ++ encs ms
end

mutual
/-- No nil pointer anywhere in the value: exactly the values whose serialization does not panic in Go. -/
def noAbsent : Msg → Bool
  | .line _ _ => true
  | .bulk _ => true
  | .arr es => noAbsents es
  | .absent => false
  | .arrNil => false
def noAbsents : List Msg → Bool
  | [] => true
  | m :: ms => noAbsent m && noAbsents ms
end

/-- `RESPBytes` as Go runs it: `none` = nil-pointer panic. -/
def encGo (m : Msg) : Option Bytes := if noAbsent m then some (enc m) else none

mutual
def depth : Msg → Nat
  | .arr es => depths es + 1
  | _ => 0
def depths : List Msg → Nat
  | [] => 0
  | m :: ms => max (depth m) (depths ms)
end

/-- Upper bound for a declared bulk length the parser accepts (Redis' `proto-max-bulk-len`, 512 MiB). -/
def maxBulk : Nat := 536870912

mutual
/-- Canonical RESP2 value trees: what C01 quantifies over. -/
def wf : Msg → Prop
  | .line _ p => CR ∉ p ∧ LF ∉ p
  | .bulk none => True
  | .bulk (some p) => p.length ≤ maxBulk
  | .arr es => es.length ≤ maxInt ∧ wfs es
  | .absent => False
  | .arrNil => False
def wfs : List Msg → Prop
  | [] => True
  | m :: ms => wf m ∧ wfs ms
end

end GoRedis
