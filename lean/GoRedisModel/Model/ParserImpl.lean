import GoRedisModel.Model.ParserSpec
import GoRedisModel.Model.Reader
/-! `parser.go` / `array.go` read by read over the chunked transport. -/
namespace GoRedis

/-- `nextLineBytes`: one-byte reads until CR, then one skipped byte; end of stream returns what was read. -/
def lineLoop : Nat → Reader → Bytes → Bytes × Reader
  | 0, r, acc => (acc, r)
  | k+1, r, acc =>
    match r.read 1 with
    | ([b], r') => if b == CR then (acc, (r'.read 1).2) else lineLoop k r' (acc ++ [b])
    | (_, r') => (acc, r')

/-- `lineLoop` with the line accumulated in reverse (the definition above appends one byte at a time, which is quadratic
in the line length when it is *run*; compiled code runs this one instead - `lineLoop_eq_fast` below, `@[csimp]`) -/
def lineLoopRev : Nat → Reader → Bytes → Bytes × Reader
  | 0, r, racc => (racc, r)
  | k+1, r, racc =>
    match r.read 1 with
    | ([b], r') => if b == CR then (racc, (r'.read 1).2) else lineLoopRev k r' (b :: racc)
    | (_, r') => (racc, r')

def lineLoopFast (k : Nat) (r : Reader) (acc : Bytes) : Bytes × Reader :=
  let x := lineLoopRev k r acc.reverse
  (x.1.reverse, x.2)

theorem lineLoop_rev (k : Nat) (r : Reader) (acc : Bytes) :
    lineLoop k r acc = ((lineLoopRev k r acc.reverse).1.reverse, (lineLoopRev k r acc.reverse).2) := by
  induction k generalizing r acc with
  | zero => simp [lineLoop, lineLoopRev]
  | succ k ih =>
    simp only [lineLoop, lineLoopRev]
    cases h : r.read 1 with
    | mk bs r' =>
      match bs with
      | [] => simp
      | [b] =>
        simp only
        split
        · simp
        · rw [ih]; simp
      | _ :: _ :: _ => simp

@[csimp] theorem lineLoop_eq_fast : @lineLoop = @lineLoopFast := by
  funext k r acc
  simp [lineLoopFast, lineLoop_rev]

/-- the accumulate loop of `nextLengthBytes`: read into the rest of the buffer until `need` more bytes have
arrived or the stream ends -/
def lenLoop : Nat → Reader → Nat → Bytes → Bytes × Reader
  | 0, r, _, acc => (acc, r)
  | k+1, r, need, acc =>
    if need = 0 then (acc, r) else
    match r.read need with
    | ([], r') => (acc, r')
    | (bs, r') => lenLoop k r' (need - bs.length) (acc ++ bs)

inductive IRes where
  | ok (m : Msg) (r : Reader)
  | eof
  | err
  | panic          -- a Go run-time panic (`makeslice: len out of range`); shown unreachable
  | fuel
deriving Repr, Inhabited

/-- largest `make([]byte, n)` the Go runtime accepts on a 64-bit platform (2^47 bytes of address space) -/
def maxAlloc : Nat := 140737488355328

def ielems (p : Reader → IRes) : Nat → Reader → List Msg → IRes
  | 0, r, acc => .ok (.arr acc.reverse) r
  | n+1, r, acc =>
    match p r with
    | .ok m r' => ielems p n r' (m :: acc)
    | .eof => .err
    | e => e

def inext : Nat → Reader → IRes
  | 0, _ => .fuel
  | f+1, r =>
    match r.read 1 with
    | (t :: _, r1) =>
      if t == arrayByte then
        let (ln, r2) := lineLoop (f+1) r1 []
        match atoi ln with
        | none => .err
        | some n => if n < 0 then .ok (.arr []) r2 else ielems (inext f) n.toNat r2 []
      else if t == bulkByte then
        let (ln, r2) := lineLoop (f+1) r1 []
        match atoi ln with
        | none => .err
        | some n =>
          if n < 0 then .ok (.bulk none) r2
          else if n.toNat > maxBulk then .err
          else
            let need := n.toNat + 2
            if need > maxAlloc then .panic else
            let (buf, r3) := lenLoop need r2 need []
            if buf.length < need then .err
            else if (buf.drop n.toNat) == CRLF then .ok (.bulk (some (buf.take n.toNat))) r3
            else .err
      else match lineTy? t with
        | none => .err
        | some ty => let (ln, r2) := lineLoop (f+1) r1 []; .ok (.line ty ln) r2
    | ([], _) => .eof

/-- The Go functions of `redis/proto` that this file (and `Reader`, `Resp`) transcribes, with the fingerprint of the source
they were transcribed from (FNV-1a 64 of signature and body as go/printer prints them, whitespace collapsed) and the
definition that transcribes each.  `Generated.protoFingerprints` is regenerated from /repo on every run and must contain
every entry (`C02_source_parser_is_the_modelled_one`, `C01_source_serializer_is_the_modelled_one`): a change to one of
these functions means the transcription has to be looked at again – until then the check treats the theorems about it as
no longer shown for the code, and searches for a failing input with the differential. -/
def parserModelled : List (String × Nat × String) := [
  ("Parser.Next", 10069049075977101191, "inext"),
  ("Parser.nextArrayMessage", 12841142932256633484, "inext (array branch)"),
  ("Parser.nextBulkMessage", 4731615691933970192, "inext (bulk branch)"),
  ("Parser.nextLengthBytes", 8625509693833932105, "lenLoop"),
  ("Parser.nextLineBytes", 15306031760255691629, "lineLoop"),
  ("newArrayWithParser", 2397362184235602053, "ielems")]

def serializerModelled : List (String × Nat × String) := [
  ("Array.RESPBytes", 9708786277464342792, "enc (.arr es)"),
  ("Message.RESPBytes", 14589052334745002506, "enc")]

end GoRedis
