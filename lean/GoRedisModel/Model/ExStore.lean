import GoRedisModel.Model.RefStore
/-! The algorithms of the bundled example store (`examples/go-redisd/server/{list,set,zset}.go`) as they are written:
the loops over slices that scan for a member, splice it out, search the insertion position, pop element by element,
clamp an index range.  `RefStore` is the *specification* (filters, `zInsert`, `take`/`drop`); this file is the
*implementation* level, one definition per Go function, loop for loop.  `Proofs/ExStore.lean` proves that every one of
them computes what the specification says, for every container and every argument. -/
namespace GoRedis.Ex

/-! ## list.go -/

/-- `clampRange(length, start, stop)`: negative indexes count from the end, the range is clamped to the sequence;
`none` is the `ok = false` return -/
def clampRange (length start stop : Int) : Option (Int × Int) :=
  let start := if start < 0 then length + start else start
  let stop := if stop < 0 then length + stop else stop
  let start := if start < 0 then 0 else start
  let stop := if length ≤ stop then length - 1 else stop
  if stop < start ∨ length ≤ start then none else some (start, stop)

/-- the slice expression `l[start : stop+1]` -/
def slice {α : Type} (l : List α) (start stop : Int) : List α :=
  (l.drop start.toNat).take ((stop + 1).toNat - start.toNat)

/-- `List.Range` / the window of `ZSet.Range` -/
def range {α : Type} (l : List α) (start stop : Int) : List α :=
  match clampRange l.length start stop with
  | none => []
  | some (a, b) => slice l a b

/-- the loop of `List.LPop`: `count` rounds; a round on an empty list ends the loop; a round moves the head to the
result.  Returns (popped, remaining). -/
def lpopLoop {α : Type} : Nat → List α → List α → List α × List α
  | 0, es, acc => (acc, es)
  | _ + 1, [], acc => (acc, [])
  | n + 1, e :: es, acc => lpopLoop n es (acc ++ [e])

/-- the loop of `List.RPop`: a round moves the last element to the result -/
def rpopLoop {α : Type} : Nat → List α → List α → List α × List α
  | 0, es, acc => (acc, es)
  | n + 1, es, acc =>
    match es.getLast? with
    | none => (acc, es)
    | some e => rpopLoop n es.dropLast (acc ++ [e])

/-- `List.LPush`: every element is put in front of the list, in argument order -/
def lpush {α : Type} (l elems : List α) : List α := elems.foldl (fun acc e => e :: acc) l

/-- `List.Index` -/
def index {α : Type} (l : List α) (idx : Int) : Option α :=
  let idx := if idx < 0 then (l.length : Int) + idx else idx
  if idx < 0 ∨ (l.length : Int) - 1 < idx then none else l[idx.toNat]?

/-! ## set.go -/

/-- `Set.Add`: for every member scan the set; append it when it is not there.  Returns (members, added). -/
def setAdd (cur ms : List Bytes) : List Bytes × Nat :=
  ms.foldl (fun (acc : List Bytes × Nat) m => if acc.1.contains m then acc else (acc.1 ++ [m], acc.2 + 1)) (cur, 0)

/-- splice out the first element that satisfies `p` (`append(s[:n], s[n+1:]...)` at the first hit, then `break`);
the flag says whether there was one -/
def spliceFirst {α : Type} (p : α → Bool) : List α → List α × Bool
  | [] => ([], false)
  | x :: xs => if p x then (xs, true) else let r := spliceFirst p xs; (x :: r.1, r.2)

/-- `Set.Rem`: for every member to remove, splice out its first occurrence.  Returns (members, removed). -/
def setRem (cur ms : List Bytes) : List Bytes × Nat :=
  ms.foldl (fun (acc : List Bytes × Nat) m =>
    let r := spliceFirst (· == m) acc.1
    (r.1, if r.2 then acc.2 + 1 else acc.2)) (cur, 0)

/-! ## zset.go -/

/-- the position loop of `ZSet.Add`: the first index whose entry is greater (score, then member) — the end otherwise —
and the splice `append(members, nil); copy(members[pos+1:], members[pos:]); members[pos] = nm` -/
def insertAtFirstGreater (x : Int × Bytes) (l : List (Int × Bytes)) : List (Int × Bytes) :=
  let pos := (l.findIdx? fun y => zLt x y).getD l.length
  l.take pos ++ x :: l.drop pos

/-- one round of `ZSet.Add`: splice out the member's existing entry (if any), then insert the new entry at its
position.  Returns (members, isNew). -/
def zAddOne (cur : List (Int × Bytes)) (x : Int × Bytes) : List (Int × Bytes) × Bool :=
  let r := spliceFirst (fun q => q.2 == x.2) cur
  (insertAtFirstGreater x r.1, !r.2)

/-- `ZSet.Add` over exactly decoded scores.  Returns (members, added). -/
def zAdd (cur : List (Int × Bytes)) (xs : List (Int × Bytes)) : List (Int × Bytes) × Nat :=
  xs.foldl (fun (acc : List (Int × Bytes) × Nat) x =>
    let r := zAddOne acc.1 x
    (r.1, if r.2 then acc.2 + 1 else acc.2)) (cur, 0)

/-- `ZSet.Rem` -/
def zRem (cur : List (Int × Bytes)) (ms : List Bytes) : List (Int × Bytes) × Nat :=
  ms.foldl (fun (acc : List (Int × Bytes) × Nat) m =>
    let r := spliceFirst (fun q => q.2 == m) acc.1
    (r.1, if r.2 then acc.2 + 1 else acc.2)) (cur, 0)

/-- `limitZSetMembers(mems, offset, count)` -/
def limit {α : Type} (mems : List α) (offset count : Int) : List α :=
  if offset < 0 ∨ (mems.length : Int) ≤ offset then [] else
  let mems := mems.drop offset.toNat
  if 0 ≤ count ∧ count < (mems.length : Int) then mems.take count.toNat else mems

/-- `ZSet.Range`: with REV the window is taken from a reversed copy; then LIMIT -/
def zRange (cur : List (Int × Bytes)) (start stop : Int) (rev : Bool) (offset count : Int) : List (Int × Bytes) :=
  limit (range (if rev then cur.reverse else cur) start stop) offset count

/-- the selection loop of `ZSet.RangeByScore` (`continue` on an entry below the minimum or above the maximum) -/
def inScore (lo hi : Bound) (loEx hiEx : Bool) (score : Int) : Bool :=
  let below := match lo with
    | .fin l => (score < l && !loEx) || (score ≤ l && loEx)
    | .negInf => false
    | .posInf => true
  let above := match hi with
    | .fin h => (h < score && !hiEx) || (h ≤ score && hiEx)
    | .posInf => false
    | .negInf => true
  !below && !above

/-- `ZSet.RangeByScore` without REV -/
def zRangeByScore (cur : List (Int × Bytes)) (lo hi : Bound) (loEx hiEx : Bool) (offset count : Int) : List (Int × Bytes) :=
  limit (cur.filter fun p => inScore lo hi loEx hiEx p.1) offset count

/-- `ZSet.Score` -/
def zScore (cur : List (Int × Bytes)) (m : Bytes) : Option Int :=
  match cur with
  | [] => none
  | q :: qs => if q.2 == m then some q.1 else zScore qs m

/-- `ZSet.IncBy`: find the member's entry and splice it out (a member without an entry starts from 0), add the increment,
hand the entry to `ZSet.Add`.  Returns (members, new score). -/
def zIncBy (cur : List (Int × Bytes)) (d : Int) (m : Bytes) : List (Int × Bytes) × Int :=
  let nw := (zScore cur m).getD 0 + d
  let r := spliceFirst (fun q => q.2 == m) cur
  ((zAddOne r.1 (nw, m)).1, nw)

/-- `List.RPush` -/
def rpush {α : Type} (l elems : List α) : List α := l ++ elems

/-! ## hash.go: a Go map as its entries (one entry per key; iteration order is not part of any reply that is compared in order) -/

abbrev GoMap := List (Bytes × Bytes)

/-- Go map assignment `m[k] = v` on a map represented by its entries (one entry per key) -/
def mapAssign (m : GoMap) (k v : Bytes) : GoMap :=
  if (m.lookup k).isSome then m.map (fun p => if p.1 == k then (k, v) else p) else m ++ [(k, v)]

/-- `delete(m, k)` -/
def mapDelete (m : GoMap) (k : Bytes) : GoMap := m.filter (fun p => !(p.1 == k))

/-- `Hash.Set(field, val, opt)` of hash.go: returns the map and the reply (1 = a new field) -/
def hashSet (h : GoMap) (field val : Bytes) (nx : Bool) : GoMap × Int :=
  let hasKey := (h.lookup field).isSome
  if nx && hasKey then (h, 0) else
  let h := mapAssign h field val
  if hasKey then (h, 0) else (h, 1)

/-- `Hash.Del(fields)`: `for _, field := range fields { if _, ok := hash[field]; !ok { continue }; delete(hash, field); removed++ }` -/
def hashDel (h : GoMap) (fields : List Bytes) : GoMap × Nat :=
  fields.foldl (fun (acc : GoMap × Nat) f =>
    if (acc.1.lookup f).isSome then (mapDelete acc.1 f, acc.2 + 1) else acc) (h, 0)

/-- The Go functions transcribed above, with the fingerprint of the source they were transcribed from (FNV-1a 64 of the
function's signature and body as go/printer prints them, comments dropped, whitespace collapsed) and the definition
that transcribes them.  `Generated.exStoreFingerprints` is regenerated from /repo on every run and must equal this
table (`C18_source_is_the_modelled_one`): a change to any of these functions means this file no longer describes the
code, and the theorems about it say nothing about the code any more, until the transcription is brought up to date. -/
def modelled : List (String × Nat × String) := [
  ("Hash.Del", 12988852625961833629, "Ex.hashDel"),
  ("Hash.Set", 17556556149426256850, "Ex.hashSet"),
  ("List.Index", 2895265718274309793, "Ex.index"),
  ("List.LPop", 15164786233721968043, "Ex.lpopLoop"),
  ("List.LPush", 9616840625249962546, "Ex.lpush"),
  ("List.RPop", 8133690760141424774, "Ex.rpopLoop"),
  ("List.RPush", 5424568706897502709, "Ex.rpush"),
  ("List.Range", 16062555193782956662, "Ex.range"),
  ("Set.Add", 9308645767755086968, "Ex.setAdd"),
  ("Set.Rem", 12786188757009542259, "Ex.setRem"),
  ("ZSet.Add", 7581696959672203291, "Ex.zAdd"),
  ("ZSet.IncBy", 8987879763221795210, "Ex.zIncBy"),
  ("ZSet.Range", 10689563454309920531, "Ex.zRange"),
  ("ZSet.RangeByScore", 2666107677645002963, "Ex.zRangeByScore"),
  ("ZSet.Rem", 11060436071504015927, "Ex.zRem"),
  ("ZSet.Score", 10135807058430043380, "Ex.zScore"),
  ("clampRange", 12914095311493499102, "Ex.clampRange"),
  ("limitZSetMembers", 11143574718213544258, "Ex.limit"),
  ("reverseZSetMembers", 4328225594367349382, "List.reverse (Ex.zRange)")]

end GoRedis.Ex
