import GoRedisModel.Model.Exec
import GoRedisModel.Model.ParserSpec
/-! The connection loop (`server.go`: `receive`, `handleMessage`, `handleArrayMessage`, `responseMessage`). -/
namespace GoRedis

def errEmptyCommand : Err := { text := b!"invalid empty command" }
def systemErrorMsg : Msg := .line .err b!"internal system error"

/-- `handleArrayMessage`: the first element is the command name; a nested array is descended into;
an empty array is an error.  Fuel bounds the nesting depth. -/
def handleArray (pf : FloatOracle) (srv : SrvSt) (conn : ConnSt) : Nat → List Msg → Prog (Out × ConnSt × SrvSt)
  | 0, _ => .ret (.error errEmptyCommand, conn, srv)
  | _+1, [] => .ret (.error errEmptyCommand, conn, srv)
  | _+1, .absent :: _ => .ret (.error errEmptyCommand, conn, srv)
  | f+1, .arr es :: _ => handleArray pf srv conn f es
  | _+1, .arrNil :: _ => .panic
  | _+1, first :: rest =>
    match msgStr first with
    | .error e => .ret (.error e, conn, srv)
    | .ok cmd => executeCommand pf srv conn cmd rest

/-- `handleMessage`: only arrays are commands; every other value type yields `(nil, nil)` -/
def handleMessage (pf : FloatOracle) (srv : SrvSt) (conn : ConnSt) (m : Msg) : Prog (Out × ConnSt × SrvSt) :=
  match m with
  | .arr es => handleArray pf srv conn (depth m + 1) es
  | _ => .ret (.reply .absent, conn, srv)

/-- the bytes `receive` writes for an outcome (`none` = serialization panics on a nil pointer) -/
def replyBytes : Out → Option Bytes
  | .reply .absent => some (enc systemErrorMsg)
  | .reply m => encGo m
  | .quit .absent => some (enc systemErrorMsg)
  | .quit m => encGo m
  | .error e => some (enc (.line .err e.text))

def Out.isQuit : Out → Bool
  | .quit _ => true
  | _ => false

/-- what one request does: events, and the state after it (`none` = the connection ends: QUIT or crash) -/
structure StepRes where
  evs : List Ev
  next : Option (ConnSt × SrvSt)
  script : List HRes

/-- one iteration of the loop body after a request value was parsed -/
def reqStep (pf : FloatOracle) (srv : SrvSt) (conn : ConnSt) (m : Msg) (script : List HRes) : StepRes :=
  let (evs, res, script') := (handleMessage pf srv conn m).run conn script
  match res with
  | none => { evs := evs ++ [.crash], next := none, script := script' }
  | some (out, conn', srv') =>
    match replyBytes out with
    | none => { evs := evs ++ [.spanStart b!"response", .crash], next := none, script := script' }
    | some bs =>
      { evs := evs ++ [.spanStart b!"response", .wr bs, .spanFinish, .topFinish],
        next := if out.isQuit then none else some (conn', srv'), script := script' }

/-- the loop of `receive` over the (flat) request stream; fuel bounds the number of requests -/
def serveLoop (pf : FloatOracle) : Nat → SrvSt → ConnSt → Bytes → List HRes → List Ev
  | 0, _, _, _, _ => []
  | n+1, srv, conn, input, script =>
    [Ev.rootStart, .spanStart b!"parse"] ++
    match parse (input.length + 1) input with
    | .ok m rest =>
      let r := reqStep pf srv conn m script
      Ev.spanFinish :: (r.evs ++ match r.next with
        | none => []
        | some (conn', srv') => serveLoop pf n srv' conn' rest r.script)
    | _ => [.spanFinish, .topFinish]

/-- `receive` for a plain connection: initial authorization from the configuration, register, loop,
deregister and close on every way out -/
def serve (pf : FloatOracle) (srv : SrvSt) (requirePass : Bool) (input : Bytes) (script : List HRes) : List Ev :=
  let conn : ConnSt := { authorized := !requirePass }
  [Ev.register] ++ serveLoop pf (input.length + 1) srv conn input script ++ [.deregister, .close]



/-- end offsets (from the start of the stream) of the values the loop parses, up to end of stream or error -/
def valueEnds : Nat → Bytes → Nat → List Nat
  | 0, _, _ => []
  | k+1, input, off =>
    match parse (input.length + 1) input with
    | .ok _ rest => let e := off + (input.length - rest.length); e :: valueEnds k rest e
    | _ => []

/-- Number of complete replies the loop has written each time it has to wait for bytes that were not sent
yet.  `ends` are the end offsets of the requests, `served` the number of requests the loop answered before
it stopped, `quit` whether it stopped because of QUIT, `bounds` the cumulative segment ends. -/
def blockCounts (ends : List Nat) (served : Nat) (quit : Bool) : List Nat → List Nat
  | [] => []
  | b :: bs =>
    let lastEnd := (ends.take served).getLastD 0
    if quit && lastEnd ≤ b then []
    else ((ends.take served).filter (· ≤ b)).length :: blockCounts ends served quit bs

def cumulative : List Nat → Nat → List Nat
  | [], _ => []
  | n :: ns, acc => (acc + n) :: cumulative ns (acc + n)

/-- The functions of `redis/server.go` / `server_handler.go` that this file and `Exec.executeCommand` mirror, with the
fingerprint of the source they were written from (see `Ex.modelled` for what the number is).  Regenerated and compared on
every run (`source_conn_loop_is_the_modelled_one`): a changed connection loop is a loop the theorems about `serveLoop`
have not been shown for. -/
def connLoopModelled : List (String × Nat × String) := [
  ("Server.serveConn", 10743545937290769133, "serveLoop"),
  ("Server.receive", 412958942235522989, "serve (registration, releases)"),
  ("Server.dispatch", 9739442017302085675, "reqStep (atomic step)"),
  ("Server.handleMessage", 4115736628641310308, "handleMessage"),
  ("Server.handleArrayMessage", 6979885149922757821, "handleMessage (array branch)"),
  ("Server.responseMessage", 9955149415165850085, "replyBytes"),
  ("Server.executeCommand", 11733987735526507935, "executeCommand"),
  ("upperASCII", 11464278057085635175, "upperASCII")]

end GoRedis
