/-! Byte strings, byte-string literals, hex codec.  Core-only (no `import Lean`, no Mathlib). -/
namespace GoRedis

abbrev Bytes := List UInt8

def CR : UInt8 := 13
def LF : UInt8 := 10
def CRLF : Bytes := [CR, LF]

end GoRedis

open Lean in
/-- `b!"NX"` is the byte list `[78, 88]`. -/
macro:max "b!" s:str : term => do
  let bs := s.getString.toUTF8.toList
  let elems ← bs.mapM fun b => `(($(Syntax.mkNumLit (toString b.toNat)) : UInt8))
  `([$(elems.toArray),*])

namespace GoRedis

/-- ASCII upper-casing, the part of `strings.ToUpper` the model implements (bytes ≥ 0x80 are left alone;
the tie only generates ASCII command and option names, non-ASCII names are a trusted-base item). -/
def upperByte (c : UInt8) : UInt8 := if 97 ≤ c ∧ c ≤ 122 then c - 32 else c
def upper (b : Bytes) : Bytes := b.map upperByte

def hexVal (c : Char) : Nat :=
  if '0' ≤ c ∧ c ≤ '9' then c.toNat - 48
  else if 'a' ≤ c ∧ c ≤ 'f' then c.toNat - 87
  else if 'A' ≤ c ∧ c ≤ 'F' then c.toNat - 55 else 0

def unhexChars : List Char → Bytes
  | a :: b :: rest => (hexVal a * 16 + hexVal b).toUInt8 :: unhexChars rest
  | _ => []

/-- `"-"` is the empty byte string on the line protocol. -/
def unhex (s : String) : Bytes := if s == "-" then [] else unhexChars s.toList

def hexDigit (n : Nat) : Char := if n < 10 then Char.ofNat (48 + n) else Char.ofNat (87 + n)

def hex (bs : Bytes) : String :=
  if bs.isEmpty then "-" else
  String.ofList (bs.flatMap fun b => [hexDigit (b.toNat / 16), hexDigit (b.toNat % 16)])

end GoRedis
