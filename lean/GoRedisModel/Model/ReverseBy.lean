import GoRedisModel.Model.Exec
/-! `(*Array).ReverseBy` of `redis/proto/array.go` as it is written: the two index loops and the final append, with an
index outside the slice being a run-time panic (`none`).  ZREVRANGE and ZREVRANGEBYSCORE build their reply with it
(step 1, or 2 WITHSCORES); `Model/Exec` describes that by `List.reverse` and `reversePairs`.  `Proofs/ReverseBy` proves
that the loops compute exactly those, and never index out of range, for every array and every step. -/
namespace GoRedis.Ex
open GoRedis

/-- the inner loop of `Array.ReverseBy`: `for j := 0; j < step; j++ { ra.msgs = append(ra.msgs, array.msgs[a+j]) }`;
`none` = index out of range (a run-time panic) -/
def groupAt {α : Type} (msgs : List α) : Nat → Nat → Option (List α)
  | _, 0 => some []
  | a, n + 1 =>
    match msgs[a]? with
    | none => none
    | some x => (groupAt msgs (a + 1) n).map (x :: ·)

/-- the outer loop: `for ; i+step <= l; i += step { … }` and the final `append(ra.msgs, array.msgs[:l-i]...)`;
the first argument is fuel (`none` when it runs out) -/
def reverseByLoop {α : Type} (msgs : List α) (step : Nat) : Nat → Nat → List α → Option (List α)
  | 0, _, _ => none
  | f + 1, i, acc =>
    if i + step ≤ msgs.length then
      match groupAt msgs ((msgs.length - i - 1) - (step - 1)) step with
      | none => none
      | some g => reverseByLoop msgs step f (i + step) (acc ++ g)
    else some (acc ++ msgs.take (msgs.length - i))

/-- `Array.ReverseBy(step)` -/
def reverseBy {α : Type} (msgs : List α) (step : Int) : Option (List α) :=
  let step := if step < 1 then 1 else step.toNat
  reverseByLoop msgs step (msgs.length + 1) 0 []

/-- what the loops compute, on the prefix that is still to be processed -/
def revTail {α : Type} (step : Nat) : Nat → List α → List α
  | 0, p => p
  | f + 1, p => if step ≤ p.length then p.drop (p.length - step) ++ revTail step f (p.take (p.length - step)) else p

/-! ## The LIMIT loop of the ZREVRANGEBYSCORE executor (`redis/core_commander.go`) -/

/-- the LIMIT loop of the ZREVRANGEBYSCORE executor over the reversed reply: element `n` belongs to entry `n / step`;
entries before `offset` are skipped (`continue`), the loop ends (`break`) at the first entry that is `count` or more
behind `offset` when `count` is not negative -/
def limitLoop {α : Type} (step : Nat) (offset count : Int) : Nat → List α → List α → List α
  | _, [], acc => acc
  | n, e :: es, acc =>
    let entry : Int := (n : Int) / (step : Int)
    if entry < offset then limitLoop step offset count (n + 1) es acc
    else if 0 ≤ count ∧ count ≤ entry - offset then acc
    else limitLoop step offset count (n + 1) es (acc ++ [e])

/-- the tail of the executor: the whole reversed reply when there is no LIMIT, nothing for a negative offset -/
def limitReversed {α : Type} (step : Nat) (offset count : Int) (reversed : List α) : List α :=
  if offset = 0 ∧ count < 0 then reversed
  else if 0 ≤ offset then limitLoop step offset count 0 reversed [] else []

/-- the Go function transcribed above with the fingerprint of the source it was transcribed from (see `Ex.modelled`) -/
def reverseByModelled : List (String × Nat × String) := [
  ("Array.ReverseBy", 2119360520944282401, "Ex.reverseBy"),
  ("executor ZREVRANGE", 2433833485238053187, "execZRevRange; Ex.reverseBy 1 / 2"),
  ("executor ZREVRANGEBYSCORE", 13093804117949880865, "execZRangeByScore true; Ex.reverseBy, Ex.limitReversed")]

end GoRedis.Ex
