import GoRedisModel.Model.Bytes
/-! Glob patterns (`redis/glob`): the translation to a regular expression and a direct matcher. -/
namespace GoRedis

/-- bytes `regexp.QuoteMeta` escapes -/
def isRegexMeta (c : UInt8) : Bool :=
  c == 92 || c == 46 || c == 43 || c == 42 || c == 63 || c == 40 || c == 41 || c == 124 ||
  c == 91 || c == 93 || c == 123 || c == 125 || c == 94 || c == 36

/-- one pattern byte as regular-expression source -/
def globTok (c : UInt8) : Bytes :=
  if c == 42 then b!".*" else if c == 63 then b!"." else if isRegexMeta c then [92, c] else [c]

/-- `regexpFromGlob`: anchored, dot matches newline, every byte other than `*` and `?` quoted -/
def globRegex (p : Bytes) : Bytes := b!"(?s)^" ++ p.flatMap globTok ++ b!"$"

/-- direct recursive matcher over bytes (`?` = exactly one byte; the tie uses ASCII keys, for which a
byte is a character) -/
def globMatch : Bytes → Bytes → Bool
  | [], [] => true
  | [], _ :: _ => false
  | p :: ps, k =>
    if p == 42 then
      -- `*`: empty, or swallow one byte of the key and stay
      match k with
      | [] => globMatch ps []
      | c :: cs => globMatch ps (c :: cs) || globMatch (p :: ps) cs
    else match k with
      | [] => false
      | c :: cs => (p == 63 || p == c) && globMatch ps cs
termination_by p k => (p.length + k.length, p.length)
decreasing_by all_goals simp_wf <;> omega


/-- what a compiled glob consists of, between the anchors: the three shapes of regular expression the
translation emits -/
inductive GTok where
  | anyStar            -- `.*`  (with `(?s)`: any sequence of characters)
  | anyOne             -- `.`   (with `(?s)`: exactly one character)
  | lit (c : UInt8)    -- `QuoteMeta(c)`: exactly the character c
deriving Repr, DecidableEq

def gtok (c : UInt8) : GTok := if c == 42 then .anyStar else if c == 63 then .anyOne else .lit c

def GTok.src : GTok → Bytes
  | .anyStar => b!".*"
  | .anyOne => b!"."
  | .lit c => if isRegexMeta c then [92, c] else [c]

/-- the assumed semantics of the three shapes, anchored at both ends (Go's `regexp` is trusted for exactly this) -/
def tokMatch : List GTok → Bytes → Bool
  | [], k => k.isEmpty
  | .anyStar :: ts, k => tokMatch ts k || (match k with | [] => false | _ :: cs => tokMatch (.anyStar :: ts) cs)
  | .anyOne :: ts, k => (match k with | [] => false | _ :: cs => tokMatch ts cs)
  | .lit c :: ts, k => (match k with | [] => false | d :: cs => c == d && tokMatch ts cs)
termination_by ts k => (ts.length + k.length, ts.length)
decreasing_by all_goals simp_wf <;> omega


/-- `utf8.Valid` (what Go's `regexp/syntax` requires of a pattern: `regexp.Compile` fails on invalid UTF-8, and with
it `glob.Compile`) -/
def validUtf8 : Bytes → Bool
  | [] => true
  | b0 :: rest =>
    if b0 < 0x80 then validUtf8 rest
    else if 0xC2 ≤ b0 ∧ b0 ≤ 0xDF then
      match rest with
      | b1 :: r => (0x80 ≤ b1 ∧ b1 ≤ 0xBF) && validUtf8 r
      | _ => false
    else if 0xE0 ≤ b0 ∧ b0 ≤ 0xEF then
      match rest with
      | b1 :: b2 :: r =>
        let lo : UInt8 := if b0 = 0xE0 then 0xA0 else 0x80
        let hi : UInt8 := if b0 = 0xED then 0x9F else 0xBF
        (lo ≤ b1 ∧ b1 ≤ hi) && (0x80 ≤ b2 ∧ b2 ≤ 0xBF) && validUtf8 r
      | _ => false
    else if 0xF0 ≤ b0 ∧ b0 ≤ 0xF4 then
      match rest with
      | b1 :: b2 :: b3 :: r =>
        let lo : UInt8 := if b0 = 0xF0 then 0x90 else 0x80
        let hi : UInt8 := if b0 = 0xF4 then 0x8F else 0xBF
        (lo ≤ b1 ∧ b1 ≤ hi) && (0x80 ≤ b2 ∧ b2 ≤ 0xBF) && (0x80 ≤ b3 ∧ b3 ≤ 0xBF) && validUtf8 r
      | _ => false
    else false

/-! ## A polynomial matcher, and the proof that it is the matcher

`globMatch` backtracks: on `*a*a…*a*b` against `aaaa…a` it takes exponentially many steps.  Go's `regexp` is linear, so the
implementation answers such a request at once - and must (a KEYS that never returns holds the dispatch lock: C07).  For the
model to have an answer too, the driver needs a matcher that is polynomial.  `globMatchFast` simulates the pattern on the
set of key suffixes that remain to be matched; `globMatchFast_eq` proves it equal to `globMatch` for every pattern and key,
and the `@[csimp]` lemma makes compiled code (the model driver, the reference store's KEYS, SCAN MATCH) run it wherever the
definitions say `globMatch`.  The theorems keep talking about `globMatch`. -/

/-- all suffixes of a key (itself and the empty one included) -/
def suffixes : Bytes → List Bytes
  | [] => [[]]
  | c :: cs => (c :: cs) :: suffixes cs

/-- one pattern byte applied to the set of keys that remain to be matched -/
def globAdvance (S : List Bytes) (p : UInt8) : List Bytes :=
  if p == 42 then (S.flatMap suffixes).eraseDups
  else S.filterMap fun k => match k with
    | [] => none
    | c :: cs => if p == 63 || p == c then some cs else none

/-- the matcher as a position-set simulation: polynomial in pattern and key (the recursive `globMatch` backtracks) -/
def globMatchFast (p k : Bytes) : Bool := (p.foldl globAdvance [k]).contains []

theorem suffixes_any (ps k : Bytes) : (suffixes k).any (globMatch ps) = globMatch (42 :: ps) k := by
  induction k with
  | nil =>
    simp only [suffixes, List.any_cons, List.any_nil, Bool.or_false]
    conv => rhs; unfold globMatch
    simp
  | cons c cs ih =>
    simp only [suffixes, List.any_cons, ih]
    conv => rhs; unfold globMatch
    simp

theorem advance_any (S : List Bytes) (q : UInt8) (ps : Bytes) :
    (globAdvance S q).any (globMatch ps) = S.any (globMatch (q :: ps)) := by
  unfold globAdvance
  by_cases hq : (q == 42) = true
  · have : q = 42 := by simpa using hq
    subst this
    simp only [beq_self_eq_true, if_true]
    rw [Bool.eq_iff_iff]
    simp only [List.any_eq_true, List.mem_eraseDups, List.mem_flatMap]
    constructor
    · rintro ⟨x, ⟨k, hk, hx⟩, hm⟩
      refine ⟨k, hk, ?_⟩
      rw [← suffixes_any]
      exact List.any_eq_true.mpr ⟨x, hx, hm⟩
    · rintro ⟨k, hk, hm⟩
      rw [← suffixes_any] at hm
      obtain ⟨x, hx, hxm⟩ := List.any_eq_true.mp hm
      exact ⟨x, ⟨k, hk, hx⟩, hxm⟩
  · have hq' : (q == 42) = false := by simpa using hq
    simp only [hq', Bool.false_eq_true, if_false]
    induction S with
    | nil => rfl
    | cons k S ih =>
      simp only [List.filterMap_cons, List.any_cons]
      rw [← ih]
      cases k with
      | nil => simp; unfold globMatch; simp [hq']
      | cons c cs =>
        conv => rhs; unfold globMatch
        simp only [hq', Bool.false_eq_true, if_false]
        by_cases hc : (q == 63 || q == c) = true
        · simp [hc]
        · have : (q == 63 || q == c) = false := by simpa using hc
          simp [this]

theorem foldl_any (p : Bytes) (S : List Bytes) :
    (p.foldl globAdvance S).contains [] = S.any (globMatch p) := by
  induction p generalizing S with
  | nil =>
    simp only [List.foldl_nil]
    induction S with
    | nil => rfl
    | cons k S ih =>
      simp only [List.contains_cons, List.any_cons, ih]
      cases k with
      | nil => simp [globMatch]
      | cons c cs => simp [globMatch]
  | cons q ps ih =>
    simp only [List.foldl_cons, ih, advance_any]

/-- **The fast matcher is the matcher** -/
theorem globMatchFast_eq (p k : Bytes) : globMatchFast p k = globMatch p k := by
  unfold globMatchFast
  rw [foldl_any]
  simp


@[csimp] theorem globMatch_eq_globMatchFast : @globMatch = @globMatchFast := by
  funext p k
  exact (globMatchFast_eq p k).symm

/-- `regexpFromGlob` / `Compile` of `redis/glob/glob.go`, which `globToRegex` transcribes -/
def globModelled : List (String × Nat × String) := [
  ("regexpFromGlob", 8646475814872928818, "globToRegex"),
  ("Compile", 6809646626084098421, "compile = regexp.Compile ∘ regexpFromGlob")]

end GoRedis
