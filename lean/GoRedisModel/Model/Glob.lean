import GoRedisModel.Model.Bytes
/-! Glob patterns (`redis/glob`): the translation to a regular expression and a direct matcher. -/
namespace GoRedis

/-- bytes `regexp.QuoteMeta` escapes -/
def isRegexMeta (c : UInt8) : Bool :=
  c == 92 || c == 46 || c == 43 || c == 42 || c == 63 || c == 40 || c == 41 || c == 124 ||
  c == 91 || c == 93 || c == 123 || c == 125 || c == 94 || c == 36

/-- one pattern byte as regular-expression source -/
def globTok (c : UInt8) : Bytes :=
  if c == 42 then b!".*" else if c == 63 then b!"." else if isRegexMeta c then [92, c] else [c]

/-- `regexpFromGlob`: anchored, dot matches newline, every byte other than `*` and `?` quoted -/
def globRegex (p : Bytes) : Bytes := b!"(?s)^" ++ p.flatMap globTok ++ b!"$"

/-- direct recursive matcher over bytes (`?` = exactly one byte; the tie uses ASCII keys, for which a
byte is a character) -/
def globMatch : Bytes → Bytes → Bool
  | [], [] => true
  | [], _ :: _ => false
  | p :: ps, k =>
    if p == 42 then
      -- `*`: empty, or swallow one byte of the key and stay
      match k with
      | [] => globMatch ps []
      | c :: cs => globMatch ps (c :: cs) || globMatch (p :: ps) cs
    else match k with
      | [] => false
      | c :: cs => (p == 63 || p == c) && globMatch ps cs
termination_by p k => (p.length + k.length, p.length)
decreasing_by all_goals simp_wf <;> omega


/-- what a compiled glob consists of, between the anchors: the three shapes of regular expression the
translation emits -/
inductive GTok where
  | anyStar            -- `.*`  (with `(?s)`: any sequence of characters)
  | anyOne             -- `.`   (with `(?s)`: exactly one character)
  | lit (c : UInt8)    -- `QuoteMeta(c)`: exactly the character c
deriving Repr, DecidableEq

def gtok (c : UInt8) : GTok := if c == 42 then .anyStar else if c == 63 then .anyOne else .lit c

def GTok.src : GTok → Bytes
  | .anyStar => b!".*"
  | .anyOne => b!"."
  | .lit c => if isRegexMeta c then [92, c] else [c]

/-- the assumed semantics of the three shapes, anchored at both ends (Go's `regexp` is trusted for exactly this) -/
def tokMatch : List GTok → Bytes → Bool
  | [], k => k.isEmpty
  | .anyStar :: ts, k => tokMatch ts k || (match k with | [] => false | _ :: cs => tokMatch (.anyStar :: ts) cs)
  | .anyOne :: ts, k => (match k with | [] => false | _ :: cs => tokMatch ts cs)
  | .lit c :: ts, k => (match k with | [] => false | d :: cs => c == d && tokMatch ts cs)
termination_by ts k => (ts.length + k.length, ts.length)
decreasing_by all_goals simp_wf <;> omega


/-- `utf8.Valid` (what Go's `regexp/syntax` requires of a pattern: `regexp.Compile` fails on invalid UTF-8, and with
it `glob.Compile`) -/
def validUtf8 : Bytes → Bool
  | [] => true
  | b0 :: rest =>
    if b0 < 0x80 then validUtf8 rest
    else if 0xC2 ≤ b0 ∧ b0 ≤ 0xDF then
      match rest with
      | b1 :: r => (0x80 ≤ b1 ∧ b1 ≤ 0xBF) && validUtf8 r
      | _ => false
    else if 0xE0 ≤ b0 ∧ b0 ≤ 0xEF then
      match rest with
      | b1 :: b2 :: r =>
        let lo : UInt8 := if b0 = 0xE0 then 0xA0 else 0x80
        let hi : UInt8 := if b0 = 0xED then 0x9F else 0xBF
        (lo ≤ b1 ∧ b1 ≤ hi) && (0x80 ≤ b2 ∧ b2 ≤ 0xBF) && validUtf8 r
      | _ => false
    else if 0xF0 ≤ b0 ∧ b0 ≤ 0xF4 then
      match rest with
      | b1 :: b2 :: b3 :: r =>
        let lo : UInt8 := if b0 = 0xF0 then 0x90 else 0x80
        let hi : UInt8 := if b0 = 0xF4 then 0x8F else 0xBF
        (lo ≤ b1 ∧ b1 ≤ hi) && (0x80 ≤ b2 ∧ b2 ≤ 0xBF) && (0x80 ≤ b3 ∧ b3 ≤ 0xBF) && validUtf8 r
      | _ => false
    else false

end GoRedis
