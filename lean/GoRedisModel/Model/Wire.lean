import GoRedisModel.Model.Resp
/-! Text codec of the line protocol between the Go harness and the model driver.
A value tree is written in prefix order: `s:<hex>` `e:<hex>` `i:<hex>` (status / error / integer line),
`b:<hex>` bulk, `n` null bulk, `a<k>` array followed by its k elements, `z` nil message, `Z` array message
with a nil array.  The empty byte string is `-`. -/
namespace GoRedis

mutual
def msgToks : Msg → List String
  | .line .str p => ["s:" ++ hex p]
  | .line .err p => ["e:" ++ hex p]
  | .line .int p => ["i:" ++ hex p]
  | .bulk none => ["n"]
  | .bulk (some p) => ["b:" ++ hex p]
  | .arr es => ("a" ++ toString es.length) :: msgsToks es
  | .absent => ["z"]
  | .arrNil => ["Z"]
def msgsToks : List Msg → List String
  | [] => []
  | m :: ms => msgToks m ++ msgsToks ms
end

def showMsg (m : Msg) : String := String.intercalate " " (msgToks m)

mutual
/-- prefix-order decoder; fuel bounds the number of tokens -/
def readMsg : Nat → List String → Option (Msg × List String)
  | 0, _ => none
  | _, [] => none
  | f+1, t :: ts =>
    if t == "n" then some (.bulk none, ts)
    else if t == "z" then some (.absent, ts)
    else if t == "Z" then some (.arrNil, ts)
    else if t.startsWith "s:" then some (.line .str (unhex (t.drop 2).toString), ts)
    else if t.startsWith "e:" then some (.line .err (unhex (t.drop 2).toString), ts)
    else if t.startsWith "i:" then some (.line .int (unhex (t.drop 2).toString), ts)
    else if t.startsWith "b:" then some (.bulk (some (unhex (t.drop 2).toString)), ts)
    else if t.startsWith "a" then
      match (t.drop 1).toString.toNat? with
      | none => none
      | some k => match readMsgs f k ts with
        | some (es, ts') => some (.arr es, ts')
        | none => none
    else none
def readMsgs : Nat → Nat → List String → Option (List Msg × List String)
  | 0, _, _ => none
  | _, 0, ts => some ([], ts)
  | f+1, k+1, ts =>
    match readMsg f ts with
    | none => none
    | some (m, ts') => match readMsgs f k ts' with
      | none => none
      | some (ms, ts'') => some (m :: ms, ts'')
end

def parseMsgToks (ts : List String) : Option (Msg × List String) := readMsg (2 * ts.length + 2) ts

end GoRedis
