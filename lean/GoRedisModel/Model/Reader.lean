import GoRedisModel.Model.Bytes
/-! The transport: the not-yet-delivered stream as the list of segments the schedule will hand over.
`read n` models `io.Reader.Read(buf)` with `len(buf) = n > 0` for readers that return at least one byte
unless the stream has ended, never more than `n`, and `(0, io.EOF)` only at the end
(`net.TCPConn`, `tls.Conn`, `net.Pipe`, `bytes.Buffer`). -/
namespace GoRedis

structure Reader where
  chunks : List Bytes
deriving Repr, Inhabited

def Reader.rest (r : Reader) : Bytes := r.chunks.flatten

def dropEmpty : List Bytes → List Bytes
  | [] => []
  | [] :: cs => dropEmpty cs
  | c :: cs => c :: cs

def Reader.read (r : Reader) (n : Nat) : Bytes × Reader :=
  match dropEmpty r.chunks with
  | [] => ([], ⟨[]⟩)
  | c :: cs => (c.take n, ⟨c.drop n :: cs⟩)

end GoRedis
