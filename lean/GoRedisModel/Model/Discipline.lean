import GoRedisModel.Generated.Facts
/-! The lock discipline read off the access table that `bin/extract` regenerates from /repo's source: which
shared field is guarded by which mutex, and whether every access site holds it in a sufficient mode. -/
namespace GoRedis
open Generated

/-- the mutex that guards a shared field -/
def guardOf (field : String) : String :=
  if field == "params" then "Config.mutex"
  else if field == "m" then "ConnManager.mutex"
  else if field == "isClosed" then "Conn.closeMutex"
  else "?"

/-- a site respects the discipline: a write under the exclusive lock, a read under at least the shared one -/
def siteOK (a : Access) : Bool := if a.write then a.held == "W" else (a.held == "W" || a.held == "R")

def tableOK (t : List Access) : Bool := t.all siteOK

/-- the shared fields the property names are all present in the table (the extractor found their sites) -/
def sharedCovered (t : List Access) : Bool :=
  [("Config", "params"), ("ConnManager", "m"), ("Conn", "isClosed")].all fun (s, f) =>
    t.any fun a => a.struct_ == s && a.field == f && a.write

def factHolds (name : String) : Bool := (facts.lookup name) == some true

/-- the control-flow facts of the repaired lifecycle (who may touch the listener fields, and in what order) -/
def lifecycleFactsOK : Bool :=
  ["recoverBarrier", "recoverBarrierFirst", "deferRemoveConn", "deferClose", "loopClosesOwnListener_serve",
   "loopClosesOwnListener_tlsServe", "handshakeOutsideAcceptLoop", "registersBeforeSpawn", "handshakeInConnGoroutine",
   "sharedTypesHavePointerReceivers", "startLoopsOwnTheirListener", "noReentrantLocking", "goroutinesOnlyFromStartAndStartConn"].all factHolds
  && stopOrder == ["closeListeners", "waitLoops", "closeConns", "waitConns"]

/-- the model's prediction for a concurrent workload -/
def racePrediction : String :=
  if tableOK accessTable && sharedCovered accessTable && lifecycleFactsOK then "race-free"
  else
    let bad := accessTable.filter (fun a => !siteOK a)
    "races-possible:" ++ ",".intercalate (bad.map fun a => a.func_ ++ "/" ++ a.field)

end GoRedis
