import GoRedisModel.Model.RefStore
/-! Linearizability: histories of operations with invocation / response times, the sequential specification
(one request executed by the framework model on the reference store, atomically), and an executable checker. -/
namespace GoRedis.Lin

structure Op (C R : Type) where
  /-- client (for reading replays only) -/
  client : Nat := 0
  inv : Nat
  res : Nat
  cmd : C
  out : R
deriving DecidableEq, Repr

variable {S C R : Type} [DecidableEq C] [DecidableEq R]

/-- the operations, executed one after the other in this order from state `s`, give exactly the recorded outputs -/
def replayOk (step : S → C → R × S) (s : S) : List (Op C R) → Bool
  | [] => true
  | o :: os => ((step s o.cmd).1 == o.out) && replayOk step (step s o.cmd).2 os

/-- real-time order: if `a` is placed before `b` then `b` did not complete before `a` was invoked -/
def RespectsRT (l : List (Op C R)) : Prop := l.Pairwise (fun a b => ¬ b.res < a.inv)

/-- **Linearizable**: some sequential order of exactly these operations respects real time and explains every
output -/
def Linearizable (step : S → C → R × S) (s0 : S) (h : List (Op C R)) : Prop :=
  ∃ l, l.Perm h ∧ RespectsRT l ∧ replayOk step s0 l = true

def minimal (o : Op C R) (pending : List (Op C R)) : Bool := pending.all (fun p => !(decide (p.res < o.inv)))

/-- complete search (Wing & Gong): pick any operation that no pending operation precedes in real time and whose
output the specification reproduces; recurse on the rest -/
def check (step : S → C → R × S) : Nat → S → List (Op C R) → Bool
  | _, _, [] => true
  | 0, _, _ :: _ => false
  | f+1, s, pending =>
    pending.any fun o =>
      minimal o pending && ((step s o.cmd).1 == o.out) && check step f (step s o.cmd).2 (pending.erase o)

end GoRedis.Lin

namespace GoRedis

/-- the sequential specification of one request: the framework's own executor for it (model of
`executeCommand`) run to completion on the reference store, with nothing in between -/
def cmdStep (st : Store) (req : Bytes) : Bytes × Store :=
  match parse (req.length + 1) req with
  | .ok m _ =>
    let conn : ConnSt := { authorized := true }
    let (_, res, st') := (handleMessage (fun _ => none) { config := [] } conn m).runH conn (refHandle (fun _ => none)) st
    (match res with
     | some (out, _, _) => ((replyBytes out).getD [], st')
     | none => ([], st'))
  | _ => ([], st)

/-- error replies are compared as a class (their text is not part of the property) -/
def canonReplyB (b : Bytes) : Bytes :=
  match b with
  | 45 :: _ => b!"-E\r\n"
  | _ => b

def cmdStepC (st : Store) (req : Bytes) : Bytes × Store :=
  let (r, st') := cmdStep st req
  (canonReplyB r, st')

/-- decide a recorded history against the sequential specification -/
def linCheck (h : List (Lin.Op Bytes Bytes)) : Bool := Lin.check cmdStepC h.length ([] : Store) h

end GoRedis
