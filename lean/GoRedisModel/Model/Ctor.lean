import GoRedisModel.Model.Resp
/-! The public message constructors of `redis/message.go` and the accessors of `proto/message.go`. -/
namespace GoRedis

def newStatus (p : Bytes) : Msg := .line .str p
def newError (p : Bytes) : Msg := .line .err p
def newInteger (i : Int) : Msg := .line .int (itoa i)
def newBulk (p : Bytes) : Msg := .bulk (some p)
def newNil : Msg := .bulk none
def okMsg : Msg := .line .str b!"OK"
def stringArray (ss : List Bytes) : Msg := .arr (ss.map newBulk)
/-- `NewFloatMessage` with the formatter (`strconv.FormatFloat(x,'g',-1,64)`) as a parameter. -/
def newFloat {F : Type} (ff : F → Bytes) (x : F) : Msg := .bulk (some (ff x))

/-- `Message.Integer()` -/
def msgInteger : Msg → Option Int
  | .line .int p => atoi p
  | .line .str p => atoi p
  | .bulk (some p) => atoi p
  | .bulk none => atoi []
  | _ => none

/-- `Message.String()` (`none` = error; a null bulk is `ErrNil`) -/
def msgString : Msg → Option Bytes
  | .line .str p => some p
  | .bulk (some p) => some p
  | _ => none

def msgIsNil : Msg → Bool
  | .bulk none => true
  | _ => false

end GoRedis
