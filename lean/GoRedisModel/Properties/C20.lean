import GoRedisModel.Proofs.SourceFacts
import GoRedisModel.Proofs.Spans
/-! # C20 — tracing spans are balanced for every request outcome

`spanRun` (in `Proofs/Spans`) is the span discipline as a depth machine over the trace: a root span is
started only when none is open; a child span only under an open root; `FinishSpan` pops a child that is
open; the root is finished exactly once, when no child is open.  With span ids handed out in start order
this is the statement "every span is started once and finished once, a child starts after its parent has
started and finishes before its parent finishes, one root per request". -/
namespace GoRedis

def Balanced (evs : List Ev) : Prop := spanRun evs none = some none

/-- the run ended in a recovered panic -/
def crashed : List Ev → Bool
  | [] => false
  | .crash :: _ => true
  | _ :: es => crashed es

theorem crashed_of_mem (evs : List Ev) (h : Ev.crash ∈ evs) : crashed evs = true := by
  induction evs with
  | nil => simp at h
  | cons e es ih =>
    cases e <;> simp [crashed] at h ⊢ <;> exact ih h

/-- For every client byte stream (valid or not, ended anywhere), every server state, authorized or not,
and every sequence of handler results: unless the run ends in a recovered panic (C07's subject), the span
events of the whole connection are balanced — whatever the outcome of each request: success, argument
error, unknown command, unauthorized, QUIT, protocol error, end of stream. -/
theorem C20_balanced (pf : FloatOracle) (srv : SrvSt) (requirePass : Bool) (input : Bytes) (script : List HRes)
    (hc : crashed (serve pf srv requirePass input script) = false) :
    Balanced (serve pf srv requirePass input script) := by
  have hc : Ev.crash ∉ serve pf srv requirePass input script := by
    intro h; rw [crashed_of_mem _ h] at hc; exact absurd hc (by decide)
  unfold Balanced serve
  simp only [List.cons_append, List.nil_append, spanRun]
  rw [serveLoop_spans]
  · rfl
  · intro h; apply hc; simp [serve, h]

/-- Every command executor, including the ones composed from other commands (STRLEN→GET, HLEN→HKEYS→HGETALL,
SUBSTR→GETRANGE, …), leaves the span stack as it found it on every returning path, for all arguments, all
connection states and all handler results. -/
theorem C20_executor_balanced (pf : FloatOracle) (srv : SrvSt) (conn : ConnSt) (cmd : Bytes) (args : List Msg) :
    Bal 0 (executeCommand pf srv conn cmd args) := bal_executeCommand pf srv conn cmd args

/-- One request: root's children closed, root finished, nothing left open. -/
theorem C20_request_block (pf : FloatOracle) (srv : SrvSt) (conn : ConnSt) (m : Msg) (script : List HRes)
    (hc : Ev.crash ∉ (reqStep pf srv conn m script).evs) :
    spanRun ([Ev.rootStart, .spanStart b!"parse", .spanFinish] ++ (reqStep pf srv conn m script).evs) none = some none := by
  have := reqStep_spans pf srv conn m script hc []
  simp only [List.append_nil] at this
  simp [spanRun, this]

/-! ## Non-vacuity: concrete pipelines, evaluated -/

def noFloats : FloatOracle := fun _ => none

/-- SET, STRLEN (composed), an unknown command, GET without its argument, HLEN (two levels of composition), QUIT,
and a PING pipelined behind the QUIT -/
def samplePipeline : Bytes :=
  b!"*3\r\n$3\r\nSET\r\n$1\r\nk\r\n$3\r\nabc\r\n*2\r\n$6\r\nSTRLEN\r\n$1\r\nk\r\n*1\r\n$6\r\nNOSUCH\r\n*1\r\n$3\r\nGET\r\n*2\r\n$4\r\nHLEN\r\n$1\r\nh\r\n*1\r\n$4\r\nQUIT\r\n*1\r\n$4\r\nPING\r\n"

example : crashed (serve noFloats {} false samplePipeline [{ msg := .arr [] }]) = false := by decide +kernel
example : Balanced (serve noFloats {} false samplePipeline [{ msg := .arr [] }]) := by
  apply C20_balanced; decide +kernel

/-- unauthorized connection: every command but AUTH is refused, spans still balanced -/
example : Balanced (serve noFloats { authPw := some b!"secret" } true b!"*1\r\n$4\r\nPING\r\n*2\r\n$3\r\nGET\r\n$1\r\nk\r\n" []) := by
  apply C20_balanced; rfl

/-- stream cut inside a request -/
example : Balanced (serve noFloats {} false b!"*1\r\n$4\r\nPING\r\n*2\r\n$3\r\nGE" []) := by
  apply C20_balanced; rfl

/-- the discipline rejects a double finish and an unfinished child (the machine is not vacuous) -/
example : spanRun [.rootStart, .spanStart b!"x", .spanFinish, .spanFinish] none = none := by decide
example : spanRun [.rootStart, .spanStart b!"x", .topFinish] none = none := by decide

/-- **The source is the one the model was written from** (regenerated on every run): the connection loop (`serveConn`, `receive`, `dispatch`, `handleMessage`, `responseMessage`, `executeCommand`, `upperASCII`) of the current source
have the fingerprints recorded in the model; a change to any of them means the theorems above are not shown for the code
as it is now, until the model has been compared with it again -/
theorem C20_source_conn_loop_is_the_modelled_one :
    connLoopModelled.all (fun e => Generated.serverFingerprints.contains (e.1, e.2.1)) = true := source_conn_loop_is_the_modelled_one

end GoRedis
