import GoRedisModel.Model.Show
/-! placeholder until the theorems of C20 are written -/
namespace GoRedis
theorem C20_placeholder : True := trivial
end GoRedis
