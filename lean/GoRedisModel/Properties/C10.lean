import GoRedisModel.Model.Show
/-! placeholder until the theorems of C10 are written -/
namespace GoRedis
theorem C10_placeholder : True := trivial
end GoRedis
