import GoRedisModel.Proofs.Table
import GoRedisModel.Proofs.SourceShapes
/-! # C10 — ill-formed arguments are rejected without side effects -/
namespace GoRedis

/-- **Every command of the positional grammar, every ill-formed variant**: a required position omitted, a
null bulk where a value is required, a token that is not a 64-bit integer (non-numeric, fractional,
overflowing) or not a float where a number is required, an empty list, a null inside a list — the request
is answered with an error, the handler is not invoked (`rejected` contains no call), and connection and
server state are exactly what they were, so the following requests are processed normally. -/
theorem C10_rejected_table (pf : FloatOracle) : ∀ row ∈ grammar, row.RejectsIllFormed pf := by
  intro row hrow
  simp only [grammar, List.mem_cons, List.mem_nil_iff, or_false] at hrow
  rcases hrow with rfl | rfl | rfl | rfl | rfl | rfl | rfl | rfl | rfl | rfl | rfl | rfl | rfl | rfl | rfl | rfl | rfl | rfl | rfl | rfl | rfl | rfl | rfl | rfl | rfl | rfl | rfl | rfl
  all_goals exact rejects_of_shape pf _ _ _ (by decide) rfl rfl

/-- a rejected request makes no handler call and writes one error frame; the state is unchanged -/
theorem C10_rejected_no_call (ucmd : Bytes) (e : Err) (conn : ConnSt) (srv : SrvSt) (script : List HRes) :
    (rejected ucmd e conn srv).run conn script =
      ([.spanStart ucmd, .spanFinish], some (.error e, conn, srv), script) := by
  simp [rejected, Prog.run, Prog.SpanOp.ev]

/-- tokens that are not integers: non-numeric, fractional, beyond 64 bits, empty, padded -/
theorem C10_bad_integer_tokens :
    atoi b!"abc" = none ∧ atoi b!"1.5" = none ∧ atoi b!"9223372036854775808" = none ∧
    atoi b!"-9223372036854775809" = none ∧ atoi b!"" = none ∧ atoi b!" 1" = none ∧ atoi b!"1e3" = none := by
  simp [atoi, digitsVal, maxInt]

/-- **Key/value and score/member lists with a dangling half** (MSET k, HMSET h f, CONFIG SET k, ZADD z 1 m 2). -/
theorem C10_dangling_pair (ps : List (Bytes × Bytes)) (k : Bytes) : ∃ e, nextPairs (pairMsgs ps ++ [B k]) = .error e :=
  nextPairs_dangling ps k

theorem C10_mset_dangling (ps : List (Bytes × Bytes)) (k : Bytes) : Rejects (execMSet (pairMsgs ps ++ [B k])) := by
  obtain ⟨e, he⟩ := nextPairs_dangling ps k
  exact ⟨e, by simp [execMSet, withArgs, he]⟩

theorem C10_mset_empty : Rejects (execMSet []) := ⟨_, rfl⟩

theorem C10_zadd_dangling_score (pf : FloatOracle) (k s1 m1 s2 : Bytes) (v1 v2 : UInt64)
    (h1 : pf s1 = some v1) (h2 : pf s2 = some v2) (hf : zaddFlag (upper s1) {} = none) :
    Rejects (execZAdd pf [B k, B s1, B m1, B s2]) := by
  unfold Rejects
  simp [execZAdd, withArgs, nextString, nextStringRaw, zaddHead, B, msgStr, hf, zaddPairs, h1]
  exact ⟨_, rfl⟩

theorem C10_zadd_lone_score (pf : FloatOracle) (k s1 : Bytes) (v1 : UInt64)
    (h1 : pf s1 = some v1) (hf : zaddFlag (upper s1) {} = none) :
    Rejects (execZAdd pf [B k, B s1]) := by
  unfold Rejects
  simp [execZAdd, withArgs, nextString, nextStringRaw, zaddHead, B, msgStr, hf, zaddPairs]
  exact ⟨_, rfl⟩

/-- **SET: mutually exclusive options combined or repeated** — after any admissible options, an option that
may no longer be given (NX after NX or XX, XX after NX or XX, a second KEEPTTL or GET, a second one of
EX/PX/EXAT/PXAT — even if the first value was huge) is an error, wherever it stands. -/
theorem C10_set_conflict (k v : Bytes) (ss : List Spelled) (bad : Spelled) (tail : List Msg)
    (hok : ∀ s ∈ ss, s.ok) (hc : Compat {} (ss.map Spelled.item))
    (hu : upper bad.kw = bad.item.kw)
    (hbad : ((ss.map Spelled.item).foldl SetOpt.apply {}).admits bad.item = false) :
    Rejects (execSet (B k :: B v :: (ss.flatMap Spelled.msgs ++ (bad.msgs ++ tail)))) := by
  have h1 := setOpts_items b!"SET" {} ss hok hc (bad.msgs ++ tail)
  obtain ⟨e, he⟩ := setOpts_conflict b!"SET" _ bad hu hbad tail
  exact ⟨e, by simp [execSet, withArgs, h1, he]⟩

/-- **SET: non-positive, non-numeric, null or missing expiry** -/
theorem C10_set_bad_expiry (k v kw : Bytes) (kd : ExpKind) (hu : upper kw = kd.kw) (rest : List Msg)
    (hbad : rest = [] ∨ (∃ r, rest = .bulk none :: r) ∨ (∃ tok r, rest = B tok :: r ∧ atoi tok = none) ∨
            (∃ tok r n, rest = B tok :: r ∧ atoi tok = some n ∧ n < 1)) :
    Rejects (execSet (B k :: B v :: B kw :: rest)) := by
  obtain ⟨e, he⟩ := setOpts_bad_expiry b!"SET" {} kd kw hu rest hbad
  exact ⟨e, by simp [execSet, withArgs, he]⟩

/-- SETEX with a non-positive number of seconds -/
theorem C10_setex_nonpositive (k v tok : Bytes) (n : Int) (h : atoi tok = some n) (hn : n < 1) :
    Rejects (execSetEx [B k, B tok, B v]) := by
  unfold Rejects
  simp [execSetEx, withArgs, nextInteger_B _ _ _ _ h, hn]
  exact ⟨_, rfl⟩

/-- ZRANGE without BYSCORE: fractional or exclusive index tokens are rejected (they used to be truncated) -/
theorem C10_zrange_fractional_index (pf : FloatOracle) (k a b : Bytes) (ha : a ≠ []) (hb : b ≠ [])
    (h : atoi a = none ∨ atoi b = none) : Rejects (execZRange pf [B k, B a, B b]) := by
  unfold Rejects
  rcases h with h | h
  · simp [execZRange, withArgs, ha, hb, rangeOpts, h]; exact ⟨_, rfl⟩
  · cases h2 : atoi a <;> simp [execZRange, withArgs, ha, hb, rangeOpts, h, h2] <;> exact ⟨_, rfl⟩

/-- STRLEN / HEXISTS without their argument are errors (they used to answer `:0`) -/
theorem C10_strlen_missing_key (pf : FloatOracle) (srv : SrvSt) (conn : ConnSt) (ha : conn.authorized = true)
    (hh : srv.hasHandler = true) :
    execStrLen pf srv conn [] =
      (Prog.emit (.start b!"GET") (.emit .finish (.ret (.error (errMissing b!"key" errEOM))))) := by
  have hl : (userTable pf).lookup (upper b!"GET") = some (shapeS .get) := rfl
  simp [execStrLen, nestedCall, execUser, hl, hh, gated, ha, shapeS, withArgs,
    failE, UProg.lift, Prog.andFinish, Prog.bind]
  rfl

/-! ## Non-vacuity -/
example : (⟨.xx, b!"xX", []⟩ : Spelled).item = .xx ∧ upper b!"xX" = SetItem.xx.kw := by decide
example : ((([⟨.nx, b!"NX", []⟩] : List Spelled).map Spelled.item).foldl SetOpt.apply {}).admits .xx = false := by decide
example : atoi b!"0" = some 0 ∧ (0 : Int) < 1 := by simp [atoi, digitsVal, maxInt]

/-- every executor of the current source reads the kinds of arguments, in the order, and reaches the handler
operations the model (and for the positional commands the independent grammar) says – regenerated from the source and
decided by the kernel on every run -/
theorem C10_source_shapes_match_model :
    (Generated.executorShapes.all fun e => modelShape e.1 == some (readersOf e.2, handlersOf e.2)) = true :=
  source_shapes_match_model

end GoRedis
