import GoRedisModel.Model.Discipline
import GoRedisModel.Proofs.Lin
import GoRedisModel.Proofs.Spec
/-! # C16 — commands are atomic with respect to concurrent clients

* `Proofs/Lin`: the definition of linearizability (some permutation of the history respects real time and is
  explained by the sequential specification), an executable complete search `check` proved **sound and complete**
  (so its verdict on a recorded history *is* the definition's), and the theorem that *every schedule* of a system in
  which each command takes effect in one atomic step between its invocation and its response – any number of
  clients, commands and interleavings – produces a linearizable history (`sys_linearizable`).
* The sequential specification `cmdStepC` is the framework model itself (`handleMessage`, the executors of
  INCR/APPEND/MSETNX/… as they are) run to completion on the reference store.
* The atomic step is the critical section of the dispatch mutex (repair 4755218); that the connection loop
  executes requests only under it is a fact regenerated from /repo's source on every run.
* The correspondence check records concurrent histories of the real connection loops and decides each with
  `linCheck`; an independent Go search with its own specification must agree. -/
namespace GoRedis
open Lin Generated

/-- the checker's `true` is a proof of linearizability … -/
theorem C16_checker_sound (h : List (Op Bytes Bytes)) (hc : linCheck h = true) :
    Linearizable cmdStepC ([] : Store) h := check_sound cmdStepC _ _ h hc

/-- … and its `false` a refutation (for histories whose responses do not precede their invocations) -/
theorem C16_checker_complete (h : List (Op Bytes Bytes)) (hwf : ∀ o ∈ h, o.inv ≤ o.res)
    (hl : Linearizable cmdStepC ([] : Store) h) : linCheck h = true :=
  check_complete cmdStepC _ h hwf hl _ (Nat.le_refl _)

theorem C16_checker_decides (h : List (Op Bytes Bytes)) (hwf : ∀ o ∈ h, o.inv ≤ o.res) :
    linCheck h = true ↔ Linearizable cmdStepC ([] : Store) h := check_iff cmdStepC _ h hwf

/-- **C16** for the serialized server: whatever the clients send and however invocations, critical sections and
responses interleave, the history is linearizable with respect to the framework's own sequential semantics -/
theorem C16_serialized_server_linearizable (s0 : Store) (sched : List (Act Bytes)) :
    Linearizable cmdStepC s0 ((Sys.init s0 : Sys Store Bytes Bytes).run cmdStepC sched).history :=
  sys_linearizable cmdStepC s0 sched

/-- the connection loop executes requests only inside the dispatch mutex (regenerated from the source) -/
theorem C16_dispatch_is_serialized :
    (factHolds "dispatchHoldsMutex" && factHolds "loopDispatchesUnderMutex" && factHolds "handleMessageOnlyFromDispatch") = true := by
  decide

/-! ## The clauses of the property, on the sequential specification -/

/-- of SETNX on an absent key exactly the first wins -/
theorem C16_setnx_one_winner (sc : ScoreTable) (k v w : Bytes) (s : Store) (h : s.get k = none) :
    (refHandle sc (.set k v { nx := true }) s).1.msg = newInteger 1 ∧
    (refHandle sc (.set k w { nx := true }) (refHandle sc (.set k v { nx := true }) s).2).1.msg = newInteger 0 ∧
    (refHandle sc (.set k w { nx := true }) (refHandle sc (.set k v { nx := true }) s).2).2.get k = some (.str v) := by
  simp [refHandle, h, Store.get_put_same, intRes, okRes]

/-- a lost update is not linearizable: two overlapping INCRs of a fresh key that both answer 1 -/
def incrReq : Bytes := b!"*2\r\n$4\r\nINCR\r\n$2\r\nk0\r\n"
def lostUpdate : List (Op Bytes Bytes) :=
  [{ client := 0, inv := 1, res := 4, cmd := incrReq, out := b!":1\r\n" },
   { client := 1, inv := 2, res := 3, cmd := incrReq, out := b!":1\r\n" }]
def noLostUpdate : List (Op Bytes Bytes) :=
  [{ client := 0, inv := 1, res := 4, cmd := incrReq, out := b!":2\r\n" },
   { client := 1, inv := 2, res := 3, cmd := incrReq, out := b!":1\r\n" }]

theorem C16_lost_update_rejected : linCheck lostUpdate = false := by decide +kernel
theorem C16_no_lost_update_accepted : linCheck noLostUpdate = true := by decide +kernel

theorem C16_lost_update_not_linearizable : ¬ Linearizable cmdStepC ([] : Store) lostUpdate := by
  intro h
  have := C16_checker_complete lostUpdate (by decide) h
  rw [C16_lost_update_rejected] at this
  exact absurd this (by decide)

/-- real time is respected: a read that completed before a write was invoked cannot see it -/
def getReq : Bytes := b!"*2\r\n$3\r\nGET\r\n$2\r\nk0\r\n"
def setReq : Bytes := b!"*3\r\n$3\r\nSET\r\n$2\r\nk0\r\n$1\r\n7\r\n"
theorem C16_stale_read_rejected :
    linCheck [{ client := 0, inv := 1, res := 2, cmd := getReq, out := b!"$1\r\n7\r\n" },
              { client := 1, inv := 3, res := 4, cmd := setReq, out := b!"+OK\r\n" }] = false := by decide +kernel

end GoRedis
