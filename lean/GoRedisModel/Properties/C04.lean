import GoRedisModel.Model.Show
/-! placeholder until the theorems of C04 are written -/
namespace GoRedis
theorem C04_placeholder : True := trivial
end GoRedis
