import GoRedisModel.Proofs.SourceFacts
import GoRedisModel.Proofs.Frames
/-! # C04 — the reply stream is always well-formed RESP, whatever clients or handlers supply -/
namespace GoRedis

/-- the payloads of the `conn.Write` calls of a trace, in order -/
def writes : List Ev → List Bytes
  | [] => []
  | .wr bs :: es => bs :: writes es
  | _ :: es => writes es

theorem mem_writes (evs : List Ev) (bs : Bytes) : bs ∈ writes evs ↔ Ev.wr bs ∈ evs := by
  induction evs with
  | nil => simp [writes]
  | cons e es ih => cases e <;> simp [writes, ih]

/-- **Every write is one complete RESP value**, for *every* client byte stream (`input` is arbitrary, not
only valid RESP), every server state, and every sequence of handler results (`script` ranges over all
message types with arbitrary payloads, nil messages, nil arrays, nil elements, errors with arbitrary text,
message + error).  A result whose serialization would dereference nil produces no write at all (the
connection is closed), which the property allows. -/
theorem C04_every_write_is_a_frame (pf : FloatOracle) (srv : SrvSt) (requirePass : Bool) (input : Bytes)
    (script : List HRes) : ∀ bs ∈ writes (serve pf srv requirePass input script), Frame bs := by
  intro bs h
  rw [mem_writes] at h
  simp only [serve, List.mem_append, List.mem_cons] at h
  rcases h with h | h
  · rcases h with h | h
    · simp at h
    · exact serveLoop_writes pf _ srv _ input script bs h
  · simp at h

/-- Hence everything the server writes on a connection is a concatenation of complete values. -/
theorem C04_framed (pf : FloatOracle) (srv : SrvSt) (requirePass : Bool) (input : Bytes) (script : List HRes) :
    Frames (writes (serve pf srv requirePass input script)).flatten :=
  ⟨writes (serve pf srv requirePass input script), C04_every_write_is_a_frame pf srv requirePass input script, rfl⟩

/-- A status or error reply never carries a raw CR or LF inside its text: whatever bytes the text is made
of (client-controlled command names and arguments, handler error texts), the serialized line is
`type byte, text without CR/LF, CRLF`. -/
theorem C04_line_reply_sanitised (t : LineTy) (text : Bytes) :
    ∃ p, enc (.line t text) = t.byte :: p ++ CRLF ∧ CR ∉ p ∧ LF ∉ p ∧ p.length = text.length :=
  ⟨sanitize text, rfl, sanitize_no_cr text, sanitize_no_lf text, by simp [sanitize]⟩

/-- A request the server cannot interpret (a non-array value; a handler returning nothing) is answered
with a framed error, never unframed bytes. -/
theorem C04_uninterpretable_request (o : Out) (h : o = .reply .absent) :
    replyBytes o = some (enc systemErrorMsg) ∧ Frame (enc systemErrorMsg) := by
  subst h; exact ⟨rfl, enc_frame _ (by simp [systemErrorMsg, noAbsent])⟩

/-! ## Non-vacuity: a hostile case evaluated -/

/-- `*1 $10 "foo\r\n+OK\r\n"` (a command name forging a frame) is answered with one error line whose text
has no CR/LF -/
example : ∃ bs, writes (serve (fun _ => none) {} false b!"*1\r\n$10\r\nfoo\r\n+OK\r\n\r\n" []) = [bs] ∧ Frame bs := by
  have h := C04_every_write_is_a_frame (fun _ => none) {} false b!"*1\r\n$10\r\nfoo\r\n+OK\r\n\r\n" []
  generalize hw : writes (serve (fun _ => none) {} false b!"*1\r\n$10\r\nfoo\r\n+OK\r\n\r\n" []) = w at h
  have : w.length = 1 := by rw [← hw]; rfl
  match w, this with
  | [bs], _ => exact ⟨bs, rfl, h bs (by simp)⟩

/-- **The source is the one the model was written from** (regenerated on every run): the connection loop (`serveConn`, `receive`, `dispatch`, `handleMessage`, `responseMessage`, `executeCommand`, `upperASCII`) of the current source
have the fingerprints recorded in the model; a change to any of them means the theorems above are not shown for the code
as it is now, until the model has been compared with it again -/
theorem C04_source_conn_loop_is_the_modelled_one :
    connLoopModelled.all (fun e => Generated.serverFingerprints.contains (e.1, e.2.1)) = true := source_conn_loop_is_the_modelled_one

end GoRedis
