import GoRedisModel.Proofs.Table
import GoRedisModel.Proofs.SourceFacts
import GoRedisModel.Proofs.SourceShapes
/-! # C05 — commands reach the handler with exactly the arguments the client sent -/
namespace GoRedis

/-- **Every command of the positional grammar** (28 commands), under any letter case of its name, on an
authorized connection, with any byte strings as arguments (binary-safe: the arguments are arbitrary
`Bytes`), any 64-bit integers, any float tokens the parser accepts, any list length ≥ 1 with order
preserved and duplicates kept, and any surplus trailing arguments: the handler is invoked exactly once
with precisely the decoded arguments, and what it returns is the reply (`singleCall`). -/
theorem C05_dispatch_table (pf : FloatOracle) : ∀ row ∈ grammar, row.Dispatches pf := by
  intro row hrow
  simp only [grammar, List.mem_cons, List.mem_nil_iff, or_false] at hrow
  rcases hrow with rfl | rfl | rfl | rfl | rfl | rfl | rfl | rfl | rfl | rfl | rfl | rfl | rfl | rfl | rfl | rfl | rfl | rfl | rfl | rfl | rfl | rfl | rfl | rfl | rfl | rfl | rfl | rfl
  all_goals exact dispatches_of_shape pf _ _ _ (by decide) rfl rfl

/-- what the handler returns is what the client receives: a message is passed through, an error becomes
the error outcome -/
theorem C05_reply_is_handler_result (r : HRes) :
    (r.err = none → outOf r = .reply r.msg) ∧ (∀ t, r.err = some t → outOf r = .error { text := t }) := by
  constructor
  · intro h; simp [outOf, h]
  · intro t h; simp [outOf, h]

/-- exactly one handler call: the trace of `singleCall` against any script is span start, the call (seeing
this connection's own state), span finish -/
theorem C05_exactly_one_call (ucmd : Bytes) (c : HCall) (conn : ConnSt) (srv : SrvSt) (script : List HRes) :
    ((singleCall ucmd c conn srv).run conn script).1 = [.spanStart ucmd, .hcall c conn, .spanFinish] := by
  simp [singleCall, Prog.run, Prog.SpanOp.ev]

/-- **SET with any combination of its options, in any order and letter case**: NX|XX at most one,
KEEPTTL, GET, at most one of EX|PX|EXAT|PXAT with a positive integer. -/
theorem C05_set (pf : FloatOracle) (srv : SrvSt) (conn : ConnSt) (c k v : Bytes) (ss : List Spelled)
    (hh : srv.hasHandler = true) (ha : conn.authorized = true) (hu : upper c = b!"SET")
    (hok : ∀ s ∈ ss, s.ok) (hc : Compat {} (ss.map Spelled.item)) :
    executeCommand pf srv conn c (B k :: B v :: ss.flatMap Spelled.msgs) =
      singleCall b!"SET" (.set k v ((ss.map Spelled.item).foldl SetOpt.apply {})) conn srv := by
  have hx : execSet (B k :: B v :: ss.flatMap Spelled.msgs) =
      callRet (.set k v ((ss.map Spelled.item).foldl SetOpt.apply {})) := by
    have := setOpts_items b!"SET" {} ss hok hc []
    simp only [List.append_nil, setOpts_nil] at this
    simp [execSet, withArgs, this]
  have := dispatch_callRet pf srv conn c _ execSet _ hh ha (by rw [hu]; decide) (by rw [hu]; rfl) hx
  rw [hu] at this; exact this

/-- key/value lists (MSET, MSETNX, HMSET, CONFIG SET): one entry per key, holding the last value given -/
theorem C05_kv_last_wins (ps : List (Bytes × Bytes)) (k : Bytes) :
    (mapOfPairs ps).lookup k = ps.reverse.lookup k := mapOfPairs_lookup ps k

/-- list arguments arrive in the order sent, byte for byte, duplicates included -/
theorem C05_list_order_preserved (l : List Bytes) : readStrings (l.map B) = .ok l := readStrings_B l

/-- **An unknown command** yields an error reply without invoking any handler or touching any state. -/
theorem C05_unknown_command (pf : FloatOracle) (srv : SrvSt) (conn : ConnSt) (cmd : Bytes) (args : List Msg)
    (h1 : upper cmd ∉ systemNames) (h2 : (userTable pf).lookup (upper cmd) = none)
    (h3 : upper cmd ∉ nestedNames) (h4 : upper cmd ∉ srv.appGet) :
    executeCommand pf srv conn cmd args = .ret (.reply (notSupported cmd), conn, srv) := by
  simp [nestedNames] at h3
  by_cases hh : srv.hasHandler = true
  · simp [executeCommand, hh, execSystem_none srv conn _ args h1, execUser, h2, nested1, h3, h4]
  · simp [executeCommand, hh]

/-- **Executors registered by the application are dispatched the same way**: a name the application registered (in
upper case, as the built-in names are; not one of the framework's own names) is found for every letter-case spelling
the client uses (`cmd` is any byte string whose `upper` is the registered name — names of any length), behind the same
span and the same authorization gate as a built-in command; the executor then runs on exactly the arguments sent. -/
theorem C05_app_executor_dispatched (pf : FloatOracle) (srv : SrvSt) (conn : ConnSt) (cmd : Bytes) (args : List Msg)
    (hh : srv.hasHandler = true)
    (h1 : upper cmd ∉ systemNames) (h2 : (userTable pf).lookup (upper cmd) = none) (h3 : upper cmd ∉ nestedNames)
    (h4 : upper cmd ∈ srv.appGet) :
    executeCommand pf srv conn cmd args =
      (gated conn (upper cmd) (shapeS .get args).lift).bind fun o => .ret (o, conn, srv) := by
  simp [nestedNames] at h3
  simp [executeCommand, hh, execSystem_none srv conn _ args h1, execUser, h2, nested1, h3, h4]

/-- … and on an authorized connection that is exactly one handler call with the decoded argument, whose result is the
reply -/
theorem C05_app_executor_one_call (conn : ConnSt) (ha : conn.authorized = true) (name k : Bytes) (rest : List Msg) :
    gated conn name (shapeS .get (B k :: rest)).lift =
      .emit (.start name) (.call (.get k) fun r => .emit .finish (.ret (outOf r))) := by
  simp [gated, ha, shapeS, withArgs, callRet, UProg.lift, Prog.andFinish]

/-- a 24-byte name in mixed case -/
example : upper b!"tdigest.ByRevRank_Member" = b!"TDIGEST.BYREVRANK_MEMBER" := by decide

/-- case-insensitive matching: every letter-case variant of a name upper-cases to the name -/
theorem C05_case_insensitive (c : Bytes) (h : ∀ b ∈ c, (65 ≤ b ∧ b ≤ 90) ∨ (97 ≤ b ∧ b ≤ 122)) :
    upper (c.map fun b => if 65 ≤ b ∧ b ≤ 90 then b + 32 else b) = upper c := by
  induction c with
  | nil => rfl
  | cons b bs ih =>
    have hb := h b (by simp)
    have := ih (fun x hx => h x (by simp [hx]))
    simp only [upper, List.map] at this ⊢
    rw [this]
    congr 1
    rcases hb with hb | hb
    · have h1 : 65 ≤ b ∧ b ≤ 90 := hb
      have e1 : ¬ (97 ≤ b ∧ b ≤ 122) := by intro ⟨x, _⟩; exact absurd (UInt8.le_trans x hb.2) (by decide)
      simp only [h1, and_self, if_true, upperByte, e1, if_false]
      have : 97 ≤ b + 32 ∧ b + 32 ≤ 122 := by
        obtain ⟨l, u⟩ := hb
        constructor <;> (simp only [UInt8.le_iff_toNat_le] at *; simp only [UInt8.toNat_add, UInt8.toNat_ofNat] at *; omega)
      simp only [this, and_self, if_true]
      rw [UInt8.add_sub_cancel]
    · have e1 : ¬ (65 ≤ b ∧ b ≤ 90) := by intro ⟨_, y⟩; exact absurd (UInt8.le_trans hb.1 y) (by decide)
      simp [e1]


/-! ## Option grammars beyond SET -/

def ExpFlag.ofKw (u : Bytes) : Option ExpFlag :=
  if u = b!"NX" then some .nx else if u = b!"XX" then some .xx else if u = b!"GT" then some .gt
  else if u = b!"LT" then some .lt else Option.none

/-- **EXPIRE / EXPIREAT** `key ttl [NX|XX|GT|LT]`: any key bytes, any 64-bit integer token, the flag in any letter
case, anything behind the flag ignored – one `Expire` call with exactly these values -/
theorem C05_expire (pf : FloatOracle) (srv : SrvSt) (conn : ConnSt) (c k t : Bytes) (n : Int) (rel : Bool)
    (flagToks : List Msg) (flag : ExpFlag)
    (hh : srv.hasHandler = true) (ha : conn.authorized = true)
    (hu : upper c = if rel then b!"EXPIRE" else b!"EXPIREAT") (hn : atoi t = some n)
    (hf : (flagToks = [] ∧ flag = .none) ∨ (∃ f rest, flagToks = B f :: rest ∧ ExpFlag.ofKw (upper f) = some flag)) :
    executeCommand pf srv conn c (B k :: B t :: flagToks) =
      singleCall (upper c) (.expire k rel n flag) conn srv := by
  have hflag : expireFlag b!"EXPIRE" flagToks = .ok flag := by
    rcases hf with ⟨rfl, rfl⟩ | ⟨f, rest, rfl, hk⟩
    · rfl
    · simp only [expireFlag, B, msgStr]
      unfold ExpFlag.ofKw at hk
      by_cases h1 : upper f = b!"NX"
      · simp [h1] at hk ⊢; exact hk
      · by_cases h2 : upper f = b!"XX"
        · simp [h1, h2] at hk ⊢; exact hk
        · by_cases h3 : upper f = b!"GT"
          · simp [h1, h2, h3] at hk ⊢; exact hk
          · by_cases h4 : upper f = b!"LT"
            · simp [h1, h2, h3, h4] at hk ⊢; exact hk
            · simp [h1, h2, h3, h4] at hk
  have hx : execExpire rel (B k :: B t :: flagToks) = callRet (.expire k rel n flag) := by
    simp [execExpire, withArgs, nextInteger_B _ t n _ hn, hflag]
  cases rel with
  | true =>
    simp only [if_true] at hu
    exact dispatch_callRet pf srv conn c _ (execExpire true) _ hh ha (by rw [hu]; decide) (by rw [hu]; rfl) hx
  | false =>
    simp only [Bool.false_eq_true, if_false] at hu
    exact dispatch_callRet pf srv conn c _ (execExpire false) _ hh ha (by rw [hu]; decide) (by rw [hu]; rfl) hx

/-- **LPOP / RPOP** `key [count]`: without a count the handler gets 1, with one exactly the integer sent -/
theorem C05_pop (pf : FloatOracle) (srv : SrvSt) (conn : ConnSt) (c k : Bytes) (left : Bool)
    (countToks : List Msg) (n : Int)
    (hh : srv.hasHandler = true) (ha : conn.authorized = true)
    (hu : upper c = if left then b!"LPOP" else b!"RPOP")
    (hc : (countToks = [] ∧ n = 1) ∨ (∃ t rest, countToks = B t :: rest ∧ atoi t = some n)) :
    executeCommand pf srv conn c (B k :: countToks) =
      singleCall (upper c) (if left then .lpop k n else .rpop k n) conn srv := by
  have hx : ∀ mk : Bytes → Int → HCall, execPop mk (B k :: countToks) = callRet (mk k n) := by
    intro mk
    rcases hc with ⟨rfl, rfl⟩ | ⟨t, rest, rfl, ht⟩
    · simp [execPop, withArgs]
    · simp only [execPop, withArgs, nextString_B]
      simp [B, msgInt, ht]
  cases left with
  | true =>
    simp only [if_true] at hu ⊢
    exact dispatch_callRet pf srv conn c _ (execPop .lpop) _ hh ha (by rw [hu]; decide) (by rw [hu]; rfl) (hx _)
  | false =>
    simp only [Bool.false_eq_true, if_false] at hu ⊢
    exact dispatch_callRet pf srv conn c _ (execPop .rpop) _ hh ha (by rw [hu]; decide) (by rw [hu]; rfl) (hx _)

example : ExpFlag.ofKw (upper b!"gT") = some .gt := by decide


/-- a SCAN option as the client spells it -/
inductive ScanItem where
  | match_ (kw pat : Bytes)
  | count (kw tok : Bytes) (n : Int)

def ScanItem.ok : ScanItem → Prop
  | .match_ kw pat => upper kw = b!"MATCH" ∧ validUtf8 pat = true
  | .count kw tok n => upper kw = b!"COUNT" ∧ atoi tok = some n

def ScanItem.msgs : ScanItem → List Msg
  | .match_ kw pat => [B kw, B pat]
  | .count kw tok _ => [B kw, B tok]

def ScanItem.apply (st : Bytes × Int) : ScanItem → Bytes × Int
  | .match_ _ pat => (globRegex pat, st.2)
  | .count _ _ n => (st.1, n)

theorem scanOpts_items (items : List ScanItem) (h : ∀ i ∈ items, i.ok) (p : Bytes) (c : Int) :
    scanOpts p c (items.flatMap ScanItem.msgs) = .ok (items.foldl ScanItem.apply (p, c)) := by
  induction items generalizing p c with
  | nil => rfl
  | cons i is ih =>
    have hi := h i (by simp)
    have hrest := fun j hj => h j (List.mem_cons_of_mem _ hj)
    cases i with
    | match_ kw pat =>
      simp only [ScanItem.ok] at hi
      simp only [List.flatMap_cons, ScanItem.msgs, List.cons_append, List.nil_append, List.foldl_cons, ScanItem.apply]
      rw [← ih hrest]
      simp [scanOpts, B, msgStr, hi.1, hi.2]
    | count kw tok n =>
      simp only [ScanItem.ok] at hi
      simp only [List.flatMap_cons, ScanItem.msgs, List.cons_append, List.nil_append, List.foldl_cons, ScanItem.apply]
      rw [← ih hrest]
      have hne : upper kw ≠ b!"MATCH" := by rw [hi.1]; decide
      simp [scanOpts, B, msgStr, msgInt, hi.1, hi.2, hne]

/-- **SCAN** `cursor [MATCH pattern] [COUNT n]` with the options in any order, any number of times (the last one of
a kind wins) and any letter case: one `Scan` call with the cursor, the pattern compiled as a glob, and the count (patterns are valid UTF-8: Go's regexp, and with it `glob.Compile`, refuses anything else – such
a SCAN is answered with an error, see `C05_scan_invalid_utf8`) -/
theorem C05_scan (pf : FloatOracle) (srv : SrvSt) (conn : ConnSt) (c t : Bytes) (cur : Int) (items : List ScanItem)
    (hh : srv.hasHandler = true) (ha : conn.authorized = true) (hu : upper c = b!"SCAN")
    (ht : atoi t = some cur) (hi : ∀ i ∈ items, i.ok) :
    executeCommand pf srv conn c (B t :: items.flatMap ScanItem.msgs) =
      singleCall b!"SCAN" (.scan cur (items.foldl ScanItem.apply (defaultScanRegex, 10)).1
        (items.foldl ScanItem.apply (defaultScanRegex, 10)).2) conn srv := by
  have hx : execScan (B t :: items.flatMap ScanItem.msgs) =
      callRet (.scan cur (items.foldl ScanItem.apply (defaultScanRegex, 10)).1 (items.foldl ScanItem.apply (defaultScanRegex, 10)).2) := by
    simp [execScan, withArgs, nextInteger_B _ t cur _ ht, scanOpts_items items hi]
  have := dispatch_callRet pf srv conn c _ execScan _ hh ha (by rw [hu]; decide) (by rw [hu]; rfl) hx
  rw [hu] at this; exact this

/-- a MATCH pattern that is not valid UTF-8 is refused: an error reply, no handler call -/
theorem C05_scan_invalid_utf8 (cur : Bytes) (kw pat : Bytes) (rest : List Msg) (hk : upper kw = b!"MATCH")
    (hp : validUtf8 pat = false) : scanOpts defaultScanRegex 10 (B kw :: B pat :: rest) = .error (errInvalid b!"pattern") := by
  simp [scanOpts, B, msgStr, hk, hp]

example : validUtf8 [0x40, 0x51, 0x58, 0xf2, 0x4b, 0x92] = false ∧ validUtf8 b!"h\xc3\xa9llo*" = true := by decide

example : (ScanItem.count b!"cOuNt" b!"25" 25).ok ∧ (ScanItem.match_ b!"match" b!"a.c*").ok := by
  constructor
  · exact ⟨by decide, by decide⟩
  · exact ⟨by decide, by decide⟩


/-- a sorted-set range option as the client spells it -/
inductive RangeItem where
  | flag (kw : Bytes)                       -- BYSCORE | BYLEX | REV | WITHSCORES
  | limit (kw off cnt : Bytes) (i j : Int)

def RangeItem.ok : RangeItem → Prop
  | .flag kw => upper kw = b!"BYSCORE" ∨ upper kw = b!"BYLEX" ∨ upper kw = b!"REV" ∨ upper kw = b!"WITHSCORES"
  | .limit kw off cnt i j => upper kw = b!"LIMIT" ∧ atoi off = some i ∧ atoi cnt = some j

def RangeItem.msgs : RangeItem → List Msg
  | .flag kw => [B kw]
  | .limit kw off cnt _ _ => [B kw, B off, B cnt]

def RangeItem.apply (o : ZRangeOpt) : RangeItem → ZRangeOpt
  | .flag kw =>
    let u := upper kw
    if u = b!"BYSCORE" then { o with byscore := true } else if u = b!"BYLEX" then { o with bylex := true }
    else if u = b!"REV" then { o with rev := true } else { o with withscores := true }
  | .limit _ _ _ i j => { o with offset := i, count := j }

/-- the option clauses of ZRANGE / ZRANGEBYSCORE / ZREVRANGE / ZREVRANGEBYSCORE: any order, any letter case, any
number of them (a later LIMIT replaces an earlier one) decode to exactly these options -/
theorem C05_range_options (items : List RangeItem) (h : ∀ i ∈ items, i.ok) (o : ZRangeOpt) :
    rangeOpts o (items.flatMap RangeItem.msgs) = .ok (items.foldl RangeItem.apply o) := by
  induction items generalizing o with
  | nil => rfl
  | cons i is ih =>
    have hi := h i (by simp)
    have hrest := fun j hj => h j (List.mem_cons_of_mem _ hj)
    cases i with
    | flag kw =>
      simp only [RangeItem.ok] at hi
      simp only [List.flatMap_cons, RangeItem.msgs, List.cons_append, List.nil_append, List.foldl_cons]
      rw [← ih hrest]
      have hne1 : b!"BYLEX" ≠ b!"BYSCORE" := by decide
      have hne2 : b!"REV" ≠ b!"BYSCORE" ∧ b!"REV" ≠ b!"BYLEX" := by decide
      have hne3 : b!"WITHSCORES" ≠ b!"BYSCORE" ∧ b!"WITHSCORES" ≠ b!"BYLEX" ∧ b!"WITHSCORES" ≠ b!"REV" := by decide
      rcases hi with h1 | h1 | h1 | h1
      all_goals (
        conv => lhs; unfold rangeOpts
        simp only [B, msgStr, RangeItem.apply, h1]
        simp [hne1, hne2, hne3])
    | limit kw off cnt i j =>
      simp only [RangeItem.ok] at hi
      simp only [List.flatMap_cons, RangeItem.msgs, List.cons_append, List.nil_append, List.foldl_cons, RangeItem.apply]
      rw [← ih hrest]
      obtain ⟨h1, h2, h3⟩ := hi
      conv => lhs; unfold rangeOpts
      simp [B, msgStr, msgInt, h1, h2, h3]

example : (RangeItem.limit b!"Limit" b!"5" b!"-1" 5 (-1)).ok := ⟨by decide, by decide, by decide⟩


/-- **ZRANGEBYSCORE** `key min max [options]`: bounds decoded by the float oracle with their open/closed marker,
options as in `C05_range_options` – one `ZRangeByScore` call with exactly these values -/
theorem C05_zrangebyscore (pf : FloatOracle) (srv : SrvSt) (conn : ConnSt) (c k a b : Bytes) (items : List RangeItem)
    (mn mx : UInt64) (mnx mxx : Bool)
    (hh : srv.hasHandler = true) (ha : conn.authorized = true) (hu : upper c = b!"ZRANGEBYSCORE")
    (h1 : rangeScore pf a = .ok (mn, mnx)) (h2 : rangeScore pf b = .ok (mx, mxx)) (hi : ∀ i ∈ items, i.ok) :
    executeCommand pf srv conn c (B k :: B a :: B b :: items.flatMap RangeItem.msgs) =
      singleCall b!"ZRANGEBYSCORE" (.zrangebyscore k mn mx { items.foldl RangeItem.apply {} with minex := mnx, maxex := mxx }) conn srv := by
  have hx : execZRangeByScore pf false (B k :: B a :: B b :: items.flatMap RangeItem.msgs) =
      callRet (.zrangebyscore k mn mx { items.foldl RangeItem.apply {} with minex := mnx, maxex := mxx }) := by
    have hrs : ∀ (tok : Bytes) (rest : List Msg) (v : UInt64 × Bool), rangeScore pf tok = .ok v →
        nextRangeScore pf (B tok :: rest) = .ok (v, rest) := by
      intro tok rest v h
      simp [nextRangeScore, nextStringRaw, B, msgStr, h]
    simp only [execZRangeByScore, withArgs, nextString_B, hrs a _ _ h1, hrs b _ _ h2, C05_range_options items hi]
    simp [callRet]
  have := dispatch_callRet pf srv conn c _ (execZRangeByScore pf false) _ hh ha (by rw [hu]; decide) (by rw [hu]; rfl) hx
  rw [hu] at this; exact this


/-- **ZRANGE** `key start stop [options]`, index form: integer tokens, any options except BYSCORE – one `ZRange` call -/
theorem C05_zrange_index (pf : FloatOracle) (srv : SrvSt) (conn : ConnSt) (c k a b : Bytes) (i j : Int) (items : List RangeItem)
    (hh : srv.hasHandler = true) (ha : conn.authorized = true) (hu : upper c = b!"ZRANGE")
    (h1 : atoi a = some i) (h2 : atoi b = some j) (hi : ∀ it ∈ items, it.ok)
    (hb : (items.foldl RangeItem.apply {}).byscore = false) :
    executeCommand pf srv conn c (B k :: B a :: B b :: items.flatMap RangeItem.msgs) =
      singleCall b!"ZRANGE" (.zrange k i j (items.foldl RangeItem.apply {})) conn srv := by
  have hane : a ≠ [] := by intro e; subst e; simp [atoi] at h1
  have hbne : b ≠ [] := by intro e; subst e; simp [atoi] at h2
  have hx : execZRange pf (B k :: B a :: B b :: items.flatMap RangeItem.msgs) = callRet (.zrange k i j (items.foldl RangeItem.apply {})) := by
    simp only [execZRange, withArgs, nextString_B]
    simp [hane, hbne, C05_range_options items hi, hb, h1, h2]
  have := dispatch_callRet pf srv conn c _ (execZRange pf) _ hh ha (by rw [hu]; decide) (by rw [hu]; rfl) hx
  rw [hu] at this; exact this

/-- **ZRANGE … BYSCORE**: the bounds are score bounds with their open/closed marker – one `ZRangeByScore` call -/
theorem C05_zrange_byscore (pf : FloatOracle) (srv : SrvSt) (conn : ConnSt) (c k a b : Bytes) (items : List RangeItem)
    (mn mx : UInt64) (mnx mxx : Bool)
    (hh : srv.hasHandler = true) (ha : conn.authorized = true) (hu : upper c = b!"ZRANGE")
    (h1 : rangeScore pf a = .ok (mn, mnx)) (h2 : rangeScore pf b = .ok (mx, mxx)) (hi : ∀ it ∈ items, it.ok)
    (hb : (items.foldl RangeItem.apply {}).byscore = true) :
    executeCommand pf srv conn c (B k :: B a :: B b :: items.flatMap RangeItem.msgs) =
      singleCall b!"ZRANGE" (.zrangebyscore k mn mx { items.foldl RangeItem.apply {} with minex := mnx, maxex := mxx }) conn srv := by
  have hane : a ≠ [] := by intro e; subst e; simp [rangeScore] at h1
  have hbne : b ≠ [] := by intro e; subst e; simp [rangeScore] at h2
  have hx : execZRange pf (B k :: B a :: B b :: items.flatMap RangeItem.msgs) =
      callRet (.zrangebyscore k mn mx { items.foldl RangeItem.apply {} with minex := mnx, maxex := mxx }) := by
    simp only [execZRange, withArgs, nextString_B]
    simp [hane, hbne, C05_range_options items hi, hb, h1, h2]
  have := dispatch_callRet pf srv conn c _ (execZRange pf) _ hh ha (by rw [hu]; decide) (by rw [hu]; rfl) hx
  rw [hu] at this; exact this

/-! ### ZADD: the flag prefix, then score/member pairs -/

def isZFlag (u : Bytes) : Bool := (zaddFlag u {}).isSome

/-- whether a token is a flag does not depend on the options collected so far -/
theorem zaddFlag_isSome_eq (u : Bytes) (o o' : ZAddOpt) : (zaddFlag u o).isSome = (zaddFlag u o').isSome := by
  unfold zaddFlag
  by_cases h1 : u = b!"NX"; · simp [h1]
  by_cases h2 : u = b!"XX"; · simp [h1, h2]
  by_cases h3 : u = b!"GT"; · simp [h1, h2, h3]
  by_cases h4 : u = b!"LT"; · simp [h1, h2, h3, h4]
  by_cases h5 : u = b!"CH"; · simp [h1, h2, h3, h4, h5]
  by_cases h6 : u = b!"INCR"; · simp [h1, h2, h3, h4, h5, h6]
  simp [h1, h2, h3, h4, h5, h6]

theorem zaddFlag_some (u : Bytes) (o : ZAddOpt) (h : isZFlag u = true) : ∃ o', zaddFlag u o = some o' := by
  have : (zaddFlag u o).isSome = true := by rw [zaddFlag_isSome_eq u o {}]; exact h
  exact Option.isSome_iff_exists.mp this

/-- what a flag does to the options (the flag names in any letter case) -/
def zflagApply (o : ZAddOpt) (f : Bytes) : ZAddOpt := (zaddFlag (upper f) o).getD o

theorem zaddHead_flags (pf : FloatOracle) (flags : List Bytes) (hf : ∀ f ∈ flags, isZFlag (upper f) = true)
    (o : ZAddOpt) (tok : Bytes) (rest : List Msg) (ht : isZFlag (upper tok) = false) :
    zaddHead pf o (flags.map B ++ B tok :: rest) = .ok (flags.foldl zflagApply o, B tok :: rest) := by
  induction flags generalizing o with
  | nil =>
    have : zaddFlag (upper tok) o = none := by
      have h := zaddFlag_isSome_eq (upper tok) o {}
      unfold isZFlag at ht
      rw [ht] at h
      cases hz : zaddFlag (upper tok) o with
      | none => rfl
      | some o' => rw [hz] at h; simp at h
    simp [zaddHead, B, msgStr, this]
  | cons f fs ih =>
    obtain ⟨o', ho'⟩ := zaddFlag_some (upper f) o (hf f (by simp))
    have := ih (fun g hg => hf g (List.mem_cons_of_mem _ hg)) o'
    simp only [List.map_cons, List.cons_append, List.foldl_cons]
    rw [show zflagApply o f = o' by simp [zflagApply, ho']]
    rw [← this]
    simp [zaddHead, B, msgStr, ho']

theorem zaddPairs_ok (pf : FloatOracle) (ps : List (Bytes × UInt64 × Bytes)) (hp : ∀ p ∈ ps, pf p.1 = some p.2.1) :
    zaddPairs pf (ps.flatMap fun p => [B p.1, B p.2.2]) = .ok (ps.map fun p => (p.2.1, p.2.2)) := by
  induction ps with
  | nil => rfl
  | cons p ps ih =>
    have h1 := hp p (by simp)
    have h2 := ih (fun q hq => hp q (List.mem_cons_of_mem _ hq))
    simp only [List.flatMap_cons, List.cons_append, List.nil_append, List.map_cons]
    simp only [B] at h2 ⊢
    simp [zaddPairs, msgStr, h1, h2]

/-- **ZADD** `key [NX|XX] [GT|LT] [CH] [INCR] score member [score member …]`: flags in any letter case, every pair in
the order sent with exactly the decoded score – one `ZAdd` call -/
theorem C05_zadd (pf : FloatOracle) (srv : SrvSt) (conn : ConnSt) (c k : Bytes) (flags : List Bytes)
    (p : Bytes × UInt64 × Bytes) (ps : List (Bytes × UInt64 × Bytes))
    (hh : srv.hasHandler = true) (ha : conn.authorized = true) (hu : upper c = b!"ZADD")
    (hf : ∀ f ∈ flags, isZFlag (upper f) = true) (hp : ∀ q ∈ p :: ps, pf q.1 = some q.2.1)
    (hfirst : isZFlag (upper p.1) = false) :
    executeCommand pf srv conn c (B k :: (flags.map B ++ (p :: ps).flatMap fun q => [B q.1, B q.2.2])) =
      singleCall b!"ZADD" (.zadd k ((p :: ps).map fun q => (q.2.1, q.2.2)) (flags.foldl zflagApply {})) conn srv := by
  have hx : execZAdd pf (B k :: (flags.map B ++ (p :: ps).flatMap fun q => [B q.1, B q.2.2])) =
      callRet (.zadd k ((p :: ps).map fun q => (q.2.1, q.2.2)) (flags.foldl zflagApply {})) := by
    have hhead := zaddHead_flags pf flags hf {} p.1 (B p.2.2 :: ps.flatMap fun q => [B q.1, B q.2.2]) hfirst
    have hpairs := zaddPairs_ok pf (p :: ps) hp
    simp only [List.flatMap_cons, List.cons_append, List.nil_append] at hhead hpairs ⊢
    simp only [execZAdd, withArgs, nextString_B, hhead, hpairs]
    simp
  have := dispatch_callRet pf srv conn c _ (execZAdd pf) _ hh ha (by rw [hu]; decide) (by rw [hu]; rfl) hx
  rw [hu] at this; exact this

example : isZFlag (upper b!"incr") = true ∧ isZFlag (upper b!"1.5") = false ∧ isZFlag (upper b!"-inf") = false := by decide

/-! ## Non-vacuity -/

example : (⟨.exp .px 1500, b!"pX", b!"1500"⟩ : Spelled).ok := by
  simp [Spelled.ok, SetItem.kw, ExpKind.kw, upper, upperByte, atoi, digitsVal, maxInt]

example : Compat {} [.get, .exp .px 1500, .nx] := by simp [Compat, SetOpt.admits, SetOpt.apply]

example : b!"RENAME" ∉ systemNames ∧ (⟨b!"RENAME", .ss fun k n => .rename k n false⟩ : Row) ∈ grammar := by
  constructor
  · decide
  · simp [grammar]

/-- the executor table of the current source names exactly the commands the model dispatches on (regenerated on every run) -/
theorem C05_source_commands_match_model :
    (Generated.registeredCommands.all fun n => modelCommandNames.contains n) = true ∧
    (modelCommandNames.all fun n => Generated.registeredCommands.contains n) = true := source_commands_match_model

/-- every executor of the current source reads the kinds of arguments, in the order, and reaches the handler
operations the model (and for the positional commands the independent grammar) says – regenerated from the source and
decided by the kernel on every run -/
theorem C05_source_shapes_match_model :
    (Generated.executorShapes.all fun e => modelShape e.1 == some (readersOf e.2, handlersOf e.2)) = true :=
  source_shapes_match_model

/-- the current source folds names byte-wise only, as the model's `upper` does (regenerated on every run) -/
theorem C05_source_ascii_case : factHolds "noUnicodeCaseFolding" = true := source_ascii_case

/-- **The source is the one the model was written from** (regenerated on every run): the connection loop (`serveConn`, `receive`, `dispatch`, `handleMessage`, `responseMessage`, `executeCommand`, `upperASCII`) of the current source
have the fingerprints recorded in the model; a change to any of them means the theorems above are not shown for the code
as it is now, until the model has been compared with it again -/
theorem C05_source_conn_loop_is_the_modelled_one :
    connLoopModelled.all (fun e => Generated.serverFingerprints.contains (e.1, e.2.1)) = true := source_conn_loop_is_the_modelled_one

end GoRedis
