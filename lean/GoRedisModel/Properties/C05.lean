import GoRedisModel.Model.Show
/-! placeholder until the theorems of C05 are written -/
namespace GoRedis
theorem C05_placeholder : True := trivial
end GoRedis
