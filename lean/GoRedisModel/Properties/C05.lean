import GoRedisModel.Proofs.Table
import GoRedisModel.Proofs.SourceFacts
/-! # C05 — commands reach the handler with exactly the arguments the client sent -/
namespace GoRedis

/-- **Every command of the positional grammar** (28 commands), under any letter case of its name, on an
authorized connection, with any byte strings as arguments (binary-safe: the arguments are arbitrary
`Bytes`), any 64-bit integers, any float tokens the parser accepts, any list length ≥ 1 with order
preserved and duplicates kept, and any surplus trailing arguments: the handler is invoked exactly once
with precisely the decoded arguments, and what it returns is the reply (`singleCall`). -/
theorem C05_dispatch_table (pf : FloatOracle) : ∀ row ∈ grammar, row.Dispatches pf := by
  intro row hrow
  simp only [grammar, List.mem_cons, List.mem_nil_iff, or_false] at hrow
  rcases hrow with rfl | rfl | rfl | rfl | rfl | rfl | rfl | rfl | rfl | rfl | rfl | rfl | rfl | rfl | rfl | rfl | rfl | rfl | rfl | rfl | rfl | rfl | rfl | rfl | rfl | rfl | rfl | rfl
  all_goals exact dispatches_of_shape pf _ _ _ (by decide) rfl rfl

/-- what the handler returns is what the client receives: a message is passed through, an error becomes
the error outcome -/
theorem C05_reply_is_handler_result (r : HRes) :
    (r.err = none → outOf r = .reply r.msg) ∧ (∀ t, r.err = some t → outOf r = .error { text := t }) := by
  constructor
  · intro h; simp [outOf, h]
  · intro t h; simp [outOf, h]

/-- exactly one handler call: the trace of `singleCall` against any script is span start, the call (seeing
this connection's own state), span finish -/
theorem C05_exactly_one_call (ucmd : Bytes) (c : HCall) (conn : ConnSt) (srv : SrvSt) (script : List HRes) :
    ((singleCall ucmd c conn srv).run conn script).1 = [.spanStart ucmd, .hcall c conn, .spanFinish] := by
  simp [singleCall, Prog.run, Prog.SpanOp.ev]

/-- **SET with any combination of its options, in any order and letter case**: NX|XX at most one,
KEEPTTL, GET, at most one of EX|PX|EXAT|PXAT with a positive integer. -/
theorem C05_set (pf : FloatOracle) (srv : SrvSt) (conn : ConnSt) (c k v : Bytes) (ss : List Spelled)
    (hh : srv.hasHandler = true) (ha : conn.authorized = true) (hu : upper c = b!"SET")
    (hok : ∀ s ∈ ss, s.ok) (hc : Compat {} (ss.map Spelled.item)) :
    executeCommand pf srv conn c (B k :: B v :: ss.flatMap Spelled.msgs) =
      singleCall b!"SET" (.set k v ((ss.map Spelled.item).foldl SetOpt.apply {})) conn srv := by
  have hx : execSet (B k :: B v :: ss.flatMap Spelled.msgs) =
      callRet (.set k v ((ss.map Spelled.item).foldl SetOpt.apply {})) := by
    have := setOpts_items b!"SET" {} ss hok hc []
    simp only [List.append_nil, setOpts_nil] at this
    simp [execSet, withArgs, this]
  have := dispatch_callRet pf srv conn c _ execSet _ hh ha (by rw [hu]; decide) (by rw [hu]; rfl) hx
  rw [hu] at this; exact this

/-- key/value lists (MSET, MSETNX, HMSET, CONFIG SET): one entry per key, holding the last value given -/
theorem C05_kv_last_wins (ps : List (Bytes × Bytes)) (k : Bytes) :
    (mapOfPairs ps).lookup k = ps.reverse.lookup k := mapOfPairs_lookup ps k

/-- list arguments arrive in the order sent, byte for byte, duplicates included -/
theorem C05_list_order_preserved (l : List Bytes) : readStrings (l.map B) = .ok l := readStrings_B l

/-- **An unknown command** yields an error reply without invoking any handler or touching any state. -/
theorem C05_unknown_command (pf : FloatOracle) (srv : SrvSt) (conn : ConnSt) (cmd : Bytes) (args : List Msg)
    (h1 : upper cmd ∉ systemNames) (h2 : (userTable pf).lookup (upper cmd) = none)
    (h3 : upper cmd ∉ nestedNames) :
    executeCommand pf srv conn cmd args = .ret (.reply (notSupported cmd), conn, srv) := by
  simp [nestedNames] at h3
  by_cases hh : srv.hasHandler = true
  · simp [executeCommand, hh, execSystem_none srv conn _ args h1, execUser, h2, nested1, h3]
  · simp [executeCommand, hh]

/-- case-insensitive matching: every letter-case variant of a name upper-cases to the name -/
theorem C05_case_insensitive (c : Bytes) (h : ∀ b ∈ c, (65 ≤ b ∧ b ≤ 90) ∨ (97 ≤ b ∧ b ≤ 122)) :
    upper (c.map fun b => if 65 ≤ b ∧ b ≤ 90 then b + 32 else b) = upper c := by
  induction c with
  | nil => rfl
  | cons b bs ih =>
    have hb := h b (by simp)
    have := ih (fun x hx => h x (by simp [hx]))
    simp only [upper, List.map] at this ⊢
    rw [this]
    congr 1
    rcases hb with hb | hb
    · have h1 : 65 ≤ b ∧ b ≤ 90 := hb
      have e1 : ¬ (97 ≤ b ∧ b ≤ 122) := by intro ⟨x, _⟩; exact absurd (UInt8.le_trans x hb.2) (by decide)
      simp only [h1, and_self, if_true, upperByte, e1, if_false]
      have : 97 ≤ b + 32 ∧ b + 32 ≤ 122 := by
        obtain ⟨l, u⟩ := hb
        constructor <;> (simp only [UInt8.le_iff_toNat_le] at *; simp only [UInt8.toNat_add, UInt8.toNat_ofNat] at *; omega)
      simp only [this, and_self, if_true]
      rw [UInt8.add_sub_cancel]
    · have e1 : ¬ (65 ≤ b ∧ b ≤ 90) := by intro ⟨_, y⟩; exact absurd (UInt8.le_trans hb.1 y) (by decide)
      simp [e1]

/-! ## Non-vacuity -/

example : (⟨.exp .px 1500, b!"pX", b!"1500"⟩ : Spelled).ok := by
  simp [Spelled.ok, SetItem.kw, ExpKind.kw, upper, upperByte, atoi, digitsVal, maxInt]

example : Compat {} [.get, .exp .px 1500, .nx] := by simp [Compat, SetOpt.admits, SetOpt.apply]

example : b!"RENAME" ∉ systemNames ∧ (⟨b!"RENAME", .ss fun k n => .rename k n false⟩ : Row) ∈ grammar := by
  constructor
  · decide
  · simp [grammar]

/-- the executor table of the current source names exactly the commands the model dispatches on (regenerated on every run) -/
theorem C05_source_commands_match_model :
    (Generated.registeredCommands.all fun n => modelCommandNames.contains n) = true ∧
    (modelCommandNames.all fun n => Generated.registeredCommands.contains n) = true := source_commands_match_model

end GoRedis
