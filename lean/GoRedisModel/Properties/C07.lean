import GoRedisModel.Model.Show
/-! placeholder until the theorems of C07 are written -/
namespace GoRedis
theorem C07_placeholder : True := trivial
end GoRedis
