import GoRedisModel.Proofs.ReverseBy
import GoRedisModel.Proofs.Translated
import GoRedisModel.Proofs.Loop
import GoRedisModel.Proofs.SourceFacts
import GoRedisModel.Proofs.Sane
/-! # C07 — no client can crash the server or disturb other clients

In the model a Go run-time panic inside the connection goroutine is the event `crash`: it is caught by the
goroutine's barrier, the connection is unregistered and closed, nothing else is touched.  Whether the real
`receive` has that barrier is checked on every run (regenerated fact `Generated/Facts.lean`, and the tie's
oracle: no panic escapes the hook). -/
namespace GoRedis

/-- **Whatever one connection sends** (any byte stream) **and whatever the handler returns** (any script,
including nil messages, nil arrays, nil elements), the connection's trace begins with its registration and
ends with its removal from the registry and the closing of its socket: every way out of the loop — end of
stream, protocol error, QUIT, panic — runs the same two deferred releases. -/
theorem C07_connection_always_released (pf : FloatOracle) (srv : SrvSt) (requirePass : Bool) (input : Bytes) (script : List HRes) :
    ∃ body, serve pf srv requirePass input script = [Ev.register] ++ body ++ [.deregister, .close] :=
  ⟨_, rfl⟩

/-- A request that panics writes nothing, ends only its own connection, and leaves the server-wide state
alone: the loop has no successor state for it. -/
theorem C07_panic_is_contained (pf : FloatOracle) (srv : SrvSt) (conn : ConnSt) (m : Msg) (script : List HRes)
    (hc : crashedIn (reqStep pf srv conn m script).evs = true) :
    writesOf (reqStep pf srv conn m script).evs = [] ∧ (reqStep pf srv conn m script).next = none :=
  reqStep_crash pf srv conn m script hc

/-- The server-wide state a request can change is the configuration, and only through the connection's
own CONFIG SET: a user command (one answered through the application's handler) leaves it untouched. -/
theorem C07_user_commands_leave_server_state (pf : FloatOracle) (srv : SrvSt) (conn : ConnSt) (cmd : Bytes) (args : List Msg)
    (p : Prog Out) (h : execUser pf srv conn cmd args = some p) (hs : upper cmd ∉ systemNames) :
    executeCommand pf srv conn cmd args = p.bind (fun o => .ret (o, conn, srv)) ∨ srv.hasHandler = false := by
  by_cases hh : srv.hasHandler = true
  · left
    simp [systemNames] at hs
    simp [executeCommand, hh, execSystem, hs, h]
  · right; simpa using hh

/-- **No client input can make a request panic when the application's handler honours its interface.**  A handler
result is *sane* when it is an error or a message without a nil pointer in it (no nil message, no nil array, no nil
element at any depth).  For every byte stream a client sends, every server state, with or without a password, and every
script of sane handler results, the trace of the connection contains no `crash`: every executor of the framework —
including the composed ones that interpret the handler's reply (INCR, APPEND, GETRANGE, MSETNX, SCARD, SISMEMBER,
ZREVRANGE, ZREVRANGEBYSCORE, HKEYS, HLEN …) — returns, whatever type of message the handler answered with, and what it
returns can be serialized.  (`Proofs/Sane`: a safety predicate over the interaction trees, proved for all 56 user
executors, the 7 nested ones and the 6 system ones, for arbitrary argument lists.) -/
theorem C07_sane_handler_never_crashes (pf : FloatOracle) (srv : SrvSt) (requirePass : Bool) (input : Bytes)
    (script : List HRes) (hs : saneScript script = true) :
    crashedIn (serve pf srv requirePass input script) = false := by
  unfold serve
  simp only [crashedIn_append, crashedIn, Bool.false_or, Bool.or_false]
  exact serveLoop_sane pf _ srv _ input script hs

/-- … and every request that was received completely is then answered with exactly one well-formed reply -/
theorem C07_sane_request_is_answered (pf : FloatOracle) (srv : SrvSt) (conn : ConnSt) (m : Msg) (hm : noAbsent m = true)
    (script : List HRes) (hs : saneScript script = true) :
    ∃ bs, writesOf (reqStep pf srv conn m script).evs = [bs] ∧ Frame bs :=
  reqStep_one_write pf srv conn m script (reqStep_sane pf srv conn m hm script hs).1

/-- the hypothesis is satisfiable (a handler answering with a bulk string, an array with a null bulk in it, or an error),
and it is needed: the empty script stands for a handler that returns `(nil, nil)` -/
example : saneScript [{ msg := .bulk (some b!"v") }, { msg := .arr [.bulk none, .line .int b!"1"] }, { err := some b!"ERR" }] = true := by
  decide
example : saneScript [] = false ∧ saneScript [{}] = false ∧ saneScript [{ msg := .arr [.absent] }] = false := by decide

/-! ## The inputs that used to kill the process, evaluated on the repaired model -/

def nf : FloatOracle := fun _ => none

/-- `*0` (empty command array): an error reply, and the next request is served -/
example : writesOf (serve nf {} false b!"*0\r\n*1\r\n$4\r\nPING\r\n" []) =
    [enc (.line .err errEmptyCommand.text), b!"+PONG\r\n"] := by decide +kernel

/-- a null command name -/
example : (writesOf (serve nf {} false b!"*1\r\n$-1\r\n*1\r\n$4\r\nPING\r\n" [])).length = 2 := by decide +kernel

/-- `GETRANGE k 0 3` on a 3-byte value (slice bounds out of range before the repair) -/
example : writesOf (serve nf {} false b!"*4\r\n$8\r\nGETRANGE\r\n$1\r\nk\r\n$1\r\n0\r\n$1\r\n3\r\n"
    [{ msg := .bulk (some b!"abc") }]) = [b!"$3\r\nabc\r\n"] := by decide +kernel

/-- GETRANGE on an empty value, and with start after end -/
example : writesOf (serve nf {} false b!"*4\r\n$8\r\nGETRANGE\r\n$1\r\nk\r\n$1\r\n0\r\n$2\r\n-1\r\n"
    [{ msg := .bulk (some []) }]) = [b!"$0\r\n\r\n"] := by decide +kernel
example : writesOf (serve nf {} false b!"*4\r\n$8\r\nGETRANGE\r\n$1\r\nk\r\n$1\r\n2\r\n$1\r\n1\r\n"
    [{ msg := .bulk (some b!"abc") }]) = [b!"$0\r\n\r\n"] := by decide +kernel

/-- a handler that returns nothing at all to a composite command: the connection is closed (a recovered
panic), nothing is written, the registry entry is removed -/
example : serve nf {} false b!"*2\r\n$4\r\nINCR\r\n$1\r\nk\r\n" [{}] =
    [.register, .rootStart, .spanStart b!"parse", .spanFinish, .spanStart b!"INCR", .hcall (.get b!"k") { authorized := true },
     .spanFinish, .crash, .deregister, .close] := by decide +kernel

/-- the recover barrier is present and is the first deferred call of the connection loop in the current source -/
theorem C07_source_recover_barrier :
    (factHolds "recoverBarrier" && factHolds "recoverBarrierFirst") = true := source_recover_barrier

/-- no lock of the framework is taken twice by one goroutine in the current source (regenerated): no request can
leave a mutex held forever and with it freeze the other clients -/
theorem C07_source_no_reentrant_locking : factHolds "noReentrantLocking" = true := source_no_reentrant_locking

/-- **No slice or index expression of the translated source can panic** (regenerated on every run): the GETRANGE window
of `redis/sugar_commander.go` and the LIMIT / LINDEX code of the example store, translated statement for statement with
Go's panicking slice semantics, end in a value for every stored value and all 64-bit arguments – "out-of-range and
inverted indices" cannot take the request down -/
theorem C07_source_windows_never_panic (v : Bytes) (s e : Int) (hl : (v.length : Int) ≤ 9223372036854775807)
    (hs : inInt64 s = true) (he : inInt64 e = true) (l : List (Int × Bytes)) (els : List Bytes)
    (hel : (els.length : Int) ≤ 9223372036854775807) :
    Translated.getrangeWindow v s e ≠ .panic ∧ Translated.limitZSetMembers l s e ≠ .panic ∧
    Translated.listIndex els s ≠ .panic := by
  rw [Translated.getrange_eq v s e hl hs he, Translated.limit_eq, Translated.listIndex_eq els s hel hs]
  exact ⟨by simp, by simp, by simp⟩

/-- `(*Array).ReverseBy` as written never indexes out of range: whatever array a handler returns (odd lengths included)
and whatever the step, the loops end in a value (the pre-repair code panicked on an odd length with step 2) -/
theorem C07_ex_reverseBy_never_panics (es : List Msg) (step : Int) : Ex.reverseBy es step ≠ none := by
  rw [Ex.reverseBy_eq]; simp

/-- **The source is the one the model was written from** (regenerated on every run): the connection loop (`serveConn`, `receive`, `dispatch`, `handleMessage`, `responseMessage`, `executeCommand`, `upperASCII`) of the current source
have the fingerprints recorded in the model; a change to any of them means the theorems above are not shown for the code
as it is now, until the model has been compared with it again -/
theorem C07_source_conn_loop_is_the_modelled_one :
    connLoopModelled.all (fun e => Generated.serverFingerprints.contains (e.1, e.2.1)) = true := source_conn_loop_is_the_modelled_one

end GoRedis
