import GoRedisModel.Generated.Facts
import GoRedisModel.Proofs.Chunked
import GoRedisModel.Proofs.Parse
/-! # C02 — parsing a RESP stream does not depend on how the bytes are chunked -/
namespace GoRedis

/-- Read values with the chunked reader until the stream ends: the values and how it ended. -/
def inextAll : Nat → Nat → Reader → List Msg × Option PRes
  | 0, _, _ => ([], some .fuel)
  | k+1, f, r =>
    match inext f r with
    | .ok m r' => let (ms, e) := inextAll k f r'; (m :: ms, e)
    | .eof => ([], some .eof)
    | .err => ([], some .err)
    | .panic => ([], none)
    | .fuel => ([], some .fuel)

/-- For *every* list of segments, the reader mirroring `parser.go` returns what the flat reference parser
returns on the concatenation, and the transport is left holding exactly the unconsumed bytes.
The quantifier "all partitions of the byte stream into reads" is the universally quantified `r.chunks`. -/
theorem C02_next_chunked (f : Nat) (r : Reader) (hr : r.rest.length < f) :
    (inext f r).flat = some (parse f r.rest) := inext_spec f r hr

/-- Each value consumes exactly its own bytes, whatever follows it and however the stream is split. -/
theorem C02_exact_consumption (v : Msg) (hw : wf v) (tail : Bytes) (r : Reader) (hr : r.rest = enc v ++ tail)
    (f : Nat) (hf : r.rest.length < f) (hd : depth v < f) :
    ∃ r', inext f r = .ok v r' ∧ r'.rest = tail := by
  have h := inext_spec f r hf
  rw [hr, parse_enc v hw f hd tail] at h
  cases hx : inext f r with
  | ok m r' => rw [hx] at h; simp [IRes.flat] at h; exact ⟨r', by rw [h.1], h.2⟩
  | eof => rw [hx] at h; simp [IRes.flat] at h
  | err => rw [hx] at h; simp [IRes.flat] at h
  | panic => rw [hx] at h; simp [IRes.flat] at h
  | fuel => rw [hx] at h; simp [IRes.flat] at h

theorem encs_length_le (v : Msg) (vs : List Msg) : (encs vs).length ≤ (encs (v :: vs)).length := by
  simp [encs]

/-- A concatenation of encoded values, delivered in any segmentation, is read back as exactly those
values, in order, followed by a clean end of stream. -/
theorem C02_sequence (vs : List Msg) (hw : wfs vs) (r : Reader) (hr : r.rest = encs vs)
    (f : Nat) (hf : (encs vs).length < f) (hd : depths vs < f) :
    inextAll (vs.length + 1) f r = (vs, some .eof) := by
  induction vs generalizing r with
  | nil =>
    have h := inext_spec f r (by rw [hr]; exact hf)
    rw [hr] at h
    have hf' : ∃ f', f = f' + 1 := ⟨f - 1, by omega⟩
    obtain ⟨f', rfl⟩ := hf'
    simp [encs, parse] at h
    cases hx : inext (f'+1) r with
    | ok m r' => rw [hx] at h; simp [IRes.flat] at h
    | eof => simp [inextAll, hx]
    | err => rw [hx] at h; simp [IRes.flat] at h
    | panic => rw [hx] at h; simp [IRes.flat] at h
    | fuel => rw [hx] at h; simp [IRes.flat] at h
  | cons v vs ih =>
    simp only [wfs] at hw
    simp only [depths] at hd
    obtain ⟨r', h1, h2⟩ := C02_exact_consumption v hw.1 (encs vs) r (by simpa [encs] using hr) f
      (by rw [hr]; exact hf) (by omega)
    have hlen := encs_length_le v vs
    have := ih hw.2 r' h2 (by omega) (by omega)
    simp [inextAll, h1, this]

/-! ## Non-vacuity -/

/-- `+OK\r\n$3\r\nabc\r\n` delivered byte by byte (so also split between CR and LF and inside the length
prefix) meets the hypotheses of `C02_sequence`. -/
def sampleVals : List Msg := [.line .str b!"OK", .bulk (some b!"abc")]
def sampleReader : Reader := ⟨[[43], [79], [75], [13], [10], [36], [51], [13], [10], [97], [98], [99], [13], [10]]⟩

example : inextAll 3 20 sampleReader = (sampleVals, some .eof) :=
  C02_sequence sampleVals (by simp [sampleVals, wfs, wf, CR, LF, maxBulk]) sampleReader (by decide) 20 (by decide) (by decide)

example : inextAll 3 20 ⟨[b!"+OK\r", b!"\n$3\r\nab", b!"c\r", b!"\n"]⟩ = (sampleVals, some .eof) :=
  C02_sequence sampleVals (by simp [sampleVals, wfs, wf, CR, LF, maxBulk]) _ (by decide) 20 (by decide) (by decide)

/-- **The parser source is the one that was transcribed** (regenerated on every run): the six functions of
`redis/proto/parser.go` and `array.go` that `Model/ParserImpl` mirrors byte for byte have the fingerprints it was written
from -/
theorem C02_source_parser_is_the_modelled_one :
    parserModelled.all (fun e => Generated.protoFingerprints.contains (e.1, e.2.1)) = true := by decide

end GoRedis
