import GoRedisModel.Proofs.Spec
/-! # C18 — the bundled example store returns what was stored

The example store is tied, reply for reply, to the reference store `refHandle` (Model/RefStore) by the
correspondence check (the real example server through the hook vs the model, on exhaustively enumerated short
programs per data type and on random long ones).  The theorems below are the clauses of the property, proved
of the reference store for every state and all arguments. -/
namespace GoRedis

variable (sc : ScoreTable)

/-! ## Strings: values come back byte for byte -/

theorem C18_get_after_set (k v : Bytes) (s : Store) :
    (refHandle sc (.get k) (refHandle sc (.set k v {}) s).2).1.msg = newBulk v := by
  simp [refHandle, Store.get_put_same, okRes]

theorem C18_set_leaves_other_keys (k k2 v : Bytes) (s : Store) (h : k2 ≠ k) :
    (refHandle sc (.set k v {}) s).2.get k2 = s.get k2 := by
  simp [refHandle, Store.get_put_other _ _ _ _ h]

/-! ## Keys: DEL / EXISTS / RENAME / TYPE reflect exactly the keys that were written -/

theorem C18_exists_after_set (k v : Bytes) (s : Store) :
    (refHandle sc (.exists_ [k]) (refHandle sc (.set k v {}) s).2).1.msg = newInteger 1 := by
  simp [refHandle, Store.get_put_same, intRes, okRes]

theorem C18_del_removes (k : Bytes) (s : Store) : (refHandle sc (.del [k]) s).2.get k = none := by
  simp only [refHandle, List.foldl]
  cases h : s.get k with
  | none => simp [h]
  | some v => simp [h, Store.get_del_same]

theorem C18_del_counts_existing (k : Bytes) (s : Store) :
    (refHandle sc (.del [k]) s).1.msg = newInteger (if (s.get k).isSome then 1 else 0) := by
  simp only [refHandle, List.foldl]
  cases h : s.get k <;> simp [h, intRes, okRes]

/-- renaming a key onto itself keeps it (it was deleted before the repair) -/
theorem C18_rename_onto_itself (k : Bytes) (s : Store) (v : Val) (h : s.get k = some v) :
    refHandle sc (.rename k k false) s = (okRes okMsg, s) := by
  simp [refHandle, h]

theorem C18_rename_moves (k nk : Bytes) (s : Store) (v : Val) (h : s.get k = some v) (hne : k ≠ nk) :
    (refHandle sc (.rename k nk false) s).2.get nk = some v ∧ (refHandle sc (.rename k nk false) s).2.get k = none := by
  have hst : (refHandle sc (.rename k nk false) s).2 = (s.del k).put nk v := by
    simp [refHandle, h, hne]
  rw [hst]
  constructor
  · exact Store.get_put_same _ _ _
  · rw [Store.get_put_other _ _ _ _ hne]; exact Store.get_del_same _ _

theorem C18_renamenx_existing_target (k nk : Bytes) (s : Store) (v w : Val) (h : s.get k = some v) (h2 : s.get nk = some w) :
    refHandle sc (.rename k nk true) s = (intRes 0, s) := by
  simp [refHandle, h, h2]

theorem C18_type (k : Bytes) (s : Store) :
    (refHandle sc (.type_ k) s).1.msg = newStatus ((s.get k).elim b!"none" typeName) := by
  simp [refHandle, okRes]

/-! ## Lists keep push / pop order -/

theorem C18_rpush_appends (k : Bytes) (l es : List Bytes) (s : Store) (h : s.get k = some (.list l)) :
    (refHandle sc (.rpush k es false) s).2.get k = some (.list (l ++ es)) := by
  simp [refHandle, h, Store.get_put_same]

theorem C18_lpush_prepends_in_argument_order (k : Bytes) (l es : List Bytes) (s : Store) (h : s.get k = some (.list l)) :
    (refHandle sc (.lpush k es false) s).2.get k = some (.list (es.reverse ++ l)) := by
  simp [refHandle, h, Store.get_put_same]

theorem C18_lrange_all (k : Bytes) (l : List Bytes) (s : Store) (h : s.get k = some (.list l)) (hl : l ≠ []) :
    (refHandle sc (.lrange k 0 (-1)) s).1.msg = bulks' l := by
  have hlen : 0 < l.length := by cases l with | nil => exact absurd rfl hl | cons _ _ => simp
  have hb : rangeBounds l.length 0 (-1) = some (0, l.length - 1) := by
    unfold rangeBounds normIdx
    simp only
    have : ¬ (max (0 : Int) (if (0 : Int) < 0 then (l.length : Int) + 0 else 0) >
        min ((l.length : Int) - 1) (if (-1 : Int) < 0 then (l.length : Int) + -1 else -1)) := by
      simp; omega
    simp only [this, if_false]
    congr 2 <;> simp <;> omega
  simp only [refHandle, h, rangeSlice, hb, okRes]
  have : l.length - 1 + 1 - 0 = l.length := by omega
  simp [this]

theorem C18_lpop_takes_the_head (k e : Bytes) (l : List Bytes) (s : Store) (h : s.get k = some (.list (e :: l))) :
    (refHandle sc (.lpop k 1) s).1.msg = newBulk e := by
  simp [refHandle, h, okRes]

theorem C18_rpop_takes_the_tail (k e : Bytes) (l : List Bytes) (s : Store) (h : s.get k = some (.list (l ++ [e]))) :
    (refHandle sc (.rpop k 1) s).1.msg = newBulk e := by
  simp [refHandle, h, okRes]

/-- reading a missing list does not create it (it did before the repair) -/
theorem C18_llen_does_not_create (k : Bytes) (s : Store) (h : s.get k = none) :
    refHandle sc (.llen k) s = (intRes 0, s) ∧ refHandle sc (.lrange k 0 (-1)) s = (okRes (.arr []), s) := by
  simp [refHandle, h]

/-- an emptied container is removed -/
theorem C18_emptied_list_is_removed (k e : Bytes) (s : Store) (h : s.get k = some (.list [e])) :
    (refHandle sc (.lpop k 1) s).2.get k = none := by
  simp [refHandle, h, Store.putOrDrop, Store.get_del_same]

/-! ## Sets hold no duplicates; sorted sets one entry per member, ordered by score -/

theorem dedup_nodup (l : List Bytes) : (dedup l).Nodup := by
  induction l with
  | nil => simp [dedup]
  | cons x xs ih =>
    simp only [dedup]
    split
    · exact ih
    · rename_i hx
      refine List.nodup_cons.mpr ⟨?_, ih⟩
      intro hmem
      have hsub : ∀ (l : List Bytes) y, y ∈ dedup l → y ∈ l := by
        intro l
        induction l with
        | nil => simp [dedup]
        | cons a as iha =>
          intro y hy
          simp only [dedup] at hy
          split at hy
          · exact List.mem_cons_of_mem _ (iha y hy)
          · simp at hy
            rcases hy with rfl | hy
            · simp
            · exact List.mem_cons_of_mem _ (iha y hy)
      have := hsub xs x hmem
      simp at hx
      exact hx this

theorem C18_sadd_no_duplicates (k : Bytes) (cur ms : List Bytes) (s : Store) (h : s.get k = some (.set cur))
    (hcur : cur.Nodup) :
    ∃ ms', (refHandle sc (.sadd k ms) s).2.get k = some (.set ms') ∧ ms'.Nodup ∧ (∀ m, m ∈ ms' ↔ m ∈ cur ∨ m ∈ ms) := by
  refine ⟨cur ++ ((dedup ms.reverse).reverse.filter fun m => !cur.contains m), ?_, ?_, ?_⟩
  · simp [refHandle, h, Store.get_put_same]
  · refine List.nodup_append.mpr ⟨hcur, ?_, ?_⟩
    · have hr : ((dedup ms.reverse).reverse).Nodup :=
        List.pairwise_reverse.mpr ((dedup_nodup ms.reverse).imp fun h => Ne.symm h)
      exact hr.filter _
    · intro a ha b hb hab
      subst hab
      simp at hb
      exact hb.2 ha
  · intro m
    have hmem : ∀ (l : List Bytes) y, y ∈ dedup l ↔ y ∈ l := by
      intro l
      induction l with
      | nil => simp [dedup]
      | cons a as iha =>
        intro y
        simp only [dedup]
        split
        · rename_i hc
          simp at hc
          constructor
          · intro hy; exact List.mem_cons_of_mem _ ((iha y).mp hy)
          · intro hy
            simp at hy
            rcases hy with rfl | hy
            · exact (iha _).mpr hc
            · exact (iha y).mpr hy
        · simp [iha]
    simp [hmem]
    constructor
    · rintro (h1 | ⟨h2, _⟩)
      · exact Or.inl h1
      · exact Or.inr h2
    · rintro (h1 | h2)
      · exact Or.inl h1
      · by_cases hc : m ∈ cur
        · exact Or.inl hc
        · exact Or.inr ⟨h2, hc⟩

/-- after ZADD a member has exactly one entry, carrying the new score (ZADD z 1 m; ZADD z 2 m kept two before
the repair) -/
theorem zInsert_count (x : Int × Bytes) (l : List (Int × Bytes)) :
    ((zInsert x l).filter fun q => q.2 == x.2).length = (l.filter fun q => q.2 == x.2).length + 1 := by
  induction l with
  | nil => simp [zInsert]
  | cons y ys ih =>
    simp only [zInsert]
    split
    · simp [List.filter]
    · simp only [List.filter]
      split <;> simp [ih]

theorem C18_one_entry_per_member (h : Int) (m : Bytes) (cur : List (Int × Bytes)) :
    ((zInsert (h, m) (cur.filter fun q => q.2 != m)).filter fun q => q.2 == m).length = 1 := by
  have hc := zInsert_count (h, m) (cur.filter fun q => q.2 != m)
  simp only at hc
  rw [hc]
  have : (List.filter (fun q : Int × Bytes => q.2 == m) (List.filter (fun q => q.2 != m) cur)) = [] := by
    rw [List.filter_filter]
    apply List.filter_eq_nil_iff.mpr
    intro a _
    simp
  rw [this]
  rfl

/-- a member inserted into a list ordered by (score, member) goes in front of the first greater element -/
theorem zInsert_mem (x : Int × Bytes) (l : List (Int × Bytes)) (y : Int × Bytes) :
    y ∈ zInsert x l ↔ y = x ∨ y ∈ l := by
  induction l with
  | nil => simp [zInsert]
  | cons z zs ih =>
    simp only [zInsert]
    split
    · simp
    · simp [ih]; constructor
      · rintro (h | h | h)
        · exact Or.inr (Or.inl h)
        · exact Or.inl h
        · exact Or.inr (Or.inr h)
      · rintro (h | h | h)
        · exact Or.inr (Or.inl h)
        · exact Or.inl h
        · exact Or.inr (Or.inr h)

/-! ## Non-vacuity: a program, evaluated on the reference store -/
def noScores : ScoreTable := fun _ => none

example : enc (refHandle noScores (.lrange b!"l" 0 (-1))
    (refHandle noScores (.lpush b!"l" [b!"x", b!"y"] false) (refHandle noScores (.rpush b!"l" [b!"a", b!"b"] false) []).2).2).1.msg
    = enc (bulks' [b!"y", b!"x", b!"a", b!"b"]) := by decide +kernel

end GoRedis
