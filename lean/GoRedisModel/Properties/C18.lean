import GoRedisModel.Proofs.Translated
import GoRedisModel.Proofs.Spec
import GoRedisModel.Proofs.ExStore
import GoRedisModel.Generated.Facts
/-! # C18 — the bundled example store returns what was stored

The example store is tied, reply for reply, to the reference store `refHandle` (Model/RefStore) by the
correspondence check (the real example server through the hook vs the model, on exhaustively enumerated short
programs per data type and on random long ones).  The theorems below are the clauses of the property, proved
of the reference store for every state and all arguments. -/
namespace GoRedis

variable (sc : ScoreTable)

/-! ## Strings: values come back byte for byte -/

theorem C18_get_after_set (k v : Bytes) (s : Store) :
    (refHandle sc (.get k) (refHandle sc (.set k v {}) s).2).1.msg = newBulk v := by
  simp [refHandle, Store.get_put_same, okRes]

theorem C18_set_leaves_other_keys (k k2 v : Bytes) (s : Store) (h : k2 ≠ k) :
    (refHandle sc (.set k v {}) s).2.get k2 = s.get k2 := by
  simp [refHandle, Store.get_put_other _ _ _ _ h]

/-! ## Keys: DEL / EXISTS / RENAME / TYPE reflect exactly the keys that were written -/

theorem C18_exists_after_set (k v : Bytes) (s : Store) :
    (refHandle sc (.exists_ [k]) (refHandle sc (.set k v {}) s).2).1.msg = newInteger 1 := by
  simp [refHandle, Store.get_put_same, intRes, okRes]

theorem C18_del_removes (k : Bytes) (s : Store) : (refHandle sc (.del [k]) s).2.get k = none := by
  simp only [refHandle, List.foldl]
  cases h : s.get k with
  | none => simp [h]
  | some v => simp [h, Store.get_del_same]

theorem C18_del_counts_existing (k : Bytes) (s : Store) :
    (refHandle sc (.del [k]) s).1.msg = newInteger (if (s.get k).isSome then 1 else 0) := by
  simp only [refHandle, List.foldl]
  cases h : s.get k <;> simp [h, intRes, okRes]

/-- renaming a key onto itself keeps it (it was deleted before the repair) -/
theorem C18_rename_onto_itself (k : Bytes) (s : Store) (v : Val) (h : s.get k = some v) :
    refHandle sc (.rename k k false) s = (okRes okMsg, s) := by
  simp [refHandle, h]

theorem C18_rename_moves (k nk : Bytes) (s : Store) (v : Val) (h : s.get k = some v) (hne : k ≠ nk) :
    (refHandle sc (.rename k nk false) s).2.get nk = some v ∧ (refHandle sc (.rename k nk false) s).2.get k = none := by
  have hst : (refHandle sc (.rename k nk false) s).2 = (s.del k).put nk v := by
    simp [refHandle, h, hne]
  rw [hst]
  constructor
  · exact Store.get_put_same _ _ _
  · rw [Store.get_put_other _ _ _ _ hne]; exact Store.get_del_same _ _

theorem C18_renamenx_existing_target (k nk : Bytes) (s : Store) (v w : Val) (h : s.get k = some v) (h2 : s.get nk = some w) :
    refHandle sc (.rename k nk true) s = (intRes 0, s) := by
  simp [refHandle, h, h2]

theorem C18_type (k : Bytes) (s : Store) :
    (refHandle sc (.type_ k) s).1.msg = newStatus ((s.get k).elim b!"none" typeName) := by
  simp [refHandle, okRes]

/-! ## Lists keep push / pop order -/

theorem C18_rpush_appends (k : Bytes) (l es : List Bytes) (s : Store) (h : s.get k = some (.list l)) :
    (refHandle sc (.rpush k es false) s).2.get k = some (.list (l ++ es)) := by
  simp [refHandle, h, Store.get_put_same]

theorem C18_lpush_prepends_in_argument_order (k : Bytes) (l es : List Bytes) (s : Store) (h : s.get k = some (.list l)) :
    (refHandle sc (.lpush k es false) s).2.get k = some (.list (es.reverse ++ l)) := by
  simp [refHandle, h, Store.get_put_same]

theorem C18_lrange_all (k : Bytes) (l : List Bytes) (s : Store) (h : s.get k = some (.list l)) (hl : l ≠ []) :
    (refHandle sc (.lrange k 0 (-1)) s).1.msg = bulks' l := by
  have hlen : 0 < l.length := by cases l with | nil => exact absurd rfl hl | cons _ _ => simp
  have hb : rangeBounds l.length 0 (-1) = some (0, l.length - 1) := by
    unfold rangeBounds normIdx
    simp only
    have : ¬ (max (0 : Int) (if (0 : Int) < 0 then (l.length : Int) + 0 else 0) >
        min ((l.length : Int) - 1) (if (-1 : Int) < 0 then (l.length : Int) + -1 else -1)) := by
      simp; omega
    simp only [this, if_false]
    congr 2 <;> simp <;> omega
  simp only [refHandle, h, rangeSlice, hb, okRes]
  have : l.length - 1 + 1 - 0 = l.length := by omega
  simp [this]

theorem C18_lpop_takes_the_head (k e : Bytes) (l : List Bytes) (s : Store) (h : s.get k = some (.list (e :: l))) :
    (refHandle sc (.lpop k 1) s).1.msg = newBulk e := by
  simp [refHandle, h, okRes]

theorem C18_rpop_takes_the_tail (k e : Bytes) (l : List Bytes) (s : Store) (h : s.get k = some (.list (l ++ [e]))) :
    (refHandle sc (.rpop k 1) s).1.msg = newBulk e := by
  simp [refHandle, h, okRes]

/-- reading a missing list does not create it (it did before the repair) -/
theorem C18_llen_does_not_create (k : Bytes) (s : Store) (h : s.get k = none) :
    refHandle sc (.llen k) s = (intRes 0, s) ∧ refHandle sc (.lrange k 0 (-1)) s = (okRes (.arr []), s) := by
  simp [refHandle, h]

/-- an emptied container is removed -/
theorem C18_emptied_list_is_removed (k e : Bytes) (s : Store) (h : s.get k = some (.list [e])) :
    (refHandle sc (.lpop k 1) s).2.get k = none := by
  simp [refHandle, h, Store.putOrDrop, Store.get_del_same]

/-! ## Sets hold no duplicates; sorted sets one entry per member, ordered by score -/

theorem dedup_nodup (l : List Bytes) : (dedup l).Nodup := by
  induction l with
  | nil => simp [dedup]
  | cons x xs ih =>
    simp only [dedup]
    split
    · exact ih
    · rename_i hx
      refine List.nodup_cons.mpr ⟨?_, ih⟩
      intro hmem
      have hsub : ∀ (l : List Bytes) y, y ∈ dedup l → y ∈ l := by
        intro l
        induction l with
        | nil => simp [dedup]
        | cons a as iha =>
          intro y hy
          simp only [dedup] at hy
          split at hy
          · exact List.mem_cons_of_mem _ (iha y hy)
          · simp at hy
            rcases hy with rfl | hy
            · simp
            · exact List.mem_cons_of_mem _ (iha y hy)
      have := hsub xs x hmem
      simp at hx
      exact hx this

theorem C18_sadd_no_duplicates (k : Bytes) (cur ms : List Bytes) (s : Store) (h : s.get k = some (.set cur))
    (hcur : cur.Nodup) :
    ∃ ms', (refHandle sc (.sadd k ms) s).2.get k = some (.set ms') ∧ ms'.Nodup ∧ (∀ m, m ∈ ms' ↔ m ∈ cur ∨ m ∈ ms) := by
  refine ⟨cur ++ ((dedup ms.reverse).reverse.filter fun m => !cur.contains m), ?_, ?_, ?_⟩
  · simp [refHandle, h, Store.get_put_same]
  · refine List.nodup_append.mpr ⟨hcur, ?_, ?_⟩
    · have hr : ((dedup ms.reverse).reverse).Nodup :=
        List.pairwise_reverse.mpr ((dedup_nodup ms.reverse).imp fun h => Ne.symm h)
      exact hr.filter _
    · intro a ha b hb hab
      subst hab
      simp at hb
      exact hb.2 ha
  · intro m
    have hmem : ∀ (l : List Bytes) y, y ∈ dedup l ↔ y ∈ l := by
      intro l
      induction l with
      | nil => simp [dedup]
      | cons a as iha =>
        intro y
        simp only [dedup]
        split
        · rename_i hc
          simp at hc
          constructor
          · intro hy; exact List.mem_cons_of_mem _ ((iha y).mp hy)
          · intro hy
            simp at hy
            rcases hy with rfl | hy
            · exact (iha _).mpr hc
            · exact (iha y).mpr hy
        · simp [iha]
    simp [hmem]
    constructor
    · rintro (h1 | ⟨h2, _⟩)
      · exact Or.inl h1
      · exact Or.inr h2
    · rintro (h1 | h2)
      · exact Or.inl h1
      · by_cases hc : m ∈ cur
        · exact Or.inl hc
        · exact Or.inr ⟨h2, hc⟩

/-- after ZADD a member has exactly one entry, carrying the new score (ZADD z 1 m; ZADD z 2 m kept two before
the repair) -/
theorem zInsert_count (x : Int × Bytes) (l : List (Int × Bytes)) :
    ((zInsert x l).filter fun q => q.2 == x.2).length = (l.filter fun q => q.2 == x.2).length + 1 := by
  induction l with
  | nil => simp [zInsert]
  | cons y ys ih =>
    simp only [zInsert]
    split
    · simp [List.filter]
    · simp only [List.filter]
      split <;> simp [ih]

theorem C18_one_entry_per_member (h : Int) (m : Bytes) (cur : List (Int × Bytes)) :
    ((zInsert (h, m) (cur.filter fun q => q.2 != m)).filter fun q => q.2 == m).length = 1 := by
  have hc := zInsert_count (h, m) (cur.filter fun q => q.2 != m)
  simp only at hc
  rw [hc]
  have : (List.filter (fun q : Int × Bytes => q.2 == m) (List.filter (fun q => q.2 != m) cur)) = [] := by
    rw [List.filter_filter]
    apply List.filter_eq_nil_iff.mpr
    intro a _
    simp
  rw [this]
  rfl

/-- a member inserted into a list ordered by (score, member) goes in front of the first greater element -/
theorem zInsert_mem (x : Int × Bytes) (l : List (Int × Bytes)) (y : Int × Bytes) :
    y ∈ zInsert x l ↔ y = x ∨ y ∈ l := by
  induction l with
  | nil => simp [zInsert]
  | cons z zs ih =>
    simp only [zInsert]
    split
    · simp
    · simp [ih]; constructor
      · rintro (h | h | h)
        · exact Or.inr (Or.inl h)
        · exact Or.inl h
        · exact Or.inr (Or.inr h)
      · rintro (h | h | h)
        · exact Or.inr (Or.inl h)
        · exact Or.inl h
        · exact Or.inr (Or.inr h)

/-! ## The example store's own algorithms refine the reference store

`Model/ExStore` transcribes the loops of `examples/go-redisd/server/{list,set,zset}.go` (scan for the member, splice it
out, search the insertion position, pop element by element, clamp the index range).  The theorems below say that, on
containers that satisfy the store's invariant (no duplicates / one entry per member), every one of them computes
exactly what the reference store defines - for every container, every argument list and every index, count, offset and
limit - and keeps the invariant.  Together with the correspondence check (example server = reference store, reply for
reply) this ties the property's "equals a reference Redis model" to the algorithms as they are written. -/

/-- LRANGE / the window of ZRANGE: `clampRange` + slice expression = Redis index normalisation -/
theorem C18_ex_range (l : List Bytes) (start stop : Int) : Ex.range l start stop = rangeSlice l start stop :=
  Ex.range_eq l start stop

theorem C18_ex_lindex (l : List Bytes) (i : Int) : Ex.index l i = (rangeSlice l i i).head? := Ex.index_eq l i

/-- LPOP / RPOP with any count: the pop loops take what `refHandle` takes and leave what it leaves -/
theorem C18_ex_lpop (l : List Bytes) (n : Nat) : Ex.lpopLoop n l [] = (l.take n, l.drop n) := Ex.lpopLoop_eq n l
theorem C18_ex_rpop (l : List Bytes) (n : Nat) : Ex.rpopLoop n l [] = (l.reverse.take n, l.take (l.length - n)) :=
  Ex.rpopLoop_eq n l
theorem C18_ex_lpush (l es : List Bytes) : Ex.lpush l es = es.reverse ++ l := Ex.lpush_eq l es

/-- LIMIT offset count (any 64-bit values, negative ones included) -/
theorem C18_ex_limit (l : List (Int × Bytes)) (offset count : Int) : Ex.limit l offset count = limitSlice l offset count :=
  Ex.limit_eq l offset count

/-- ZRANGEBYSCORE: the selection loop with its four exclusive/inclusive comparisons and LIMIT is `refHandle`'s -/
theorem C18_ex_zrangebyscore (k : Bytes) (lo hi : UInt64) (o : ZRangeOpt) (s : Store) (cur : List (Int × Bytes)) (l h : Bound)
    (hk : s.get k = some (.zset cur)) (hl : sc lo = some l) (hh : sc hi = some h) :
    (refHandle sc (.zrangebyscore k lo hi o) s).1 =
      okRes (zMembers o.withscores (Ex.zRangeByScore cur l h o.minex o.maxex o.offset o.count)) := by
  simp [refHandle, hk, hl, hh, Ex.zRangeByScore_eq]

/-- ZRANGE by index, REV included (no LIMIT clause) -/
theorem C18_ex_zrange (cur : List (Int × Bytes)) (start stop : Int) (rev : Bool) :
    Ex.zRange cur start stop rev 0 (-1) = rangeSlice (if rev then cur.reverse else cur) start stop :=
  Ex.zRange_eq cur start stop rev

/-- **ZADD**: for every list of (score, member) pairs the loops of `ZSet.Add` leave the entries `refHandle` defines and
count the same new members -/
theorem C18_ex_zadd (k : Bytes) (ms : List (UInt64 × Bytes)) (o : ZAddOpt) (s : Store) (cur : List (Int × Bytes))
    (hk : s.get k = some (.zset cur)) (hd : (cur.map Prod.snd).Nodup) :
    refHandle sc (.zadd k ms o) s =
      (intRes ((Ex.zAdd cur (decodeScores sc ms)).2 : Int), s.putOrDrop k (.zset (Ex.zAdd cur (decodeScores sc ms)).1)) := by
  have h := Ex.zAdd_eq cur (decodeScores sc ms) hd
  simp only [refHandle, hk, Ex.zaddStep_fold]
  rw [h.1, h.2]

/-- … and keep "one entry per member" -/
theorem C18_ex_zadd_invariant (cur xs : List (Int × Bytes)) (hd : (cur.map Prod.snd).Nodup) :
    ((Ex.zAdd cur xs).1.map Prod.snd).Nodup := by
  rw [(Ex.zAdd_eq cur xs hd).1]
  exact Ex.refZAdd_distinct xs (0, cur) hd

/-- **ZREM** -/
theorem C18_ex_zrem (k : Bytes) (ms : List Bytes) (s : Store) (cur : List (Int × Bytes))
    (hk : s.get k = some (.zset cur)) (hd : (cur.map Prod.snd).Nodup) :
    refHandle sc (.zrem k ms) s = (intRes ((Ex.zRem cur ms).2 : Int), s.putOrDrop k (.zset (Ex.zRem cur ms).1)) := by
  have hany : ∀ m, (cur.any fun q => q.2 == m) = (cur.map Prod.snd).contains m := by
    intro m
    rw [Bool.eq_iff_iff]
    simp only [List.any_eq_true, List.contains_iff_mem, List.mem_map, beq_iff_eq]
  simp only [refHandle, hk, Ex.zRem_eq cur ms hd, hany]
  rw [Ex.gone_filter Prod.snd cur ms, Ex.gone_length Prod.snd cur ms hd]

/-- **SREM** -/
theorem C18_ex_srem (k : Bytes) (ms : List Bytes) (s : Store) (cur : List Bytes)
    (hk : s.get k = some (.set cur)) (hd : cur.Nodup) :
    refHandle sc (.srem k ms) s = (intRes ((Ex.setRem cur ms).2 : Int), s.putOrDrop k (.set (Ex.setRem cur ms).1)) := by
  have h1 := Ex.gone_filter (fun x : Bytes => x) cur ms
  have h2 := Ex.gone_length (fun x : Bytes => x) cur ms (by simpa using hd)
  simp only [List.map_id'] at h1 h2
  simp only [refHandle, hk, Ex.setRem_eq cur ms hd]
  rw [h1, h2]

/-- **SADD** keeps a set free of duplicates and holds exactly the old and the new members -/
theorem C18_ex_sadd (cur ms : List Bytes) (hd : cur.Nodup) :
    (Ex.setAdd cur ms).1.Nodup ∧ (Ex.setAdd cur ms).2 = (Ex.setAdd cur ms).1.length - cur.length := by
  rw [Ex.setAdd_eq]
  exact ⟨Ex.freshMembers_nodup cur ms hd, by simp⟩

/-- **ZINCRBY** -/
theorem C18_ex_zincrby (cur : List (Int × Bytes)) (d : Int) (m : Bytes) (hd : (cur.map Prod.snd).Nodup) :
    Ex.zIncBy cur d m =
      (zInsert ((cur.find? fun q => q.2 == m).elim 0 Prod.fst + d, m) (cur.filter fun q => q.2 != m),
       (cur.find? fun q => q.2 == m).elim 0 Prod.fst + d) := Ex.zIncBy_eq cur d m hd

/-- HSET / HSETNX on an existing hash: `Hash.Set` – look the field up, refuse under NX, assign, report whether the field is
new – is `refHandle`'s case analysis (the map as its entries) -/
theorem C18_ex_hset (h : List (Bytes × Bytes)) (f v : Bytes) (nx : Bool) :
    Ex.hashSet h f v nx = (match h.lookup f with
      | some _ => if nx then (h, 0) else (h.map (fun p => if p.1 == f then (f, v) else p), 0)
      | none => (h ++ [(f, v)], 1)) := Ex.hashSet_eq h f v nx

/-- HDEL: the loop `if present { delete; removed++ }` over the fields removes exactly the fields that go and counts each
once, however often the request names it – `refHandle`'s `gone` -/
theorem C18_ex_hdel (h : List (Bytes × Bytes)) (fields : List Bytes) :
    Ex.hashDel h fields =
      (let gone := (dedup fields).filter fun f => (h.lookup f).isSome
       (h.filter fun p => !gone.contains p.1, gone.length)) := Ex.hashDel_eq h fields

example : Ex.hashDel [(b!"a", b!"1"), (b!"b", b!"2"), (b!"c", b!"3")] [b!"b", b!"x", b!"b", b!"a"] = ([(b!"c", b!"3")], 2) ∧
    Ex.hashSet [(b!"a", b!"1")] b!"a" b!"9" true = ([(b!"a", b!"1")], 0) ∧
    Ex.hashSet [(b!"a", b!"1")] b!"a" b!"9" false = ([(b!"a", b!"9")], 0) := by decide

/-- **The source is the one that was transcribed** (regenerated on every run): the container algorithms of
`examples/go-redisd/server/{list,set,zset}.go` have the fingerprints `Model/ExStore` was written from -/
theorem C18_source_is_the_modelled_one :
    Generated.exStoreFingerprints = Ex.modelled.map (fun e => (e.1, e.2.1)) := by decide

/-- non-vacuity: the loops on a concrete sorted set (a member moved to a tie, an unknown member removed) -/
example : Ex.zAdd [(2, b!"a"), (4, b!"b")] [(4, b!"a"), (1, b!"c"), (4, b!"a")] = ([(1, b!"c"), (4, b!"a"), (4, b!"b")], 1) ∧
    Ex.zRem [(2, b!"a"), (4, b!"b")] [b!"zz", b!"a", b!"a"] = ([(4, b!"b")], 1) ∧
    Ex.range [b!"a", b!"b", b!"c"] (-2) 9223372036854775807 = [b!"b", b!"c"] ∧
    Ex.rpopLoop 2 [b!"a", b!"b", b!"c"] [] = ([b!"c", b!"b"], [b!"a"]) := by decide

/-! ## Non-vacuity: a program, evaluated on the reference store -/
def noScores : ScoreTable := fun _ => none

example : enc (refHandle noScores (.lrange b!"l" 0 (-1))
    (refHandle noScores (.lpush b!"l" [b!"x", b!"y"] false) (refHandle noScores (.rpush b!"l" [b!"a", b!"b"] false) []).2).2).1.msg
    = enc (bulks' [b!"y", b!"x", b!"a", b!"b"]) := by decide +kernel

/-! ## The example store's index arithmetic as translated from the current source (regenerated on every run)

`clampRange`, `limitZSetMembers` and `List.Index` are translated from `examples/go-redisd/server/{list,zset}.go` by
`bin/extract` statement for statement (`Generated/Translated.lean`); the hand transcription in `Model/ExStore`, and with
it `C18_ex_range`, `C18_ex_limit`, `C18_ex_lindex`, is about that code. -/

theorem C18_source_clampRange (length start stop : Int) (hl : 0 ≤ length) (hL : inInt64 length = true)
    (hs : inInt64 start = true) (ht : inInt64 stop = true) :
    Translated.clampRange length start stop = (match Ex.clampRange length start stop with
      | none => (0, 0, false)
      | some (a, b) => (a, b, true)) := Translated.clampRange_eq length start stop hl hL hs ht

/-- LIMIT: the two slice expressions never panic and select `limitSlice`, for any offset and count -/
theorem C18_source_limit (l : List (Int × Bytes)) (offset count : Int) :
    Translated.limitZSetMembers l offset count = .ok (limitSlice l offset count) := by
  rw [Translated.limit_eq, Ex.limit_eq]

/-- LINDEX: the index expression never panics and reads the element Redis' normalisation names -/
theorem C18_source_lindex (l : List Bytes) (i : Int) (hl : (l.length : Int) ≤ 9223372036854775807) (hi : inInt64 i = true) :
    Translated.listIndex l i = .ok (match (rangeSlice l i i).head? with | none => ([], false) | some e => (e, true)) := by
  rw [Translated.listIndex_eq l i hl hi, Ex.index_eq]
  cases (rangeSlice l i i).head? <;> rfl

example : Translated.clampRange 3 0 (-4) = (0, 0, false) ∧ Translated.clampRange 3 (-100) (-3) = (0, 0, true) ∧
    Translated.limitZSetMembers [1, 2, 3] 1 9223372036854775807 = .ok [2, 3] ∧
    Translated.listIndex [b!"a", b!"b"] (-1) = .ok (b!"b", true) := by decide +kernel

end GoRedis
