import GoRedisModel.Proofs.NonInterference
/-! # C13 — connection-scoped state stays with its connection -/
namespace GoRedis

/-- the requests connection `i` itself has sent, in order -/
def own (i : Nat) (hist : List (Nat × Msg)) : List Msg :=
  hist.filterMap fun p => if p.1 = i then some p.2 else none

theorem own_append (i : Nat) (a b : List (Nat × Msg)) : own i (a ++ b) = own i a ++ own i b := by
  simp [own, List.filterMap_append]

/-- every connection's state is the fold of *its own* requests from its initial state -/
structure NIInv (srv0 : SrvSt) (c0 : Nat → ConnSt) (s : Sys) (hist : List (Nat × Msg)) : Prop where
  static : s.srv.sameAuth srv0
  state : ∀ i c, s.conns[i]? = some (some c) → c = (own i hist).foldl (connStep srv0) (c0 i)

theorem NIInv.step (pf : FloatOracle) (srv0 : SrvSt) (c0 : Nat → ConnSt) (s : Sys) (hist : List (Nat × Msg))
    (h : NIInv srv0 c0 s hist) (i : Nat) (m : Msg) : NIInv srv0 c0 (s.step pf i m).1 (hist ++ [(i, m)]) := by
  have hother : ∀ j c, i ≠ j → s.conns[j]? = some (some c) →
      c = (own j (hist ++ [(i, m)])).foldl (connStep srv0) (c0 j) := by
    intro j c hij hj
    have : own j [(i, m)] = [] := by simp [own, hij]
    rw [own_append, this, List.append_nil]
    exact h.state j c hj
  unfold Sys.step
  split
  · rename_i c hci
    simp only
    have hlt : i < s.conns.length := by
      rcases Nat.lt_or_ge i s.conns.length with hl | hl
      · exact hl
      · simp [List.getElem?_eq_none hl] at hci
    cases hn : (reqStep pf s.srv c m s.script).next with
    | none =>
      refine ⟨h.static, ?_⟩
      intro j cj hj
      simp only at hj
      by_cases hij : i = j
      · subst hij; simp [hlt] at hj
      · simp [hij] at hj; exact hother j cj hij hj
    | some p =>
      obtain ⟨c', srv'⟩ := p
      obtain ⟨hc', hs'⟩ := reqStep_connStep pf s.srv c m s.script c' srv' hn
      refine ⟨⟨hs'.1.trans h.static.1, hs'.2.1.trans h.static.2.1, hs'.2.2.trans h.static.2.2⟩, ?_⟩
      intro j cj hj
      simp only at hj
      by_cases hij : i = j
      · subst hij
        simp [hlt] at hj
        subst hj
        have : own i [(i, m)] = [m] := by simp [own]
        rw [own_append, this, List.foldl_append, ← h.state i c hci, hc']
        simp [connStep_static s.srv srv0 c m h.static]
      · simp [hij] at hj
        exact hother j cj hij hj
  · refine ⟨h.static, ?_⟩
    intro j cj hj
    by_cases hij : i = j
    · subst hij
      have hx := h.state i cj hj
      -- connection i is not alive: the step did nothing, but the request is recorded in the history; this
      -- case cannot arise for an alive connection, and `hj` says it is alive
      rename_i hne
      exact absurd hj (by intro hcontra; exact hne cj hcontra)
    · exact hother j cj hij hj

theorem run_call_view {α : Type} (view : ConnSt) (p : Prog α) (s : List HRes) (c : HCall) (v : ConnSt)
    (h : Ev.hcall c v ∈ (p.run view s).1) : v = view := by
  induction p generalizing s with
  | ret a => simp [Prog.run] at h
  | panic => simp [Prog.run] at h
  | emit op k ih =>
    simp only [Prog.run] at h
    simp at h
    rcases h with h | h
    · cases op <;> simp [Prog.SpanOp.ev] at h
    · exact ih _ h
  | call c' k ih =>
    simp only [Prog.run] at h
    simp at h
    rcases h with ⟨_, rfl⟩ | h
    · rfl
    · exact ih _ _ h

theorem reqStep_call_view (pf : FloatOracle) (srv : SrvSt) (conn : ConnSt) (m : Msg) (script : List HRes)
    (c : HCall) (v : ConnSt) (h : Ev.hcall c v ∈ (reqStep pf srv conn m script).evs) : v = conn := by
  unfold reqStep at h
  have hv := fun hh => run_call_view conn (handleMessage pf srv conn m) script c v hh
  generalize (handleMessage pf srv conn m).run conn script = rr at h hv
  obtain ⟨evs, res, script'⟩ := rr
  simp only at h hv
  cases res with
  | none => simp at h; exact hv h
  | some t =>
    obtain ⟨out, c2, s2⟩ := t
    simp only at h
    cases hrb : replyBytes out with
    | none => rw [hrb] at h; simp at h; exact hv h
    | some b => rw [hrb] at h; simp at h; exact hv h

theorem run_views (pf : FloatOracle) (srv0 : SrvSt) (c0 : Nat → ConnSt) (s : Sys) (hist : List (Nat × Msg))
    (h : NIInv srv0 c0 s hist) (sched : List (Nat × Msg)) (i : Nat) (c : HCall) (v : ConnSt)
    (he : (i, Ev.hcall c v) ∈ (Sys.run pf s sched).2) :
    ∃ pre m0 post, sched = pre ++ (i, m0) :: post ∧ v = (own i (hist ++ pre)).foldl (connStep srv0) (c0 i) := by
  induction sched generalizing s hist with
  | nil => simp [Sys.run] at he
  | cons jm rest ih =>
    obtain ⟨j, mj⟩ := jm
    simp only [Sys.run, List.mem_append, List.mem_map] at he
    rcases he with ⟨e', he', heq⟩ | he
    · simp at heq
      obtain ⟨rfl, rfl⟩ := heq
      obtain ⟨cj, hcj, hev⟩ := Sys.step_events pf s j mj _ he'
      have hv := reqStep_call_view pf s.srv cj mj s.script c v hev
      refine ⟨[], mj, rest, rfl, ?_⟩
      rw [hv, List.append_nil]
      exact h.state j cj hcj
    · obtain ⟨pre, m0, post, hs, hv⟩ := ih _ _ (NIInv.step pf srv0 c0 s hist h j mj) he
      exact ⟨(j, mj) :: pre, m0, post, by simp [hs], by simpa [List.append_assoc] using hv⟩

/-- **Non-interference, for every interleaving.**  Several connections, any requests, processed in any
global order: the connection state (selected database, authorization, user name) that a handler call on
connection `i` observes is the result of folding `connStep` over the requests connection `i` *itself* sent
before — it does not depend on the schedule, on what the other connections sent, on the handler's answers
or on the configuration table. -/
theorem C13_noninterference (pf : FloatOracle) (s : Sys) (c0 : Nat → ConnSt)
    (hinit : ∀ i c, s.conns[i]? = some (some c) → c = c0 i)
    (sched : List (Nat × Msg)) (i : Nat) (c : HCall) (v : ConnSt)
    (he : (i, Ev.hcall c v) ∈ (Sys.run pf s sched).2) :
    ∃ pre m0 post, sched = pre ++ (i, m0) :: post ∧ v = (own i pre).foldl (connStep s.srv) (c0 i) := by
  have hinv : NIInv s.srv c0 s [] := ⟨⟨rfl, rfl, rfl⟩, by intro j cj hj; simpa [own] using hinit j cj hj⟩
  simpa using run_views pf s.srv c0 s [] hinv sched i c v he

/-- connection-scoped state starts at its defaults: database 0, authorized iff no password is required -/
theorem C13_defaults (pf : FloatOracle) (srv : SrvSt) (requirePass : Bool) (input : Bytes) (script : List HRes) :
    serve pf srv requirePass input script =
      [Ev.register] ++ serveLoop pf (input.length + 1) srv { authorized := !requirePass, db := 0 } input script ++
        [.deregister, .close] := rfl

/-- a command that is not one of the framework's own six leaves the connection state alone -/
theorem C13_user_commands_keep_state (srv : SrvSt) (conn : ConnSt) (cmd : Bytes) (args : List Msg)
    (h : upper cmd ∉ systemNames) : connAfterCmd srv conn cmd args = conn := by
  simp [systemNames] at h
  simp [connAfterCmd, execSystem, h]

/-- the selected database changes only through the connection's own SELECT with an integer argument, on an
authorized connection -/
theorem C13_select (srv : SrvSt) (conn : ConnSt) (c tok : Bytes) (n : Int) (rest : List Msg)
    (hh : srv.hasHandler = true) (ha : conn.authorized = true) (hu : upper c = b!"SELECT") (ht : atoi tok = some n) :
    connAfterCmd srv conn c (B tok :: rest) = { conn with db := n } := by
  simp [connAfterCmd, hh, hu, execSystem, ha, nextIntegerRaw, B, msgInt, ht, Option.elim]

/-- a SELECT that fails (not an integer) or is refused (not authorized) leaves the database as it was -/
theorem C13_select_failed (srv : SrvSt) (conn : ConnSt) (c tok : Bytes) (rest : List Msg)
    (hu : upper c = b!"SELECT") (ht : atoi tok = none ∨ conn.authorized = false) :
    (connAfterCmd srv conn c (B tok :: rest)).db = conn.db := by
  rcases ht with ht | ht
  · by_cases hh : srv.hasHandler = true
    · simp [connAfterCmd, hh, hu, execSystem, nextIntegerRaw, B, msgInt, ht, Option.elim]
    · simp [connAfterCmd, hh]
  · by_cases hh : srv.hasHandler = true
    · simp [connAfterCmd, hh, hu, execSystem, ht]
    · simp [connAfterCmd, hh]

/-! ## Non-vacuity: two connections, interleaved -/
def twoConns : Sys := { srv := {}, conns := [some { authorized := true }, some { authorized := true }], script := [] }
def sel (n : Bytes) : Msg := .arr [B b!"SELECT", B n]
def getK : Msg := .arr [B b!"GET", B b!"k"]

/-- connection 0 selects database 3, connection 1 database 5, interleaved with GETs: each GET sees its own
connection's database -/
example : ((Sys.run (fun _ => none) twoConns [(0, sel b!"3"), (1, sel b!"5"), (0, getK), (1, getK), (0, getK)]).2.filterMap
    fun p => match p.2 with | .hcall _ v => some (p.1, v.db) | _ => none) = [(0, 3), (1, 5), (0, 3)] := by decide +kernel

end GoRedis
