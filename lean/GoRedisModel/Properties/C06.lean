import GoRedisModel.Proofs.Translated
import GoRedisModel.Proofs.Total
/-! # C06 — the parser is total on hostile input -/
namespace GoRedis

/-- The three outcomes the property allows. -/
inductive Clean : IRes → Prop
  | value (v : Msg) (r : Reader) : noAbsent v = true → Clean (.ok v r)
  | eof : Clean .eof
  | err : Clean .err

/-- For *every* byte sequence, delivered in *any* segmentation, reading the next value ends with a value
that contains no absent element, a clean end of stream, or an error: never a run-time panic, never
non-termination (no `fuel` outcome; every loop of the model is structurally terminating). -/
theorem C06_total (r : Reader) : Clean (inext (r.rest.length + 1) r) := by
  have h := inext_spec (r.rest.length + 1) r (by omega)
  have hnf := parse_no_fuel (r.rest.length + 1) r.rest (by omega)
  cases hx : inext (r.rest.length + 1) r with
  | ok m r' =>
    rw [hx] at h; simp [IRes.flat] at h
    exact .value m r' (parse_noAbsent _ _ _ _ h.symm)
  | eof => exact .eof
  | err => exact .err
  | panic => rw [hx] at h; simp [IRes.flat] at h
  | fuel => rw [hx] at h; simp [IRes.flat] at h; exact absurd h.symm hnf

/-- Same statement for the flat reference parser. -/
theorem C06_no_absent (f : Nat) (bs : Bytes) (m : Msg) (rest : Bytes)
    (h : parse f bs = .ok m rest) : noAbsent m = true := parse_noAbsent f bs m rest h

/-- A value always consumes at least one byte, so a stream of n bytes yields at most n values: the
connection loop's "next value" iteration terminates. -/
theorem C06_progress (f : Nat) (bs : Bytes) (m : Msg) (rest : Bytes)
    (h : parse f bs = .ok m rest) : rest.length < bs.length := parse_rest_lt f bs m rest h

/-- A declared bulk length above the limit is an error before anything is allocated or read. -/
theorem C06_bulk_limit (f : Nat) (ds rest : Bytes) (n : Int) (h1 : atoi (takeLine (ds ++ rest)).1 = some n)
    (h2 : n.toNat > maxBulk) (h3 : ¬ n < 0) : parse (f + 1) (bulkByte :: (ds ++ rest)) = .err := by
  simp [parse, bulkByte, arrayByte, h1, h2, h3]

/-- An array element that hits the end of the stream is an error, not an absent element. -/
theorem C06_truncated_array_is_error (f : Nat) : parse (f + 2) b!"*2\r\n$1\r\na\r\n" = .err := by
  simp [parse, parseElems, takeLine, atoi, digitsVal, arrayByte, bulkByte, CR, LF, CRLF, maxInt, maxBulk]

/-! ## Non-vacuity / witnesses of the formerly crashing inputs -/
example : parse 30 b!"$9223372036854775807\r\n" = .err := by
  simp [parse, takeLine, atoi, digitsVal, arrayByte, bulkByte, CR, maxInt, maxBulk]
example : parse 30 b!"*99999999999999\r\n" = .err := by
  simp [parse, parseElems, takeLine, atoi, digitsVal, arrayByte, bulkByte, CR, maxInt]

/-- **The length test as translated from the current source** (regenerated on every run, §3a of DESIGN.md): in
`(*Parser).nextLengthBytes` the declared length is compared with the 512 MiB limit *before* anything is computed from it,
`num + 2` cannot wrap for a length that passed, and the number of bytes then read is the model's `need`; `MaxBulkLength`
is read from the source's constant declaration -/
theorem C06_source_bulk_length (num : Int) (h : inInt64 num = true) (h0 : 0 ≤ num) :
    Translated.bulkReadLength num =
      if num.toNat > maxBulk then .err "errorTooLongBulkString" else .ok ((num.toNat + 2 : Nat) : Int) :=
  Translated.bulkReadLength_eq num h h0

example : Translated.bulkReadLength 9223372036854775807 = .err "errorTooLongBulkString" ∧
    Translated.bulkReadLength 9223372036854775806 = .err "errorTooLongBulkString" ∧
    Translated.bulkReadLength 536870912 = .ok 536870914 ∧ Translated.bulkReadLength 536870913 = .err "errorTooLongBulkString" := by
  decide +kernel

end GoRedis
