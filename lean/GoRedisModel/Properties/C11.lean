import GoRedisModel.Proofs.SourceFacts
import GoRedisModel.Proofs.Truncate
import GoRedisModel.Proofs.Loop
import GoRedisModel.Properties.C02
/-! # C11 — a request is executed only if it was received completely -/
namespace GoRedis

/-- a client request: a non-empty array of non-null bulk strings -/
def request (args : List Bytes) : Msg := .arr (bulks args)

def ValidRequest (args : List Bytes) : Prop :=
  args ≠ [] ∧ (∀ b ∈ args, b.length ≤ maxBulk) ∧ args.length ≤ maxInt

/-- **Every strict prefix of a request is a parse error** — for every request and every byte offset
`0 < p < |enc r|` — so the loop drops the connection without executing anything for it. -/
theorem C11_prefix_is_error (args : List Bytes) (hv : ValidRequest args) (p : Nat) (hp0 : 0 < p)
    (hp : p < (enc (request args)).length) (f : Nat) :
    parse (f + 2) ((enc (request args)).take p) = .err :=
  parse_request_truncated f args hv.1 hv.2.1 hv.2.2 p hp0 hp

/-- …and the same over the real transport, however the surviving bytes were segmented. -/
theorem C11_prefix_is_error_chunked (args : List Bytes) (hv : ValidRequest args) (p : Nat) (hp0 : 0 < p)
    (hp : p < (enc (request args)).length) (r : Reader) (hr : r.rest = (enc (request args)).take p) :
    inext (r.rest.length + 2) r = .err := by
  have h := C02_next_chunked (r.rest.length + 2) r (by omega)
  rw [hr] at h
  rw [C11_prefix_is_error args hv p hp0 hp] at h
  rw [hr]
  cases hx : inext (((enc (request args)).take p).length + 2) r with
  | err => rfl
  | ok m r' => rw [hx] at h; simp [IRes.flat] at h
  | eof => rw [hx] at h; simp [IRes.flat] at h
  | panic => rw [hx] at h; simp [IRes.flat] at h
  | fuel => rw [hx] at h; simp [IRes.flat] at h

/-- **Handler calls come from complete requests only.**  A stream that consists of complete values `ms`
followed by a strict prefix of one more request produces exactly the trace of `ms` alone — the same handler
calls with the same arguments, the same replies, once each — and then ends: nothing is executed for the
partial request, with any cut point. -/
theorem C11_partial_request_not_executed (pf : FloatOracle) (ms : List Msg) (hw : wfs ms)
    (args : List Bytes) (hv : ValidRequest args) (p : Nat) (hp : p < (enc (request args)).length)
    (srv : SrvSt) (requirePass : Bool) (script : List HRes) :
    serve pf srv requirePass (encs ms ++ (enc (request args)).take p) script =
      serve pf srv requirePass (encs ms) script := by
  have hlen := encs_length_ge ms (wfs_noAbsents ms hw)
  have hnot : ∀ m r, parse (((enc (request args)).take p).length + 1) ((enc (request args)).take p) ≠ .ok m r := by
    intro m r
    by_cases hp0 : p = 0
    · subst hp0; simp [parse]
    · have hl : ((enc (request args)).take p).length = p := by simp [List.length_take]; omega
      obtain ⟨f, hf⟩ : ∃ f, p + 1 = f + 2 := ⟨p - 1, by omega⟩
      rw [hl, hf, C11_prefix_is_error args hv p (by omega) hp f]
      simp
  simp only [serve]
  rw [serveLoop_steps_tail pf ms hw _ hnot _ (by simp; omega)]
  rw [serveLoop_steps pf ms hw _ (by omega)]

/-- **The connection is then released**: the trace ends with the registry removal and the close. -/
theorem C11_released (pf : FloatOracle) (srv : SrvSt) (requirePass : Bool) (input : Bytes) (script : List HRes) :
    ∃ body, serve pf srv requirePass input script = body ++ [.deregister, .close] := ⟨_, rfl⟩

/-! ## Non-vacuity -/
example : ValidRequest [b!"LPOP", b!"l"] := by
  refine ⟨by simp, ?_, by simp [maxInt]⟩
  intro b hb; simp at hb; rcases hb with rfl | rfl <;> simp [maxBulk]

/-- `*2 $4 LPOP $1 l` cut before the final CRLF (this executed the LPOP before the repair) -/
example : parse 30 b!"*2\r\n$4\r\nLPOP\r\n$1\r\nl" = .err :=
  C11_prefix_is_error [b!"LPOP", b!"l"] (by
    refine ⟨by simp, ?_, by simp [maxInt]⟩
    intro b hb; simp at hb; rcases hb with rfl | rfl <;> simp [maxBulk]) 19 (by decide) (by decide) 28

/-- **The source is the one the model was written from** (regenerated on every run): the connection loop (`serveConn`, `receive`, `dispatch`, `handleMessage`, `responseMessage`, `executeCommand`, `upperASCII`) of the current source
have the fingerprints recorded in the model; a change to any of them means the theorems above are not shown for the code
as it is now, until the model has been compared with it again -/
theorem C11_source_conn_loop_is_the_modelled_one :
    connLoopModelled.all (fun e => Generated.serverFingerprints.contains (e.1, e.2.1)) = true := source_conn_loop_is_the_modelled_one

end GoRedis
