import GoRedisModel.Model.Show
/-! placeholder until the theorems of C11 are written -/
namespace GoRedis
theorem C11_placeholder : True := trivial
end GoRedis
