import GoRedisModel.Model.Discipline
import GoRedisModel.Proofs.Lockset
/-! # C14 — no data races in server state shared between connections

Three layers.

1. `Proofs/Lockset`: in every trace of lock / unlock / access events that the mutexes admit, if every goroutine
   touches a variable only inside a lock bracket of the variable's guard (shared for reads, exclusive for writes),
   then two conflicting accesses by different goroutines are separated by `Unlock by the first … Lock by the second` –
   the synchronises-before edge of the Go memory model.  Proved for all traces, any number of goroutines.
2. The access table regenerated from /repo's source on every run (`Generated/Facts.lean`) satisfies that
   discipline at every site (`C14_table_discipline`, decided by the kernel on the table), covers the three shared
   fields the property names, and the listener fields are touched by the application thread only
   (`C14_lifecycle_facts`: the accept loops close *their own* listener and never read the server's fields).
3. The correspondence check runs concurrent workloads against the real server under the Go race detector and
   compares the reports with the model's prediction (`racePrediction = "race-free"`). -/
namespace GoRedis
open Generated Lockset

/-- every access site of a shared field in the current source holds the field's guard in a sufficient mode -/
theorem C14_table_discipline : tableOK accessTable = true := by decide

/-- … and the table is not empty for any of the shared fields (each has at least one writing site) -/
theorem C14_table_covers_shared_state : sharedCovered accessTable = true := by decide

/-- the listener fields are not shared after the lifecycle repair: loops close their own listener, the handshake
runs in the connection goroutine, Stop orders its phases -/
theorem C14_lifecycle_facts : lifecycleFactsOK = true := by decide

/-- the model's verdict for the current source -/
theorem C14_prediction : racePrediction = "race-free" := by
  unfold racePrediction
  rw [C14_table_discipline, C14_table_covers_shared_state, C14_lifecycle_facts]
  rfl

/-- a site with the required mode, seen as a trace block, follows the discipline: `Lock; access; Unlock` -/
def siteBlock (t : Tid) (a : Access) : List Ev :=
  [Ev.acq t (guardOf a.field) (a.held == "W"), Ev.acc t a.field a.write, Ev.rel t (guardOf a.field) (a.held == "W")]

theorem C14_site_block_follows (t : Tid) (a : Access) (h : siteOK a = true) (c : Cur) (hc : c t (guardOf a.field) = none) :
    Follows guardOf c (siteBlock t a) := by
  unfold siteOK at h
  simp only [siteBlock, Follows, hc, true_and, and_true]
  refine ⟨⟨a.held == "W", by simp [Cur.set], ?_⟩, by simp [Cur.set]⟩
  cases hw : a.write
  · exact Or.inr rfl
  · simp [hw] at h; exact Or.inl (by simp [h])

/-- **C14** – in any execution in which goroutines touch the shared fields only through bracketed sites (what
`C14_table_discipline` establishes for the current source), conflicting accesses are ordered by the guard's
release/acquire: there is no data race on the configuration map, the connection registry or the closed flag. -/
theorem C14_race_free (tr : List Ev) (hwf : ∀ l, wfL l [] tr) (hf : Follows guardOf (fun _ _ => none) tr)
    (pre mid post : List Ev) (t t' : Tid) (v : Var) (w w' : Bool)
    (htr : tr = pre ++ Ev.acc t v w :: (mid ++ Ev.acc t' v w' :: post))
    (hne : t ≠ t') (hconf : w = true ∨ w' = true) :
    ∃ a b c x x', mid = a ++ Ev.rel t (guardOf v) x :: (b ++ Ev.acq t' (guardOf v) x' :: c) :=
  follows_race_free guardOf tr hwf hf pre mid post t t' v w w' htr hne hconf

/-- without the guard the same two accesses are unordered – the pre-repair `Config.SetConfig` / `ConfigString`
pair (reported by the race detector before commit 5c6216e) violates the discipline -/
theorem C14_unguarded_site_rejected :
    tableOK [⟨"Config", "params", "Config.SetConfig", true, ""⟩, ⟨"Config", "params", "Config.ConfigString", false, ""⟩] = false := by
  decide

/-- non-vacuity: CONFIG SET on goroutine 1 and CONFIG GET on goroutine 2, as blocks of the generated table -/
example : Follows guardOf (fun _ _ => none)
    (siteBlock 1 ⟨"Config", "params", "Config.SetConfig", true, "W"⟩ ++ siteBlock 2 ⟨"Config", "params", "Config.ConfigString", false, "R"⟩) := by
  simp [siteBlock, Follows, Cur.set, guardOf]

end GoRedis
