import GoRedisModel.Proofs.LifeSys
import GoRedisModel.Model.Lifecycle
import GoRedisModel.Proofs.SourceFacts
/-! # C15 — Start/Stop/Restart leave the server in the state the call promises

`LS` (Model/LifeSys) is the lifecycle as a transition system whose actions are the four phases of Stop, Start,
and what the accept loops and connection goroutines do on their own; a *schedule* is any list of actions
(an action that is not enabled does nothing), so "for every schedule" is "for every interleaving". -/
namespace GoRedis

/-- the invariant holds in every state reachable by any schedule from a freshly created server -/
theorem C15_invariant (plain tls : Bool) (sched : List LAct) :
    LInv (({ plain := plain, tls := tls } : LS).run sched) :=
  LInv.run _ (LInv.init plain tls) sched

/-- **After Start/Restart returned and until Stop is called, the server accepts on every enabled port**, under
every scheduling of the previous accept loops' shutdown: the current generation's listener is open, its
accept loop is alive, and an accept succeeds. -/
theorem C15_serving (plain tls : Bool) (sched : List LAct) (g : Nat) (k : Bool)
    (hs : (({ plain := plain, tls := tls } : LS).run sched).phase = .idle)
    (hf : (({ plain := plain, tls := tls } : LS).run sched).field = some g)
    (hk : k ∈ (({ plain := plain, tls := tls } : LS).run sched).kinds) :
    let s := ({ plain := plain, tls := tls } : LS).run sched
    (g, k) ∈ s.openL ∧ (s.step (.accept g k)).conns.length = s.conns.length + 1 := by
  intro s
  have inv := C15_invariant plain tls sched
  obtain ⟨hopen, l, hl, h1, h2, h3⟩ := inv.serving hs g hf k hk
  refine ⟨hopen, ?_⟩
  have hc : s.openL.contains (g, k) = true := by simpa using hopen
  have ha : s.loops.any (fun l => l.gen == g && l.tls == k && !l.exited) = true := by
    apply List.any_eq_true.mpr
    exact ⟨l, hl, by simp [h1, h2, h3]⟩
  exact accept_enabled s g k hc ha

/-- **After Stop returned**: no listener of any generation is open (the ports can be bound again), no accept
loop remains, the registry is empty and no connection goroutine is left. -/
theorem C15_stop_clean (plain tls : Bool) (sched : List LAct)
    (hs : (({ plain := plain, tls := tls } : LS).run sched).phase = .idle)
    (hf : (({ plain := plain, tls := tls } : LS).run sched).field = none) :
    let s := ({ plain := plain, tls := tls } : LS).run sched
    s.openL = [] ∧ s.loops = [] ∧ s.conns = [] := by
  intro s
  have inv := C15_invariant plain tls sched
  exact ⟨inv.noListen hf, inv.noLoops (Or.inr (Or.inr ⟨hs, hf⟩)), inv.stopped hs hf⟩

/-- **While running, the registry contains exactly connections being served**: a registered connection has a
live goroutine and an open socket; a connection that left the registry has its socket closed. -/
theorem C15_registry_exact (plain tls : Bool) (sched : List LAct) (c : ConnG)
    (hc : c ∈ (({ plain := plain, tls := tls } : LS).run sched).conns) :
    (c.registered = true → c.alive = true ∧ c.sockOpen = true) ∧ (c.registered = false → c.sockOpen = false) :=
  ⟨(C15_invariant plain tls sched).registry c hc, (C15_invariant plain tls sched).unreg c hc⟩

/-- an accept loop that ends — of whatever generation, at whatever time — touches neither the listeners nor the
server's fields (before the repair it closed whatever the fields held at that moment) -/
theorem C15_exiting_loop_is_harmless (s : LS) (g : Nat) (k : Bool) :
    (s.step (.loopExit g k)).openL = s.openL ∧ (s.step (.loopExit g k)).field = s.field ∧
    (s.step (.loopExit g k)).conns = s.conns := by
  simp only [LS.step]
  split <;> exact ⟨rfl, rfl, rfl⟩

/-- Stop does not get past its second phase while an accept loop is still running -/
theorem C15_stop_waits_for_loops (s : LS) (h : s.loops.any (fun l => !l.exited) = true) :
    s.step .stopWaitLoops = s := by
  have : s.loops.all (fun l => l.exited) = false := by
    obtain ⟨l, hl, hx⟩ := List.any_eq_true.mp h
    apply Bool.eq_false_iff.mpr
    intro hall
    have := List.all_eq_true.mp hall l hl
    simp [this] at hx
  simp [LS.step, this]

/-- …nor return while a connection goroutine is alive -/
theorem C15_stop_waits_for_connections (s : LS) (h : s.conns.any (fun c => c.alive) = true) :
    s.step .stopWaitConns = s := by
  have : s.conns.all (fun c => !c.alive) = false := by
    obtain ⟨c, hc, hx⟩ := List.any_eq_true.mp h
    apply Bool.eq_false_iff.mpr
    intro hall
    have := List.all_eq_true.mp hall c hc
    simp [hx] at this
  simp [LS.step, this]

/-! ## The client-visible state machine (what the correspondence check compares action by action) -/

theorem C15_seq_stop (cfg : LifeCfg) (s : LifeSt) :
    (lifeStepA cfg s .stop).2.running = false ∧ (lifeStepA cfg s .stop).2.conns = [] := ⟨rfl, rfl⟩

theorem C15_seq_start_serves (cfg : LifeCfg) (s : LifeSt) (h : s.running = false) (hp : cfg.plain = true)
    (hsess : plainSession cfg = "ok") :
    (lifeStepA cfg (lifeStepA cfg s .start).2 (.ping false "good")).1 = "ok" := by
  simp [lifeStepA, h, LifeCfg.up, hp, hsess]

/-! ## Non-vacuity: a Restart whose old accept loop exits late -/
def restartLate : List LAct :=
  [.start, .accept 1 false, .stopCloseListeners, .stopWaitLoops /- not enabled yet -/, .loopExit 1 false,
   .stopWaitLoops, .stopCloseConns, .stopWaitConns /- not enabled: goroutine alive -/, .connEnd 0, .stopWaitConns,
   .start, .loopExit 1 false /- a stale exit of the old generation -/, .accept 2 false]

example : (({} : LS).run restartLate).openL = [(2, false)] ∧ (({} : LS).run restartLate).conns.length = 1 ∧
    (({} : LS).run restartLate).phase = .idle := by decide

/-- the control flow of Start/Stop/accept loops in the current source is the one the transition system models -/
theorem C15_source_lifecycle :
    lifecycleFactsOK = true := source_lifecycle_matches_transition_system

/-- **The source is the one the model was written from** (regenerated on every run): the lifecycle functions (`Start`, `Stop`, `Restart`, `open`, `close`, `serve`, `tlsServe`, `startConn`) of the current source
have the fingerprints recorded in the model; a change to any of them means the theorems above are not shown for the code
as it is now, until the model has been compared with it again -/
theorem C15_source_lifecycle_is_the_modelled_one :
    lifecycleModelled.all (fun e => Generated.serverFingerprints.contains (e.1, e.2.1)) = true := source_lifecycle_is_the_modelled_one

end GoRedis
