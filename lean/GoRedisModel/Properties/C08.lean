import GoRedisModel.Proofs.Interleave
import GoRedisModel.Proofs.SourceFacts
/-! # C08 — password gate: nothing but AUTH runs before the exact password was presented -/
namespace GoRedis

theorem run_gate (pf : FloatOracle) (pw : Bytes) (s : Sys) (hist : List (Nat × Msg)) (h : GateInv pw s hist)
    (sched : List (Nat × Msg)) (i : Nat) (e : Ev) (he : (i, e) ∈ (Sys.run pf s sched).2) (hc : e.isCall = true) :
    ∃ pre m0 post m, sched = pre ++ (i, m0) :: post ∧ (i, m) ∈ hist ++ pre ∧ ExactAuthReq pw m := by
  induction sched generalizing s hist with
  | nil => simp [Sys.run] at he
  | cons jm rest ih =>
    obtain ⟨j, mj⟩ := jm
    simp only [Sys.run, List.mem_append, List.mem_map] at he
    rcases he with ⟨e', he', heq⟩ | he
    · simp at heq
      obtain ⟨rfl, rfl⟩ := heq
      obtain ⟨c, hcj, hev⟩ := Sys.step_events pf s j mj e' he'
      have hauth := reqStep_calls_need_authorization pf s.srv c mj s.script e' hev hc
      obtain ⟨m, hm, hx⟩ := h.seen j c hcj hauth
      exact ⟨[], mj, rest, m, rfl, by simpa using hm, hx⟩
    · obtain ⟨pre, m0, post, m, hs, hm, hx⟩ := ih _ _ (GateInv.step pf pw s hist h j mj) he
      refine ⟨(j, mj) :: pre, m0, post, m, by simp [hs], ?_, hx⟩
      simpa [List.append_assoc] using hm

/-- **The gate, for every interleaving.**  Several connections (any number), each sending any requests
(any values at all), processed in any global order: whenever the application's handler is called for
connection `i`, connection `i` *itself* has earlier sent an AUTH whose decoded credentials are exactly
"no user name, the configured password".  Nothing another connection does can stand in for it. -/
theorem C08_gate (pf : FloatOracle) (pw : Bytes) (s : Sys) (hpw : s.srv.authPw = some pw)
    (hun : ∀ c, some c ∈ s.conns → c.authorized = false)
    (sched : List (Nat × Msg)) (i : Nat) (e : Ev) (he : (i, e) ∈ (Sys.run pf s sched).2) (hc : e.isCall = true) :
    ∃ pre m0 post m, sched = pre ++ (i, m0) :: post ∧ (i, m) ∈ pre ∧ ExactAuthReq pw m := by
  have hinv : GateInv pw s [] := ⟨hpw, by
    intro j c hj hc
    have := hun c (List.mem_of_getElem? hj)
    rw [this] at hc; exact absurd hc (by decide)⟩
  simpa using run_gate pf pw s [] hinv sched i e he hc

/-- **Authorization is per connection**: a step of connection `i` — its AUTH included — leaves the state of
every other connection exactly as it was. -/
theorem C08_per_connection (pf : FloatOracle) (s : Sys) (i j : Nat) (m : Msg) (hij : i ≠ j) :
    (s.step pf i m).1.conns[j]? = s.conns[j]? := Sys.step_frame pf s i j m hij

/-- how the two forms of AUTH are decoded -/
theorem authCreds_one (p : Bytes) : authCreds [B p] = .ok ([], p) := rfl
theorem authCreds_two (u p : Bytes) (rest : List Msg) : authCreds (B u :: B p :: rest) = .ok (u, p) := rfl
theorem authCreds_missing : ∃ e, authCreds [] = .error e := ⟨_, rfl⟩
theorem authCreds_null (rest : List Msg) : ∃ e, authCreds (.bulk none :: rest) = .error e := ⟨_, rfl⟩
theorem authCreds_null_password (u : Bytes) (rest : List Msg) : ∃ e, authCreds (B u :: .bulk none :: rest) = .error e := ⟨_, rfl⟩

/-- **Refusal**: an AUTH whose credentials are anything but exactly (no user, the password) — empty, a
prefix, an extension, a case variant, another user name, undecodable (missing or null) — is answered with
an error and leaves the connection's authorization as it was. -/
theorem C08_refusal (pf : FloatOracle) (srv : SrvSt) (conn : ConnSt) (cmd : Bytes) (args : List Msg) (pw : Bytes)
    (hh : srv.hasHandler = true) (hpw : srv.authPw = some pw) (hu : upper cmd = b!"AUTH")
    (hne : ∀ u p, authCreds args = .ok (u, p) → ¬ (u = [] ∧ p = pw)) :
    ∃ e c', executeCommand pf srv conn cmd args =
        .emit (.start b!"AUTH") (.emit .finish (.ret (.error e, c', srv))) ∧ c'.authorized = conn.authorized := by
  cases hcreds : authCreds args with
  | error e =>
    refine ⟨e, conn, ?_, rfl⟩
    simp [executeCommand, hh, hu, execSystem, hcreds]
  | ok up =>
    obtain ⟨u, p⟩ := up
    have hnot := hne u p hcreds
    have hauth : authenticate srv { conn with user := u, pass := p, hasPass := true } = false := by
      cases hb : authenticate srv { conn with user := u, pass := p, hasPass := true } with
      | false => rfl
      | true => exact absurd (authenticate_exact srv pw u p conn hpw hb) hnot
    refine ⟨{ text := b!"authrization failed" }, { conn with user := u, pass := p, hasPass := true }, ?_, rfl⟩
    simp [executeCommand, hh, hu, execSystem, hcreds, hauth]

/-- **A plain AUTH with the exact password always succeeds** (on a server without a certificate rule). -/
theorem C08_exact_succeeds (pf : FloatOracle) (srv : SrvSt) (conn : ConnSt) (cmd : Bytes) (args : List Msg) (pw : Bytes)
    (hh : srv.hasHandler = true) (hpw : srv.authPw = some pw) (hcert : srv.certAuth = false)
    (hx : IsExactAuth pw cmd args) :
    ∃ c', executeCommand pf srv conn cmd args =
        .emit (.start b!"AUTH") (.emit .finish (.ret (.reply okMsg, c', srv))) ∧ c'.authorized = true := by
  obtain ⟨hu, hcreds⟩ := hx
  refine ⟨{ conn with user := [], pass := pw, hasPass := true, authorized := true }, ?_, rfl⟩
  simp [executeCommand, hh, hu, execSystem, hcreds, authenticate, hpw, hcert]

/-- the dictionary of the property, refused one by one for the password `secret` -/
theorem C08_dictionary :
    (∀ p : Bytes, p ≠ b!"secret" → ¬ (([] : Bytes) = [] ∧ p = b!"secret")) ∧
    b!"" ≠ b!"secret" ∧ b!"secre" ≠ b!"secret" ∧ b!"secret1" ≠ b!"secret" ∧ b!"SECRET" ≠ b!"secret" ∧
    b!"secret\x00" ≠ b!"secret" := by
  refine ⟨fun p hp h => hp h.2, ?_, ?_, ?_, ?_, ?_⟩ <;> decide

/-! ## Non-vacuity: the formerly accepted `AUTH ""` -/
example : (writesOf (serve (fun _ => none) { authPw := some b!"secret" } true
    b!"*2\r\n$4\r\nAUTH\r\n$0\r\n\r\n*1\r\n$4\r\nPING\r\n" [])).length = 2 := by decide +kernel

/-- `AUTH ""` then PING: two error replies, no `+OK`, no `+PONG` -/
example : (writesOf (serve (fun _ => none) { authPw := some b!"secret" } true
    b!"*2\r\n$4\r\nAUTH\r\n$0\r\n\r\n*1\r\n$4\r\nPING\r\n" [])).all (fun w => w.head? == some 45) = true := by decide +kernel

/-- the exact password, then PING -/
example : writesOf (serve (fun _ => none) { authPw := some b!"secret" } true
    b!"*2\r\n$4\r\nAUTH\r\n$6\r\nsecret\r\n*1\r\n$4\r\nPING\r\n" []) = [b!"+OK\r\n", b!"+PONG\r\n"] := by decide +kernel

/-- in the current source the authorization check precedes the (single) executor call of command dispatch and exempts
only AUTH (regenerated on every run) -/
theorem C08_source_gate : (factHolds "authGateBeforeExecutor" && factHolds "authGateExemptsOnlyAuth") = true :=
  source_auth_gate

end GoRedis
