import GoRedisModel.Proofs.LifeSys
import GoRedisModel.Model.Lifecycle
import GoRedisModel.Model.Conn
import GoRedisModel.Proofs.SourceFacts
/-! # C19 — connection resources are released however the connection ends -/
namespace GoRedis

/-- however a connection goroutine ends, it leaves the registry, closes the socket and terminates -/
theorem C19_conn_end_releases (s : LS) (id : Nat) (c : ConnG) (hc : c ∈ (s.step (.connEnd id)).conns) (hid : c.id = id) :
    c.registered = false ∧ c.sockOpen = false ∧ c.alive = false := by
  simp only [LS.step, List.mem_map] at hc
  obtain ⟨c0, _, rfl⟩ := hc
  by_cases h : (c0.id == id) = true
  · simp [h]
  · simp only [h] at hid
    exact absurd (by simpa using hid) h

/-- every way out of `receive` runs the two deferred releases (registry removal, socket close), for every
input and every handler behaviour, panics included -/
theorem C19_receive_always_releases (pf : FloatOracle) (srv : SrvSt) (requirePass : Bool) (input : Bytes) (script : List HRes) :
    ∃ body, serve pf srv requirePass input script = body ++ [.deregister, .close] := ⟨_, rfl⟩

/-- **Stop releases everything**: in every state reachable by any interleaving, once Stop has returned there is
no connection, no accept loop and no listening socket left. -/
theorem C19_stop_releases (plain tls : Bool) (sched : List LAct)
    (hs : (({ plain := plain, tls := tls } : LS).run sched).phase = .idle)
    (hf : (({ plain := plain, tls := tls } : LS).run sched).field = none) :
    (({ plain := plain, tls := tls } : LS).run sched).conns = [] ∧
    (({ plain := plain, tls := tls } : LS).run sched).openL = [] :=
  have inv := LInv.run _ (LInv.init plain tls) sched
  ⟨inv.stopped hs hf, inv.noListen hf⟩

/-! ## The client-visible state machine: every ending mode returns the registry to its baseline -/

def isEnding : LifeAct → Option String
  | .cclose id => some id | .rst id => some id | .half id => some id | .quit id => some id | .bad id => some id
  | .unread id => some id | .halfcr id => some id | .halfbulk id => some id | .crash id => some id
  | _ => none

/-- each ending mode (client close, reset, half request then close, QUIT, malformed frame, pipelined requests left unread, a request
that makes the application's handler panic) removes exactly
that connection -/
theorem C19_ending_removes_exactly (cfg : LifeCfg) (s : LifeSt) (a : LifeAct) (id : String) (h : isEnding a = some id) :
    (lifeStepA cfg s a).2.conns = s.conns.filter (fun c => c.1 != id) ∧ (lifeStepA cfg s a).2.running = s.running := by
  cases a <;> simp [isEnding] at h <;> subst h <;> simp [lifeStepA, LifeSt.drop]

/-- a failed TLS handshake or rejected certificate leaves no connection behind -/
theorem C19_tls_fault_leaves_nothing (cfg : LifeCfg) (s : LifeSt) (kind id : String)
    (hk : kind ≠ "stall") (hbad : tlsServed cfg (certIn s.ca kind) = false) :
    (lifeStepA cfg s (.tlsbad kind id)).2.conns = s.conns := by
  have hs : (kind == "stall") = false := by simpa using hk
  simp only [lifeStepA, hs, hbad]
  by_cases hup : (!cfg.up s true) = true
  · simp [hup]
  · simp only [hup, Bool.false_eq_true, if_false]
    by_cases hk2 : (kind == "plaintext" || kind == "garbage" || kind == "abort") = true
    · simp [hk2]
    · simp [hk2]

/-- **Churn returns to the baseline**: any number of connect / end cycles, with any ending modes, of
connections that are not already there, leaves the registry as it was. -/
theorem C19_churn_baseline (cfg : LifeCfg) (s : LifeSt) (cycles : List (Bool × String × LifeAct))
    (hend : ∀ c ∈ cycles, isEnding c.2.2 = some c.2.1)
    (hfresh : ∀ c ∈ cycles, s.has c.2.1 = false) :
    (cycles.foldl (fun st c => (lifeStepA cfg (lifeStepA cfg st (.open_ c.1 c.2.1)).2 c.2.2).2) s).conns = s.conns := by
  induction cycles generalizing s with
  | nil => rfl
  | cons c cs ih =>
    obtain ⟨tls, id, a⟩ := c
    simp only [List.foldl]
    have he := hend (tls, id, a) (by simp)
    have hf := hfresh (tls, id, a) (by simp)
    simp only at he hf
    -- after opening (whether it succeeded or not) and ending `id`, the registry is what it was
    have hstep : (lifeStepA cfg (lifeStepA cfg s (.open_ tls id)).2 a).2.conns = s.conns ∧
        (lifeStepA cfg (lifeStepA cfg s (.open_ tls id)).2 a).2.running = s.running := by
      have hfil : s.conns.filter (fun c => c.1 != id) = s.conns := by
        apply List.filter_eq_self.mpr
        intro c hc
        simp only [LifeSt.has] at hf
        have := List.any_eq_false.mp hf c hc
        simpa using this
      obtain ⟨h1, h2⟩ := C19_ending_removes_exactly cfg (lifeStepA cfg s (.open_ tls id)).2 a id he
      rw [h1, h2]
      simp only [lifeStepA]
      split
      · exact ⟨hfil, rfl⟩
      · split
        · split
          · simp [List.filter_append, hfil]
          · exact ⟨hfil, rfl⟩
        · split
          · simp [List.filter_append, hfil]
          · exact ⟨hfil, rfl⟩
    have hconns := hstep.1
    have := ih (lifeStepA cfg (lifeStepA cfg s (.open_ tls id)).2 a).2 (fun c hc => hend c (by simp [hc]))
      (fun c hc => by
        have := hfresh c (by simp [hc])
        simp only [LifeSt.has, hconns] at this ⊢
        exact this)
    rw [this, hconns]

/-- close and deregistration are deferred calls of the connection loop in the current source -/
theorem C19_source_releases_deferred :
    (factHolds "deferClose" && factHolds "deferRemoveConn") = true := source_releases_deferred

/-- **The source is the one the model was written from** (regenerated on every run): the connection loop (`serveConn`, `receive`, `dispatch`, `handleMessage`, `responseMessage`, `executeCommand`, `upperASCII`) of the current source
have the fingerprints recorded in the model; a change to any of them means the theorems above are not shown for the code
as it is now, until the model has been compared with it again -/
theorem C19_source_conn_loop_is_the_modelled_one :
    connLoopModelled.all (fun e => Generated.serverFingerprints.contains (e.1, e.2.1)) = true := source_conn_loop_is_the_modelled_one

end GoRedis
