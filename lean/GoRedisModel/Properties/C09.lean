import GoRedisModel.Proofs.SourceFacts
import GoRedisModel.Model.Lifecycle
/-! # C09 — TLS client-certificate gate holds and failed handshakes are contained

`crypto/tls` with `RequireAndVerifyClientCert` is trusted to decide `verified` (the chain leads to the
configured CA and is currently valid); the model takes that verdict and the names on the presented chain. -/
namespace GoRedis

/-- **Served only if**: the handshake verified and — when a common-name rule is configured — the client's own
(leaf) certificate carries that name. -/
theorem C09_served_only_if (cfg : LifeCfg) (c : ClientCert) (h : tlsServed cfg c = true) :
    c.verified = true ∧ (cfg.cn = none ∨ cfg.cn = some c.leafCN) := by
  simp only [tlsServed, Bool.and_eq_true] at h
  refine ⟨h.1, ?_⟩
  cases hcn : cfg.cn with
  | none => exact Or.inl rfl
  | some name =>
    right
    rw [hcn] at h
    have := h.2
    simp at this
    rw [this]

/-- a name carried only by an intermediate certificate of the chain does not satisfy the rule -/
theorem C09_intermediate_name_is_not_enough (cfg : LifeCfg) (c : ClientCert) (name : String)
    (hr : cfg.cn = some name) (hl : c.leafCN ≠ name) : tlsServed cfg c = false := by
  simp [tlsServed, hr, hl]

theorem C09_unverified_never_served (cfg : LifeCfg) (c : ClientCert) (h : c.verified = false) : tlsServed cfg c = false := by
  simp [tlsServed, h]

/-- a faulty TLS client has no command executed -/
theorem C09_no_command_for_rejected (cfg : LifeCfg) (s : LifeSt) (kind id : String)
    (hbad : tlsServed cfg (certIn s.ca kind) = false) :
    (lifeStepA cfg s (.tlsbad kind id)).2.calls = s.calls := by
  simp only [lifeStepA, hbad]
  split
  · rfl
  · split
    · rfl
    · split <;> rfl

/-- a client action — whatever kind of faulty TLS client included — never stops the server -/
def isClientAct : LifeAct → Bool
  | .start | .stop | .restart | .stopstorm | .setpw _ | .setca _ => false
  | _ => true

theorem clientAct_keeps_running (cfg : LifeCfg) (s : LifeSt) (a : LifeAct) (h : isClientAct a = true) :
    (lifeStepA cfg s a).2.running = s.running := by
  cases a <;> simp [isClientAct] at h <;> simp only [lifeStepA, LifeSt.drop]
  all_goals (repeat' split) <;> rfl

/-- **Both listeners survive every sequence of client attempts** (any verdicts, any stalls, any number), and
every later verified client is still served. -/
theorem C09_listeners_survive (cfg : LifeCfg) (s : LifeSt) (attempts : List LifeAct)
    (h : ∀ a ∈ attempts, isClientAct a = true) (hr : s.running = true) :
    (lifeFold cfg s attempts).running = true := by
  induction attempts generalizing s with
  | nil => exact hr
  | cons a as ih =>
    simp only [lifeFold, List.foldl]
    exact ih _ (fun x hx => h x (by simp [hx])) (by rw [clientAct_keeps_running cfg s a (h a (by simp))]; exact hr)

theorem clientAct_keeps_ca (cfg : LifeCfg) (s : LifeSt) (a : LifeAct) (h : isClientAct a = true) :
    (lifeStepA cfg s a).2.ca = s.ca := by
  cases a <;> simp [isClientAct] at h <;> simp only [lifeStepA, LifeSt.drop]
  all_goals (repeat' split) <;> rfl

/-- the CA a listener trusts is fixed while the server runs: no client action changes it -/
theorem C09_ca_fixed_by_clients (cfg : LifeCfg) (s : LifeSt) (attempts : List LifeAct)
    (h : ∀ a ∈ attempts, isClientAct a = true) : (lifeFold cfg s attempts).ca = s.ca := by
  induction attempts generalizing s with
  | nil => rfl
  | cons a as ih =>
    simp only [lifeFold, List.foldl]
    have := ih (lifeStepA cfg s a).2 (fun x hx => h x (by simp [hx]))
    simp only [lifeFold] at this
    rw [this, clientAct_keeps_ca cfg s a (h a (by simp))]

theorem C09_good_client_served_afterwards (cfg : LifeCfg) (s : LifeSt) (attempts : List LifeAct)
    (h : ∀ a ∈ attempts, isClientAct a = true) (hr : s.running = true) (ht : cfg.tls = true)
    (hcn : cfg.cn = none ∨ cfg.cn = some "client") (hca : s.ca = "main") :
    (lifeStepA cfg (lifeFold cfg s attempts) (.ping true "good")).1 = "ok" := by
  have hrun := C09_listeners_survive cfg s attempts h hr
  have hca' := C09_ca_fixed_by_clients cfg s attempts h
  have hserved : tlsServed cfg (certIn (lifeFold cfg s attempts).ca "good") = true := by
    rw [hca', hca]
    rcases hcn with hcn | hcn <;> simp [tlsServed, certIn, certOf, hcn]
  simp [lifeStepA, LifeCfg.up, hrun, ht, hserved]

/-- **Only the CA in force**: whoever is served presented a chain issued by the CA the listener trusts now -/
theorem C09_only_current_ca (cfg : LifeCfg) (ca name : String) (h : tlsServed cfg (certIn ca name) = true) :
    issuerOf name = ca := by
  have hv : (certIn ca name).verified = true := (C09_served_only_if cfg _ h).1
  by_cases hm : ca = "main"
  · subst hm
    simp only [certIn, beq_self_eq_true, if_true] at hv
    unfold certOf at hv
    unfold issuerOf
    split at hv <;> simp_all
  · have hm' : (ca == "main") = false := by simpa using hm
    simp only [certIn, hm', Bool.false_eq_true, if_false, Bool.and_eq_true, beq_iff_eq] at hv
    exact hv.1

/-- a CA rotation takes effect with the next (re)start … -/
theorem C09_rotation_effective (cfg : LifeCfg) (s : LifeSt) (ca : String) :
    (lifeStepA cfg (lifeStepA cfg s (.setca ca)).2 .restart).2.ca = ca ∧
    (lifeStepA cfg s (.setca ca)).2.ca = s.ca := by
  simp [lifeStepA]

/-- … and from then on a client of the retired CA is rejected without a command being executed, whatever the
common-name rule says -/
theorem C09_retired_ca_rejected (cfg : LifeCfg) (s : LifeSt) (name : String) (hr : s.running = true) (ht : cfg.tls = true)
    (hret : issuerOf name ≠ s.ca) :
    lifeStepA cfg s (.ping true name) = ("rejected", s) := by
  have hns : tlsServed cfg (certIn s.ca name) = false := by
    cases hs : tlsServed cfg (certIn s.ca name) with
    | false => rfl
    | true => exact absurd (C09_only_current_ca cfg s.ca name hs) hret
  simp [lifeStepA, LifeCfg.up, hr, ht, hns]

example :
    let cfg : LifeCfg := { tls := true, cn := some "client" }
    let s1 := lifeFold cfg {} [.start, .setca "foreign"]
    let s2 := lifeFold cfg {} [.start, .setca "foreign", .restart]
    (lifeStepA cfg s1 (.ping true "good")).1 = "ok" ∧ (lifeStepA cfg s1 (.ping true "foreign")).1 = "rejected" ∧
    (lifeStepA cfg s2 (.ping true "good")).1 = "rejected" ∧ (lifeStepA cfg s2 (.ping true "foreign")).1 = "ok" := by decide

/-- the property's credential table, decided: who is served under a common-name rule `client` -/
theorem C09_credential_table (cfg : LifeCfg) (h : cfg.cn = some "client") :
    tlsServed cfg (certOf "good") = true ∧ tlsServed cfg (certOf "none") = false ∧
    tlsServed cfg (certOf "selfsigned") = false ∧ tlsServed cfg (certOf "foreign") = false ∧
    tlsServed cfg (certOf "expired") = false ∧ tlsServed cfg (certOf "wrongcn") = false ∧
    tlsServed cfg (certOf "intercn") = false ∧ tlsServed cfg (certOf "straycn") = false ∧
    tlsServed cfg (certOf "straygood") = false := by
  simp [tlsServed, certOf, h]

/-- **The source is the one the model was written from** (regenerated on every run): the lifecycle functions (`Start`, `Stop`, `Restart`, `open`, `close`, `serve`, `tlsServe`, `startConn`) of the current source
have the fingerprints recorded in the model; a change to any of them means the theorems above are not shown for the code
as it is now, until the model has been compared with it again -/
theorem C09_source_lifecycle_is_the_modelled_one :
    lifecycleModelled.all (fun e => Generated.serverFingerprints.contains (e.1, e.2.1)) = true := source_lifecycle_is_the_modelled_one

end GoRedis
