import GoRedisModel.Proofs.SetOpts
/-! The command surface as an independent grammar (written from the Redis command reference, DESIGN.md
Appendix C), shared by C05 and C10.  A `Form` says which positional arguments a command takes and which
handler operation it must reach with them. -/
namespace GoRedis

inductive Form where
  | s (mk : Bytes → HCall)                           -- `S`
  | ss (mk : Bytes → Bytes → HCall)                  -- `S S`
  | sss (mk : Bytes → Bytes → Bytes → HCall)         -- `S S S`
  | si (mk : Bytes → Int → HCall)                    -- `S I`
  | sii (mk : Bytes → Int → Int → HCall)             -- `S I I`
  | sfs (mk : Bytes → UInt64 → Bytes → HCall)        -- `S F S`
  | l (mk : List Bytes → HCall)                      -- `S+`
  | sl (mk : Bytes → List Bytes → HCall)             -- `S S+`

structure Row where
  name : Bytes
  form : Form

/-- the commands whose whole grammar is positional (the ones with options are treated separately) -/
def grammar : List Row := [
  ⟨b!"DEL", .l .del⟩, ⟨b!"EXISTS", .l .exists_⟩,
  ⟨b!"KEYS", .s .keys⟩, ⟨b!"TYPE", .s .type_⟩, ⟨b!"TTL", .s .ttl⟩,
  ⟨b!"RENAME", .ss fun k n => .rename k n false⟩, ⟨b!"RENAMENX", .ss fun k n => .rename k n true⟩,
  ⟨b!"GET", .s .get⟩,
  ⟨b!"GETSET", .ss fun k v => .set k v { get := true }⟩, ⟨b!"SETNX", .ss fun k v => .set k v { nx := true }⟩,
  ⟨b!"HDEL", .sl .hdel⟩, ⟨b!"HGET", .ss .hget⟩, ⟨b!"HGETALL", .s .hgetall⟩,
  ⟨b!"HSET", .sss fun h f v => .hset h f v false⟩, ⟨b!"HSETNX", .sss fun h f v => .hset h f v true⟩,
  ⟨b!"LINDEX", .si .lindex⟩, ⟨b!"LLEN", .s .llen⟩, ⟨b!"LRANGE", .sii .lrange⟩,
  ⟨b!"LPUSH", .sl fun k es => .lpush k es false⟩, ⟨b!"LPUSHX", .sl fun k es => .lpush k es true⟩,
  ⟨b!"RPUSH", .sl fun k es => .rpush k es false⟩, ⟨b!"RPUSHX", .sl fun k es => .rpush k es true⟩,
  ⟨b!"SADD", .sl .sadd⟩, ⟨b!"SMEMBERS", .s .smembers⟩, ⟨b!"SREM", .sl .srem⟩,
  ⟨b!"ZINCRBY", .sfs .zincrby⟩, ⟨b!"ZREM", .sl .zrem⟩, ⟨b!"ZSCORE", .ss .zscore⟩]

/-- A request reaches the handler: on an authorized connection, under any spelling of the command name,
with any surplus trailing arguments, the command's whole effect is its span, exactly one handler call with
exactly the decoded arguments, and the handler's result as the reply. -/
def Row.Dispatches (pf : FloatOracle) (row : Row) : Prop :=
  ∀ (srv : SrvSt) (conn : ConnSt) (c : Bytes), srv.hasHandler = true → conn.authorized = true → upper c = row.name →
  match row.form with
  | .s f => ∀ k rest, executeCommand pf srv conn c (B k :: rest) = singleCall row.name (f k) conn srv
  | .ss f => ∀ a b rest, executeCommand pf srv conn c (B a :: B b :: rest) = singleCall row.name (f a b) conn srv
  | .sss f => ∀ a b d rest,
      executeCommand pf srv conn c (B a :: B b :: B d :: rest) = singleCall row.name (f a b d) conn srv
  | .si f => ∀ a tok i rest, atoi tok = some i →
      executeCommand pf srv conn c (B a :: B tok :: rest) = singleCall row.name (f a i) conn srv
  | .sii f => ∀ a t1 t2 i j rest, atoi t1 = some i → atoi t2 = some j →
      executeCommand pf srv conn c (B a :: B t1 :: B t2 :: rest) = singleCall row.name (f a i j) conn srv
  | .sfs f => ∀ a tok v d rest, pf tok = some v →
      executeCommand pf srv conn c (B a :: B tok :: B d :: rest) = singleCall row.name (f a v d) conn srv
  | .l f => ∀ b l, executeCommand pf srv conn c ((b :: l).map B) = singleCall row.name (f (b :: l)) conn srv
  | .sl f => ∀ a b l, executeCommand pf srv conn c (B a :: (b :: l).map B) = singleCall row.name (f a (b :: l)) conn srv

/-- A request is rejected: some error, the command's span, no handler call, state unchanged. -/
def RejectedBy (pf : FloatOracle) (srv : SrvSt) (conn : ConnSt) (c : Bytes) (name : Bytes) (args : List Msg) : Prop :=
  ∃ e, executeCommand pf srv conn c args = rejected name e conn srv

/-- Every ill-formed variant of the positional grammar is rejected: each required position omitted, each
position sent as a null bulk, each numeric position holding a token that is not a 64-bit integer / not a
float, an empty list, a null inside a list. -/
def Row.RejectsIllFormed (pf : FloatOracle) (row : Row) : Prop :=
  ∀ (srv : SrvSt) (conn : ConnSt) (c : Bytes), srv.hasHandler = true → conn.authorized = true → upper c = row.name →
  let rej := RejectedBy pf srv conn c row.name
  match row.form with
  | .s _ => rej [] ∧ ∀ rest, rej (.bulk none :: rest)
  | .ss _ => rej [] ∧ (∀ a, rej [B a]) ∧ (∀ rest, rej (.bulk none :: rest)) ∧ (∀ a rest, rej (B a :: .bulk none :: rest))
  | .sss _ => rej [] ∧ (∀ a, rej [B a]) ∧ (∀ a b, rej [B a, B b]) ∧ (∀ rest, rej (.bulk none :: rest)) ∧
      (∀ a rest, rej (B a :: .bulk none :: rest)) ∧ (∀ a b rest, rej (B a :: B b :: .bulk none :: rest))
  | .si _ => rej [] ∧ (∀ a, rej [B a]) ∧ (∀ rest, rej (.bulk none :: rest)) ∧ (∀ a rest, rej (B a :: .bulk none :: rest)) ∧
      (∀ a tok rest, atoi tok = none → rej (B a :: B tok :: rest))
  | .sii _ => rej [] ∧ (∀ a, rej [B a]) ∧ (∀ a t1 i, atoi t1 = some i → rej [B a, B t1]) ∧
      (∀ a rest, rej (B a :: .bulk none :: rest)) ∧
      (∀ a t1 i rest, atoi t1 = some i → rej (B a :: B t1 :: .bulk none :: rest)) ∧
      (∀ a tok rest, atoi tok = none → rej (B a :: B tok :: rest)) ∧
      (∀ a t1 i tok rest, atoi t1 = some i → atoi tok = none → rej (B a :: B t1 :: B tok :: rest))
  | .sfs _ => (∀ a, rej [B a]) ∧ (∀ a tok v, pf tok = some v → rej [B a, B tok]) ∧
      (∀ a rest, rej (B a :: .bulk none :: rest)) ∧ (∀ a tok rest, pf tok = none → rej (B a :: B tok :: rest))
  | .l _ => rej [] ∧ ∀ (l : List Bytes) rest, rej (l.map B ++ .bulk none :: rest)
  | .sl _ => rej [] ∧ (∀ a, rej [B a]) ∧ ∀ a (l : List Bytes) rest, rej (B a :: (l.map B ++ .bulk none :: rest))

end GoRedis
