import GoRedisModel.Proofs.SourceFacts
import GoRedisModel.Proofs.Glob
import GoRedisModel.Model.Exec
/-! # C17 — key patterns match as Redis globs

Characters are bytes in this model (`?` = exactly one byte); the tie uses ASCII patterns and keys, for
which a byte is a character.  Go's `regexp` is trusted for exactly the three token shapes of `tokMatch`. -/
namespace GoRedis

/-- the executable matcher decides Redis glob semantics, for every pattern and every key -/
theorem C17_matcher_correct (p k : Bytes) : globMatch p k = true ↔ Matches p k := globMatch_iff p k

/-- the regular expression compiled for a pattern consists, between `(?s)^` and `$`, of exactly one token per
pattern character: `.*` for `*`, `.` for `?`, and the *quoted* character otherwise — so `. + ( ) | ^ $ { } [ ] \`
and every other character stand only for themselves -/
theorem C17_translation (p : Bytes) : globRegex p = b!"(?s)^" ++ (p.map gtok).flatMap GTok.src ++ b!"$" :=
  globRegex_tokens p

/-- …and under the token semantics it matches exactly the keys the glob matches -/
theorem C17_translation_correct (p k : Bytes) : tokMatch (p.map gtok) k = true ↔ Matches p k := by
  rw [tokMatch_eq_globMatch]; exact globMatch_iff p k

/-- a metacharacter in a pattern is emitted behind a backslash; an ordinary character as itself -/
theorem C17_metacharacters_quoted (c : UInt8) (h1 : c ≠ 42) (h2 : c ≠ 63) :
    globTok c = if isRegexMeta c then [92, c] else [c] := by
  have e1 : (c == 42) = false := by simp [h1]
  have e2 : (c == 63) = false := by simp [h2]
  simp [globTok, e1, e2]

/-- the translation is a total function: there is no pattern for which it is undefined, and its output never
contains an unquoted metacharacter other than the `.*` / `.` it emits itself -/
theorem C17_total (p : Bytes) : ∃ r, globRegex p = r := ⟨_, rfl⟩

/-- **KEYS and SCAN MATCH agree**: SCAN hands the handler the very regular expression KEYS compiles from the
same pattern (`SCAN … MATCH p` ⇒ `globRegex p`; without MATCH ⇒ `globRegex "*"`).  Patterns are valid UTF-8 (every
pattern over the property's alphabet is): Go's `regexp` refuses anything else, for KEYS and for SCAN alike. -/
theorem C17_scan_uses_glob (cur : Bytes) (n : Int) (kw pat : Bytes) (rest : List Msg)
    (hc : atoi cur = some n) (hk : upper kw = b!"MATCH") (hv : validUtf8 pat = true) :
    ∃ r cnt, scanOpts defaultScanRegex 10 (B kw :: B pat :: rest) = scanOpts (globRegex pat) 10 rest ∧
      defaultScanRegex = globRegex b!"*" ∧ (scanOpts (globRegex pat) 10 [] = .ok (r, cnt) → r = globRegex pat) := by
  refine ⟨globRegex pat, 10, ?_, rfl, fun _ => rfl⟩
  simp [scanOpts, B, msgStr, hk, hv]

/-! ## Non-vacuity and the formerly wrong answers -/
example : globMatch b!"a.c" b!"abc" = false ∧ globMatch b!"a.c" b!"a.c" = true := by simp [globMatch]
example : globMatch b!"a+b" b!"a+b" = true ∧ globMatch b!"(" b!"(" = true ∧ globMatch b!"x|y$" b!"x|y$" = true := by
  simp [globMatch]
example : globMatch b!"h?llo*" b!"hello" = true ∧ globMatch b!"h?llo*" b!"hllo" = false := by simp [globMatch]
example : globRegex b!"a.c*" = b!"(?s)^a\\.c.*$" := by decide
example : Matches b!"*b" b!"aab" := Matches.star b!"b" b!"aa" b!"b" (Matches.lit 98 [] [] (by decide) (by decide) .nil)

/-- the matcher the compiled model runs (a simulation on the set of remaining key suffixes, polynomial where the
recursive matcher backtracks exponentially) is the matcher the theorems are about -/
theorem C17_fast_matcher (p k : Bytes) : globMatchFast p k = globMatch p k := globMatchFast_eq p k

example : globMatchFast b!"*a*a*a*b" b!"aaaaaaaaaaaaaaaa" = false ∧ globMatchFast b!"*a*a*a*a" b!"aaaaaaaaaaaaaaaa" = true := by decide

/-- **The source is the one the model was written from** (regenerated on every run): `regexpFromGlob` and `Compile` of the current source
have the fingerprints recorded in the model; a change to any of them means the theorems above are not shown for the code
as it is now, until the model has been compared with it again -/
theorem C17_source_glob_is_the_modelled_one :
    globModelled.all (fun e => Generated.serverFingerprints.contains (e.1, e.2.1)) = true := source_glob_is_the_modelled_one

end GoRedis
