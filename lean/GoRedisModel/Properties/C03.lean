import GoRedisModel.Proofs.SourceFacts
import GoRedisModel.Proofs.Loop
import GoRedisModel.Proofs.Frame
/-! # C03 — every command gets exactly one reply, in order, without needing more input -/
namespace GoRedis

/-- **The connection loop, on any pipeline of canonical values, is the request-level semantics `steps`**:
request after request — parse, execute, write the reply, and only then turn to the next one.  The fuel
`input.length + 1` that `serve` uses is always enough: nothing in the loop or in any executor spins. -/
theorem C03_loop_is_request_semantics (pf : FloatOracle) (ms : List Msg) (hw : wfs ms)
    (srv : SrvSt) (requirePass : Bool) (script : List HRes) :
    serve pf srv requirePass (encs ms) script =
      [Ev.register] ++ steps pf srv { authorized := !requirePass } ms script ++ [.deregister, .close] := by
  have h := encs_length_ge ms (wfs_noAbsents ms hw)
  simp only [serve]
  rw [serveLoop_steps pf ms hw _ (by omega)]

/-- **Exactly one reply per request**: a request's block of the trace contains exactly one write — a single
complete frame — unless the request ends in a recovered panic (then it contains none and the connection is
closed). -/
theorem C03_one_reply_each (pf : FloatOracle) (srv : SrvSt) (conn : ConnSt) (m : Msg) (script : List HRes) :
    (crashedIn (reqStep pf srv conn m script).evs = false →
      ∃ bs, writesOf (reqStep pf srv conn m script).evs = [bs] ∧ Frame bs) ∧
    (crashedIn (reqStep pf srv conn m script).evs = true →
      writesOf (reqStep pf srv conn m script).evs = [] ∧ (reqStep pf srv conn m script).next = none) :=
  ⟨reqStep_one_write pf srv conn m script, reqStep_crash pf srv conn m script⟩

/-- **In order**: the writes of the whole connection are the replies of its requests, in request order. -/
theorem C03_replies_in_order (pf : FloatOracle) (ms : List Msg) (hw : wfs ms)
    (srv : SrvSt) (requirePass : Bool) (script : List HRes) :
    writesOf (serve pf srv requirePass (encs ms) script) =
      repliesOf pf srv { authorized := !requirePass } ms script := by
  rw [C03_loop_is_request_semantics pf ms hw]
  simp [writesOf_append, writesOf, steps_writes]

/-- never more replies than requests; exactly as many when no request ends the connection -/
theorem C03_reply_count (pf : FloatOracle) (ms : List Msg) (srv : SrvSt) (conn : ConnSt) (script : List HRes) :
    (repliesOf pf srv conn ms script).length ≤ ms.length ∧
    (Alive pf srv conn ms script → (repliesOf pf srv conn ms script).length = ms.length) :=
  ⟨repliesOf_length_le pf srv conn ms script, repliesOf_length_alive pf srv conn ms script⟩

/-- **The reply is written before the next request is touched**: in the request-level trace the block of
request `m` — with its handler calls and its write — is complete before the block of the next request
starts (the next `rootStart`/parse). -/
theorem C03_reply_before_next (pf : FloatOracle) (srv : SrvSt) (conn : ConnSt) (m : Msg) (ms : List Msg) (script : List HRes) :
    ∃ tail, steps pf srv conn (m :: ms) script =
      [Ev.rootStart, .spanStart b!"parse", .spanFinish] ++ (reqStep pf srv conn m script).evs ++ tail :=
  by
    cases h : (reqStep pf srv conn m script).next with
    | none => exact ⟨[], by simp [steps, h]⟩
    | some p => exact ⟨steps pf p.2 p.1 ms (reqStep pf srv conn m script).script, by simp [steps, h]⟩

/-- **QUIT**: a request whose outcome ends the connection is the last thing in the trace — requests
pipelined behind it are neither executed nor answered, whatever they are. -/
theorem C03_quit_cuts_off (pf : FloatOracle) (srv : SrvSt) (conn : ConnSt) (m : Msg) (ms : List Msg) (script : List HRes)
    (h : (reqStep pf srv conn m script).next = none) :
    steps pf srv conn (m :: ms) script =
      [Ev.rootStart, .spanStart b!"parse", .spanFinish] ++ (reqStep pf srv conn m script).evs := by
  simp [steps, h]

/-- QUIT in any letter case, with any trailing arguments, on an authorized connection: the reply is `+OK`
and the connection ends. -/
theorem C03_quit_reply (pf : FloatOracle) (srv : SrvSt) (conn : ConnSt) (c : Bytes) (rest : List Msg) (script : List HRes)
    (hu : upper c = b!"QUIT") (ha : conn.authorized = true) (hh : srv.hasHandler = true) :
    writesOf (reqStep pf srv conn (.arr (B c :: rest)) script).evs = [b!"+OK\r\n"] ∧
    (reqStep pf srv conn (.arr (B c :: rest)) script).next = none := by
  simp [reqStep, handleMessage, handleArray, depth, B, msgStr, executeCommand, hu, hh, ha, execSystem,
    Prog.run, Prog.SpanOp.ev, replyBytes, okMsg, encGo, noAbsent, enc, sanitize, sanByte, CR, LF, CRLF, LineTy.byte,
    writesOf, Out.isQuit]

/-- **A handler error becomes an error reply and leaves the connection usable**: whatever the request,
if its outcome is an error the reply is one error frame and the loop goes on with the connection and
server state the executor left. -/
theorem C03_handler_error_usable (pf : FloatOracle) (srv : SrvSt) (conn : ConnSt) (m : Msg) (script : List HRes)
    (evs : List Ev) (e : Err) (conn' : ConnSt) (srv' : SrvSt) (script' : List HRes)
    (h : (handleMessage pf srv conn m).run conn script = (evs, some (.error e, conn', srv'), script')) :
    (reqStep pf srv conn m script).next = some (conn', srv') ∧
    writesOf (reqStep pf srv conn m script).evs = [enc (.line .err e.text)] := by
  have hw := writesOf_run conn (handleMessage pf srv conn m) script
  rw [h] at hw
  simp only at hw
  simp [reqStep, h, replyBytes, Out.isQuit, writesOf_append, hw, writesOf]

/-- a single-call command whose handler returns an error: the error text becomes the reply -/
theorem C03_handler_error_reply (r : HRes) (t : Bytes) (h : r.err = some t) : outOf r = .error { text := t } := by
  simp [outOf, h]

/-- **No spin in ZADD's flag loop**: ZADD with any of its flags in front of the first score reads on and
calls the handler once (this request made the connection goroutine spin forever before the repair). -/
theorem C03_zadd_flags_terminate (pf : FloatOracle) (k m score : Bytes) (v : UInt64) (hs : pf score = some v)
    (hnf : zaddFlag (upper score) { nx := true } = none) :
    execZAdd pf [B k, B b!"NX", B score, B m] = callRet (.zadd k [(v, m)] { nx := true }) := by
  have hnx : zaddFlag (upper b!"NX") {} = some { nx := true } := by decide
  simp [execZAdd, withArgs, nextString, nextStringRaw, B, msgStr, zaddHead, zaddPairs, hs, hnf, hnx]

/-! ## Non-vacuity -/

example : wfs [.arr [B b!"PING"], .arr [B b!"QUIT"], .arr [B b!"PING"]] := by
  simp [wfs, wf, B, maxBulk, maxInt]

/-- PING, QUIT, PING: two replies, `+PONG` then `+OK`; the PING behind QUIT is not answered -/
example : writesOf (serve (fun _ => none) {} false
    (encs [.arr [B b!"PING"], .arr [B b!"QUIT"], .arr [B b!"PING"]]) []) = [b!"+PONG\r\n", b!"+OK\r\n"] := by
  decide +kernel

/-- **No read-ahead**: to return a complete request the parser issues no read to the transport beyond the request's
own last byte – however the request itself is segmented (`pre`, any list of segments whose concatenation is the
request) and whatever segments (`later`) the client sends afterwards, they are still unopened when the value is
returned.  So the reply to a request is computed and written (`C03_reply_before_next`) before the server asks the
transport for anything that follows it: a client that waits for the reply before sending more is never left
waiting. -/
theorem C03_no_read_ahead (v : Msg) (hw : wf v) (pre later : List Bytes) (hpre : pre.flatten = enc v)
    (f : Nat) (hf : (enc v).length < f) (hd : depth v < f) :
    ∃ r0', inext f ⟨pre⟩ = .ok v r0' ∧ r0'.rest = [] ∧ inext f ⟨pre ++ later⟩ = .ok v ⟨r0'.chunks ++ later⟩ := by
  obtain ⟨r', h1, h2, h3⟩ := inext_frame f v ⟨pre⟩ [] later hw (by simp [Reader.rest, hpre]) (by simp [Reader.rest, hpre]; exact hf) hd
  exact ⟨r', h1, h2, h3⟩

/-- a request delivered in three segments, the next request already waiting behind it in two more: they are
still two unopened segments after the first request has been read -/
example : ∃ r0' : Reader, inext 40 ⟨[b!"*1\r\n$4", b!"\r\nPI", b!"NG\r\n"] ++ [b!"*1\r\n", b!"$4\r\nQUIT\r\n"]⟩ =
    .ok (.arr [.bulk (some b!"PING")]) ⟨r0'.chunks ++ [b!"*1\r\n", b!"$4\r\nQUIT\r\n"]⟩ ∧ r0'.rest = [] := by
  obtain ⟨r0', _, h2, h3⟩ := C03_no_read_ahead (.arr [.bulk (some b!"PING")]) (by simp [wf, wfs, maxBulk, maxInt])
    [b!"*1\r\n$4", b!"\r\nPI", b!"NG\r\n"] [b!"*1\r\n", b!"$4\r\nQUIT\r\n"] (by decide) 40 (by decide) (by decide)
  exact ⟨r0', h3, h2⟩

/-- **The source is the one the model was written from** (regenerated on every run): the connection loop (`serveConn`, `receive`, `dispatch`, `handleMessage`, `responseMessage`, `executeCommand`, `upperASCII`) of the current source
have the fingerprints recorded in the model; a change to any of them means the theorems above are not shown for the code
as it is now, until the model has been compared with it again -/
theorem C03_source_conn_loop_is_the_modelled_one :
    connLoopModelled.all (fun e => Generated.serverFingerprints.contains (e.1, e.2.1)) = true := source_conn_loop_is_the_modelled_one

end GoRedis
