import GoRedisModel.Model.Show
/-! placeholder until the theorems of C03 are written -/
namespace GoRedis
theorem C03_placeholder : True := trivial
end GoRedis
