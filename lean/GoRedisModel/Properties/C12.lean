import GoRedisModel.Generated.Facts
import GoRedisModel.Proofs.ReverseBy
import GoRedisModel.Proofs.Translated
import GoRedisModel.Proofs.Spec
import GoRedisModel.Proofs.Dispatch
/-! # C12 — commands the framework implements itself follow Redis semantics

`refHandle` (Model/RefStore) gives the primitive handler operations the semantics of the Redis command
reference; the theorems below run the framework's own executors against it (`UProg.runH`) and state what
Redis defines for the composed command. -/
namespace GoRedis

variable (sc : ScoreTable)

/-! ## GETRANGE / SUBSTR: Redis index clamping, for every length, start and end -/

theorem getRangeBounds_eq (len start stop : Int) (s e : Nat)
    (h0 : ¬ (start < 0 ∧ stop < 0 ∧ start > stop)) (hl : len ≠ 0)
    (hs : (s : Int) = max 0 (normIdx len start)) (he : (e : Int) = min (len - 1) (max 0 (normIdx len stop)))
    (hse : s ≤ e) : getRangeBounds len start stop = some (s, e) := by
  unfold getRangeBounds
  simp only [h0, if_false]
  have hgt : ¬ (len = 0 ∨ max 0 (normIdx len start) > min (len - 1) (max 0 (normIdx len stop))) := by omega
  simp only [hgt, if_false]
  congr 2 <;> omega

/-- in-range non-negative indexes: exactly the bytes `start..end`, both inclusive -/
theorem C12_getrange_inrange (v : Bytes) (s e : Nat) (hse : s ≤ e) (he : e < v.length) :
    getRange v s e = (v.drop s).take (e + 1 - s) := by
  have hb : getRangeBounds v.length s e = some (s, e) :=
    getRangeBounds_eq _ _ _ s e (by omega) (by omega) (by simp [normIdx]; omega) (by simp [normIdx]; omega) hse
  simp only [getRange, hb]

/-- an end beyond the value is clamped to its last byte (this panicked before the repair) -/
theorem C12_getrange_end_clamped (v : Bytes) (s : Nat) (e : Int) (hs : s < v.length) (he : (v.length : Int) ≤ e) :
    getRange v s e = v.drop s := by
  have hb : getRangeBounds v.length s e = some (s, v.length - 1) :=
    getRangeBounds_eq _ _ _ s (v.length - 1) (by omega) (by omega) (by simp [normIdx]; omega)
      (by have : ¬ (e < 0) := by omega
          simp [normIdx, this]; omega) (by omega)
  simp only [getRange, hb]
  rw [List.take_of_length_le]; simp; omega

/-- negative indexes count from the end -/
theorem C12_getrange_negative (v : Bytes) (s e : Int) (hs : s < 0) (he : e < 0) (hse : s ≤ e)
    (hs' : 0 ≤ (v.length : Int) + s) :
    getRange v s e = getRange v ((v.length : Int) + s) ((v.length : Int) + e) := by
  have hl : (v.length : Int) ≠ 0 := by omega
  have n1 : normIdx v.length s = v.length + s := by simp [normIdx, hs]
  have n2 : normIdx v.length e = v.length + e := by simp [normIdx, he]
  have n3 : normIdx v.length ((v.length : Int) + s) = v.length + s := by
    have : ¬ ((v.length : Int) + s < 0) := by omega
    simp [normIdx, this]
  have n4 : normIdx v.length ((v.length : Int) + e) = v.length + e := by
    have : ¬ ((v.length : Int) + e < 0) := by omega
    simp [normIdx, this]
  have b1 := getRangeBounds_eq v.length s e ((v.length : Int) + s).toNat ((v.length : Int) + e).toNat
    (by omega) hl (by rw [n1]; omega) (by rw [n2]; omega) (by omega)
  have b2 := getRangeBounds_eq v.length ((v.length : Int) + s) ((v.length : Int) + e)
    ((v.length : Int) + s).toNat ((v.length : Int) + e).toNat (by omega) hl (by rw [n3]; omega) (by rw [n4]; omega) (by omega)
  simp only [getRange, b1, b2]

/-- start after end, or an empty value: the empty string (this panicked before the repair) -/
theorem C12_getrange_empty (v : Bytes) (s e : Int) (h : v = [] ∨ (0 ≤ s ∧ 0 ≤ e ∧ e < s)) : getRange v s e = [] := by
  have hb : getRangeBounds v.length s e = none := by
    unfold getRangeBounds
    split
    · rfl
    · rcases h with rfl | ⟨h1, h2, h3⟩
      · simp
      · have a2 : ¬ (s < 0) := by omega
        have a3 : ¬ (e < 0) := by omega
        have : (v.length : Int) = 0 ∨ max 0 (normIdx v.length s) > min ((v.length : Int) - 1) (max 0 (normIdx v.length e)) := by
          simp only [normIdx, a2, a3, if_false]; omega
        simp only [this, if_true]
  simp only [getRange, hb]

/-- the result is always a contiguous piece of the value: nothing is invented -/
theorem C12_getrange_infix (v : Bytes) (s e : Int) : ∃ a b, v = a ++ getRange v s e ++ b := by
  unfold getRange
  split
  · exact ⟨[], v, by simp⟩
  · rename_i lo hi _
    refine ⟨v.take lo, (v.drop lo).drop (hi + 1 - lo), ?_⟩
    rw [List.append_assoc, List.take_append_drop, List.take_append_drop]

/-- a missing key is the empty string, not a nil reply -/
theorem C12_getrange_missing_key (k : Bytes) (s e : Int) (st : Store) (h : st.get k = none) :
    UProg.runH (refHandle sc)
      (.call (.get k) fun r => match r.err with
        | some t => failE { text := t }
        | none => match r.msg with
          | .absent => .panic
          | m => match msgStr m with
            | .error _ => replyP (newBulk [])
            | .ok v => replyP (newBulk (getRange v s e))) st = (some (.reply (newBulk [])), st) := by
  simp [UProg.runH, refHandle, h, okRes, newNil, msgStr, replyP]

/-! ## ZREVRANGE: exactly the reverse-order slice, pairs intact -/

theorem C12_zrevrange_slice {α : Type} (l : List α) (i j : Int) :
    (rangeSlice l (-j - 1) (-i - 1)).reverse = rangeSlice l.reverse i j := (rangeSlice_reverse l i j).symm

/-- with WITHSCORES the reply is reversed pair-wise: each member stays in front of its own score -/
theorem C12_reverse_pairs_intact (ps : List (Msg × Msg)) :
    reverseEvenPairs (ps.flatMap fun p => [p.1, p.2]) = ps.reverse.flatMap fun p => [p.1, p.2] := by
  induction ps with
  | nil => rfl
  | cons p ps ih => simp [reverseEvenPairs, ih, List.flatMap_append]

theorem C12_reverse_pairs_even (ps : List (Msg × Msg)) :
    reversePairs (ps.flatMap fun p => [p.1, p.2]) = ps.reverse.flatMap fun p => [p.1, p.2] := by
  have hlen : (ps.flatMap fun p => [p.1, p.2]).length % 2 = 0 := by
    induction ps with
    | nil => rfl
    | cons p ps ih => simp [List.length_flatMap] at ih ⊢; omega
  unfold reversePairs
  rw [if_pos hlen]
  exact C12_reverse_pairs_intact ps


/-! ## ZREVRANGEBYSCORE: the reversed range, LIMIT counted from the highest score -/

theorem drop_pairs {α β : Type} (f : α → β × β) (ps : List α) (n : Nat) :
    (ps.flatMap fun p => [(f p).1, (f p).2]).drop (n * 2) = (ps.drop n).flatMap fun p => [(f p).1, (f p).2] := by
  induction n generalizing ps with
  | zero => simp
  | succ n ih =>
    cases ps with
    | nil => simp
    | cons p ps =>
      have : (n + 1) * 2 = n * 2 + 2 := by omega
      simp only [List.flatMap_cons, List.drop_succ_cons, this]
      simpa using ih ps

theorem take_pairs {α β : Type} (f : α → β × β) (ps : List α) (n : Nat) :
    (ps.flatMap fun p => [(f p).1, (f p).2]).take (n * 2) = (ps.take n).flatMap fun p => [(f p).1, (f p).2] := by
  induction n generalizing ps with
  | zero => simp
  | succ n ih =>
    cases ps with
    | nil => simp
    | cons p ps =>
      have : (n + 1) * 2 = n * 2 + 2 := by omega
      simp only [List.flatMap_cons, List.take_succ_cons, this]
      simpa using ih ps

/-- LIMIT on a members-only reply selects whole members … -/
theorem C12_limit_members (ms : List Bytes) (off cnt : Int) :
    limitEntries 1 off cnt (ms.map newBulk) = (limitSlice ms off cnt).map newBulk := by
  unfold limitEntries limitSlice
  split
  · rfl
  · split <;> simp [List.map_drop, List.map_take]

/-- … and on a WITHSCORES reply whole member/score pairs -/
theorem C12_limit_pairs (ps : List (Int × Bytes)) (off cnt : Int) :
    limitEntries 2 off cnt (ps.flatMap fun p => [newBulk p.2, newBulk (fmtScore p.1)])
      = (limitSlice ps off cnt).flatMap fun p => [newBulk p.2, newBulk (fmtScore p.1)] := by
  unfold limitEntries limitSlice
  split
  · rfl
  · have hd := drop_pairs (fun p : Int × Bytes => (newBulk p.2, newBulk (fmtScore p.1))) ps off.toNat
    split
    · simpa using hd
    · have ht := take_pairs (fun p : Int × Bytes => (newBulk p.2, newBulk (fmtScore p.1))) (ps.drop off.toNat) cnt.toNat
      simp only at hd ht ⊢
      rw [hd, ht]

/-- **ZREVRANGEBYSCORE**: given the ascending range `sel` from the handler, the reply is the descending range with
LIMIT offset/count counted from the highest score, members in front of their own scores (`LIMIT 0 1` answered with
the lowest member before the repair) -/
theorem C12_zrevrangebyscore_reply (sel : List (Int × Bytes)) (off cnt : Int) (ws : Bool) :
    reverseReplyL off cnt ws (okRes (zMembers ws sel)) = replyP (zMembers ws (limitSlice sel.reverse off cnt)) := by
  cases ws with
  | false =>
    have h1 : (sel.flatMap fun p => [newBulk p.2]) = (sel.map Prod.snd).map newBulk := by
      induction sel with
      | nil => rfl
      | cons p ps ih => simp [ih]
    have h2 : ∀ l : List (Int × Bytes), (l.flatMap fun p => [newBulk p.2]) = (l.map Prod.snd).map newBulk := by
      intro l
      induction l with
      | nil => rfl
      | cons p ps ih => simp [ih]
    simp only [reverseReplyL, okRes, zMembers, Bool.false_eq_true, if_false]
    rw [h1, ← List.map_reverse, ← List.map_reverse, C12_limit_members, h2]
    congr 2
    unfold limitSlice
    split
    · rfl
    · split <;> simp [List.map_drop, List.map_take]
  | true =>
    simp only [reverseReplyL, okRes, zMembers, if_true]
    have := C12_reverse_pairs_even (sel.map fun p => (newBulk p.2, newBulk (fmtScore p.1)))
    simp only [List.flatMap_map] at this
    rw [this, ← List.map_reverse, List.flatMap_map]
    rw [C12_limit_pairs]

/-- the framework asks the handler for the whole range (no LIMIT) with the bounds swapped into (min, max) -/
example : ∃ f, execZRangeByScore (fun _ => some 0) true [.bulk (some b!"z"), .bulk (some b!"(3"), .bulk (some b!"1"),
      .bulk (some b!"LIMIT"), .bulk (some b!"1"), .bulk (some b!"2")]
    = .call (.zrangebyscore b!"z" 0 0 { minex := false, maxex := true, offset := 0, count := -1 }) f := ⟨_, rfl⟩

/-! ## Counters: non-integers and overflow are rejected, nothing is written -/

theorem C12_incr_ok (k v : Bytes) (n d : Int) (st : Store) (hk : st.get k = some (.str v)) (hv : atoi v = some n)
    (hr : inInt64 (n + d) = true) :
    UProg.runH (refHandle sc) (incDec k d) st =
      (some (.reply (newInteger (n + d))), st.put k (.str (itoa (n + d)))) := by
  simp [incDec, UProg.runH, refHandle, hk, okRes, newBulk, msgInt, hv, Option.elim, hr, replyP, okMsg]

theorem C12_incr_missing_key_is_zero (k : Bytes) (d : Int) (st : Store) (hk : st.get k = none) (hr : inInt64 d = true) :
    UProg.runH (refHandle sc) (incDec k d) st = (some (.reply (newInteger d)), st.put k (.str (itoa d))) := by
  simp [incDec, UProg.runH, refHandle, hk, okRes, newNil, hr, replyP, okMsg]

theorem C12_incr_overflow (k v : Bytes) (n d : Int) (st : Store) (hk : st.get k = some (.str v)) (hv : atoi v = some n)
    (hr : inInt64 (n + d) = false) :
    ∃ e, UProg.runH (refHandle sc) (incDec k d) st = (some (.error e), st) := by
  exact ⟨{ text := b!"increment or decrement would overflow" }, by
    simp [incDec, UProg.runH, refHandle, hk, okRes, newBulk, msgInt, hv, Option.elim, hr, failE]⟩

theorem C12_incr_not_an_integer (k v : Bytes) (d : Int) (st : Store) (hk : st.get k = some (.str v)) (hv : atoi v = none) :
    ∃ e, UProg.runH (refHandle sc) (incDec k d) st = (some (.error e), st) := by
  exact ⟨errAtoi, by simp [incDec, UProg.runH, refHandle, hk, okRes, newBulk, msgInt, hv, Option.elim, failE]⟩

example : inInt64 (9223372036854775807 + 1) = false := by decide

/-! ## APPEND, MGET (request order, duplicates kept), CONFIG -/

theorem C12_append (k old v : Bytes) (st : Store) (hk : st.get k = some (.str old)) :
    UProg.runH (refHandle sc) (execAppend [B k, B v]) st =
      (some (.reply (newInteger (old ++ v).length)), st.put k (.str (old ++ v))) := by
  simp [execAppend, withArgs, UProg.runH, refHandle, hk, okRes, newBulk, msgStr, replyP, okMsg]

theorem C12_append_missing_key (k v : Bytes) (st : Store) (hk : st.get k = none) :
    UProg.runH (refHandle sc) (execAppend [B k, B v]) st = (some (.reply (newInteger v.length)), st.put k (.str v)) := by
  simp [execAppend, withArgs, UProg.runH, refHandle, hk, okRes, newNil, msgStr, replyP, okMsg]

/-- what GET answers for a key in a given store -/
def getReply (st : Store) (k : Bytes) : Msg :=
  match st.get k with
  | some (.str v) => newBulk v
  | _ => newNil

theorem callEach_get (ks : List Bytes) (st : Store) (acc : List Msg → UProg Out) :
    UProg.runH (refHandle sc) (callEach HCall.get ks acc) st = UProg.runH (refHandle sc) (acc (ks.map (getReply st))) st := by
  induction ks generalizing acc with
  | nil => rfl
  | cons k ks ih =>
    simp only [callEach, UProg.runH, List.map]
    have : refHandle sc (.get k) st = (okRes (getReply st k), st) := by
      simp only [refHandle, getReply]; split <;> simp_all
    rw [this]
    simp only [okRes]
    exact ih _

/-- MGET: one reply element per requested key, in request order, duplicates included, store untouched -/
theorem C12_mget_order (k : Bytes) (ks : List Bytes) (st : Store) :
    UProg.runH (refHandle sc) (execMGet ((k :: ks).map B)) st =
      (some (.reply (.arr ((k :: ks).map (getReply st)))), st) := by
  have h := nextStrings_B b!"keys" k ks
  simp only [execMGet, withArgs, h]
  rw [callEach_get]
  rfl

theorem configSet_lookup (cfg kvs : List (Bytes × Bytes)) (k : Bytes) :
    (configSet cfg kvs).lookup k = (kvs.reverse.lookup k).or (cfg.lookup k) := by
  induction kvs generalizing cfg with
  | nil => simp [configSet]
  | cons p ps ih =>
    obtain ⟨k', v'⟩ := p
    simp only [configSet, List.reverse_cons]
    rw [ih, List.lookup_append]
    by_cases hk : k = k'
    · subst hk
      cases ps.reverse.lookup k <;> simp [List.lookup]
    · have hne : (k == k') = false := by simp [hk]
      have hf : (List.filter (fun p => p.1 != k') cfg).lookup k = cfg.lookup k := by
        induction cfg with
        | nil => rfl
        | cons q qs ihq =>
          obtain ⟨a, b⟩ := q
          by_cases ha : a = k'
          · subst ha; simp [List.filter, List.lookup, hne, ihq]
          · have : (a != k') = true := by simp [ha]
            simp only [List.filter, this, List.lookup]
            cases k == a <;> simp [ihq]
      cases ps.reverse.lookup k <;> simp [List.lookup, hne, hf]

/-- CONFIG GET returns, in request order, the value last stored with CONFIG SET for each name -/
theorem C12_config_get_after_set (cfg kvs : List (Bytes × Bytes)) (ks : List Bytes) :
    configGetReply (configSet cfg kvs) ks =
      .arr (ks.flatMap fun k => [newBulk k, newBulk (((kvs.reverse.lookup k).or (cfg.lookup k)).getD [])]) := by
  simp [configGetReply, configSet_lookup]

/-! ## Hash, set and sorted-set derivations -/

theorem hkeysOf_pair (f v : Bytes) (rest : List Msg) : hkeysOf (newBulk f :: newBulk v :: rest) = f :: hkeysOf rest := by
  simp [hkeysOf, newBulk, msgStr]

theorem hvalsOf_pair (f v : Bytes) (rest : List Msg) : hvalsOf (newBulk f :: newBulk v :: rest) = v :: hvalsOf rest := by
  simp [hvalsOf, newBulk, msgStr]

/-- HKEYS and HVALS derived from an HGETALL reply: the i-th key and the i-th value are the i-th pair -/
theorem C12_hkeys_hvals (fs : List (Bytes × Bytes)) :
    hkeysOf (fs.flatMap fun p => [newBulk p.1, newBulk p.2]) = fs.map Prod.fst ∧
    hvalsOf (fs.flatMap fun p => [newBulk p.1, newBulk p.2]) = fs.map Prod.snd := by
  induction fs with
  | nil => exact ⟨rfl, rfl⟩
  | cons p ps ih =>
    obtain ⟨f, v⟩ := p
    simp only [List.flatMap_cons, List.cons_append, List.nil_append, List.map]
    rw [hkeysOf_pair, hvalsOf_pair, ih.1, ih.2]
    exact ⟨rfl, rfl⟩

theorem C12_card (ms : List Bytes) : countUntilAbsent (ms.map newBulk) = ms.length := by
  induction ms with
  | nil => rfl
  | cons m ms ih => simp [countUntilAbsent, newBulk] at ih ⊢; exact ih

theorem C12_sismember (m : Bytes) (ms : List Bytes) : isMemberOf m (ms.map newBulk) = ms.contains m := by
  induction ms with
  | nil => rfl
  | cons x xs ih =>
    have hstep : isMemberOf m (newBulk x :: xs.map newBulk) = (if x = m then true else isMemberOf m (xs.map newBulk)) := by
      simp [isMemberOf, newBulk, msgStr]
    simp only [List.map, hstep, ih, List.contains_cons]
    by_cases h : x = m
    · subst h; simp
    · have : (m == x) = false := by simp [Ne.symm h]
      simp [h, this]

/-- PING without argument answers PONG; ECHO answers its argument as a bulk string, whatever its bytes -/
theorem C12_ping_echo (srv : SrvSt) (conn : ConnSt) (a : Bytes) (rest : List Msg) :
    execSystem srv conn b!"PING" [] = some (.reply (newStatus b!"PONG"), conn, srv) ∧
    execSystem srv conn b!"ECHO" (B a :: rest) = some (.reply (newBulk a), conn, srv) := by
  constructor <;> simp [execSystem, nextStringRaw, B, msgStr]

/-! ## MSET / MSETNX: every pair is stored; MSETNX stores all pairs or none -/

/-- the store after setting the pairs one after the other -/
def putAll (st : Store) (kvs : List (Bytes × Bytes)) : Store := kvs.foldl (fun s p => s.put p.1 (.str p.2)) st

theorem putAll_get_other (kvs : List (Bytes × Bytes)) (st : Store) (k : Bytes) (h : ∀ p ∈ kvs, p.1 ≠ k) :
    (putAll st kvs).get k = st.get k := by
  induction kvs generalizing st with
  | nil => rfl
  | cons p ps ih =>
    simp only [putAll, List.foldl] at ih ⊢
    rw [ih _ (fun q hq => h q (by simp [hq]))]
    exact Store.get_put_other st p.1 k _ (fun hk => h p (by simp) hk.symm)

/-- with pairwise distinct keys every pair is readable afterwards -/
theorem putAll_get_mem (kvs : List (Bytes × Bytes)) (st : Store) (hd : (kvs.map Prod.fst).Nodup) (k v : Bytes) (h : (k, v) ∈ kvs) :
    (putAll st kvs).get k = some (.str v) := by
  induction kvs generalizing st with
  | nil => simp at h
  | cons p ps ih =>
    simp only [List.map, List.nodup_cons] at hd
    simp only [putAll, List.foldl]
    rcases List.mem_cons.mp h with rfl | hm
    · have := putAll_get_other ps (st.put k (.str v)) k (fun q hq heq => hd.1 (by
        simp only [List.mem_map]; exact ⟨q, hq, heq⟩))
      simp only [putAll] at this
      rw [this]; exact Store.get_put_same st k _
    · exact ih _ hd.2 hm

theorem callEach_set (kvs : List (Bytes × Bytes)) (st : Store) (acc : List Msg → UProg Out) :
    ∃ ms, UProg.runH (refHandle sc) (callEach (fun (p : Bytes × Bytes) => HCall.set p.1 p.2 {}) kvs acc) st =
      UProg.runH (refHandle sc) (acc ms) (putAll st kvs) := by
  induction kvs generalizing st acc with
  | nil => exact ⟨[], rfl⟩
  | cons p ps ih =>
    obtain ⟨ms, h⟩ := ih (st.put p.1 (.str p.2)) (fun ms => acc (okMsg :: ms))
    refine ⟨okMsg :: ms, ?_⟩
    simp only [callEach, UProg.runH, refHandle, okRes, putAll, List.foldl] at h ⊢
    simpa using h

/-- MSET: answers OK and every pair is stored (pairs in the order the framework walks them) -/
theorem C12_mset (kvs : List (Bytes × Bytes)) (st : Store) :
    UProg.runH (refHandle sc) (callEach (fun (p : Bytes × Bytes) => HCall.set p.1 p.2 {}) kvs fun _ => replyP okMsg) st =
      (some (.reply okMsg), putAll st kvs) := by
  obtain ⟨ms, h⟩ := callEach_set sc kvs st (fun _ => replyP okMsg)
  rw [h]; rfl

/-- MSETNX, some key already holds a string: the reply is 0 and **nothing** is written — not even the pairs in front of
the existing key (the probes run before the first write) -/
theorem C12_msetnx_existing_key (pre post : List (Bytes × Bytes)) (k v old : Bytes) (st : Store) (cont : UProg Out)
    (hpre : ∀ p ∈ pre, st.get p.1 = none) (hk : st.get k = some (.str old)) :
    UProg.runH (refHandle sc) (msetnxProbe (pre ++ (k, v) :: post) cont) st = (some (.reply (newInteger 0)), st) := by
  induction pre with
  | nil => simp [msetnxProbe, UProg.runH, refHandle, hk, okRes, newBulk, replyP]
  | cons p ps ih =>
    obtain ⟨pk, pv⟩ := p
    have h1 : st.get pk = none := hpre (pk, pv) (by simp)
    have := ih (fun q hq => hpre q (by simp [hq]))
    simp only [List.cons_append, msetnxProbe, UProg.runH, refHandle, h1, okRes, newNil]
    exact this

theorem msetnxProbe_all_missing (kvs : List (Bytes × Bytes)) (st : Store) (cont : UProg Out)
    (h : ∀ p ∈ kvs, st.get p.1 = none) :
    UProg.runH (refHandle sc) (msetnxProbe kvs cont) st = UProg.runH (refHandle sc) cont st := by
  induction kvs with
  | nil => rfl
  | cons p ps ih =>
    obtain ⟨pk, pv⟩ := p
    have h1 : st.get pk = none := h (pk, pv) (by simp)
    simp only [msetnxProbe, UProg.runH, refHandle, h1, okRes, newNil]
    exact ih (fun q hq => h q (by simp [hq]))

theorem callEach_setnx (kvs : List (Bytes × Bytes)) (st : Store) (acc : List Msg → UProg Out)
    (hd : (kvs.map Prod.fst).Nodup) (h : ∀ p ∈ kvs, st.get p.1 = none) :
    ∃ ms, UProg.runH (refHandle sc) (callEach (fun (p : Bytes × Bytes) => HCall.set p.1 p.2 { nx := true }) kvs acc) st =
      UProg.runH (refHandle sc) (acc ms) (putAll st kvs) := by
  induction kvs generalizing st acc with
  | nil => exact ⟨[], rfl⟩
  | cons p ps ih =>
    simp only [List.map, List.nodup_cons] at hd
    have h1 : st.get p.1 = none := h p (by simp)
    have hrest : ∀ q ∈ ps, (st.put p.1 (.str p.2)).get q.1 = none := by
      intro q hq
      rw [Store.get_put_other st p.1 q.1 _ (fun heq => hd.1 (by simp only [List.mem_map]; exact ⟨q, hq, heq⟩))]
      exact h q (by simp [hq])
    obtain ⟨ms, hh⟩ := ih (st.put p.1 (.str p.2)) (fun ms => acc (newInteger 1 :: ms)) hd.2 hrest
    refine ⟨newInteger 1 :: ms, ?_⟩
    simp only [callEach, UProg.runH, refHandle, h1, intRes, okRes, putAll, List.foldl] at hh ⊢
    simpa using hh

/-- MSETNX, no key exists: the reply is 1 and every pair is stored -/
theorem C12_msetnx_all_missing (kvs : List (Bytes × Bytes)) (st : Store)
    (hd : (kvs.map Prod.fst).Nodup) (h : ∀ p ∈ kvs, st.get p.1 = none) :
    UProg.runH (refHandle sc) (msetnxProbe kvs <|
        callEach (fun (p : Bytes × Bytes) => HCall.set p.1 p.2 { nx := true }) kvs fun _ => replyP (newInteger 1)) st =
      (some (.reply (newInteger 1)), putAll st kvs) := by
  rw [msetnxProbe_all_missing sc kvs st _ h]
  obtain ⟨ms, hh⟩ := callEach_setnx sc kvs st (fun _ => replyP (newInteger 1)) hd h
  rw [hh]; rfl

/-- the key lists the framework hands to these loops have pairwise distinct keys (a Go map) -/
theorem mapOfPairs_nodup (ps : List (Bytes × Bytes)) : ((mapOfPairs ps).map Prod.fst).Nodup := by
  induction ps with
  | nil => simp [mapOfPairs]
  | cons p ps ih =>
    obtain ⟨k, v⟩ := p
    simp only [mapOfPairs]
    split
    · rename_i v' _
      simp only [List.map, List.nodup_cons, List.mem_map, not_exists, not_and]
      refine ⟨fun q hq heq => ?_, ?_⟩
      · simp [List.mem_filter] at hq; exact hq.2 heq
      · exact List.Nodup.sublist (List.Sublist.map _ (List.filter_sublist)) ih
    · rename_i hnone
      simp only [List.map, List.nodup_cons, List.mem_map, not_exists, not_and]
      refine ⟨fun q hq heq => ?_, ih⟩
      have : (mapOfPairs ps).lookup k ≠ none := by
        rw [← heq]
        intro hl
        have := List.lookup_eq_none_iff.mp hl q hq
        simp at this
      exact this hnone

/-! ## The sugar commands that nest another command: STRLEN, SUBSTR, HEXISTS, HSTRLEN, HLEN -/

theorem execUser_get (pf : FloatOracle) (srv : SrvSt) (conn : ConnSt) (hh : srv.hasHandler = true) (args : List Msg) :
    execUser pf srv conn b!"GET" args = some (gated conn b!"GET" (shapeS .get args).lift) := by
  have hu : upper b!"GET" = b!"GET" := by decide
  simp [execUser, hu, userTable, List.lookup, hh]

theorem execUser_hget (pf : FloatOracle) (srv : SrvSt) (conn : ConnSt) (hh : srv.hasHandler = true) (args : List Msg) :
    execUser pf srv conn b!"HGET" args = some (gated conn b!"HGET" (shapeSS .hget args).lift) := by
  have hu : upper b!"HGET" = b!"HGET" := by decide
  simp [execUser, hu, userTable, List.lookup, hh]

/-- STRLEN: the length of the stored string; 0 for a key that does not exist; the store is untouched -/
theorem C12_strlen (pf : FloatOracle) (srv : SrvSt) (conn : ConnSt) (hh : srv.hasHandler = true) (ha : conn.authorized = true)
    (k : Bytes) (st : Store) :
    (Prog.runH conn (refHandle sc) (execStrLen pf srv conn [B k]) st).2 =
      (some (.reply (newInteger (match st.get k with | some (.str v) => v.length | _ => 0))), st) := by
  simp only [execStrLen, nestedCall, execUser_get pf srv conn hh, gated, ha]
  simp only [shapeS, withArgs, nextString_B, callRet, UProg.lift, Prog.andFinish, Prog.bind, Prog.runH, refHandle]
  cases hg : st.get k with
  | none => simp [Prog.bind, Prog.runH, refHandle, hg, okRes, newNil, outOf, msgStr, nreply]
  | some v => cases v <;> simp [Prog.bind, Prog.runH, refHandle, hg, okRes, newNil, newBulk, outOf, msgStr, nreply]

/-- HEXISTS: 1 iff the hash has the field -/
theorem C12_hexists_hstrlen (pf : FloatOracle) (srv : SrvSt) (conn : ConnSt) (hh : srv.hasHandler = true) (ha : conn.authorized = true)
    (h f : Bytes) (st : Store) (r : HRes) (st' : Store) (hr : refHandle sc (.hget h f) st = (r, st')) (he : r.err = none)
    (hm : r.msg = newNil ∨ ∃ v, r.msg = newBulk v) :
    (Prog.runH conn (refHandle sc) (execHExists pf srv conn [B h, B f]) st).2 =
      (some (.reply (newInteger (match r.msg with | .bulk none => 0 | _ => 1))), st') ∧
    (Prog.runH conn (refHandle sc) (execHStrLen pf srv conn [B h, B f]) st).2 =
      (some (.reply (newInteger (match r.msg with | .bulk (some v) => v.length | _ => 0))), st') := by
  constructor
  · simp only [execHExists, nestedCall, execUser_hget pf srv conn hh, gated, ha]
    simp only [shapeSS, withArgs, nextString_B, callRet, UProg.lift, Prog.andFinish, Prog.bind, Prog.runH, hr]
    rcases hm with hm | ⟨v, hm⟩ <;> simp [Prog.bind, Prog.runH, hr, outOf, he, hm, newNil, newBulk, msgStr, nreply]
  · simp only [execHStrLen, nestedCall, execUser_hget pf srv conn hh, gated, ha]
    simp only [shapeSS, withArgs, nextString_B, callRet, UProg.lift, Prog.andFinish, Prog.bind, Prog.runH, hr]
    rcases hm with hm | ⟨v, hm⟩ <;> simp [Prog.bind, Prog.runH, hr, outOf, he, hm, newNil, newBulk, msgStr, nreply]

/-- SUBSTR is GETRANGE (the same executor is run on the same arguments) -/
theorem C12_substr_is_getrange (pf : FloatOracle) (srv : SrvSt) (conn : ConnSt) (args : List Msg) :
    ∃ ex, nested1 pf srv conn b!"SUBSTR" = some ex ∧ ex args = nestedCall pf srv conn b!"GETRANGE" args .ret := by
  exact ⟨fun args => nestedCall pf srv conn b!"GETRANGE" args .ret, by simp [nested1], rfl⟩

/-! ## The code as translated from the current source (regenerated on every run)

`Generated/Translated.lean` is written by `bin/extract` from `redis/sugar_commander.go`: the statements of the GETRANGE
executor from `strLen := len(getVal)` on, the addition and overflow test of `incdecExecutor`, the guard of DECRBY –
statement for statement, with Go's wrapping `int` arithmetic and panicking slice expressions.  The theorems say that this
code computes what the model's executors (`getRange`, `incDec`, `execIncDecBy`) compute, for every value and all 64-bit
arguments; the `C12_getrange_*`, `C12_incr_*` theorems above are therefore statements about the source as it is now. -/

/-- GETRANGE: the source's index arithmetic and slice expression return Redis' range, never panic, for every value and
all 64-bit indexes -/
theorem C12_source_getrange (v : Bytes) (s e : Int) (hl : (v.length : Int) ≤ 9223372036854775807)
    (hs : inInt64 s = true) (he : inInt64 e = true) :
    Translated.getrangeWindow v s e = .ok (getRange v s e) := Translated.getrange_eq v s e hl hs he

/-- INCR / DECR / INCRBY / DECRBY: the source detects overflow by looking at the wrapped sum; that test is exact – the new
value is stored iff the mathematical sum is a 64-bit integer -/
theorem C12_source_counter_overflow (c d : Int) (hc : inInt64 c = true) (hd : inInt64 d = true) :
    Translated.incdecNewValue c d =
      if inInt64 (c + d) = true then .ok (c + d) else .err "increment or decrement would overflow" :=
  Translated.incdec_eq c d hc hd

/-- DECRBY: the one decrement that cannot be negated is refused, every other one is negated exactly -/
theorem C12_source_decrby_guard (d : Int) (hd : inInt64 d = true) :
    Translated.decrbyGuard d = if d = -9223372036854775808 then .err "decrement would overflow" else .ok (-d) :=
  Translated.decrby_eq d hd

/-- non-vacuity: border values through the translated code -/
example : Translated.incdecNewValue 9223372036854775807 1 = .err "increment or decrement would overflow" ∧
    Translated.incdecNewValue (-9223372036854775808) (-1) = .err "increment or decrement would overflow" ∧
    Translated.incdecNewValue 9223372036854775806 1 = .ok 9223372036854775807 ∧
    Translated.getrangeWindow b!"hello" 0 (-6) = .ok b!"h" ∧
    Translated.getrangeWindow b!"hello" (-9223372036854775808) 9223372036854775807 = .ok b!"hello" ∧
    Translated.getrangeWindow b!"" 0 0 = .ok b!"" := by decide +kernel

/-- ZREVRANGE: the window handed to the handler's ZRange is `(-stop-1, -start-1)` – the arguments of that call as
translated from the current source -/
theorem C12_source_zrevrange_window (start stop : Int) :
    Translated.zrevrangeWindow start stop = (-stop - 1, -start - 1) := Translated.zrevrangeWindow_eq start stop

/-! ## ZREVRANGE / ZREVRANGEBYSCORE: the reply loops as they are written

`Model/ReverseBy` transcribes `(*Array).ReverseBy` (two index loops and a final append) and the LIMIT loop of the
ZREVRANGEBYSCORE executor (entry = n / step, `continue` before the offset, `break` behind the count) loop for loop;
`Model/Exec` describes the same replies by `List.reverse`, `reversePairs` and `limitEntries`, and the theorems
`C12_zrevrange_slice`, `C12_zrevrangebyscore_reply` above are stated over those.  The loops compute exactly them. -/

/-- ZREVRANGE without scores: `ReverseBy(1)` is the reversal – for every reply, without running out of fuel or range -/
theorem C12_ex_reverseBy_one (es : List Msg) : Ex.reverseBy es 1 = some es.reverse := by
  rw [Ex.reverseBy_eq]; simp [Ex.revTail_one]

/-- WITHSCORES: `ReverseBy(2)` reverses the order of the member/score pairs and keeps each pair as it is; a reply of odd
length keeps its leading element behind the pairs (the case that used to index out of range) -/
theorem C12_ex_reverseBy_two (es : List Msg) : Ex.reverseBy es 2 = some (reversePairs es) := by
  rw [Ex.reverseBy_eq]; simp [Ex.revTail_two]

/-- ZREVRANGEBYSCORE … LIMIT offset count: the loop over the reversed reply selects `limitEntries` – skip `offset` entries,
keep `count` (all when negative), nothing for a negative offset – for all 64-bit offsets and counts, with and without scores -/
theorem C12_ex_limit_loop (step : Nat) (hs : step = 1 ∨ step = 2) (offset count : Int) (es : List Msg) :
    Ex.limitReversed step offset count es = limitEntries step offset count es := Ex.limitReversed_eq step hs offset count es

/-- ZREVRANGEBYSCORE end to end on the handler's reply `es`: `ReverseBy(step)` followed by the LIMIT loop is what
`reverseReplyL` of `Model/Exec` puts into the reply -/
theorem C12_ex_zrevrangebyscore_loops (es : List Msg) (offset count : Int) (withscores : Bool) :
    (Ex.reverseBy es (if withscores then 2 else 1)).map (Ex.limitReversed (if withscores then 2 else 1) offset count) =
      some (if withscores then limitEntries 2 offset count (reversePairs es) else limitEntries 1 offset count es.reverse) := by
  cases withscores
  · simp only [Bool.false_eq_true, if_false]
    have h := Ex.reverseBy_eq es 1
    simp only [show ¬ ((1 : Int) < 1) by omega, if_false, show (1 : Int).toNat = 1 by rfl] at h
    rw [h, Ex.revTail_one _ _ (by omega)]
    simp [Ex.limitReversed_eq 1 (Or.inl rfl)]
  · simp only [if_true]
    have h := Ex.reverseBy_eq es 2
    simp only [show ¬ ((2 : Int) < 1) by omega, if_false, show (2 : Int).toNat = 2 by rfl] at h
    rw [h, Ex.revTail_two _ _ (by omega)]
    simp [Ex.limitReversed_eq 2 (Or.inr rfl)]
/-- the source of these loops is the one that was transcribed (regenerated on every run) -/
theorem C12_source_reply_loops_are_the_modelled_ones :
    Ex.reverseByModelled.all (fun e => Generated.protoFingerprints.contains (e.1, e.2.1)) = true := by decide

example : Ex.reverseBy [10, 1, 20, 2, 30] 2 = some [2, 30, 1, 20, 10] ∧ Ex.reverseBy [1, 2, 3] 0 = some [3, 2, 1] ∧
    Ex.limitReversed 2 1 9223372036854775807 [10, 1, 20, 2] = [20, 2] ∧ Ex.limitReversed 1 (-1) 5 [1, 2] = [] := by
  decide +kernel

end GoRedis
