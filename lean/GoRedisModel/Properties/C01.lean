import GoRedisModel.Model.ParserImpl
import GoRedisModel.Generated.Facts
import GoRedisModel.Proofs.Parse
import GoRedisModel.Model.Ctor
import GoRedisModel.Proofs.SourceFacts
/-! # C01 — RESP values survive encode/decode unchanged; bulk payloads are binary-safe

Only the property theorems and their non-vacuity examples live here; helper lemmas are in `Proofs/`. -/
namespace GoRedis

/-- Serializing any canonical RESP2 value tree and parsing the bytes back yields the same tree, with any
trailing bytes left untouched — for every tree (any arity, any nesting) and any fuel above its depth. -/
theorem C01_parse_enc (m : Msg) (hw : wf m) (f : Nat) (hf : depth m < f) (rest : Bytes) :
    parse f (enc m ++ rest) = .ok m rest :=
  parse_enc m hw f hf rest

/-- Canonical bytes are a fixed point of parse ∘ serialize. -/
theorem C01_reencode (m : Msg) (hw : wf m) (f : Nat) (hf : depth m < f) :
    ∃ m', parse f (enc m) = .ok m' [] ∧ enc m' = enc m := by
  refine ⟨m, ?_, rfl⟩
  have := parse_enc m hw f hf []
  simpa using this

/-- Bulk payloads are binary-safe: no condition on the payload's bytes at all (only its length bound). -/
theorem C01_bulk_binary_safe (p : Bytes) (hl : p.length ≤ maxBulk) (f : Nat) (rest : Bytes) :
    parse (f + 1) (enc (.bulk (some p)) ++ rest) = .ok (.bulk (some p)) rest :=
  parse_enc (.bulk (some p)) (by simpa [wf] using hl) (f + 1) (by simp [depth]) rest

/-- The length prefix is the decimal payload length. -/
theorem C01_len_prefix (p : Bytes) :
    enc (.bulk (some p)) = bulkByte :: dec p.length ++ CRLF ++ p ++ CRLF := rfl

theorem C01_null_bulk (f : Nat) (rest : Bytes) :
    parse (f + 1) (enc (.bulk none) ++ rest) = .ok (.bulk none) rest :=
  parse_enc (.bulk none) (by simp [wf]) (f + 1) (by simp [depth]) rest

theorem itoa_no_crlf (i : Int) : CR ∉ itoa i ∧ LF ∉ itoa i := by
  cases i with
  | ofNat n => exact ⟨dec_no_cr n, dec_no_lf n⟩
  | negSucc n =>
    constructor
    · intro h; simp [itoa] at h
      rcases h with h | h
      · exact absurd h (by decide)
      · exact dec_no_cr _ h
    · intro h; simp [itoa] at h
      rcases h with h | h
      · exact absurd h (by decide)
      · exact dec_no_lf _ h

/-- `NewIntegerMessage(n)` decodes back to `n` for every 64-bit `n`. -/
theorem C01_ctor_int (i : Int) (h : inInt64 i = true) (f : Nat) (rest : Bytes) :
    ∃ m, parse (f + 1) (enc (newInteger i) ++ rest) = .ok m rest ∧ msgInteger m = some i := by
  refine ⟨newInteger i, ?_, ?_⟩
  · exact parse_enc _ (by simpa [newInteger, wf] using itoa_no_crlf i) (f + 1) (by simp [newInteger, depth]) rest
  · simpa [newInteger, msgInteger] using atoi_itoa i h

theorem C01_ctor_status (p : Bytes) (h1 : CR ∉ p) (h2 : LF ∉ p) (f : Nat) (rest : Bytes) :
    parse (f + 1) (enc (newStatus p) ++ rest) = .ok (.line .str p) rest :=
  parse_enc _ (by simp [newStatus, wf, h1, h2]) (f + 1) (by simp [newStatus, depth]) rest

theorem C01_ctor_error (p : Bytes) (h1 : CR ∉ p) (h2 : LF ∉ p) (f : Nat) (rest : Bytes) :
    parse (f + 1) (enc (newError p) ++ rest) = .ok (.line .err p) rest :=
  parse_enc _ (by simp [newError, wf, h1, h2]) (f + 1) (by simp [newError, depth]) rest

theorem C01_ctor_ok (f : Nat) (rest : Bytes) :
    parse (f + 1) (enc okMsg ++ rest) = .ok (.line .str b!"OK") rest :=
  parse_enc _ (by simp [okMsg, wf, CR, LF]) (f + 1) (by simp [okMsg, depth]) rest

theorem C01_ctor_bulk (p : Bytes) (hl : p.length ≤ maxBulk) (f : Nat) (rest : Bytes) :
    parse (f + 1) (enc (newBulk p) ++ rest) = .ok (.bulk (some p)) rest :=
  C01_bulk_binary_safe p hl f rest

theorem C01_ctor_nil (f : Nat) (rest : Bytes) :
    parse (f + 1) (enc newNil ++ rest) = .ok (.bulk none) rest := C01_null_bulk f rest

theorem wfs_map_newBulk (ss : List Bytes) (h : ∀ s ∈ ss, s.length ≤ maxBulk) : wfs (ss.map newBulk) := by
  induction ss with
  | nil => simp [wfs]
  | cons s ss ih =>
    simp only [List.map, wfs, newBulk, wf]
    exact ⟨h s (by simp), ih (fun t ht => h t (by simp [ht]))⟩

theorem depths_map_newBulk (ss : List Bytes) : depths (ss.map newBulk) = 0 := by
  induction ss with
  | nil => rfl
  | cons s ss ih => simp [depths, newBulk, depth, ih]

/-- `NewStringArrayMessage(strs)` decodes back to the same strings, in order, whatever bytes they hold. -/
theorem C01_ctor_string_array (ss : List Bytes) (h : ∀ s ∈ ss, s.length ≤ maxBulk) (hn : ss.length ≤ maxInt)
    (f : Nat) (rest : Bytes) :
    parse (f + 2) (enc (stringArray ss) ++ rest) = .ok (.arr (ss.map newBulk)) rest :=
  parse_enc _ (by simpa [stringArray, wf] using ⟨hn, wfs_map_newBulk ss h⟩) (f + 2)
    (by simp [stringArray, depth, depths_map_newBulk]) rest

/-- `NewFloatMessage`: stated for an abstract formatter/parser pair under the `strconv` contract
(shortest formatting parses back to the same value); the framing around the text is the model's. -/
theorem C01_ctor_float {F : Type} (ff : F → Bytes) (pf : Bytes → Option F)
    (law : ∀ x, pf (ff x) = some x) (hlen : ∀ x, (ff x).length ≤ maxBulk) (x : F) (f : Nat) (rest : Bytes) :
    ∃ m, parse (f + 1) (enc (newFloat ff x) ++ rest) = .ok m rest ∧ (msgString m).bind pf = some x := by
  refine ⟨.bulk (some (ff x)), C01_bulk_binary_safe _ (hlen x) f rest, ?_⟩
  simp [msgString, law]

/-! ## Non-vacuity: concrete non-trivial values meet the hypotheses -/

/-- a depth-3 tree whose bulk payload contains `\r\n$-1\r\n` and a forged `+OK` -/
def sampleTree : Msg :=
  .arr [.bulk (some b!"a\r\n$-1\r\n+OK\r\n"), .arr [.arr [.line .int b!"-12", .bulk none], .line .err b!"ERR x"], .arr []]

example : wf sampleTree ∧ depth sampleTree < 4 := by
  refine ⟨?_, by decide⟩
  simp [sampleTree, wf, wfs, CR, LF, maxInt, maxBulk]

example : parse 4 (enc sampleTree ++ b!"rest") = .ok sampleTree b!"rest" :=
  C01_parse_enc sampleTree (by simp [sampleTree, wf, wfs, CR, LF, maxInt, maxBulk]) 4 (by decide) _

example : inInt64 (-9223372036854775808) = true ∧ inInt64 9223372036854775807 = true := by decide

/-- the RESP type bytes of the current source are the model's (regenerated on every run) -/
theorem C01_source_type_bytes :
    Generated.typeBytes = [("arrayMessageByte", "*"), ("bulkMessageByte", "$"), ("errorMessageByte", "-"),
    ("integerMessageByte", ":"), ("stringMessageByte", "+")] := source_type_bytes_match_model

/-- **The serializer source is the one that was transcribed** (regenerated on every run): `Message.RESPBytes` and
`Array.RESPBytes` have the fingerprints `enc` was written from -/
theorem C01_source_serializer_is_the_modelled_one :
    serializerModelled.all (fun e => Generated.protoFingerprints.contains (e.1, e.2.1)) = true := by decide

end GoRedis
