import GoRedisModel.Proofs.Chunked
import GoRedisModel.Proofs.Parse
/-! The parser does not read ahead: reading a well-formed value from a transport whose next segments are
`later` leaves `later` untouched – no read is issued to the transport beyond the bytes of the value itself.
(`Reader.frame r later` is `r` with further segments behind it; a read on an exhausted `r` would be the
blocking read that waits for the client's next request.) -/
namespace GoRedis

def Reader.frame (r : Reader) (later : List Bytes) : Reader := ⟨r.chunks ++ later⟩

theorem dropEmpty_append (cs later : List Bytes) (h : cs.flatten ≠ []) :
    dropEmpty (cs ++ later) = dropEmpty cs ++ later := by
  induction cs with
  | nil => simp at h
  | cons c cs ih =>
    cases c with
    | nil =>
      simp only [List.flatten_cons, List.nil_append] at h
      simp only [List.cons_append, dropEmpty]
      exact ih h
    | cons x xs => simp [dropEmpty]

/-- a read on a reader that still has bytes does not touch what lies behind it -/
theorem read_frame (r : Reader) (later : List Bytes) (n : Nat) (h : r.rest ≠ []) :
    (r.frame later).read n = ((r.read n).1, (r.read n).2.frame later) := by
  unfold Reader.read Reader.frame
  simp only
  rw [dropEmpty_append r.chunks later h]
  have hne : dropEmpty r.chunks ≠ [] := by
    intro h0
    have := dropEmpty_flatten r.chunks
    rw [h0] at this
    exact h (by simpa [Reader.rest] using this.symm)
  match hd : dropEmpty r.chunks with
  | [] => exact absurd hd hne
  | c :: cs => simp

theorem lineLoop_frame (k : Nat) (r : Reader) (acc : Bytes) (later : List Bytes) (a : Bytes) (b : UInt8) (c : Bytes)
    (hr : r.rest = a ++ CR :: b :: c) (ha : CR ∉ a) (hk : a.length < k) :
    lineLoop k (r.frame later) acc = ((lineLoop k r acc).1, (lineLoop k r acc).2.frame later) := by
  induction k generalizing r acc a with
  | zero => omega
  | succ k ih =>
    have hne : r.rest ≠ [] := by rw [hr]; simp
    unfold lineLoop
    rw [read_frame r later 1 hne]
    rcases read_one r with ⟨h0, _⟩ | ⟨b0, t, hr0, h1, h2⟩
    · exact absurd h0 hne
    · match hrd : r.read 1 with
      | (bs, r') =>
        rw [hrd] at h1 h2
        simp only at h1 h2
        subst h1
        simp only
        cases a with
        | nil =>
          simp only [List.nil_append] at hr
          rw [hr] at hr0
          simp only [List.cons.injEq] at hr0
          obtain ⟨hb, ht⟩ := hr0
          subst hb
          have hne' : r'.rest ≠ [] := by rw [h2, ← ht]; simp
          simp only [beq_self_eq_true, if_true]
          rw [read_frame r' later 1 hne']
        | cons x a' =>
          simp only [List.cons_append] at hr
          rw [hr] at hr0
          simp only [List.cons.injEq] at hr0
          obtain ⟨hb, ht⟩ := hr0
          subst hb
          have hx : x ≠ CR := by intro e; exact ha (by simp [e])
          have hxb : (x == CR) = false := by simpa using hx
          simp only [hxb, Bool.false_eq_true, if_false]
          exact ih r' (acc ++ [x]) a' (by rw [h2, ← ht]) (by intro hm; exact ha (by simp [hm])) (by simp at hk; omega)

theorem lenLoop_frame (k : Nat) (r : Reader) (need : Nat) (acc : Bytes) (later : List Bytes) (h : need ≤ r.rest.length) :
    lenLoop k (r.frame later) need acc = ((lenLoop k r need acc).1, (lenLoop k r need acc).2.frame later) := by
  induction k generalizing r need acc with
  | zero => simp [lenLoop]
  | succ k ih =>
    unfold lenLoop
    by_cases h0 : need = 0
    · simp [h0]
    · simp only [h0, if_false]
      have hne : r.rest ≠ [] := by intro e; rw [e] at h; simp at h; exact h0 h
      rw [read_frame r later need hne]
      have ha := read_append r need
      have hn := read_nil_iff r need (by omega)
      match hrd : r.read need with
      | ([], r') =>
        exfalso
        have h2 : (r.read need).1 = [] := by rw [hrd]
        exact hne (hn.mp h2)
      | (b :: bs, r') =>
        simp only
        rw [hrd] at ha
        simp only at ha
        refine ih r' (need - (b :: bs).length) (acc ++ b :: bs) ?_
        have : r.rest.length = (b :: bs).length + r'.rest.length := by rw [← ha]; simp; omega
        omega


/-- the statement for one value: the unframed read returns `v` and leaves `tail`, and the framed read does the
same and leaves the frame untouched -/
def FrameOK (f : Nat) : Prop :=
  ∀ (v : Msg) (r : Reader) (tail : Bytes) (later : List Bytes), wf v → r.rest = enc v ++ tail → r.rest.length < f → depth v < f →
    ∃ r', inext f r = .ok v r' ∧ r'.rest = tail ∧ inext f (r.frame later) = .ok v (r'.frame later)

theorem ielems_frame (f : Nat) (ih : FrameOK f) (es : List Msg) (hw : wfs es) (r : Reader) (tail : Bytes)
    (later : List Bytes) (acc : List Msg) (hr : r.rest = encs es ++ tail) (hf : r.rest.length < f ∨ es = [])
    (hd : depths es < f ∨ es = []) :
    ∃ r', ielems (inext f) es.length r acc = .ok (.arr (acc.reverse ++ es)) r' ∧ r'.rest = tail ∧
      ielems (inext f) es.length (r.frame later) acc = .ok (.arr (acc.reverse ++ es)) (r'.frame later) := by
  induction es generalizing r acc with
  | nil => exact ⟨r, by simp [ielems], by simpa [encs] using hr, by simp [ielems]⟩
  | cons e es ihe =>
    simp only [wfs] at hw
    have hf' : r.rest.length < f := by rcases hf with h | h; exact h; simp at h
    have hd' : depths (e :: es) < f := by rcases hd with h | h; exact h; simp at h
    simp only [depths] at hd'
    obtain ⟨r1, h1, h2, h3⟩ := ih e r (encs es ++ tail) later hw.1 (by simpa [encs] using hr) hf' (by omega)
    have hlen : r1.rest.length < f := by
      rw [h2]; rw [hr] at hf'; simp [encs] at hf'; simp; omega
    obtain ⟨r2, g1, g2, g3⟩ := ihe hw.2 r1 (e :: acc) h2 (Or.inl hlen) (Or.inl (by omega))
    refine ⟨r2, ?_, g2, ?_⟩
    · simp only [List.length_cons, ielems, h1]
      rw [g1]; simp
    · simp only [List.length_cons, ielems, h3]
      rw [g3]; simp

theorem inext_frame (f : Nat) : FrameOK f := by
  induction f with
  | zero => intro v r tail later _ _ h; omega
  | succ f ih =>
    intro v r tail later hw hr hf hd
    have hne : r.rest ≠ [] := by
      rw [hr]
      match v, hw with
      | .line _ _, _ => simp [enc]
      | .bulk none, _ => simp [enc]
      | .bulk (some _), _ => simp [enc]
      | .arr _, _ => simp [enc]
      | .absent, h => simp [wf] at h
      | .arrNil, h => simp [wf] at h
    rcases read_one r with ⟨h0, _⟩ | ⟨t, rest1, hr0, h1, h2⟩
    · exact absurd h0 hne
    · have hrd : r.read 1 = ([t], (r.read 1).2) := by rw [← h1]
      have hrdF : (r.frame later).read 1 = ([t], (r.read 1).2.frame later) := by rw [read_frame r later 1 hne, h1]
      generalize hr1 : (r.read 1).2 = r1 at hrd hrdF h2
      have hl1 : r1.rest.length < f + 1 := by rw [h2]; rw [hr0] at hf; simp at hf; omega
      match v with
      | .line ty p =>
        simp only [wf] at hw
        have ⟨e1, e2, e3⟩ := lineTy_byte ty
        have hrest : r1.rest = p ++ CR :: LF :: tail := by
          rw [h2]; rw [hr] at hr0; simp [enc, sanitize_id p hw.1 hw.2, CRLF] at hr0; exact hr0.2.symm
        have ht : t = ty.byte := by rw [hr] at hr0; simp [enc] at hr0; exact hr0.1.symm
        subst ht
        have hsp := lineLoop_spec (f+1) r1 [] hl1
        rw [hrest, takeLine_append p tail hw.1] at hsp
        have hfr := lineLoop_frame (f+1) r1 [] later p LF tail hrest hw.1 (by rw [hrest] at hl1; simp at hl1; omega)
        refine ⟨(lineLoop (f+1) r1 []).2, ?_, hsp.2, ?_⟩
        · unfold inext; rw [hrd]; simp [e1, e2, e3, hsp.1]
        · unfold inext; rw [hrdF]; simp [e1, e2, e3, hfr, hsp.1]
      | .bulk none =>
        have hrest : r1.rest = [45, 49] ++ CR :: LF :: tail := by
          rw [h2]; rw [hr] at hr0; simp [enc, CRLF] at hr0; simp [← hr0.2, CR, LF]
        have ht : t = bulkByte := by rw [hr] at hr0; simp [enc] at hr0; exact hr0.1.symm
        subst ht
        have hsp := lineLoop_spec (f+1) r1 [] hl1
        rw [hrest, takeLine_append [45, 49] tail (by decide)] at hsp
        have hfr := lineLoop_frame (f+1) r1 [] later [45, 49] LF tail hrest (by decide) (by rw [hrest] at hl1; simp at hl1 ⊢; omega)
        have hat : atoi [45, 49] = some (-1) := by decide
        refine ⟨(lineLoop (f+1) r1 []).2, ?_, hsp.2, ?_⟩
        · unfold inext; rw [hrd]; simp [bulkByte, arrayByte, hsp.1, hat]
        · unfold inext; rw [hrdF]; simp [bulkByte, arrayByte, hfr, hsp.1, hat]
      | .bulk (some p) =>
        simp only [wf] at hw
        have hmi : p.length ≤ maxInt := Nat.le_trans hw maxBulk_le_maxInt
        have hrest : r1.rest = dec p.length ++ CR :: LF :: (p ++ CR :: LF :: tail) := by
          rw [h2]; rw [hr] at hr0; simp [enc, CRLF] at hr0; simp [← hr0.2]
        have ht : t = bulkByte := by rw [hr] at hr0; simp [enc] at hr0; exact hr0.1.symm
        subst ht
        have hsp := lineLoop_spec (f+1) r1 [] hl1
        rw [hrest, takeLine_append (dec p.length) _ (dec_no_cr _)] at hsp
        have hfr := lineLoop_frame (f+1) r1 [] later (dec p.length) LF (p ++ CR :: LF :: tail) hrest (dec_no_cr _)
          (by rw [hrest] at hl1; simp at hl1; omega)
        generalize hr2 : (lineLoop (f+1) r1 []).2 = r2 at hsp hfr
        generalize hln : (lineLoop (f+1) r1 []).1 = ln at hsp hfr
        have hlnv : ln = dec p.length := by simpa using hsp.1
        have hneed : p.length + 2 ≤ r2.rest.length := by rw [hsp.2]; simp
        have hls := lenLoop_spec (p.length + 2) r2 (p.length + 2) [] (Nat.le_refl _)
        have hlf := lenLoop_frame (p.length + 2) r2 (p.length + 2) [] later hneed
        rw [hsp.2] at hls
        have hbuf : (lenLoop (p.length + 2) r2 (p.length + 2) []).1 = p ++ [CR, LF] := by
          rw [hls.1]
          have e : p ++ CR :: LF :: tail = (p ++ [CR, LF]) ++ tail := by simp
          rw [e, List.take_append_of_le_length (by simp)]
          simp [List.take_of_length_le]
        have hrem : (lenLoop (p.length + 2) r2 (p.length + 2) []).2.rest = tail := by
          rw [hls.2]
          have e : p ++ CR :: LF :: tail = (p ++ [CR, LF]) ++ tail := by simp
          rw [e, List.drop_append_of_le_length (by simp)]
          simp
        have hneg : ¬ ((p.length : Int) < 0) := by omega
        have hb : ¬ (p.length > maxBulk) := by omega
        have hal : ¬ (p.length + 2 > maxAlloc) := by have := maxBulk_lt_maxAlloc; omega
        have hlp : (lineLoop (f+1) r1 []) = (ln, r2) := by rw [← hln, ← hr2]
        have hlpF : lineLoop (f+1) (r1.frame later) [] = (ln, r2.frame later) := by rw [hfr]
        refine ⟨(lenLoop (p.length + 2) r2 (p.length + 2) []).2, ?_, hrem, ?_⟩
        · unfold inext; rw [hrd]
          simp only [bulkByte, arrayByte, hlp, hlnv, atoi_dec _ hmi]
          simp [hneg, hb, hal, hbuf, CRLF]
        · unfold inext; rw [hrdF]
          simp only [bulkByte, arrayByte, hlpF, hlnv, atoi_dec _ hmi]
          simp [hneg, hb, hal, hlf, hbuf, CRLF]
      | .arr es =>
        simp only [wf] at hw
        simp only [depth] at hd
        have hrest : r1.rest = dec es.length ++ CR :: LF :: (encs es ++ tail) := by
          rw [h2]; rw [hr] at hr0; simp [enc, CRLF] at hr0; simp [← hr0.2]
        have ht : t = arrayByte := by rw [hr] at hr0; simp [enc] at hr0; exact hr0.1.symm
        subst ht
        have hsp := lineLoop_spec (f+1) r1 [] hl1
        rw [hrest, takeLine_append (dec es.length) _ (dec_no_cr _)] at hsp
        have hfr := lineLoop_frame (f+1) r1 [] later (dec es.length) LF (encs es ++ tail) hrest (dec_no_cr _)
          (by rw [hrest] at hl1; simp at hl1; omega)
        generalize hr2 : (lineLoop (f+1) r1 []).2 = r2 at hsp hfr
        generalize hln : (lineLoop (f+1) r1 []).1 = ln at hsp hfr
        have hlnv : ln = dec es.length := by simpa using hsp.1
        have hlp : (lineLoop (f+1) r1 []) = (ln, r2) := by rw [← hln, ← hr2]
        have hlpF : lineLoop (f+1) (r1.frame later) [] = (ln, r2.frame later) := by rw [hfr]
        have hl2 : r2.rest.length < f ∨ es = [] := by
          left; rw [hsp.2]; rw [hrest] at hl1; simp at hl1 ⊢; have := dec_ne_nil es.length
          have : 0 < (dec es.length).length := by cases h : dec es.length with | nil => exact absurd h this | cons _ _ => simp
          omega
        obtain ⟨r3, g1, g2, g3⟩ := ielems_frame f ih es hw.2 r2 tail later [] hsp.2 hl2 (Or.inl (by omega))
        have hneg : ¬ ((es.length : Int) < 0) := by omega
        refine ⟨r3, ?_, g2, ?_⟩
        · unfold inext; rw [hrd]
          simp only [arrayByte, hlp, hlnv, atoi_dec _ hw.1]
          simpa [hneg] using g1
        · unfold inext; rw [hrdF]
          simp only [arrayByte, hlpF, hlnv, atoi_dec _ hw.1]
          simpa [hneg] using g3
      | .absent => simp [wf] at hw
      | .arrNil => simp [wf] at hw

end GoRedis
