import GoRedisModel.Proofs.Auth
namespace GoRedis

theorem post_mono {α : Type} (P Q : α → Prop) (p : Prog α) (h : Post P p) (hpq : ∀ a, P a → Q a) : Post Q p := by
  induction h with
  | ret a ha => exact .ret a (hpq a ha)
  | panic => exact .panic
  | emit s k _ ih => exact .emit s k ih
  | call c k _ ih => exact .call c k ih

theorem handleArray_gateStep (pf : FloatOracle) (srv : SrvSt) (conn : ConnSt) (pw : Bytes) (hpw : srv.authPw = some pw)
    (f : Nat) (es : List Msg) :
    Post (GateStep pw srv conn (∃ cmd args, dispatchedOf f es = some (cmd, args) ∧ IsExactAuth pw cmd args))
      (handleArray pf srv conn f es) := by
  induction f generalizing es with
  | zero => unfold handleArray; exact .ret _ (gateStep_same pw srv conn _ _)
  | succ f ih =>
    cases es with
    | nil => simp only [handleArray]; exact .ret _ (gateStep_same pw srv conn _ _)
    | cons first rest =>
      cases first with
      | absent => simp only [handleArray]; exact .ret _ (gateStep_same pw srv conn _ _)
      | arr es' => simp only [handleArray, dispatchedOf]; exact ih es'
      | arrNil => simp only [handleArray]; exact .panic
      | line t p =>
        have hok : ∀ cmd, Post (GateStep pw srv conn (∃ c a, some (cmd, rest) = some (c, a) ∧ IsExactAuth pw c a))
            (executeCommand pf srv conn cmd rest) := by
          intro cmd
          refine post_mono _ _ _ (executeCommand_gateStep pf srv conn cmd rest pw hpw) ?_
          intro a ha
          exact ⟨ha.authPw, ha.certAuth, ha.handler, fun h => (ha.gain h).imp id (fun hx => ⟨cmd, rest, rfl, hx⟩), ha.keep⟩
        cases t with
        | str => simp only [handleArray, dispatchedOf, msgStr]; exact hok p
        | err => simp only [handleArray, dispatchedOf, msgStr]; exact .ret _ (gateStep_same pw srv conn _ _)
        | int => simp only [handleArray, dispatchedOf, msgStr]; exact .ret _ (gateStep_same pw srv conn _ _)
      | bulk p =>
        have hok : ∀ cmd, Post (GateStep pw srv conn (∃ c a, some (cmd, rest) = some (c, a) ∧ IsExactAuth pw c a))
            (executeCommand pf srv conn cmd rest) := by
          intro cmd
          refine post_mono _ _ _ (executeCommand_gateStep pf srv conn cmd rest pw hpw) ?_
          intro a ha
          exact ⟨ha.authPw, ha.certAuth, ha.handler, fun h => (ha.gain h).imp id (fun hx => ⟨cmd, rest, rfl, hx⟩), ha.keep⟩
        cases p with
        | some b => simp only [handleArray, dispatchedOf, msgStr]; exact hok b
        | none => simp only [handleArray, dispatchedOf, msgStr]; exact .ret _ (gateStep_same pw srv conn _ _)

theorem handleMessage_gateStep (pf : FloatOracle) (srv : SrvSt) (conn : ConnSt) (pw : Bytes) (hpw : srv.authPw = some pw)
    (m : Msg) : Post (GateStep pw srv conn (ExactAuthReq pw m)) (handleMessage pf srv conn m) := by
  unfold handleMessage
  split
  · rename_i es
    exact handleArray_gateStep pf srv conn pw hpw _ es
  · exact .ret _ (gateStep_same pw srv conn _ _)

/-- what one request does to the gate-relevant state of its connection and of the server -/
theorem reqStep_gateStep (pf : FloatOracle) (srv : SrvSt) (conn : ConnSt) (pw : Bytes) (hpw : srv.authPw = some pw)
    (m : Msg) (script : List HRes) (c' : ConnSt) (s' : SrvSt)
    (h : (reqStep pf srv conn m script).next = some (c', s')) :
    s'.authPw = srv.authPw ∧ s'.certAuth = srv.certAuth ∧ s'.hasHandler = srv.hasHandler ∧
    (c'.authorized = true → conn.authorized = true ∨ ExactAuthReq pw m) ∧
    (conn.authorized = true → c'.authorized = true) := by
  have hpost := handleMessage_gateStep pf srv conn pw hpw m
  have hrun := post_run _ _ hpost conn script
  unfold reqStep at h
  generalize (handleMessage pf srv conn m).run conn script = rr at h hrun
  obtain ⟨evs, res, script'⟩ := rr
  simp only at h hrun
  cases res with
  | none => simp at h
  | some t =>
    obtain ⟨out, c2, s2⟩ := t
    have := hrun (out, c2, s2) rfl
    simp only at h
    cases hrb : replyBytes out with
    | none => rw [hrb] at h; simp at h
    | some b =>
      rw [hrb] at h
      simp only at h
      split at h
      · simp at h
      · simp at h
        obtain ⟨rfl, rfl⟩ := h
        exact ⟨this.authPw, this.certAuth, this.handler, this.gain, this.keep⟩

/-- handler calls happen only on authorized connections -/
theorem reqStep_calls_need_authorization (pf : FloatOracle) (srv : SrvSt) (conn : ConnSt) (m : Msg) (script : List HRes)
    (e : Ev) (he : e ∈ (reqStep pf srv conn m script).evs) (hc : e.isCall = true) : conn.authorized = true := by
  cases hu : conn.authorized with
  | true => rfl
  | false =>
    have hno := noCall_run _ (handleMessage_unauthorized_noCall pf srv conn m hu) conn script
    unfold reqStep at he
    generalize (handleMessage pf srv conn m).run conn script = rr at he hno
    obtain ⟨evs, res, script'⟩ := rr
    simp only at he hno
    have key : ∀ extra : List Ev, (∀ x ∈ extra, x.isCall = false) → e ∈ evs ++ extra → False := by
      intro extra hex hmem
      simp at hmem
      rcases hmem with hmem | hmem
      · have := hno e hmem; rw [this] at hc; exact absurd hc (by decide)
      · have := hex e hmem; rw [this] at hc; exact absurd hc (by decide)
    cases res with
    | none => exact (key [.crash] (by simp [Ev.isCall]) he).elim
    | some t =>
      obtain ⟨out, c2, s2⟩ := t
      simp only at he
      cases hrb : replyBytes out with
      | none => rw [hrb] at he; exact (key _ (by simp [Ev.isCall]) he).elim
      | some b => rw [hrb] at he; exact (key _ (by simp [Ev.isCall]) he).elim

/-! ## Several connections served by one server, in any interleaving of their requests -/

/-- the server-wide state, the state of every connection (`none` = the connection has ended), and the
handler's future answers -/
structure Sys where
  srv : SrvSt
  conns : List (Option ConnSt)
  script : List HRes

/-- connection `i` has its next request `m` processed (nothing happens on a connection that has ended) -/
def Sys.step (pf : FloatOracle) (s : Sys) (i : Nat) (m : Msg) : Sys × List Ev :=
  match s.conns[i]? with
  | some (some c) =>
    let r := reqStep pf s.srv c m s.script
    match r.next with
    | none => ({ s with conns := s.conns.set i none, script := r.script }, r.evs)
    | some (c', srv') => ({ srv := srv', conns := s.conns.set i (some c'), script := r.script }, r.evs)
  | _ => (s, [])

/-- a schedule: which connection's request is processed next, for every global interleaving -/
def Sys.run (pf : FloatOracle) : Sys → List (Nat × Msg) → Sys × List (Nat × Ev)
  | s, [] => (s, [])
  | s, (i, m) :: rest =>
    let (s1, evs) := s.step pf i m
    let (s2, evs2) := Sys.run pf s1 rest
    (s2, evs.map (fun e => (i, e)) ++ evs2)

/-- a step on connection `i` leaves every other connection's state exactly as it was -/
theorem Sys.step_frame (pf : FloatOracle) (s : Sys) (i j : Nat) (m : Msg) (hij : i ≠ j) :
    (s.step pf i m).1.conns[j]? = s.conns[j]? := by
  unfold Sys.step
  split
  · rename_i c hci
    simp only
    cases hn : (reqStep pf s.srv c m s.script).next with
    | none => simp [hij]
    | some p => simp [hij]
  · rfl

/-- the events of one step on connection `j` are those of `reqStep` on that connection's own state -/
theorem Sys.step_events (pf : FloatOracle) (s : Sys) (j : Nat) (m : Msg) (e : Ev) (he : e ∈ (s.step pf j m).2) :
    ∃ c, s.conns[j]? = some (some c) ∧ e ∈ (reqStep pf s.srv c m s.script).evs := by
  unfold Sys.step at he
  split at he
  · rename_i c hc
    simp only at he
    refine ⟨c, hc, ?_⟩
    cases hn : (reqStep pf s.srv c m s.script).next with
    | none => rw [hn] at he; exact he
    | some p => rw [hn] at he; exact he
  · simp at he

/-- the invariant behind the password gate, over the history `hist` of requests processed so far -/
structure GateInv (pw : Bytes) (s : Sys) (hist : List (Nat × Msg)) : Prop where
  authPw : s.srv.authPw = some pw
  seen : ∀ i c, s.conns[i]? = some (some c) → c.authorized = true → ∃ m, (i, m) ∈ hist ∧ ExactAuthReq pw m

theorem GateInv.step (pf : FloatOracle) (pw : Bytes) (s : Sys) (hist : List (Nat × Msg)) (h : GateInv pw s hist)
    (i : Nat) (m : Msg) : GateInv pw (s.step pf i m).1 (hist ++ [(i, m)]) := by
  have hmono : ∀ j c, s.conns[j]? = some (some c) → c.authorized = true →
      ∃ m', (j, m') ∈ hist ++ [(i, m)] ∧ ExactAuthReq pw m' := by
    intro j c hj hc
    obtain ⟨m', hm', hx⟩ := h.seen j c hj hc
    exact ⟨m', by simp [hm'], hx⟩
  unfold Sys.step
  split
  · rename_i c hci
    simp only
    have hlt : i < s.conns.length := by
      rcases Nat.lt_or_ge i s.conns.length with hl | hl
      · exact hl
      · simp [List.getElem?_eq_none hl] at hci
    cases hn : (reqStep pf s.srv c m s.script).next with
    | none =>
      refine ⟨h.authPw, ?_⟩
      intro j cj hj hcj
      simp only at hj
      by_cases hij : i = j
      · subst hij; simp [hlt] at hj
      · simp [hij] at hj; exact hmono j cj hj hcj
    | some p =>
      obtain ⟨c', srv'⟩ := p
      have hg := reqStep_gateStep pf s.srv c pw h.authPw m s.script c' srv' hn
      refine ⟨by simp only; rw [hg.1]; exact h.authPw, ?_⟩
      intro j cj hj hcj
      simp only at hj
      by_cases hij : i = j
      · subst hij
        simp [hlt] at hj
        subst hj
        rcases hg.2.2.2.1 hcj with hold | hex
        · exact hmono i c hci hold
        · exact ⟨m, by simp, hex⟩
      · simp [hij] at hj
        exact hmono j cj hj hcj
  · exact ⟨h.authPw, hmono⟩

end GoRedis
