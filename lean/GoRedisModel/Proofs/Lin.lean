import GoRedisModel.Model.Lin
/-! The checker decides linearizability (sound and complete), and executions in which every operation takes
effect atomically between its invocation and its response are linearizable. -/
namespace GoRedis.Lin

variable {S C R : Type} [DecidableEq C] [DecidableEq R]

theorem check_sound (step : S → C → R × S) (f : Nat) (s : S) (pending : List (Op C R))
    (h : check step f s pending = true) : Linearizable step s pending := by
  induction f generalizing s pending with
  | zero =>
    cases pending with
    | nil => exact ⟨[], List.Perm.refl _, List.Pairwise.nil, rfl⟩
    | cons a as => simp [check] at h
  | succ f ih =>
    cases pending with
    | nil => exact ⟨[], List.Perm.refl _, List.Pairwise.nil, rfl⟩
    | cons a as =>
      simp only [check, List.any_eq_true, Bool.and_eq_true] at h
      obtain ⟨o, ho, ⟨hmin, hout⟩, hrec⟩ := h
      obtain ⟨l, hperm, hrt, hrep⟩ := ih _ _ hrec
      refine ⟨o :: l, ?_, ?_, ?_⟩
      · exact (List.Perm.cons o hperm).trans (List.perm_cons_erase ho).symm
      · refine List.Pairwise.cons ?_ hrt
        intro b hb
        have hb' : b ∈ a :: as := List.mem_of_mem_erase (hperm.subset hb)
        simp only [minimal, List.all_eq_true] at hmin
        simpa using hmin b hb'
      · simp [replayOk, hout, hrep]

theorem check_complete (step : S → C → R × S) (s : S) (pending : List (Op C R))
    (hwf : ∀ o ∈ pending, o.inv ≤ o.res)
    (h : Linearizable step s pending) : ∀ f, pending.length ≤ f → check step f s pending = true := by
  obtain ⟨l, hperm, hrt, hrep⟩ := h
  induction l generalizing s pending with
  | nil =>
    intro f _
    have : pending = [] := List.Perm.eq_nil (hperm.symm)
    subst this; cases f <;> rfl
  | cons o l ih =>
    intro f hf
    have hlen : pending.length = l.length + 1 := by simpa using hperm.length_eq.symm
    cases f with
    | zero => omega
    | succ f =>
      have hoin : o ∈ pending := hperm.subset (by simp)
      cases pending with
      | nil => simp at hoin
      | cons a as =>
        simp only [check, List.any_eq_true, Bool.and_eq_true]
        refine ⟨o, hoin, ⟨?_, ?_⟩, ?_⟩
        · simp only [minimal, List.all_eq_true]
          intro p hp
          have hp' : p ∈ o :: l := hperm.symm.subset hp
          have hcons := List.pairwise_cons.mp hrt
          simp at hp'
          rcases hp' with rfl | hp'
          · have := hwf p hoin; simp; omega
          · simpa using hcons.1 p hp'
        · simp [replayOk] at hrep; simpa using hrep.1
        · have hperm' : l.Perm ((a :: as).erase o) :=
            List.Perm.cons_inv ((hperm.trans (List.perm_cons_erase hoin)))
          apply ih (step s o.cmd).2 ((a :: as).erase o)
          · intro q hq; exact hwf q (List.mem_of_mem_erase hq)
          · exact hperm'
          · exact (List.pairwise_cons.mp hrt).2
          · simp [replayOk] at hrep; exact hrep.2
          · have := List.length_erase_of_mem hoin; simp at this hf ⊢; omega

/-- the checker *decides* linearizability of well-formed histories -/
theorem check_iff (step : S → C → R × S) (s : S) (h : List (Op C R)) (hwf : ∀ o ∈ h, o.inv ≤ o.res) :
    check step h.length s h = true ↔ Linearizable step s h :=
  ⟨check_sound step _ s h, fun hl => check_complete step s h hwf hl _ (Nat.le_refl _)⟩

/-! ## Atomic execution ⇒ linearizable

`ex o` is the instant at which operation `o` takes effect (for the server: while its connection holds the dispatch
lock).  If the instants are distinct and lie between invocation and response, and every output is what the
specification yields when the operations are applied in the order of their instants, the history is
linearizable – for any number of clients and operations. -/

/-- operations paired with their effect instants, in the order of those instants -/
def AtomicRun (step : S → C → R × S) (s0 : S) (l : List (Op C R × Nat)) : Prop :=
  l.Pairwise (fun a b => a.2 < b.2) ∧ (∀ p ∈ l, p.1.inv < p.2 ∧ p.2 < p.1.res) ∧ replayOk step s0 (l.map Prod.fst) = true

omit [DecidableEq C] in
theorem atomic_linearizable (step : S → C → R × S) (s0 : S) (l : List (Op C R × Nat)) (h : List (Op C R))
    (hrun : AtomicRun step s0 l) (hperm : (l.map Prod.fst).Perm h) : Linearizable step s0 h := by
  obtain ⟨hord, hbetween, hrep⟩ := hrun
  refine ⟨l.map Prod.fst, hperm, ?_, hrep⟩
  unfold RespectsRT
  rw [List.pairwise_map]
  refine List.Pairwise.imp_of_mem ?_ hord
  intro a b ha hb hab hres
  have h1 := hbetween a ha
  have h2 := hbetween b hb
  omega

/-! ## The server as a transition system: invoke / take effect under the dispatch lock / respond

Any number of clients; a schedule is any list of actions (an action that is not enabled changes nothing).  `exec c`
is the critical section of the dispatch mutex: the whole command is applied to the store in one step. -/

inductive Act (C : Type) where
  | inv (c : Nat) (cmd : C)
  | exec (c : Nat)
  | res (c : Nat)

inductive CSt (C : Type) where
  | idle
  | invoked (t : Nat) (cmd : C)
  | executed (tex : Nat)

structure XOp (C R : Type) where
  client : Nat
  inv : Nat
  ex : Nat
  cmd : C
  out : R

structure Sys (S C R : Type) where
  time : Nat
  store : S
  cl : Nat → CSt C
  execd : List (XOp C R)
  resOf : Nat → Option Nat

def Sys.init (s0 : S) : Sys S C R := { time := 1, store := s0, cl := fun _ => .idle, execd := [], resOf := fun _ => none }

def Sys.step (step : S → C → R × S) (s : Sys S C R) : Act C → Sys S C R
  | .inv c cmd =>
    match s.cl c with
    | .idle => { s with time := s.time + 1, cl := fun c' => if c' = c then .invoked s.time cmd else s.cl c' }
    | _ => s
  | .exec c =>
    match s.cl c with
    | .invoked ti cmd =>
      { s with time := s.time + 1, store := (step s.store cmd).2,
               execd := s.execd ++ [{ client := c, inv := ti, ex := s.time, cmd := cmd, out := (step s.store cmd).1 }],
               cl := fun c' => if c' = c then .executed s.time else s.cl c' }
    | _ => s
  | .res c =>
    match s.cl c with
    | .executed tex =>
      { s with time := s.time + 1, resOf := fun t => if t = tex then some s.time else s.resOf t,
               cl := fun c' => if c' = c then .idle else s.cl c' }
    | _ => s

def Sys.run (step : S → C → R × S) (s : Sys S C R) (sched : List (Act C)) : Sys S C R := sched.foldl (Sys.step step) s

/-- the history a state stands for: every operation that has taken effect, with its response time (an operation
whose reply is still on its way is completed "now") -/
def Sys.toOp (s : Sys S C R) (x : XOp C R) : Op C R :=
  { client := x.client, inv := x.inv, res := (s.resOf x.ex).getD s.time, cmd := x.cmd, out := x.out }

def Sys.history (s : Sys S C R) : List (Op C R) := s.execd.map s.toOp

/-- replaying the executed operations in order from `s0` gives the recorded outputs and ends in `sf` -/
def ReplayX (step : S → C → R × S) : S → List (XOp C R) → S → Prop
  | s, [], sf => s = sf
  | s, x :: xs, sf => (step s x.cmd).1 = x.out ∧ ReplayX step (step s x.cmd).2 xs sf

omit [DecidableEq C] [DecidableEq R] in
theorem replayX_append (step : S → C → R × S) (s : S) (xs : List (XOp C R)) (sm : S) (x : XOp C R)
    (h : ReplayX step s xs sm) (hx : (step sm x.cmd).1 = x.out) : ReplayX step s (xs ++ [x]) (step sm x.cmd).2 := by
  induction xs generalizing s with
  | nil => simp only [ReplayX] at h; subst h; exact ⟨hx, rfl⟩
  | cons y ys ih => exact ⟨h.1, ih _ h.2⟩

structure SysInv (step : S → C → R × S) (s0 : S) (s : Sys S C R) : Prop where
  replay : ReplayX step s0 s.execd s.store
  order : s.execd.Pairwise (fun a b => a.ex < b.ex)
  bounds : ∀ x ∈ s.execd, x.inv < x.ex ∧ x.ex < s.time
  resp : ∀ t r, s.resOf t = some r → t < r ∧ r < s.time
  invoked : ∀ c ti cmd, s.cl c = .invoked ti cmd → ti < s.time
  executed : ∀ c tex, s.cl c = .executed tex → tex < s.time

omit [DecidableEq C] [DecidableEq R] in
theorem sysInv_init (step : S → C → R × S) (s0 : S) : SysInv step s0 (Sys.init s0 : Sys S C R) :=
  { replay := rfl, order := List.Pairwise.nil, bounds := by intro x hx; simp [Sys.init] at hx,
    resp := by intro t r h; simp [Sys.init] at h, invoked := by intro c ti cmd h; simp [Sys.init] at h,
    executed := by intro c tex h; simp [Sys.init] at h }

omit [DecidableEq C] [DecidableEq R] in
theorem sysInv_step (step : S → C → R × S) (s0 : S) (s : Sys S C R) (a : Act C) (h : SysInv step s0 s) :
    SysInv step s0 (s.step step a) := by
  cases a with
  | inv c cmd =>
    simp only [Sys.step]
    cases hc : s.cl c with
    | idle =>
      refine { replay := h.replay, order := h.order, bounds := ?_, resp := ?_, invoked := ?_, executed := ?_ }
      · intro x hx; have := h.bounds x hx; exact ⟨this.1, by simp only; omega⟩
      · intro t r hr; have := h.resp t r hr; exact ⟨this.1, by simp only; omega⟩
      · intro c' ti cmd' hcl
        simp only at hcl
        by_cases hcc : c' = c
        · simp [hcc] at hcl; simp only; omega
        · simp [hcc] at hcl; have := h.invoked c' ti cmd' hcl; simp only; omega
      · intro c' tex hcl
        simp only at hcl
        by_cases hcc : c' = c
        · simp [hcc] at hcl
        · simp [hcc] at hcl; have := h.executed c' tex hcl; simp only; omega
    | invoked t cmd' => exact h
    | executed t => exact h
  | exec c =>
    simp only [Sys.step]
    cases hc : s.cl c with
    | idle => exact h
    | executed t => exact h
    | invoked ti cmd =>
      have hti := h.invoked c ti cmd hc
      refine { replay := ?_, order := ?_, bounds := ?_, resp := ?_, invoked := ?_, executed := ?_ }
      · exact replayX_append step s0 s.execd s.store ⟨c, ti, s.time, cmd, (step s.store cmd).1⟩ h.replay rfl
      · refine List.pairwise_append.mpr ⟨h.order, List.pairwise_singleton _ _, ?_⟩
        intro a ha b hb
        simp at hb; subst hb
        exact (h.bounds a ha).2
      · intro x hx
        simp only [List.mem_append, List.mem_singleton] at hx
        rcases hx with hx | rfl
        · have := h.bounds x hx; exact ⟨this.1, by simp only; omega⟩
        · exact ⟨hti, by simp only; omega⟩
      · intro t r hr; have := h.resp t r hr; exact ⟨this.1, by simp only; omega⟩
      · intro c' ti' cmd' hcl
        simp only at hcl
        by_cases hcc : c' = c
        · simp [hcc] at hcl
        · simp [hcc] at hcl; have := h.invoked c' ti' cmd' hcl; simp only; omega
      · intro c' tex hcl
        simp only at hcl
        by_cases hcc : c' = c
        · simp [hcc] at hcl; simp only; omega
        · simp [hcc] at hcl; have := h.executed c' tex hcl; simp only; omega
  | res c =>
    simp only [Sys.step]
    cases hc : s.cl c with
    | idle => exact h
    | invoked t cmd' => exact h
    | executed tex =>
      have htex := h.executed c tex hc
      refine { replay := h.replay, order := h.order, bounds := ?_, resp := ?_, invoked := ?_, executed := ?_ }
      · intro x hx; have := h.bounds x hx; exact ⟨this.1, by simp only; omega⟩
      · intro t r hr
        simp only at hr
        by_cases ht : t = tex
        · simp [ht] at hr; subst hr; subst ht; exact ⟨htex, by simp only; omega⟩
        · simp [ht] at hr; have := h.resp t r hr; exact ⟨this.1, by simp only; omega⟩
      · intro c' ti' cmd' hcl
        simp only at hcl
        by_cases hcc : c' = c
        · simp [hcc] at hcl
        · simp [hcc] at hcl; have := h.invoked c' ti' cmd' hcl; simp only; omega
      · intro c' tex' hcl
        simp only at hcl
        by_cases hcc : c' = c
        · simp [hcc] at hcl
        · simp [hcc] at hcl; have := h.executed c' tex' hcl; simp only; omega

omit [DecidableEq C] [DecidableEq R] in
theorem sysInv_run (step : S → C → R × S) (s0 : S) (s : Sys S C R) (sched : List (Act C)) (h : SysInv step s0 s) :
    SysInv step s0 (s.run step sched) := by
  induction sched generalizing s with
  | nil => exact h
  | cons a as ih => exact ih _ (sysInv_step step s0 s a h)

omit [DecidableEq C] [DecidableEq R] in
theorem replayOk_of_replayX (step : S → C → R × S) [DecidableEq R] (f : XOp C R → Op C R) (hf : ∀ x, (f x).cmd = x.cmd ∧ (f x).out = x.out)
    (s : S) (xs : List (XOp C R)) (sf : S) (h : ReplayX step s xs sf) : replayOk step s (xs.map f) = true := by
  induction xs generalizing s with
  | nil => rfl
  | cons x xs ih =>
    simp only [List.map_cons, replayOk, Bool.and_eq_true, beq_iff_eq]
    rw [(hf x).1, (hf x).2]
    exact ⟨h.1, ih _ h.2⟩

/-- **Every schedule of the serialized server yields a linearizable history** – any number of clients, any
commands, any interleaving of invocations, critical sections and responses. -/
theorem sys_linearizable (step : S → C → R × S) (s0 : S) (sched : List (Act C)) :
    Linearizable step s0 ((Sys.init s0 : Sys S C R).run step sched).history := by
  let s := (Sys.init s0 : Sys S C R).run step sched
  have hI : SysInv step s0 s := sysInv_run step s0 _ sched (sysInv_init step s0)
  refine atomic_linearizable step s0 (s.execd.map fun x => (s.toOp x, x.ex)) _ ⟨?_, ?_, ?_⟩ (by simp [Sys.history, List.map_map, Function.comp_def]; exact List.Perm.refl _)
  · rw [List.pairwise_map]; exact hI.order
  · intro p hp
    simp only [List.mem_map] at hp
    obtain ⟨x, hx, rfl⟩ := hp
    have hb := hI.bounds x hx
    refine ⟨hb.1, ?_⟩
    simp only [Sys.toOp]
    cases hr : s.resOf x.ex with
    | none => simpa using hb.2
    | some r => simpa using (hI.resp _ _ hr).1
  · simp only [List.map_map, Function.comp_def]
    exact replayOk_of_replayX step s.toOp (fun x => ⟨rfl, rfl⟩) s0 s.execd s.store hI.replay

end GoRedis.Lin
