import GoRedisModel.Proofs.Interleave
namespace GoRedis

/-- the parts of the server state that a connection's own state evolution can depend on -/
def SrvSt.sameAuth (a b : SrvSt) : Prop :=
  a.authPw = b.authPw ∧ a.certAuth = b.certAuth ∧ a.hasHandler = b.hasHandler

/-- the connection state after one dispatched command (when the executor returns): only the six system
commands can change it, and only on an authorized connection or through AUTH -/
def connAfterCmd (srv : SrvSt) (conn : ConnSt) (cmd : Bytes) (args : List Msg) : ConnSt :=
  if !srv.hasHandler then conn else
  match execSystem srv conn (upper cmd) args with
  | some (_, c', _) => if !conn.authorized && upper cmd != b!"AUTH" then conn else c'
  | none => conn

/-- the connection state after one request value -/
def connStep (srv : SrvSt) (conn : ConnSt) (m : Msg) : ConnSt :=
  match dispatched m with
  | none => conn
  | some (cmd, args) => connAfterCmd srv conn cmd args

/-- a system command changes nothing of the server state but the configuration table -/
theorem execSystem_static (srv : SrvSt) (conn : ConnSt) (u : Bytes) (args : List Msg) (o : Out) (c' : ConnSt) (s' : SrvSt)
    (h : execSystem srv conn u args = some (o, c', s')) : s'.sameAuth srv := by
  have same : srv.sameAuth srv := ⟨rfl, rfl, rfl⟩
  unfold execSystem at h
  split at h
  · simp at h
    split at h
    · simp at h; obtain ⟨_, _, rfl⟩ := h; exact same
    · split at h <;> (simp at h; obtain ⟨_, _, rfl⟩ := h; exact same)
  · split at h
    · simp at h
      split at h
      · simp at h; obtain ⟨_, _, rfl⟩ := h; exact same
      · simp at h; obtain ⟨_, _, rfl⟩ := h; exact same
      · split at h
        · simp at h; obtain ⟨_, _, rfl⟩ := h; exact same
        · split at h <;> (simp at h; obtain ⟨_, _, rfl⟩ := h; exact same)
    · split at h
      · simp at h
        split at h <;> (simp at h; obtain ⟨_, _, rfl⟩ := h; exact same)
      · split at h
        · simp at h
          split at h <;> (simp at h; obtain ⟨_, _, rfl⟩ := h; exact same)
        · split at h
          · simp at h; obtain ⟨_, _, rfl⟩ := h; exact same
          · split at h
            · simp at h
              split at h
              · simp at h; obtain ⟨_, _, rfl⟩ := h; exact same
              · split at h
                · split at h
                  · simp at h; obtain ⟨_, _, rfl⟩ := h; exact same
                  · simp at h; obtain ⟨_, _, rfl⟩ := h; exact ⟨rfl, rfl, rfl⟩
                · split at h
                  · split at h <;> (simp at h; obtain ⟨_, _, rfl⟩ := h; exact same)
                  · simp at h; obtain ⟨_, _, rfl⟩ := h; exact same
            · simp at h

/-- what one request does to its connection's state and to the auth-relevant server state -/
structure ConnStepRel (srv : SrvSt) (expected : ConnSt) (x : Out × ConnSt × SrvSt) : Prop where
  conn : x.2.1 = expected
  srv : x.2.2.sameAuth srv

theorem executeCommand_connStep (pf : FloatOracle) (srv : SrvSt) (conn : ConnSt) (cmd : Bytes) (args : List Msg) :
    Post (ConnStepRel srv (connAfterCmd srv conn cmd args)) (executeCommand pf srv conn cmd args) := by
  cases hh : srv.hasHandler with
  | false =>
    simp only [executeCommand, connAfterCmd, hh, Bool.not_false, if_true]
    exact .ret _ ⟨rfl, rfl, rfl, rfl⟩
  | true =>
    simp only [executeCommand, connAfterCmd, hh, Bool.not_true, Bool.false_eq_true, if_false]
    have same : ∀ o, Post (ConnStepRel srv conn) (Prog.ret (o, conn, srv)) := fun o => .ret _ ⟨rfl, rfl, rfl, rfl⟩
    cases hsys : execSystem srv conn (upper cmd) args with
    | some x =>
      obtain ⟨o, c', s'⟩ := x
      simp only
      apply Post.emit
      split
      · exact .emit _ _ (.ret _ ⟨rfl, rfl, rfl, rfl⟩)
      · exact .emit _ _ (.ret _ ⟨rfl, execSystem_static srv conn _ args o c' s' hsys⟩)
    | none =>
      simp only
      split
      · exact post_bind _ _ _ same
      · split
        · exact post_bind _ _ _ same
        · split
          · exact post_bind _ _ _ same
          · split
            · exact post_bind _ _ _ same
            · exact same _

theorem handleArray_connStep (pf : FloatOracle) (srv : SrvSt) (conn : ConnSt) (f : Nat) (es : List Msg) :
    Post (ConnStepRel srv (match dispatchedOf f es with | none => conn | some (cmd, args) => connAfterCmd srv conn cmd args))
      (handleArray pf srv conn f es) := by
  have same : ∀ o, Post (ConnStepRel srv conn) (Prog.ret (o, conn, srv)) := fun o => .ret _ ⟨rfl, rfl, rfl, rfl⟩
  induction f generalizing es with
  | zero => unfold handleArray; simp only [dispatchedOf]; exact same _
  | succ f ih =>
    cases es with
    | nil => simp only [handleArray, dispatchedOf]; exact same _
    | cons first rest =>
      cases first with
      | absent => simp only [handleArray, dispatchedOf]; exact same _
      | arr es' => simp only [handleArray, dispatchedOf]; exact ih es'
      | arrNil => simp only [handleArray]; exact .panic
      | line t p =>
        cases t with
        | str => simp only [handleArray, dispatchedOf, msgStr]; exact executeCommand_connStep pf srv conn p rest
        | err => simp only [handleArray, dispatchedOf, msgStr]; exact same _
        | int => simp only [handleArray, dispatchedOf, msgStr]; exact same _
      | bulk p =>
        cases p with
        | some b => simp only [handleArray, dispatchedOf, msgStr]; exact executeCommand_connStep pf srv conn b rest
        | none => simp only [handleArray, dispatchedOf, msgStr]; exact same _

theorem handleMessage_connStep (pf : FloatOracle) (srv : SrvSt) (conn : ConnSt) (m : Msg) :
    Post (ConnStepRel srv (connStep srv conn m)) (handleMessage pf srv conn m) := by
  cases m with
  | arr es => simp only [handleMessage, connStep, dispatched]; exact handleArray_connStep pf srv conn _ es
  | line t p => simp only [handleMessage, connStep, dispatched]; exact .ret _ ⟨rfl, rfl, rfl, rfl⟩
  | bulk p => simp only [handleMessage, connStep, dispatched]; exact .ret _ ⟨rfl, rfl, rfl, rfl⟩
  | absent => simp only [handleMessage, connStep, dispatched]; exact .ret _ ⟨rfl, rfl, rfl, rfl⟩
  | arrNil => simp only [handleMessage, connStep, dispatched]; exact .ret _ ⟨rfl, rfl, rfl, rfl⟩

/-- **What a request leaves behind**: if the loop goes on after request `m`, the connection's state is
`connStep` of its previous state — a function of that connection's own state, the request, and the server's
static authentication settings; neither the handler's answers nor the configuration table nor anything
another connection did enters. -/
theorem reqStep_connStep (pf : FloatOracle) (srv : SrvSt) (conn : ConnSt) (m : Msg) (script : List HRes)
    (c' : ConnSt) (s' : SrvSt) (h : (reqStep pf srv conn m script).next = some (c', s')) :
    c' = connStep srv conn m ∧ s'.sameAuth srv := by
  have hrun := post_run _ _ (handleMessage_connStep pf srv conn m) conn script
  unfold reqStep at h
  generalize (handleMessage pf srv conn m).run conn script = rr at h hrun
  obtain ⟨evs, res, script'⟩ := rr
  simp only at h hrun
  cases res with
  | none => simp at h
  | some t =>
    obtain ⟨out, c2, s2⟩ := t
    have := hrun (out, c2, s2) rfl
    simp only at h
    cases hrb : replyBytes out with
    | none => rw [hrb] at h; simp at h
    | some b =>
      rw [hrb] at h
      simp only at h
      split at h
      · simp at h
      · simp at h
        obtain ⟨rfl, rfl⟩ := h
        exact ⟨this.conn, this.srv⟩

theorem execSystem_conn_static (a b : SrvSt) (conn : ConnSt) (u : Bytes) (args : List Msg) (h : a.sameAuth b) :
    (execSystem a conn u args).map (fun x => x.2.1) = (execSystem b conn u args).map (fun x => x.2.1) := by
  obtain ⟨h1, h2, _⟩ := h
  have hauth : ∀ c, authenticate a c = authenticate b c := by intro c; simp [authenticate, h1, h2]
  unfold execSystem
  split
  · simp only [Option.map]
    split
    · rfl
    · simp only [hauth]; split <;> rfl
  · split
    · simp only [Option.map]; split <;> (try rfl); split <;> (try rfl); split <;> rfl
    · split
      · simp only [Option.map]; split <;> rfl
      · split
        · simp only [Option.map]; split <;> rfl
        · split
          · rfl
          · split
            · simp only [Option.map]
              split
              · rfl
              · split
                · split <;> rfl
                · split
                  · split <;> rfl
                  · rfl
            · rfl

/-- the connection-state step depends on the server only through its static authentication settings -/
theorem connStep_static (a b : SrvSt) (conn : ConnSt) (m : Msg) (h : a.sameAuth b) :
    connStep a conn m = connStep b conn m := by
  unfold connStep
  split
  · rfl
  · rename_i cmd args _
    unfold connAfterCmd
    have h3 := h.2.2
    have := execSystem_conn_static a b conn (upper cmd) args h
    rw [h3]
    split
    · rfl
    · cases ha : execSystem a conn (upper cmd) args with
      | none => rw [ha] at this; cases hb : execSystem b conn (upper cmd) args with
        | none => rfl
        | some y => rw [hb] at this; simp at this
      | some x =>
        rw [ha] at this
        cases hb : execSystem b conn (upper cmd) args with
        | none => rw [hb] at this; simp at this
        | some y =>
          rw [hb] at this
          simp at this
          obtain ⟨o1, c1, s1⟩ := x
          obtain ⟨o2, c2, s2⟩ := y
          simp only at this ⊢
          rw [this]

end GoRedis
