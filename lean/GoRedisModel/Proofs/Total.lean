import GoRedisModel.Proofs.Chunked
namespace GoRedis

theorem parseElems_no_fuel (p : Bytes → PRes) (f : Nat)
    (hp : ∀ r m r', p r = .ok m r' → r'.length < r.length)
    (hf : ∀ r, r.length < f → p r ≠ .fuel)
    (n : Nat) (r : Bytes) (acc : List Msg) (hr : r.length < f) :
    parseElems p n r acc ≠ .fuel := by
  induction n generalizing r acc with
  | zero => simp [parseElems]
  | succ n ih =>
    unfold parseElems
    split
    · rename_i m1 r1 h1
      have := hp _ _ _ h1
      exact ih _ _ (by omega)
    · simp
    · rename_i e h1 h2
      intro he
      have := hf r hr
      cases e <;> simp_all

/-- With fuel above the input length the reference parser never runs out of fuel:
nesting depth is bounded by input length. -/
theorem parse_no_fuel (f : Nat) (bs : Bytes) (h : bs.length < f) : parse f bs ≠ .fuel := by
  induction f generalizing bs with
  | zero => omega
  | succ f ih =>
    cases bs with
    | nil => simp [parse]
    | cons t bs =>
      have hl := takeLine_length_le bs
      simp at h
      unfold parse
      split
      · split
        · simp
        · split
          · simp
          · exact parseElems_no_fuel (parse f) f (fun r m r' hh => parse_rest_lt f r m r' hh) ih _ _ _ (by omega)
      · split
        · split
          · simp
          · split
            · simp
            · split
              · simp
              · simp only
                split
                · simp
                · split <;> simp
        · split <;> simp

theorem noAbsents_append (a b : List Msg) : noAbsents (a ++ b) = (noAbsents a && noAbsents b) := by
  induction a with
  | nil => simp [noAbsents]
  | cons x xs ih => simp [noAbsents, ih, Bool.and_assoc]

theorem noAbsents_reverse (a : List Msg) : noAbsents a.reverse = noAbsents a := by
  induction a with
  | nil => rfl
  | cons x xs ih => simp [noAbsents_append, noAbsents, ih, Bool.and_comm]

theorem parseElems_noAbsent (p : Bytes → PRes) (hp : ∀ r m r', p r = .ok m r' → noAbsent m = true)
    (n : Nat) (r : Bytes) (acc : List Msg) (hacc : noAbsents acc = true) (m : Msg) (r' : Bytes)
    (h : parseElems p n r acc = .ok m r') : noAbsent m = true := by
  induction n generalizing r acc with
  | zero =>
    simp [parseElems] at h
    rw [← h.1]; simp [noAbsent, noAbsents_reverse, hacc]
  | succ n ih =>
    unfold parseElems at h
    split at h
    · rename_i m1 r1 h1
      exact ih _ _ (by simp [noAbsents, hp _ _ _ h1, hacc]) h
    · simp at h
    · rename_i e _ _
      cases e <;> simp_all

/-- A parsed value never contains an absent (nil) element. -/
theorem parse_noAbsent (f : Nat) (bs : Bytes) (m : Msg) (rest : Bytes)
    (h : parse f bs = .ok m rest) : noAbsent m = true := by
  induction f generalizing bs m rest with
  | zero => simp [parse] at h
  | succ f ih =>
    cases bs with
    | nil => simp [parse] at h
    | cons t bs =>
      unfold parse at h
      split at h
      · split at h
        · simp at h
        · split at h
          · simp at h; rw [← h.1]; simp [noAbsent, noAbsents]
          · exact parseElems_noAbsent (parse f) (fun r m r' hh => ih r m r' hh) _ _ [] (by simp [noAbsents]) _ _ h
      · split at h
        · split at h
          · simp at h
          · split at h
            · simp at h; rw [← h.1]; simp [noAbsent]
            · split at h
              · simp at h
              · simp only at h
                split at h
                · simp at h
                · split at h
                  · simp at h; rw [← h.1]; simp [noAbsent]
                  · simp at h
        · split at h
          · simp at h
          · simp at h; rw [← h.1]; simp [noAbsent]

end GoRedis
