import GoRedisModel.Model.Conn
namespace GoRedis

/-- `Bal d p`: on every path that returns, `p` finishes exactly `d` spans more than it starts, and it
never finishes a span that is not open when started with `d` spans open.  (A path that panics is
unconstrained: the connection is torn down.) -/
inductive Bal {α : Type} : Nat → Prog α → Prop
  | ret (a : α) : Bal 0 (.ret a)
  | panic (d : Nat) : Bal d .panic
  | call (d : Nat) (c : HCall) (k : HRes → Prog α) : (∀ r, Bal d (k r)) → Bal d (.call c k)
  | start (d : Nat) (name : Bytes) (k : Prog α) : Bal (d + 1) k → Bal d (.emit (.start name) k)
  | finish (d : Nat) (k : Prog α) : Bal d k → Bal (d + 1) (.emit .finish k)

theorem bal_lift {α : Type} (u : UProg α) : Bal 0 u.lift := by
  induction u with
  | ret a => exact .ret a
  | panic => exact .panic 0
  | call c k ih => exact .call 0 c _ ih

theorem bal_bind {α β : Type} (p : Prog α) (f : α → Prog β) (dp df : Nat)
    (hp : Bal dp p) (hf : ∀ a, Bal df (f a)) : Bal (dp + df) (p.bind f) := by
  induction hp with
  | ret a => simpa [Prog.bind] using hf a
  | panic d => exact .panic _
  | call d c k _ ih => exact .call _ c _ ih
  | start d name k _ ih =>
    simp only [Prog.bind]
    apply Bal.start
    have : d + 1 + df = d + df + 1 := by omega
    rw [this] at ih; exact ih
  | finish d k _ ih =>
    simp only [Prog.bind]
    have : d + 1 + df = d + df + 1 := by omega
    rw [this]
    exact .finish _ _ ih

theorem bal_bind0 {α β : Type} (p : Prog α) (f : α → Prog β) (hp : Bal 0 p) (hf : ∀ a, Bal 0 (f a)) :
    Bal 0 (p.bind f) := by
  simpa using bal_bind p f 0 0 hp hf

theorem bal_andFinish {α : Type} (p : Prog α) (d : Nat) (hp : Bal d p) : Bal (d + 1) p.andFinish := by
  induction hp with
  | ret a => exact .finish 0 _ (.ret a)
  | panic d => exact .finish d _ (.panic d)
  | call d c k _ ih => exact .call _ c _ ih
  | start d name k _ ih => exact .start _ name _ ih
  | finish d k _ ih => exact .finish _ _ ih

theorem bal_gated (conn : ConnSt) (ucmd : Bytes) (body : Prog Out) (hb : Bal 0 body) :
    Bal 0 (gated conn ucmd body) := by
  unfold gated
  apply Bal.start
  split
  · exact .finish 0 _ (.ret _)
  · exact bal_andFinish body 0 hb

theorem bal_execUser (pf : FloatOracle) (srv : SrvSt) (conn : ConnSt) (cmd : Bytes) (args : List Msg)
    (p : Prog Out) (h : execUser pf srv conn cmd args = some p) : Bal 0 p := by
  unfold execUser at h
  split at h
  · simp at h
  · simp at h
    rw [← h]
    split
    · exact .ret _
    · exact bal_gated _ _ _ (bal_lift _)

theorem bal_nestedCall (pf : FloatOracle) (srv : SrvSt) (conn : ConnSt) (name : Bytes) (args : List Msg)
    (k : Out → Prog Out) (hk : ∀ o, Bal 0 (k o)) : Bal 0 (nestedCall pf srv conn name args k) := by
  unfold nestedCall
  split
  · exact hk _
  · rename_i p hp
    exact bal_bind0 p k (bal_execUser pf srv conn name args p hp) hk

theorem bal_ret_or_panic {α : Type} (p : Prog α) (h : (∃ a, p = .ret a) ∨ p = .panic) : Bal 0 p := by
  rcases h with ⟨a, rfl⟩ | rfl
  · exact .ret a
  · exact .panic 0

theorem bal_execHKeys (pf : FloatOracle) (srv : SrvSt) (conn : ConnSt) (args : List Msg) :
    Bal 0 (execHKeys pf srv conn args) := by
  unfold execHKeys
  apply bal_nestedCall
  intro o
  split <;> first | exact .panic 0 | exact .ret _

theorem bal_nested1 (pf : FloatOracle) (srv : SrvSt) (conn : ConnSt) (ucmd : Bytes) (ex : NExec) (args : List Msg)
    (h : nested1 pf srv conn ucmd = some ex) : Bal 0 (ex args) := by
  unfold nested1 at h
  split at h
  · simp at h; rw [← h]; unfold execStrLen; apply bal_nestedCall; intro o
    split
    · exact .panic 0
    · split <;> exact .ret _
    · exact .ret _
  · split at h
    · simp at h; rw [← h]; apply bal_nestedCall; intro o; exact .ret _
    · split at h
      · simp at h; rw [← h]; unfold execHExists; apply bal_nestedCall; intro o
        split
        · exact .panic 0
        · split <;> exact .ret _
        · exact .ret _
      · split at h
        · simp at h; rw [← h]; exact bal_execHKeys pf srv conn args
        · split at h
          · simp at h; rw [← h]; unfold execHStrLen; apply bal_nestedCall; intro o
            split
            · exact .panic 0
            · exact .ret _
            · split <;> exact .ret _
            · exact .ret _
          · split at h
            · simp at h; rw [← h]; unfold execHVals; apply bal_nestedCall; intro o
              split <;> first | exact .panic 0 | exact .ret _
            · simp at h

theorem bal_execHLen (pf : FloatOracle) (srv : SrvSt) (conn : ConnSt) (args : List Msg) :
    Bal 0 (execHLen pf srv conn args) := by
  unfold execHLen
  apply bal_bind0
  · split
    · exact .ret _
    · exact bal_gated _ _ _ (bal_execHKeys pf srv conn args)
  · intro o
    split <;> first | exact .panic 0 | exact .ret _

theorem bal_executeCommand (pf : FloatOracle) (srv : SrvSt) (conn : ConnSt) (cmd : Bytes) (args : List Msg) :
    Bal 0 (executeCommand pf srv conn cmd args) := by
  unfold executeCommand
  simp only
  split
  · exact .ret _
  · split
    · apply Bal.start
      split
      · exact .finish 0 _ (.ret _)
      · exact .finish 0 _ (.ret _)
    · split
      · rename_i p hp
        exact bal_bind0 p _ (bal_execUser pf srv conn cmd args p hp) (fun _ => .ret _)
      · split
        · rename_i ex hex
          exact bal_bind0 _ _ (bal_gated _ _ _ (bal_nested1 pf srv conn _ ex args hex)) (fun _ => .ret _)
        · split
          · exact bal_bind0 _ _ (bal_gated _ _ _ (bal_execHLen pf srv conn args)) (fun _ => .ret _)
          · split
            · exact bal_bind0 _ _ (bal_gated _ _ _ (bal_lift _)) (fun _ => .ret _)
            · exact .ret _

theorem bal_handleArray (pf : FloatOracle) (srv : SrvSt) (conn : ConnSt) (f : Nat) (es : List Msg) :
    Bal 0 (handleArray pf srv conn f es) := by
  induction f generalizing es with
  | zero => unfold handleArray; exact .ret _
  | succ f ih =>
    cases es with
    | nil => simp only [handleArray]; exact .ret _
    | cons first rest =>
      cases first with
      | absent => simp only [handleArray]; exact .ret _
      | arr es' => simp only [handleArray]; exact ih _
      | arrNil => simp only [handleArray]; exact .panic 0
      | line t p =>
        simp only [handleArray]
        split
        · exact .ret _
        · exact bal_executeCommand pf srv conn _ _
      | bulk p =>
        simp only [handleArray]
        split
        · exact .ret _
        · exact bal_executeCommand pf srv conn _ _

theorem bal_handleMessage (pf : FloatOracle) (srv : SrvSt) (conn : ConnSt) (m : Msg) :
    Bal 0 (handleMessage pf srv conn m) := by
  unfold handleMessage
  split
  · exact bal_handleArray pf srv conn _ _
  · exact .ret _

/-! ## The span discipline as a depth machine over the trace -/

/-- State: `none` = no root span open, `some d` = a root span open with `d` child spans open.
Result `none` = the discipline is violated (a finish without a matching start, a root started while another
is open, the root finished while a child is open, a child started without a root). -/
def spanRun : List Ev → Option Nat → Option (Option Nat)
  | [], st => some st
  | .rootStart :: es, none => spanRun es (some 0)
  | .rootStart :: _, some _ => none
  | .spanStart _ :: es, some d => spanRun es (some (d + 1))
  | .spanStart _ :: _, none => none
  | .spanFinish :: es, some (d + 1) => spanRun es (some d)
  | .spanFinish :: _, _ => none
  | .topFinish :: es, some 0 => spanRun es none
  | .topFinish :: _, _ => none
  | .wr _ :: es, st => spanRun es st
  | .hcall _ _ :: es, st => spanRun es st
  | .register :: es, st => spanRun es st
  | .deregister :: es, st => spanRun es st
  | .close :: es, st => spanRun es st
  | .crash :: es, st => spanRun es st

theorem bal_run {α : Type} (p : Prog α) (d : Nat) (hb : Bal d p) (view : ConnSt) (s : List HRes)
    (a : α) (h : (p.run view s).2.1 = some a) (k : Nat) (rest : List Ev) :
    spanRun ((p.run view s).1 ++ rest) (some (k + d)) = spanRun rest (some k) := by
  induction hb generalizing s k with
  | ret a' => simp [Prog.run]
  | panic d => simp [Prog.run] at h
  | call d c kk _ ih =>
    simp only [Prog.run] at h ⊢
    simp only [List.cons_append, spanRun]
    exact ih _ _ h k
  | start d name kk _ ih =>
    simp only [Prog.run] at h ⊢
    simp only [Prog.SpanOp.ev, List.cons_append, spanRun]
    have := ih s h k
    rw [show k + (d + 1) = k + d + 1 by omega] at this
    exact this
  | finish d kk _ ih =>
    simp only [Prog.run] at h ⊢
    simp only [Prog.SpanOp.ev, List.cons_append]
    rw [show k + (d + 1) = k + d + 1 by omega]
    simp only [spanRun]
    exact ih s h k


theorem reqStep_spans (pf : FloatOracle) (srv : SrvSt) (conn : ConnSt) (m : Msg) (script : List HRes)
    (hc : Ev.crash ∉ (reqStep pf srv conn m script).evs) (rest : List Ev) :
    spanRun ((reqStep pf srv conn m script).evs ++ rest) (some 0) = spanRun rest none := by
  unfold reqStep at hc ⊢
  have hb := bal_handleMessage pf srv conn m
  have hrun := bal_run (handleMessage pf srv conn m) 0 hb conn script
  generalize (handleMessage pf srv conn m).run conn script = rr at hc hrun ⊢
  obtain ⟨evs, res, script'⟩ := rr
  simp only at hc hrun ⊢
  cases res with
  | none => simp at hc
  | some t =>
    obtain ⟨out, conn', srv'⟩ := t
    simp only at hc ⊢
    cases hrb : replyBytes out with
    | none => rw [hrb] at hc; simp at hc
    | some b =>
      simp only [List.append_assoc]
      have := hrun (out, conn', srv') rfl 0 ([Ev.spanStart b!"response", .wr b, .spanFinish, .topFinish] ++ rest)
      simp only [Nat.add_zero] at this
      rw [this]
      simp [spanRun]

theorem serveLoop_spans (pf : FloatOracle) (n : Nat) (srv : SrvSt) (conn : ConnSt) (input : Bytes) (script : List HRes)
    (hc : Ev.crash ∉ serveLoop pf n srv conn input script) (rest : List Ev) :
    spanRun (serveLoop pf n srv conn input script ++ rest) none = spanRun rest none := by
  induction n generalizing srv conn input script with
  | zero => simp [serveLoop]
  | succ n ih =>
    unfold serveLoop at hc ⊢
    simp only [List.cons_append, List.nil_append, spanRun]
    split
    · rename_i m rest' hp
      simp only [hp] at hc
      simp only [List.cons_append, spanRun, List.append_assoc]
      have hc1 : Ev.crash ∉ (reqStep pf srv conn m script).evs := by
        intro h; apply hc; simp [h]
      rw [reqStep_spans pf srv conn m script hc1]
      split
      · simp
      · rename_i c' s' hn
        apply ih
        intro h; apply hc; simp [hn, h]
    · simp [spanRun]

end GoRedis
