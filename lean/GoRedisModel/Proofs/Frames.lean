import GoRedisModel.Model.Conn
import GoRedisModel.Proofs.Parse
namespace GoRedis

/-- The RESP2 grammar of one complete value, stated directly on bytes (independently of `enc`):
a line has no CR or LF before its terminating CRLF, a bulk has exactly the announced number of bytes
followed by CRLF, an array has exactly the announced number of complete values. -/
inductive Frame : Bytes → Prop
  | line (t : LineTy) (p : Bytes) : CR ∉ p → LF ∉ p → Frame (t.byte :: p ++ CRLF)
  | nullBulk : Frame (bulkByte :: 45 :: 49 :: CRLF)
  | bulk (p : Bytes) : Frame (bulkByte :: dec p.length ++ CRLF ++ p ++ CRLF)
  | arr (fs : List Bytes) : (∀ f ∈ fs, Frame f) → Frame (arrayByte :: dec fs.length ++ CRLF ++ fs.flatten)

/-- a byte string that is a concatenation of complete values -/
def Frames (bs : Bytes) : Prop := ∃ fs : List Bytes, (∀ f ∈ fs, Frame f) ∧ bs = fs.flatten

mutual
theorem enc_frame (m : Msg) (h : noAbsent m = true) : Frame (enc m) := by
  match m with
  | .line t p => simpa [enc] using Frame.line t (sanitize p) (sanitize_no_cr p) (sanitize_no_lf p)
  | .bulk none => simpa [enc] using Frame.nullBulk
  | .bulk (some p) => simpa [enc] using Frame.bulk p
  | .arr es =>
    simp only [noAbsent] at h
    obtain ⟨fs, hfs, hlen, hflat⟩ := encs_frames es h
    have := Frame.arr fs hfs
    simpa [enc, hlen, hflat] using this
  | .absent => simp [noAbsent] at h
  | .arrNil => simp [noAbsent] at h
theorem encs_frames (ms : List Msg) (h : noAbsents ms = true) :
    ∃ fs : List Bytes, (∀ f ∈ fs, Frame f) ∧ fs.length = ms.length ∧ fs.flatten = encs ms := by
  match ms with
  | [] => exact ⟨[], by simp, rfl, rfl⟩
  | m :: ms =>
    simp only [noAbsents, Bool.and_eq_true] at h
    obtain ⟨fs, hfs, hlen, hflat⟩ := encs_frames ms h.2
    refine ⟨enc m :: fs, ?_, by simp [hlen], by simp [encs, hflat]⟩
    intro f hf
    simp at hf
    rcases hf with rfl | hf
    · exact enc_frame m h.1
    · exact hfs f hf
end

/-- whatever `receive` writes for an outcome is one complete frame -/
theorem replyBytes_frame (o : Out) (bs : Bytes) (h : replyBytes o = some bs) : Frame bs := by
  have herr : ∀ t : Bytes, Frame (enc (.line .err t)) := fun t => enc_frame _ (by simp [noAbsent])
  cases o with
  | error e => simp [replyBytes] at h; rw [← h]; exact herr _
  | reply m =>
    cases m with
    | absent => simp [replyBytes] at h; rw [← h]; exact herr _
    | line t p => simp [replyBytes, encGo, noAbsent] at h; rw [← h]; exact enc_frame _ (by simp [noAbsent])
    | bulk p => simp [replyBytes, encGo, noAbsent] at h; rw [← h]; exact enc_frame _ (by simp [noAbsent])
    | arr es =>
      simp only [replyBytes, encGo] at h
      split at h
      · rename_i hn; simp at h; rw [← h]; exact enc_frame _ hn
      · simp at h
    | arrNil => simp [replyBytes, encGo, noAbsent] at h
  | quit m =>
    cases m with
    | absent => simp [replyBytes] at h; rw [← h]; exact herr _
    | line t p => simp [replyBytes, encGo, noAbsent] at h; rw [← h]; exact enc_frame _ (by simp [noAbsent])
    | bulk p => simp [replyBytes, encGo, noAbsent] at h; rw [← h]; exact enc_frame _ (by simp [noAbsent])
    | arr es =>
      simp only [replyBytes, encGo] at h
      split at h
      · rename_i hn; simp at h; rw [← h]; exact enc_frame _ hn
      · simp at h
    | arrNil => simp [replyBytes, encGo, noAbsent] at h

/-- events an executor can produce: handler calls and span operations, never a write -/
def Ev.isWr : Ev → Bool
  | .wr _ => true
  | _ => false

theorem run_no_wr {α : Type} (view : ConnSt) (p : Prog α) (s : List HRes) :
    ∀ e ∈ (p.run view s).1, e.isWr = false := by
  induction p generalizing s with
  | ret a => simp [Prog.run]
  | panic => simp [Prog.run]
  | emit op k ih =>
    intro e he
    simp only [Prog.run] at he
    simp at he
    rcases he with rfl | he
    · cases op <;> rfl
    · exact ih _ e he
  | call c k ih =>
    intro e he
    simp only [Prog.run] at he
    simp at he
    rcases he with rfl | he
    · rfl
    · exact ih _ _ e he

/-- every write of one request step is a complete frame -/
theorem reqStep_writes (pf : FloatOracle) (srv : SrvSt) (conn : ConnSt) (m : Msg) (script : List HRes) :
    ∀ bs, Ev.wr bs ∈ (reqStep pf srv conn m script).evs → Frame bs := by
  intro bs hmem
  unfold reqStep at hmem
  have hno := run_no_wr conn (handleMessage pf srv conn m) script
  generalize hrun : (handleMessage pf srv conn m).run conn script = rr at hmem hno
  obtain ⟨evs, res, script'⟩ := rr
  simp only at hmem hno
  cases res with
  | none =>
    simp at hmem
    have := hno _ hmem; simp [Ev.isWr] at this
  | some t =>
    obtain ⟨out, conn', srv'⟩ := t
    simp only at hmem
    cases hrb : replyBytes out with
    | none =>
      rw [hrb] at hmem; simp at hmem
      have := hno _ hmem; simp [Ev.isWr] at this
    | some b =>
      rw [hrb] at hmem; simp at hmem
      rcases hmem with hmem | rfl
      · have := hno _ hmem; simp [Ev.isWr] at this
      · exact replyBytes_frame out _ hrb

theorem serveLoop_writes (pf : FloatOracle) (n : Nat) (srv : SrvSt) (conn : ConnSt) (input : Bytes) (script : List HRes) :
    ∀ bs, Ev.wr bs ∈ serveLoop pf n srv conn input script → Frame bs := by
  induction n generalizing srv conn input script with
  | zero => simp [serveLoop]
  | succ n ih =>
    intro bs hmem
    unfold serveLoop at hmem
    simp only [List.mem_append, List.mem_cons] at hmem
    rcases hmem with hmem | hmem
    · simp at hmem
    · split at hmem
      · rename_i m rest hp
        simp only [List.mem_cons, List.mem_append] at hmem
        rcases hmem with hmem | hmem | hmem
        · simp at hmem
        · exact reqStep_writes pf srv conn m script bs hmem
        · split at hmem
          · simp at hmem
          · exact ih _ _ _ _ bs hmem
      · simp at hmem

end GoRedis
