import GoRedisModel.Generated.Translated
import GoRedisModel.Model.ExStore
import GoRedisModel.Model.Exec
import GoRedisModel.Model.ParserImpl
/-! The definitions that `bin/extract` translates from /repo's Go source on every run (`Generated/Translated.lean`)
compute what the hand-written model says, on every input: the hand-written definitions of these functions are the
code.  Integers are Go's 64-bit `int`: the hypotheses say that the arguments are `int` values and that a length is a
length; under them no addition of the source wraps around and no slice expression panics – both are *proved*, not
assumed (the translation keeps the wrap-around and the panic). -/
namespace GoRedis.Translated
open GoRedis GoRedis.GoSem

theorem wrap64_id {i : Int} (h : inInt64 i = true) : wrap64 i = i := by
  simp only [inInt64, decide_eq_true_eq] at h
  unfold wrap64
  simp only
  split <;> omega

theorem wadd_id {a b : Int} (h : -9223372036854775808 ≤ a + b ∧ a + b ≤ 9223372036854775807) : wadd a b = a + b := by
  unfold wadd wrap64; simp only; split <;> omega
theorem wsub_id {a b : Int} (h : -9223372036854775808 ≤ a - b ∧ a - b ≤ 9223372036854775807) : wsub a b = a - b := by
  unfold wsub wrap64; simp only; split <;> omega

/-! ## examples/go-redisd/server: clampRange, limitZSetMembers, List.Index -/

theorem clampRange_eq (length start stop : Int) (hl : 0 ≤ length) (hL : inInt64 length = true)
    (hs : inInt64 start = true) (ht : inInt64 stop = true) :
    clampRange length start stop = (match Ex.clampRange length start stop with
      | none => (0, 0, false)
      | some (a, b) => (a, b, true)) := by
  simp only [inInt64, decide_eq_true_eq] at hL hs ht
  have e1 : wadd length start = length + start ∨ ¬ start < 0 := by
    by_cases h : start < 0
    · left; exact wadd_id (by omega)
    · right; exact h
  have e2 : wadd length stop = length + stop ∨ ¬ stop < 0 := by
    by_cases h : stop < 0
    · left; exact wadd_id (by omega)
    · right; exact h
  have e3 : wsub length 1 = length - 1 := wsub_id (by omega)
  unfold clampRange Ex.clampRange
  rw [e3]
  rcases e1 with e1 | e1 <;> rcases e2 with e2 | e2
  all_goals (first | rw [e1] | skip)
  all_goals (first | rw [e2] | skip)
  all_goals simp only [e1, e2, if_false]
  all_goals (repeat' split)
  all_goals simp_all
  all_goals omega

theorem limit_eq {α : Type} (mems : List α) (offset count : Int) :
    limitZSetMembers mems offset count = .ok (Ex.limit mems offset count) := by
  unfold limitZSetMembers Ex.limit sliceFrom sliceTo
  by_cases h : offset < 0 ∨ (mems.length : Int) ≤ offset
  · simp [h]
  · have h1 : 0 ≤ offset ∧ offset ≤ (mems.length : Int) := by omega
    simp only [h, if_false, h1, and_self, if_true]
    by_cases h2 : 0 ≤ count ∧ count < ((mems.drop offset.toNat).length : Int)
    · have h3 : 0 ≤ count ∧ count ≤ ((mems.drop offset.toNat).length : Int) := by omega
      simp only [h2, and_self, if_true, h3]
    · simp only [h2, if_false]

theorem listIndex_eq (els : List Bytes) (idx : Int) (hl : (els.length : Int) ≤ 9223372036854775807) (hi : inInt64 idx = true) :
    listIndex els idx = .ok (match Ex.index els idx with | none => ([], false) | some e => (e, true)) := by
  simp only [inInt64, decide_eq_true_eq] at hi
  have e3 : wsub (els.length : Int) 1 = (els.length : Int) - 1 := wsub_id (by omega)
  unfold listIndex Ex.index GoSem.index
  rw [e3]
  by_cases h : idx < 0
  · have e1 : wadd (els.length : Int) idx = (els.length : Int) + idx := wadd_id (by omega)
    simp only [h, if_true, e1]
    by_cases h2 : (els.length : Int) + idx < 0 ∨ (els.length : Int) - 1 < (els.length : Int) + idx
    · simp only [h2, if_true]
    · have h3 : 0 ≤ (els.length : Int) + idx ∧ (els.length : Int) + idx < (els.length : Int) := by omega
      have h4 : ((els.length : Int) + idx).toNat < els.length := by omega
      simp only [h2, if_false, h3, and_self, if_true, List.getElem?_eq_getElem h4]
  · simp only [h, if_false]
    by_cases h2 : False ∨ (els.length : Int) - 1 < idx
    · simp only [h2, if_true]
    · have h3 : 0 ≤ idx ∧ idx < (els.length : Int) := by omega
      have h4 : idx.toNat < els.length := by omega
      simp only [h2, if_false, h3, and_self, if_true, List.getElem?_eq_getElem h4]

/-! ## redis/sugar_commander.go: the GETRANGE window, the counter overflow tests -/

theorem getrange_eq (v : Bytes) (s e : Int) (hl : (v.length : Int) ≤ 9223372036854775807)
    (hs : inInt64 s = true) (he : inInt64 e = true) :
    getrangeWindow v s e = .ok (getRange v s e) := by
  simp only [inInt64, decide_eq_true_eq] at hs he
  have e3 : wsub (v.length : Int) 1 = (v.length : Int) - 1 := wsub_id (by omega)
  have ea : (if s < 0 then wadd (v.length : Int) s else s) = (if s < 0 then (v.length : Int) + s else s) := by
    split
    · exact wadd_id (by omega)
    · rfl
  have eb : (if e < 0 then wadd (v.length : Int) e else e) = (if e < 0 then (v.length : Int) + e else e) := by
    split
    · exact wadd_id (by omega)
    · rfl
  unfold getrangeWindow getRange getRangeBounds normIdx
  simp only [e3, ea, eb]
  by_cases h0 : (s < 0 ∧ e < 0) ∧ s > e
  · have h0' : s < 0 ∧ e < 0 ∧ s > e := by omega
    simp only [h0, h0', and_self, if_true]
  · have h0' : ¬ (s < 0 ∧ e < 0 ∧ s > e) := by omega
    simp only [h0, h0', if_false]
    generalize hA : (if s < 0 then (v.length : Int) + s else s) = a
    generalize hB : (if e < 0 then (v.length : Int) + e else e) = b
    generalize hS : (if a < 0 then 0 else a) = S
    generalize hE2 : (if b < 0 then 0 else b) = E2
    generalize hE : (if (v.length : Int) ≤ E2 then (v.length : Int) - 1 else E2) = E
    have e4 : wadd E 1 = E + 1 := wadd_id (by omega)
    rw [e4]
    have hS' : max 0 a = S := by omega
    have hE' : min ((v.length : Int) - 1) (max 0 b) = E := by omega
    rw [hS', hE']
    by_cases hc : (v.length : Int) = 0 ∨ E < S
    · have hc' : (v.length : Int) = 0 ∨ S > E := by omega
      simp only [hc, hc', if_true]
    · have hc' : ¬ ((v.length : Int) = 0 ∨ S > E) := by omega
      have hsl : 0 ≤ S ∧ S ≤ E + 1 ∧ E + 1 ≤ (v.length : Int) := by omega
      have hn : (E + 1).toNat - S.toNat = E.toNat + 1 - S.toNat := by omega
      simp only [hc, hc', if_false, GoSem.slice, hsl, and_self, if_true, hn]

theorem incdec_eq (c v : Int) (hc : inInt64 c = true) (hv : inInt64 v = true) :
    incdecNewValue c v = if inInt64 (c + v) = true then .ok (c + v) else .err "increment or decrement would overflow" := by
  simp only [inInt64, decide_eq_true_eq] at hc hv ⊢
  unfold incdecNewValue wadd wrap64
  simp only
  repeat' split
  all_goals (first | omega | rfl | (congr 1 <;> omega))

theorem decrby_eq (inc : Int) (h : inInt64 inc = true) :
    decrbyGuard inc = if inc = -9223372036854775808 then .err "decrement would overflow" else .ok (-inc) := by
  simp only [inInt64, decide_eq_true_eq] at h
  unfold decrbyGuard wneg wrap64
  simp only
  repeat' split
  all_goals (first | omega | rfl | (congr 1 <;> omega))

/-! ## redis/proto/parser.go: the declared length of a bulk string; redis/core_commander.go: the ZREVRANGE window -/

/-- the limit test precedes the addition, the addition does not wrap, and the number of bytes to read is the model's
`need = n + 2` -/
theorem bulkReadLength_eq (num : Int) (h : inInt64 num = true) (h0 : 0 ≤ num) :
    bulkReadLength num = if num.toNat > maxBulk then .err "errorTooLongBulkString" else .ok ((num.toNat + 2 : Nat) : Int) := by
  simp only [inInt64, decide_eq_true_eq] at h
  unfold bulkReadLength maxBulk
  by_cases hc : (536870912 : Int) < num
  · have : num.toNat > 536870912 := by omega
    simp [hc, this]
  · have : ¬ num.toNat > 536870912 := by omega
    have e : wadd num 2 = num + 2 := wadd_id (by omega)
    simp only [hc, this, if_false, e]
    congr 1
    omega

theorem zrevrangeWindow_eq (start stop : Int) : zrevrangeWindow start stop = (-stop - 1, -start - 1) := rfl

end GoRedis.Translated
