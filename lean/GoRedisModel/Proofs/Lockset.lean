/-! Lock discipline ⇒ conflicting accesses are ordered by happens-before.

Traces of lock / unlock (exclusive or shared, as `sync.RWMutex`) and memory-access events of any number of
goroutines.  `wfL` is the mutual-exclusion guarantee of the mutex itself (trusted: the Go runtime).  The theorem:
in every well-formed trace in which each access is made while its goroutine holds the variable's guard (shared
suffices for a read, exclusive is needed for a write), two conflicting accesses of different goroutines are
separated by a release of the guard by the first goroutine followed by an acquisition by the second – which is a
synchronises-before edge of the Go memory model, i.e. the accesses are not a data race. -/
namespace GoRedis.Lockset

abbrev Tid := Nat
abbrev Lock := String
abbrev Var := String

inductive Ev where
  | acq (t : Tid) (l : Lock) (excl : Bool)
  | rel (t : Tid) (l : Lock) (excl : Bool)
  | acc (t : Tid) (v : Var) (write : Bool)
deriving DecidableEq, Repr

abbrev Holders := List (Tid × Bool)

/-- who holds lock `l` (and how) after the events, starting from `H` -/
def holders (l : Lock) : Holders → List Ev → Holders
  | H, [] => H
  | H, .acq t l' x :: es => holders l (if l' = l then (t, x) :: H else H) es
  | H, .rel t l' x :: es => holders l (if l' = l then H.erase (t, x) else H) es
  | H, .acc _ _ _ :: es => holders l H es

/-- what the mutex guarantees: an exclusive acquisition only of a free lock, a shared one only while no one
holds it exclusively, a release only by a holder -/
def wfL (l : Lock) : Holders → List Ev → Prop
  | _, [] => True
  | H, .acq t l' x :: es =>
    (l' = l → if x then H = [] else ∀ h ∈ H, h.2 = false) ∧ wfL l (if l' = l then (t, x) :: H else H) es
  | H, .rel t l' x :: es => (l' = l → (t, x) ∈ H) ∧ wfL l (if l' = l then H.erase (t, x) else H) es
  | H, .acc _ _ _ :: es => wfL l H es

theorem holders_append (l : Lock) (H : Holders) (a b : List Ev) :
    holders l H (a ++ b) = holders l (holders l H a) b := by
  induction a generalizing H with
  | nil => rfl
  | cons e es ih => cases e <;> simp [holders, ih]

theorem wfL_append (l : Lock) (H : Holders) (a b : List Ev) :
    wfL l H (a ++ b) ↔ wfL l H a ∧ wfL l (holders l H a) b := by
  induction a generalizing H with
  | nil => simp [wfL, holders]
  | cons e es ih => cases e <;> simp [wfL, holders, ih, and_assoc]

/-- a holder that appears was acquired -/
theorem find_acq (l : Lock) (h : Tid × Bool) (mid : List Ev) (H : Holders)
    (h1 : h ∈ holders l H mid) : h ∈ H ∨ ∃ a c, mid = a ++ Ev.acq h.1 l h.2 :: c := by
  induction mid generalizing H with
  | nil => left; simpa [holders] using h1
  | cons e es ih =>
    cases e with
    | acq t1 l' x =>
      simp only [holders] at h1
      rcases ih _ h1 with hm | ⟨a, c, hc⟩
      · by_cases hl : l' = l
        · simp only [hl, if_true, List.mem_cons] at hm
          rcases hm with rfl | hm
          · right; exact ⟨[], es, by simp [hl]⟩
          · left; exact hm
        · simp only [hl, if_false] at hm; left; exact hm
      · right; exact ⟨Ev.acq t1 l' x :: a, c, by simp [hc]⟩
    | rel t1 l' x =>
      simp only [holders] at h1
      rcases ih _ h1 with hm | ⟨a, c, hc⟩
      · left
        by_cases hl : l' = l
        · simp only [hl, if_true] at hm; exact List.mem_of_mem_erase hm
        · simpa [hl] using hm
      · right; exact ⟨Ev.rel t1 l' x :: a, c, by simp [hc]⟩
    | acc t1 v w =>
      simp only [holders] at h1
      rcases ih _ h1 with hm | ⟨a, c, hc⟩
      · left; exact hm
      · right; exact ⟨Ev.acc t1 v w :: a, c, by simp [hc]⟩

/-- a holder that disappears released -/
theorem find_rel (l : Lock) (h : Tid × Bool) (mid : List Ev) (H : Holders)
    (h0 : h ∈ H) (h1 : h ∉ holders l H mid) : ∃ a b, mid = a ++ Ev.rel h.1 l h.2 :: b := by
  induction mid generalizing H with
  | nil => simp [holders] at h1; exact absurd h0 h1
  | cons e es ih =>
    cases e with
    | acq t1 l' x =>
      simp only [holders] at h1
      have : h ∈ (if l' = l then (t1, x) :: H else H) := by split <;> simp [h0]
      rcases ih _ this h1 with ⟨a, b, hb⟩
      exact ⟨Ev.acq t1 l' x :: a, b, by simp [hb]⟩
    | rel t1 l' x =>
      simp only [holders] at h1
      by_cases hl : l' = l
      · by_cases hh : h = (t1, x)
        · exact ⟨[], es, by simp [hl, hh]⟩
        · simp only [hl, if_true] at h1
          have : h ∈ H.erase (t1, x) := (List.mem_erase_of_ne hh).mpr h0
          rcases ih _ this h1 with ⟨a, b, hb⟩
          exact ⟨Ev.rel t1 l' x :: a, b, by simp [hb]⟩
      · simp only [hl, if_false] at h1
        rcases ih _ h0 h1 with ⟨a, b, hb⟩
        exact ⟨Ev.rel t1 l' x :: a, b, by simp [hb]⟩
    | acc t1 v w =>
      simp only [holders] at h1
      rcases ih _ h0 h1 with ⟨a, b, hb⟩
      exact ⟨Ev.acc t1 v w :: a, b, by simp [hb]⟩

/-- the holder sets a mutex can be in: an exclusive holder is alone -/
def Excl (H : Holders) : Prop := ∀ u, (u, true) ∈ H → H = [(u, true)]

theorem excl_nil : Excl [] := by intro u h; simp at h

theorem excl_holders (l : Lock) (H : Holders) (es : List Ev) (hE : Excl H) (hwf : wfL l H es) :
    Excl (holders l H es) := by
  induction es generalizing H with
  | nil => simpa [holders] using hE
  | cons e es ih =>
    cases e with
    | acq t l' x =>
      simp only [wfL] at hwf
      simp only [holders]
      by_cases hl : l' = l
      · simp only [hl, if_true] at hwf ⊢
        refine ih _ ?_ hwf.2
        have h1 := hwf.1 trivial
        cases x with
        | true => simp at h1; subst h1; intro u hu; simp at hu; simp [hu]
        | false =>
          simp at h1
          intro u hu
          simp at hu
          exact absurd hu (h1 u)
      · simp only [hl, if_false] at hwf ⊢; exact ih _ hE hwf.2
    | rel t l' x =>
      simp only [wfL] at hwf
      simp only [holders]
      by_cases hl : l' = l
      · simp only [hl, if_true] at hwf ⊢
        refine ih _ ?_ hwf.2
        intro u hu
        have hm := List.mem_of_mem_erase hu
        have hs := hE u hm
        rw [hs] at hu
        by_cases hx : (u, true) = (t, x)
        · rw [hx] at hu; simp at hu
        · rw [List.erase_cons_tail (by simpa using hx)] at hu
          rw [hs, List.erase_cons_tail (by simpa using hx)]
          simp
      · simp only [hl, if_false] at hwf ⊢; exact ih _ hE hwf.2
    | acc t v w => simp only [wfL] at hwf; simp only [holders]; exact ih _ hE hwf

/-- every access is made under the variable's guard: exclusively for a write, at least shared for a read -/
def Disciplined (guard : Var → Lock) (tr : List Ev) : Prop :=
  ∀ pre t v w post, tr = pre ++ Ev.acc t v w :: post →
    (t, true) ∈ holders (guard v) [] pre ∨ (w = false ∧ (t, false) ∈ holders (guard v) [] pre)

/-- **Lock discipline ⇒ no data race.**  Two conflicting accesses (same variable, different goroutines, at
least one a write) in a disciplined well-formed trace are separated by `release(guard) by the first` …
`acquire(guard) by the second`. -/
theorem conflicting_accesses_ordered (guard : Var → Lock) (tr : List Ev)
    (hwf : ∀ l, wfL l [] tr) (hd : Disciplined guard tr)
    (pre mid post : List Ev) (t t' : Tid) (v : Var) (w w' : Bool)
    (htr : tr = pre ++ Ev.acc t v w :: (mid ++ Ev.acc t' v w' :: post))
    (hne : t ≠ t') (hconf : w = true ∨ w' = true) :
    ∃ a b c x x', mid = a ++ Ev.rel t (guard v) x :: (b ++ Ev.acq t' (guard v) x' :: c) := by
  let l := guard v
  have hw := hwf l
  rw [htr] at hw
  have hw1 : wfL l [] pre := ((wfL_append l [] pre _).mp hw).1
  have hw2 : wfL l (holders l [] pre) mid := by
    have := ((wfL_append l [] pre _).mp hw).2
    simp only [wfL] at this
    exact ((wfL_append l _ mid _).mp this).1
  have hE0 : Excl (holders l [] pre) := excl_holders l [] pre excl_nil hw1
  have hE1 : Excl (holders l (holders l [] pre) mid) := excl_holders l _ mid hE0 hw2
  -- what the two goroutines hold at their accesses
  have hA := hd pre t v w (mid ++ Ev.acc t' v w' :: post) htr
  have hB := hd (pre ++ Ev.acc t v w :: mid) t' v w' post (by simp [htr])
  have hpre2 : holders l [] (pre ++ Ev.acc t v w :: mid) = holders l (holders l [] pre) mid := by
    rw [holders_append]; simp [holders]
  rw [show guard v = l from rfl, hpre2] at hB
  rw [show guard v = l from rfl] at hA
  -- modes m (first) and m' (second), one of them exclusive
  obtain ⟨m, hm, m', hm', hex⟩ : ∃ m, (t, m) ∈ holders l [] pre ∧ ∃ m', (t', m') ∈ holders l (holders l [] pre) mid ∧
      (m = true ∨ m' = true) := by
    rcases hA with hA | ⟨hwf', hA⟩
    · rcases hB with hB | ⟨_, hB⟩
      · exact ⟨true, hA, true, hB, Or.inl rfl⟩
      · exact ⟨true, hA, false, hB, Or.inl rfl⟩
    · rcases hB with hB | ⟨hw'f, hB⟩
      · exact ⟨false, hA, true, hB, Or.inr rfl⟩
      · rcases hconf with h | h
        · rw [hwf'] at h; exact absurd h (by decide)
        · rw [hw'f] at h; exact absurd h (by decide)
  -- the second goroutine did not hold the guard at the first access
  have hnot : (t', m') ∉ holders l [] pre := by
    intro hin
    rcases hex with h | h
    · subst h
      have := hE0 t hm
      rw [this] at hin
      simp at hin
      exact hne hin.1.symm
    · subst h
      have := hE0 t' hin
      rw [this] at hm
      simp at hm
      exact hne hm.1
  rcases find_acq l (t', m') mid _ hm' with hin | ⟨a, c, hmid⟩
  · exact absurd hin hnot
  · -- the acquisition was enabled, so the first goroutine no longer held the guard just before it
    have hw3 : wfL l (holders l (holders l [] pre) a) (Ev.acq t' l m' :: c) := by
      rw [hmid] at hw2; exact ((wfL_append l _ a _).mp hw2).2
    simp only [wfL] at hw3
    have hen := hw3.1 trivial
    have hgone : (t, m) ∉ holders l (holders l [] pre) a := by
      intro hin
      rcases hex with h | h
      · subst h
        cases m' with
        | true => simp at hen; rw [hen] at hin; simp at hin
        | false => simp at hen; exact hen _ hin
      · subst h
        simp at hen; rw [hen] at hin; simp at hin
    rcases find_rel l (t, m) a _ hm hgone with ⟨a1, b, ha⟩
    exact ⟨a1, b, c, m, m', by simp [hmid, ha, l]⟩

/-! ## From per-function lock brackets to discipline

Each framework function that touches a shared field has the shape `mu.Lock(); defer mu.Unlock(); … accesses …`
(or `RLock`/`RUnlock`) – the extractor computes, for every access site, the lock mode held there.  `Follows` is
that block structure at the level of traces: a goroutine acquires a lock it does not hold, releases what it
holds, and accesses a variable only while it holds the variable's guard in a sufficient mode. -/

abbrev Cur := Tid → Lock → Option Bool

def Cur.set (c : Cur) (t : Tid) (l : Lock) (v : Option Bool) : Cur :=
  fun t' l' => if t' = t ∧ l' = l then v else c t' l'

def Follows (guard : Var → Lock) : Cur → List Ev → Prop
  | _, [] => True
  | c, .acq t l x :: es => c t l = none ∧ Follows guard (c.set t l (some x)) es
  | c, .rel t l x :: es => c t l = some x ∧ Follows guard (c.set t l none) es
  | c, .acc t v w :: es => (∃ x, c t (guard v) = some x ∧ (x = true ∨ w = false)) ∧ Follows guard c es

/-- what a goroutine believes it holds, the mutex agrees it holds -/
def Agree (c : Cur) (H : Lock → Holders) : Prop := ∀ t l x, c t l = some x → (t, x) ∈ H l

theorem follows_disciplined_aux (guard : Var → Lock) (c : Cur) (H : Lock → Holders) (hag : Agree c H)
    (es : List Ev) (hf : Follows guard c es) (pre : List Ev) (t : Tid) (v : Var) (w : Bool) (post : List Ev)
    (he : es = pre ++ Ev.acc t v w :: post) :
    (t, true) ∈ holders (guard v) (H (guard v)) pre ∨ (w = false ∧ (t, false) ∈ holders (guard v) (H (guard v)) pre) := by
  induction pre generalizing c H es with
  | nil =>
    subst he
    simp only [List.nil_append, Follows] at hf
    obtain ⟨⟨x, hx, hm⟩, _⟩ := hf
    have := hag t (guard v) x hx
    simp only [holders]
    cases x with
    | true => exact Or.inl this
    | false =>
      rcases hm with h | h
      · exact absurd h (by decide)
      · exact Or.inr ⟨h, this⟩
  | cons e pre ih =>
    subst he
    cases e with
    | acq t1 l1 x1 =>
      simp only [List.cons_append, Follows] at hf
      have hag' : Agree (c.set t1 l1 (some x1)) (fun l => if l1 = l then (t1, x1) :: H l else H l) := by
        intro t2 l2 x2 h2
        simp only [Cur.set] at h2
        by_cases hq : t2 = t1 ∧ l2 = l1
        · simp only [hq, and_self, if_true] at h2
          obtain ⟨rfl, rfl⟩ := hq
          simp at h2; subst h2; simp
        · simp only [hq, if_false] at h2
          have := hag t2 l2 x2 h2
          show (t2, x2) ∈ (if l1 = l2 then (t1, x1) :: H l2 else H l2)
          split <;> simp [this]
      have := ih _ _ hag' _ hf.2 rfl
      simpa [holders] using this
    | rel t1 l1 x1 =>
      simp only [List.cons_append, Follows] at hf
      have hag' : Agree (c.set t1 l1 none) (fun l => if l1 = l then (H l).erase (t1, x1) else H l) := by
        intro t2 l2 x2 h2
        simp only [Cur.set] at h2
        by_cases hq : t2 = t1 ∧ l2 = l1
        · simp [hq] at h2
        · simp only [hq, if_false] at h2
          have hin := hag t2 l2 x2 h2
          show (t2, x2) ∈ (if l1 = l2 then (H l2).erase (t1, x1) else H l2)
          by_cases hl : l1 = l2
          · simp only [hl, if_true]
            refine (List.mem_erase_of_ne ?_).mpr hin
            intro heq
            have ht : t2 = t1 := congrArg Prod.fst heq
            exact hq ⟨ht, hl.symm⟩
          · simp [hl, hin]
      have := ih _ _ hag' _ hf.2 rfl
      simpa [holders] using this
    | acc t1 v1 w1 =>
      simp only [List.cons_append, Follows] at hf
      have := ih _ _ hag _ hf.2 rfl
      simpa [holders] using this

theorem follows_disciplined (guard : Var → Lock) (tr : List Ev) (hf : Follows guard (fun _ _ => none) tr) :
    Disciplined guard tr := by
  intro pre t v w post he
  exact follows_disciplined_aux guard _ (fun _ => []) (by intro t l x h; simp at h) tr hf pre t v w post he

/-- **Block-structured locking ⇒ no data race.** -/
theorem follows_race_free (guard : Var → Lock) (tr : List Ev)
    (hwf : ∀ l, wfL l [] tr) (hf : Follows guard (fun _ _ => none) tr)
    (pre mid post : List Ev) (t t' : Tid) (v : Var) (w w' : Bool)
    (htr : tr = pre ++ Ev.acc t v w :: (mid ++ Ev.acc t' v w' :: post))
    (hne : t ≠ t') (hconf : w = true ∨ w' = true) :
    ∃ a b c x x', mid = a ++ Ev.rel t (guard v) x :: (b ++ Ev.acq t' (guard v) x' :: c) :=
  conflicting_accesses_ordered guard tr hwf (follows_disciplined guard tr hf) pre mid post t t' v w w' htr hne hconf

/-- an unguarded pair *is* a possible race: the discipline is necessary for the theorem, not decoration -/
example : wfL "mu" [] [Ev.acc 1 "params" true, Ev.acc 2 "params" false] ∧
    ¬ Disciplined (fun _ => "mu") [Ev.acc 1 "params" true, Ev.acc 2 "params" false] := by
  refine ⟨by simp [wfL], ?_⟩
  intro h
  have := h [] 1 "params" true [Ev.acc 2 "params" false] rfl
  simp [holders] at this

/-- and a concrete two-goroutine run of two bracketed functions meets every hypothesis -/
example : (∀ l, wfL l [] [Ev.acq 1 "mu" true, Ev.acc 1 "params" true, Ev.rel 1 "mu" true,
      Ev.acq 2 "mu" false, Ev.acc 2 "params" false, Ev.rel 2 "mu" false]) ∧
    Follows (fun _ => "mu") (fun _ _ => none) [Ev.acq 1 "mu" true, Ev.acc 1 "params" true, Ev.rel 1 "mu" true,
      Ev.acq 2 "mu" false, Ev.acc 2 "params" false, Ev.rel 2 "mu" false] := by
  refine ⟨?_, ?_⟩
  · intro l
    by_cases h : "mu" = l <;> simp [wfL, h]
  · simp [Follows, Cur.set]

end GoRedis.Lockset
