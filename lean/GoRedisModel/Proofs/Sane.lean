import GoRedisModel.Proofs.Loop
import GoRedisModel.Proofs.Total
/-! A handler that honours its interface — every call answers with an error or with a message without nil
pointers — can never make a request panic, whatever the client sends. -/
namespace GoRedis

/-- a handler result that honours the interface: an error, or a message with no nil pointer in it -/
def HRes.sane (r : HRes) : Bool := r.err.isSome || noAbsent r.msg

/-- a script of handler results all of which honour the interface (the empty script answers with a nil message) -/
def saneScript (s : List HRes) : Bool := !s.isEmpty && s.all HRes.sane

/-- an executor outcome that carries no nil pointer -/
def Out.strict : Out → Bool
  | .reply m => noAbsent m
  | .quit m => noAbsent m
  | .error _ => true

/-- `USafe p`: against sane handler answers `p` never panics and its outcome carries no nil pointer -/
def USafe : UProg Out → Prop
  | .ret o => o.strict = true
  | .call _ k => ∀ r, r.sane = true → USafe (k r)
  | .panic => False

/-- the same for executors with span operations, for an arbitrary postcondition -/
def Safe {α : Type} (Q : α → Prop) : Prog α → Prop
  | .ret a => Q a
  | .call _ k => ∀ r, r.sane = true → Safe Q (k r)
  | .emit _ k => Safe Q k
  | .panic => False

abbrev SafeO (p : Prog Out) : Prop := Safe (fun o => o.strict = true) p

theorem sane_msg {r : HRes} (h : r.sane = true) (he : r.err = none) : noAbsent r.msg = true := by
  simpa [HRes.sane, he] using h

theorem safe_lift (u : UProg Out) (h : USafe u) : SafeO u.lift := by
  induction u with
  | ret a => exact h
  | panic => exact h
  | call c k ih => intro r hr; exact ih r (h r hr)

theorem safe_bind {α β : Type} (Q : α → Prop) (Q' : β → Prop) (p : Prog α) (f : α → Prog β)
    (hp : Safe Q p) (hf : ∀ a, Q a → Safe Q' (f a)) : Safe Q' (p.bind f) := by
  induction p with
  | ret a => exact hf a hp
  | panic => exact hp
  | call c k ih => intro r hr; exact ih r (hp r hr)
  | emit e k ih => exact ih hp

theorem safe_andFinish {α : Type} (Q : α → Prop) (p : Prog α) (hp : Safe Q p) : Safe Q p.andFinish := by
  induction p with
  | ret a => exact hp
  | panic => exact hp
  | call c k ih => intro r hr; exact ih r (hp r hr)
  | emit e k ih => exact ih hp

theorem safe_gated (conn : ConnSt) (ucmd : Bytes) (body : Prog Out) (hb : SafeO body) : SafeO (gated conn ucmd body) := by
  unfold gated
  show Safe _ _
  simp only [Safe]
  split
  · simp [Safe, Out.strict]
  · exact safe_andFinish _ body hb

/-! ## the building blocks of the user table -/

theorem usafe_failE (e : Err) : USafe (failE e) := by simp [failE, USafe, Out.strict]
theorem usafe_replyP (m : Msg) (h : noAbsent m = true) : USafe (replyP m) := by simp [replyP, USafe, Out.strict, h]

theorem outOf_strict (r : HRes) (h : r.sane = true) : (outOf r).strict = true := by
  unfold outOf
  split
  · rfl
  · rename_i he; exact sane_msg h he

theorem usafe_callRet (c : HCall) : USafe (callRet c) := by
  intro r hr; exact outOf_strict r hr

theorem usafe_withArgs {α : Type} (rd : R α) (args : List Msg) (k : α → List Msg → UProg Out)
    (hk : ∀ a rest, USafe (k a rest)) : USafe (withArgs rd args k) := by
  unfold withArgs
  split
  · exact usafe_failE _
  · exact hk _ _

theorem noAbsents_drop (l : List Msg) (n : Nat) (h : noAbsents l = true) : noAbsents (l.drop n) = true := by
  induction l generalizing n with
  | nil => simp [noAbsents]
  | cons x xs ih =>
    cases n with
    | zero => simpa using h
    | succ n => simp only [noAbsents, Bool.and_eq_true] at h; simpa using ih n h.2

theorem noAbsents_take (l : List Msg) (n : Nat) (h : noAbsents l = true) : noAbsents (l.take n) = true := by
  induction l generalizing n with
  | nil => simp [noAbsents]
  | cons x xs ih =>
    cases n with
    | zero => simp [noAbsents]
    | succ n =>
      simp only [noAbsents, Bool.and_eq_true] at h
      simp [noAbsents, h.1, ih n h.2]

theorem noAbsents_reverseEvenPairs (l : List Msg) (h : noAbsents l = true) : noAbsents (reverseEvenPairs l) = true := by
  match l with
  | [] => simp [reverseEvenPairs, noAbsents]
  | [_] => simp [reverseEvenPairs, noAbsents]
  | a :: b :: rest =>
    simp only [noAbsents, Bool.and_eq_true] at h
    simp [reverseEvenPairs, noAbsents_append, noAbsents, h.1, h.2.1, noAbsents_reverseEvenPairs rest h.2.2]

theorem noAbsents_tail (l : List Msg) (h : noAbsents l = true) : noAbsents l.tail = true := by
  cases l with
  | nil => simp [noAbsents]
  | cons x xs => simp only [noAbsents, Bool.and_eq_true] at h; simpa using h.2

theorem noAbsents_reversePairs (l : List Msg) (h : noAbsents l = true) : noAbsents (reversePairs l) = true := by
  unfold reversePairs
  split
  · exact noAbsents_reverseEvenPairs l h
  · simp [noAbsents_append, noAbsents_reverseEvenPairs _ (noAbsents_tail l h), noAbsents_take l 1 h]

theorem noAbsents_limitEntries (step : Nat) (o c : Int) (l : List Msg) (h : noAbsents l = true) :
    noAbsents (limitEntries step o c l) = true := by
  unfold limitEntries
  split
  · simp [noAbsents]
  · simp only
    split
    · exact noAbsents_drop _ _ h
    · exact noAbsents_take _ _ (noAbsents_drop _ _ h)

theorem usafe_reverseReplyL (o c : Int) (ws : Bool) (r : HRes) (hr : r.sane = true) : USafe (reverseReplyL o c ws r) := by
  unfold reverseReplyL
  split
  · exact usafe_failE _
  · rename_i he
    have hm := sane_msg hr he
    split
    · rename_i h; rw [h] at hm; simp [noAbsent] at hm
    · rename_i h; rw [h] at hm; simp [noAbsent] at hm
    · rename_i es h
      rw [h] at hm; simp only [noAbsent] at hm
      split
      · exact usafe_replyP _ (by simp only [noAbsent]; exact noAbsents_limitEntries _ _ _ _ (noAbsents_reversePairs es hm))
      · exact usafe_replyP _ (by simp only [noAbsent]; exact noAbsents_limitEntries _ _ _ _ (by rw [noAbsents_reverse]; exact hm))
    · exact usafe_failE _

theorem usafe_callEach {α : Type} (mk : α → HCall) (as : List α) (k : List Msg → UProg Out)
    (hk : ∀ ms, noAbsents ms = true → USafe (k ms)) : USafe (callEach mk as k) := by
  induction as generalizing k with
  | nil => exact hk [] (by simp [noAbsents])
  | cons a as ih =>
    intro r hr
    show USafe (match r.err with | some t => failE { text := t } | none => callEach mk as (fun ms => k (r.msg :: ms)))
    split
    · exact usafe_failE _
    · rename_i he
      apply ih
      intro ms hms
      exact hk _ (by simp [noAbsents, sane_msg hr he, hms])

theorem usafe_msetnxProbe (ps : List (Bytes × Bytes)) (k : UProg Out) (hk : USafe k) : USafe (msetnxProbe ps k) := by
  induction ps with
  | nil => exact hk
  | cons p ps ih =>
    obtain ⟨key, v⟩ := p
    intro r hr
    show USafe (match r.err with
      | some t => failE { text := t }
      | none => match r.msg with
        | .absent => .panic
        | .bulk none => msetnxProbe ps k
        | _ => replyP (newInteger 0))
    split
    · exact usafe_failE _
    · rename_i he
      have hm := sane_msg hr he
      split
      · rename_i h; rw [h] at hm; simp [noAbsent] at hm
      · exact ih
      · exact usafe_replyP _ (by simp [newInteger, noAbsent])

theorem usafe_incDec (key : Bytes) (d : Int) : USafe (incDec key d) := by
  intro r hr
  show USafe (match r.err with
    | some t => failE { text := t }
    | none =>
      let cur : Except Err Int := match r.msg with
        | .bulk none => .ok 0
        | m => msgInt m
      match r.msg with
      | .absent => .panic
      | _ => match cur with
        | .error e => failE e
        | .ok c =>
          let n := c + d
          if !inInt64 n then failE { text := b!"increment or decrement would overflow" } else
          .call (.set key (itoa n) {}) fun r2 =>
          match r2.err with
          | some t => failE { text := t }
          | none => replyP (newInteger n))
  split
  · exact usafe_failE _
  · rename_i he
    have hm := sane_msg hr he
    simp only
    split
    · rename_i h; rw [h] at hm; simp [noAbsent] at hm
    · split
      · exact usafe_failE _
      · split
        · exact usafe_failE _
        · intro r2 _
          show USafe (match r2.err with | some t => failE { text := t } | none => replyP (newInteger _))
          split
          · exact usafe_failE _
          · exact usafe_replyP _ (by simp [newInteger, noAbsent])

/-- the tactic that walks an executor built from `withArgs` and the leaf lemmas -/
macro "usafe_walk" : tactic => `(tactic|
  repeat (first
    | exact usafe_failE _
    | exact usafe_callRet _
    | exact usafe_incDec _ _
    | (apply usafe_withArgs; intro _ _)
    | split))

theorem usafe_shapeS (mk : Bytes → HCall) (args : List Msg) : USafe (shapeS mk args) := by unfold shapeS; usafe_walk
theorem usafe_shapeSS (mk : Bytes → Bytes → HCall) (args : List Msg) : USafe (shapeSS mk args) := by unfold shapeSS; usafe_walk
theorem usafe_shapeSSS (mk : Bytes → Bytes → Bytes → HCall) (args : List Msg) : USafe (shapeSSS mk args) := by unfold shapeSSS; usafe_walk
theorem usafe_shapeSI (mk : Bytes → Int → HCall) (args : List Msg) : USafe (shapeSI mk args) := by unfold shapeSI; usafe_walk
theorem usafe_shapeSII (mk : Bytes → Int → Int → HCall) (args : List Msg) : USafe (shapeSII mk args) := by unfold shapeSII; usafe_walk
theorem usafe_shapeSFS (pf : FloatOracle) (mk : Bytes → UInt64 → Bytes → HCall) (args : List Msg) : USafe (shapeSFS pf mk args) := by
  unfold shapeSFS; usafe_walk
theorem usafe_shapeL (mk : List Bytes → HCall) (args : List Msg) : USafe (shapeL mk args) := by unfold shapeL; usafe_walk
theorem usafe_shapeSL (mk : Bytes → List Bytes → HCall) (args : List Msg) : USafe (shapeSL mk args) := by unfold shapeSL; usafe_walk
theorem usafe_execSet (args : List Msg) : USafe (execSet args) := by unfold execSet; usafe_walk
theorem usafe_execSetEx (args : List Msg) : USafe (execSetEx args) := by unfold execSetEx; usafe_walk
theorem usafe_execExpire (rel : Bool) (args : List Msg) : USafe (execExpire rel args) := by unfold execExpire; usafe_walk
theorem usafe_execPop (mk : Bytes → Int → HCall) (args : List Msg) : USafe (execPop mk args) := by unfold execPop; usafe_walk
theorem usafe_execScan (args : List Msg) : USafe (execScan args) := by unfold execScan; usafe_walk
theorem usafe_execZAdd (pf : FloatOracle) (args : List Msg) : USafe (execZAdd pf args) := by unfold execZAdd; usafe_walk
theorem usafe_execZRange (pf : FloatOracle) (args : List Msg) : USafe (execZRange pf args) := by unfold execZRange; usafe_walk
theorem usafe_execIncDecBy (sign : Int) (args : List Msg) : USafe (execIncDecBy sign args) := by unfold execIncDecBy; usafe_walk

theorem usafe_execZRangeByScore (pf : FloatOracle) (rev : Bool) (args : List Msg) : USafe (execZRangeByScore pf rev args) := by
  unfold execZRangeByScore
  apply usafe_withArgs; intro k rest
  apply usafe_withArgs; intro a rest
  apply usafe_withArgs; intro b rest
  split
  · exact usafe_failE _
  · split
    · intro r hr; exact usafe_reverseReplyL _ _ _ r hr
    · intro r hr; exact outOf_strict r hr

theorem usafe_execZRevRange (args : List Msg) : USafe (execZRevRange args) := by
  unfold execZRevRange
  apply usafe_withArgs; intro k rest
  apply usafe_withArgs; intro i rest
  apply usafe_withArgs; intro j rest
  split
  · exact usafe_failE _
  · intro r hr; exact usafe_reverseReplyL _ _ _ r hr

theorem usafe_execMSet (args : List Msg) : USafe (execMSet args) := by
  unfold execMSet
  apply usafe_withArgs; intro kvs _
  apply usafe_callEach; intro _ _; exact usafe_replyP _ (by simp [okMsg, noAbsent])

theorem usafe_execMSetNX (args : List Msg) : USafe (execMSetNX args) := by
  unfold execMSetNX
  apply usafe_withArgs; intro kvs _
  apply usafe_msetnxProbe
  apply usafe_callEach; intro _ _; exact usafe_replyP _ (by simp [newInteger, noAbsent])

theorem usafe_execMGet (args : List Msg) : USafe (execMGet args) := by
  unfold execMGet
  apply usafe_withArgs; intro ks _
  apply usafe_callEach; intro ms hms; exact usafe_replyP _ (by simpa [noAbsent] using hms)

theorem usafe_execHMSet (args : List Msg) : USafe (execHMSet args) := by
  unfold execHMSet
  apply usafe_withArgs; intro h rest
  apply usafe_withArgs; intro kvs _
  apply usafe_callEach; intro _ _; exact usafe_replyP _ (by simp [okMsg, noAbsent])

theorem usafe_execHMGet (args : List Msg) : USafe (execHMGet args) := by
  unfold execHMGet
  apply usafe_withArgs; intro h rest
  apply usafe_withArgs; intro fs _
  apply usafe_callEach; intro ms hms; exact usafe_replyP _ (by simpa [noAbsent] using hms)

theorem usafe_execAppend (args : List Msg) : USafe (execAppend args) := by
  unfold execAppend
  apply usafe_withArgs; intro k rest
  apply usafe_withArgs; intro v _
  intro r hr
  show USafe (match r.err with
    | some t => failE { text := t }
    | none => match r.msg with
      | .absent => .panic
      | m =>
        let nv := match msgStr m with | .ok old => old ++ v | .error _ => v
        .call (.set k nv {}) fun r2 =>
        match r2.err with
        | some t => failE { text := t }
        | none => replyP (newInteger nv.length))
  split
  · exact usafe_failE _
  · rename_i he
    have hm := sane_msg hr he
    split
    · rename_i h; rw [h] at hm; simp [noAbsent] at hm
    · intro r2 _
      show USafe (match r2.err with | some t => failE { text := t } | none => replyP (newInteger _))
      split
      · exact usafe_failE _
      · exact usafe_replyP _ (by simp [newInteger, noAbsent])

theorem usafe_execGetRange (args : List Msg) : USafe (execGetRange args) := by
  unfold execGetRange
  apply usafe_withArgs; intro k rest
  apply usafe_withArgs; intro s rest
  apply usafe_withArgs; intro e _
  intro r hr
  show USafe (match r.err with
    | some t => failE { text := t }
    | none => match r.msg with
      | .absent => .panic
      | m => match msgStr m with
        | .error _ => replyP (newBulk [])
        | .ok v => replyP (newBulk (getRange v s e)))
  split
  · exact usafe_failE _
  · rename_i he
    have hm := sane_msg hr he
    split
    · rename_i h; rw [h] at hm; simp [noAbsent] at hm
    · split <;> exact usafe_replyP _ (by simp [newBulk, noAbsent])

theorem usafe_cardReply (r : HRes) (hr : r.sane = true) : USafe (cardReply r) := by
  unfold cardReply
  split
  · exact usafe_failE _
  · rename_i he
    have hm := sane_msg hr he
    split
    · rename_i h; rw [h] at hm; simp [noAbsent] at hm
    · rename_i h; rw [h] at hm; simp [noAbsent] at hm
    · exact usafe_replyP _ (by simp [newInteger, noAbsent])
    · exact usafe_replyP _ (by simp [newInteger, noAbsent])

theorem usafe_execSCard (args : List Msg) : USafe (execSCard args) := by
  unfold execSCard
  apply usafe_withArgs; intro k _
  intro r hr; exact usafe_cardReply r hr

theorem usafe_execZCard (args : List Msg) : USafe (execZCard args) := by
  unfold execZCard
  apply usafe_withArgs; intro k _
  intro r hr; exact usafe_cardReply r hr

theorem usafe_execSIsMember (args : List Msg) : USafe (execSIsMember args) := by
  unfold execSIsMember
  apply usafe_withArgs; intro k rest
  apply usafe_withArgs; intro mem _
  intro r hr
  show USafe (match r.err with
    | some t => failE { text := t }
    | none => match r.msg with
      | .absent => .panic
      | .arrNil => .panic
      | .arr es => replyP (newInteger (if isMemberOf mem es then 1 else 0))
      | _ => replyP (newInteger 0))
  split
  · exact usafe_failE _
  · rename_i he
    have hm := sane_msg hr he
    split
    · rename_i h; rw [h] at hm; simp [noAbsent] at hm
    · rename_i h; rw [h] at hm; simp [noAbsent] at hm
    · exact usafe_replyP _ (by simp [newInteger, noAbsent])
    · exact usafe_replyP _ (by simp [newInteger, noAbsent])

/-- **every executor of the user table** is safe against sane handler answers, for every argument list -/
theorem usafe_userTable (pf : FloatOracle) (p : Bytes × UExec) (h : p ∈ userTable pf) (args : List Msg) :
    USafe (p.2 args) := by
  simp only [userTable, List.mem_cons, List.not_mem_nil, or_false] at h
  rcases h with rfl | rfl | rfl | rfl | rfl | rfl | rfl | rfl | rfl | rfl | rfl | rfl | rfl | rfl | rfl | rfl | rfl | rfl | rfl | rfl | rfl | rfl | rfl | rfl | rfl | rfl | rfl | rfl | rfl | rfl | rfl | rfl | rfl | rfl | rfl | rfl | rfl | rfl | rfl | rfl | rfl | rfl | rfl | rfl | rfl | rfl | rfl | rfl | rfl | rfl | rfl | rfl | rfl | rfl | rfl | rfl
  all_goals first
    | exact usafe_shapeS _ _ | exact usafe_shapeSS _ _ | exact usafe_shapeSSS _ _ | exact usafe_shapeSI _ _
    | exact usafe_shapeSII _ _ | exact usafe_shapeSFS _ _ _ | exact usafe_shapeL _ _ | exact usafe_shapeSL _ _
    | exact usafe_execSet _ | exact usafe_execSetEx _ | exact usafe_execExpire _ _ | exact usafe_execPop _ _
    | exact usafe_execScan _ | exact usafe_execZAdd _ _ | exact usafe_execZRange _ _ | exact usafe_execIncDecBy _ _
    | exact usafe_execZRangeByScore _ _ _ | exact usafe_execZRevRange _ | exact usafe_execMSet _ | exact usafe_execMSetNX _
    | exact usafe_execMGet _ | exact usafe_execHMSet _ | exact usafe_execHMGet _ | exact usafe_execAppend _
    | exact usafe_execGetRange _ | exact usafe_execSCard _ | exact usafe_execZCard _ | exact usafe_execSIsMember _
    | (apply usafe_withArgs; intro _ _; exact usafe_incDec _ _)

theorem lookup_mem {α : Type} (l : List (Bytes × α)) (k : Bytes) (v : α) (h : l.lookup k = some v) : (k, v) ∈ l := by
  induction l with
  | nil => simp [List.lookup] at h
  | cons p ps ih =>
    obtain ⟨a, b⟩ := p
    simp only [List.lookup] at h
    split at h
    · rename_i heq
      have : k = a := by simpa using heq
      simp at h; subst h; subst this; simp
    · exact List.mem_cons_of_mem _ (ih h)

theorem safe_execUser (pf : FloatOracle) (srv : SrvSt) (conn : ConnSt) (cmd : Bytes) (args : List Msg)
    (p : Prog Out) (h : execUser pf srv conn cmd args = some p) : SafeO p := by
  unfold execUser at h
  split at h
  · simp at h
  · rename_i ex hex
    simp at h
    rw [← h]
    split
    · simp [Safe, Out.strict, notSupported, noAbsent]
    · exact safe_gated _ _ _ (safe_lift _ (usafe_userTable pf _ (lookup_mem _ _ _ hex) args))

theorem safe_nestedCall (pf : FloatOracle) (srv : SrvSt) (conn : ConnSt) (name : Bytes) (args : List Msg)
    (k : Out → Prog Out) (hk : ∀ o, o.strict = true → SafeO (k o)) : SafeO (nestedCall pf srv conn name args k) := by
  unfold nestedCall
  split
  · exact hk _ (by simp [Out.strict, notSupported, noAbsent])
  · rename_i p hp
    exact safe_bind _ _ p k (safe_execUser pf srv conn name args p hp) hk

theorem safe_execHKeys (pf : FloatOracle) (srv : SrvSt) (conn : ConnSt) (args : List Msg) :
    SafeO (execHKeys pf srv conn args) := by
  unfold execHKeys
  apply safe_nestedCall
  intro o ho
  split
  · simp [Out.strict, noAbsent] at ho
  · simp [Out.strict, noAbsent] at ho
  · simp [nreply, Safe, Out.strict, noAbsent]
    generalize hkeysOf _ = l
    induction l with
    | nil => simp [noAbsents]
    | cons x xs ih => simp [noAbsents, newBulk, noAbsent, ih]
  · simp [nreply, Safe, Out.strict, noAbsent, noAbsents]
  · exact ho

theorem safe_execHVals (pf : FloatOracle) (srv : SrvSt) (conn : ConnSt) (args : List Msg) :
    SafeO (execHVals pf srv conn args) := by
  unfold execHVals
  apply safe_nestedCall
  intro o ho
  split
  · simp [Out.strict, noAbsent] at ho
  · simp [Out.strict, noAbsent] at ho
  · simp [nreply, Safe, Out.strict, noAbsent]
    generalize hvalsOf _ = l
    induction l with
    | nil => simp [noAbsents]
    | cons x xs ih => simp [noAbsents, newBulk, noAbsent, ih]
  · simp [nreply, Safe, Out.strict, noAbsent, noAbsents]
  · exact ho

theorem safe_nested1 (pf : FloatOracle) (srv : SrvSt) (conn : ConnSt) (ucmd : Bytes) (ex : NExec) (args : List Msg)
    (h : nested1 pf srv conn ucmd = some ex) : SafeO (ex args) := by
  unfold nested1 at h
  split at h
  · simp at h; rw [← h]; unfold execStrLen; apply safe_nestedCall; intro o ho
    split
    · simp [Out.strict, noAbsent] at ho
    · split <;> simp [nreply, Safe, Out.strict, newInteger, noAbsent]
    · exact ho
  · split at h
    · simp at h; rw [← h]; apply safe_nestedCall; intro o ho; exact ho
    · split at h
      · simp at h; rw [← h]; unfold execHExists; apply safe_nestedCall; intro o ho
        split
        · simp [Out.strict, noAbsent] at ho
        · split <;> simp [nreply, Safe, Out.strict, newInteger, noAbsent]
        · exact ho
      · split at h
        · simp at h; rw [← h]; exact safe_execHKeys pf srv conn args
        · split at h
          · simp at h; rw [← h]; unfold execHStrLen; apply safe_nestedCall; intro o ho
            split
            · simp [Out.strict, noAbsent] at ho
            · simp [nreply, Safe, Out.strict, newInteger, noAbsent]
            · split <;> simp [nreply, nfail, Safe, Out.strict, newInteger, noAbsent]
            · exact ho
          · split at h
            · simp at h; rw [← h]; exact safe_execHVals pf srv conn args
            · simp at h

theorem safe_execHLen (pf : FloatOracle) (srv : SrvSt) (conn : ConnSt) (args : List Msg) :
    SafeO (execHLen pf srv conn args) := by
  unfold execHLen
  apply safe_bind (fun o => o.strict = true)
  · split
    · simp [nreply, Safe, Out.strict, notSupported, noAbsent]
    · exact safe_gated _ _ _ (safe_execHKeys pf srv conn args)
  · intro o ho
    split
    · simp [nreply, Safe, Out.strict, newInteger, noAbsent]
    · simp [Out.strict, noAbsent] at ho
    · simp [nreply, Safe, Out.strict, newInteger, noAbsent]
    · simp [nfail, Safe, Out.strict]
    · exact ho

/-- the outcome triple of `executeCommand` carries no nil pointer -/
abbrev SafeT (p : Prog (Out × ConnSt × SrvSt)) : Prop := Safe (fun t => t.1.strict = true) p

theorem configGetReply_noAbsent (cfg : List (Bytes × Bytes)) (ks : List Bytes) : noAbsent (configGetReply cfg ks) = true := by
  simp only [configGetReply, noAbsent]
  induction ks with
  | nil => simp [noAbsents]
  | cons x xs ih => simp [List.flatMap_cons, noAbsents, newBulk, noAbsent] at ih ⊢; exact ih

theorem execSystem_strict (srv : SrvSt) (conn : ConnSt) (ucmd : Bytes) (args : List Msg) (t : Out × ConnSt × SrvSt)
    (h : execSystem srv conn ucmd args = some t) : t.1.strict = true := by
  unfold execSystem at h
  split at h
  · simp at h; rw [← h]
    split
    · rfl
    · split <;> simp [Out.strict, okMsg, noAbsent]
  · split at h
    · simp at h; rw [← h]
      split
      · simp [Out.strict, newStatus, noAbsent]
      · simp [Out.strict, newStatus, noAbsent]
      · split
        · rfl
        · split <;> simp [Out.strict, newStatus, newBulk, noAbsent]
    · split at h
      · simp at h; rw [← h]
        split <;> simp [Out.strict, newBulk, noAbsent]
      · split at h
        · simp at h; rw [← h]
          split <;> simp [Out.strict, okMsg, noAbsent]
        · split at h
          · simp at h; rw [← h]; simp [Out.strict, okMsg, noAbsent]
          · split at h
            · simp at h; rw [← h]
              split
              · rfl
              · split
                · split <;> simp [Out.strict, okMsg, noAbsent]
                · split
                  · split
                    · rfl
                    · simp [Out.strict, configGetReply_noAbsent]
                  · rfl
            · simp at h

theorem safe_executeCommand (pf : FloatOracle) (srv : SrvSt) (conn : ConnSt) (cmd : Bytes) (args : List Msg) :
    SafeT (executeCommand pf srv conn cmd args) := by
  unfold executeCommand
  simp only
  split
  · simp [Safe, Out.strict, notSupported, noAbsent]
  · split
    · rename_i o c s hs
      simp only [Safe]
      split
      · simp [Safe, Out.strict]
      · simp only [Safe]; exact execSystem_strict _ _ _ _ _ hs
    · split
      · rename_i p hp
        exact safe_bind _ _ p _ (safe_execUser pf srv conn cmd args p hp) (fun o ho => by simpa [Safe] using ho)
      · split
        · rename_i ex hex
          exact safe_bind _ _ _ _ (safe_gated _ _ _ (safe_nested1 pf srv conn _ ex args hex)) (fun o ho => by simpa [Safe] using ho)
        · split
          · exact safe_bind _ _ _ _ (safe_gated _ _ _ (safe_execHLen pf srv conn args)) (fun o ho => by simpa [Safe] using ho)
          · split
            · exact safe_bind _ _ _ _ (safe_gated _ _ _ (safe_lift _ (usafe_shapeS _ args))) (fun o ho => by simpa [Safe] using ho)
            · simp [Safe, Out.strict, notSupported, noAbsent]

/-- the outcome of `handleMessage` may also be the nil message (a value that is not a command) -/
abbrev SafeH (p : Prog (Out × ConnSt × SrvSt)) : Prop := Safe (fun t => (replyBytes t.1).isSome = true) p

theorem strict_replyBytes (o : Out) (h : o.strict = true) : (replyBytes o).isSome = true := by
  cases o with
  | error e => simp [replyBytes]
  | reply m => cases m <;> simp_all [replyBytes, Out.strict, encGo, noAbsent]
  | quit m => cases m <;> simp_all [replyBytes, Out.strict, encGo, noAbsent]

theorem safe_mono {α : Type} (Q Q' : α → Prop) (p : Prog α) (hq : ∀ a, Q a → Q' a) (hp : Safe Q p) : Safe Q' p := by
  induction p with
  | ret a => exact hq a hp
  | panic => exact hp
  | call c k ih => intro r hr; exact ih r (hp r hr)
  | emit e k ih => exact ih hp

theorem safe_handleArray (pf : FloatOracle) (srv : SrvSt) (conn : ConnSt) (f : Nat) (es : List Msg) (h : noAbsents es = true) :
    SafeH (handleArray pf srv conn f es) := by
  induction f generalizing es with
  | zero => simp [handleArray, Safe, replyBytes]
  | succ f ih =>
    match es with
    | [] => simp [handleArray, Safe, replyBytes]
    | .absent :: _ => simp [handleArray, Safe, replyBytes]
    | .arr es' :: _ =>
      simp only [noAbsents, noAbsent, Bool.and_eq_true] at h
      simpa [handleArray] using ih es' h.1
    | .arrNil :: _ => simp [noAbsents, noAbsent] at h
    | .line t p :: rest =>
      simp only [handleArray]
      split
      · simp [Safe, replyBytes]
      · exact safe_mono _ _ _ (fun t ht => strict_replyBytes _ ht) (safe_executeCommand pf srv conn _ rest)
    | .bulk b :: rest =>
      simp only [handleArray]
      split
      · simp [Safe, replyBytes]
      · exact safe_mono _ _ _ (fun t ht => strict_replyBytes _ ht) (safe_executeCommand pf srv conn _ rest)

theorem safe_handleMessage (pf : FloatOracle) (srv : SrvSt) (conn : ConnSt) (m : Msg) (h : noAbsent m = true) :
    SafeH (handleMessage pf srv conn m) := by
  unfold handleMessage
  split
  · rename_i es
    simp only [noAbsent] at h
    exact safe_handleArray pf srv conn _ es h
  · simp [Safe, replyBytes]

theorem saneScript_step : ∀ (s : List HRes), saneScript s = true →
    (s.headD {}).sane = true ∧ saneScript (match s with | _ :: (x :: xs) => x :: xs | other => other) = true := by
  intro s h
  match s with
  | [] => simp [saneScript] at h
  | [a] => simp [saneScript] at h ⊢; exact h
  | a :: b :: rest =>
    simp [saneScript] at h ⊢
    exact ⟨h.1, h.2.1, h.2.2⟩

/-- running a safe program against a sane script: it returns (no panic), its result satisfies the postcondition, and the
rest of the script is sane -/
theorem run_safe {α : Type} (Q : α → Prop) (view : ConnSt) (p : Prog α) (s : List HRes) (hp : Safe Q p) (hs : saneScript s = true) :
    ∃ a, (p.run view s).2.1 = some a ∧ Q a ∧ saneScript (p.run view s).2.2 = true := by
  induction p generalizing s with
  | ret a => exact ⟨a, rfl, hp, hs⟩
  | panic => exact absurd hp (by simp [Safe])
  | emit e k ih =>
    obtain ⟨a, h1, h2, h3⟩ := ih s hp hs
    exact ⟨a, by simpa [Prog.run] using h1, h2, by simpa [Prog.run] using h3⟩
  | call c k ih =>
    obtain ⟨hh, ht⟩ := saneScript_step s hs
    obtain ⟨a, h1, h2, h3⟩ := ih (s.headD {}) _ (hp _ hh) ht
    refine ⟨a, ?_, h2, ?_⟩
    · simp only [Prog.run]; exact h1
    · simp only [Prog.run]; exact h3

/-- **one request never crashes against a sane handler**, and it leaves a sane script behind -/
theorem reqStep_sane (pf : FloatOracle) (srv : SrvSt) (conn : ConnSt) (m : Msg) (hm : noAbsent m = true)
    (script : List HRes) (hs : saneScript script = true) :
    crashedIn (reqStep pf srv conn m script).evs = false ∧ saneScript (reqStep pf srv conn m script).script = true := by
  obtain ⟨t, h1, h2, h3⟩ := run_safe _ conn _ script (safe_handleMessage pf srv conn m hm) hs
  have hnc := crashedIn_exec _ (run_exec conn (handleMessage pf srv conn m) script)
  unfold reqStep
  generalize (handleMessage pf srv conn m).run conn script = rr at h1 h3 hnc ⊢
  obtain ⟨evs, res, script'⟩ := rr
  simp only at h1 h3 hnc ⊢
  subst h1
  obtain ⟨out, conn', srv'⟩ := t
  simp only at h2 ⊢
  cases hrb : replyBytes out with
  | none => rw [hrb] at h2; simp at h2
  | some bs => simp [crashedIn_append, hnc, crashedIn, h3]

theorem serveLoop_sane (pf : FloatOracle) (n : Nat) (srv : SrvSt) (conn : ConnSt) (input : Bytes) (script : List HRes)
    (hs : saneScript script = true) : crashedIn (serveLoop pf n srv conn input script) = false := by
  induction n generalizing srv conn input script with
  | zero => simp [serveLoop, crashedIn]
  | succ n ih =>
    unfold serveLoop
    simp only [List.cons_append, List.nil_append, crashedIn]
    split
    · rename_i m rest hp
      have hm := parse_noAbsent _ _ _ _ hp
      obtain ⟨h1, h2⟩ := reqStep_sane pf srv conn m hm script hs
      simp only [crashedIn, crashedIn_append, h1, Bool.false_or]
      split
      · rfl
      · exact ih _ _ _ _ h2
    · simp [crashedIn]

end GoRedis
