import GoRedisModel.Model.LifeSys
namespace GoRedis

/-- the invariant of the lifecycle transition system -/
structure LInv (s : LS) : Prop where
  /-- every open listener belongs to the generation the server's fields hold -/
  openCur : ∀ l ∈ s.openL, s.field = some l.1
  /-- the fields hold the current generation -/
  fieldCur : ∀ g, s.field = some g → g = s.gen
  /-- every accept loop belongs to the current generation -/
  loopsCur : ∀ l ∈ s.loops, l.gen = s.gen
  /-- while serving, every enabled port has its open listener and a live accept loop -/
  serving : s.phase = .idle → ∀ g, s.field = some g → ∀ k ∈ s.kinds,
      (g, k) ∈ s.openL ∧ ∃ l ∈ s.loops, l.gen = g ∧ l.tls = k ∧ l.exited = false
  /-- no accept loop outlives Stop's second phase -/
  noLoops : (s.phase = .waitedLoops ∨ s.phase = .closedConns ∨ (s.phase = .idle ∧ s.field = none)) → s.loops = []
  /-- during and after Stop nothing listens -/
  noListen : s.field = none → s.openL = []
  /-- Stop clears the fields for its whole duration -/
  stopField : s.phase ≠ .idle → s.field = none
  /-- the registry contains exactly connections that are being served -/
  registry : ∀ c ∈ s.conns, c.registered = true → c.alive = true ∧ c.sockOpen = true
  /-- a connection that left the registry has its socket closed -/
  unreg : ∀ c ∈ s.conns, c.registered = false → c.sockOpen = false
  /-- after Stop's third phase no connection is registered or has an open socket -/
  closedAll : s.phase = .closedConns → ∀ c ∈ s.conns, c.registered = false ∧ c.sockOpen = false
  /-- a stopped server holds no connection at all -/
  stopped : s.phase = .idle → s.field = none → s.conns = []

theorem LInv.init (plain tls : Bool) : LInv { plain := plain, tls := tls } := by
  constructor <;> simp

theorem LInv.step (s : LS) (h : LInv s) (a : LAct) : LInv (s.step a) := by
  cases a with
  | start =>
    simp only [LS.step]
    split
    · exact h
    · rename_i hc
      simp only [Bool.or_eq_true, not_or, Bool.not_eq_true, Option.isSome_eq_false_iff, Option.isNone_iff_eq_none] at hc
      obtain ⟨hf, hp⟩ := hc
      have hp' : s.phase = .idle := by simpa using hp
      have hno := h.noListen hf
      have hnl := h.noLoops (Or.inr (Or.inr ⟨hp', hf⟩))
      have hst := h.stopped hp' hf
      constructor
      · intro l hl
        simp only [hno, List.nil_append, List.mem_map] at hl
        obtain ⟨k, _, rfl⟩ := hl
        rfl
      · intro g hg; simp at hg; exact hg.symm
      · intro l hl
        simp only [hnl, List.nil_append, List.mem_map] at hl
        obtain ⟨k, _, rfl⟩ := hl
        rfl
      · intro _ g hg k hk
        simp at hg
        subst hg
        have hk' : k ∈ s.kinds := hk
        refine ⟨?_, ?_⟩
        · simp only [hno, List.nil_append, List.mem_map]
          exact ⟨k, hk', rfl⟩
        · refine ⟨{ gen := s.gen + 1, tls := k }, ?_, rfl, rfl, rfl⟩
          simp only [hnl, List.nil_append, List.mem_map]
          exact ⟨k, hk', rfl⟩
      · intro hx
        rcases hx with hx | hx | ⟨_, hx⟩
        · rw [hp'] at hx; exact absurd hx (by decide)
        · rw [hp'] at hx; exact absurd hx (by decide)
        · simp at hx
      · intro hx; simp at hx
      · intro hx; exact absurd hp' hx
      · exact h.registry
      · exact h.unreg
      · intro hx; rw [hp'] at hx; exact absurd hx (by decide)
      · intro _ hx; simp at hx
  | accept g k =>
    simp only [LS.step]
    split
    · rename_i hc
      simp only [Bool.and_eq_true] at hc
      have hmem : (g, k) ∈ s.openL := by simpa using hc.1
      have hfield := h.openCur _ hmem
      refine ⟨h.openCur, h.fieldCur, h.loopsCur, h.serving, h.noLoops, h.noListen, h.stopField, ?_, ?_, ?_, ?_⟩
      · intro c hcm hr
        simp only [List.mem_append, List.mem_singleton] at hcm
        rcases hcm with hcm | rfl
        · exact h.registry c hcm hr
        · exact ⟨rfl, rfl⟩
      · intro c hcm hr
        simp only [List.mem_append, List.mem_singleton] at hcm
        rcases hcm with hcm | rfl
        · exact h.unreg c hcm hr
        · simp at hr
      · intro hp
        have := h.stopField (by rw [hp]; decide)
        rw [this] at hfield; simp at hfield
      · intro _ hf; rw [hf] at hfield; simp at hfield
    · exact h
  | clientClose id => exact h
  | connEnd id =>
    simp only [LS.step]
    refine ⟨h.openCur, h.fieldCur, h.loopsCur, h.serving, h.noLoops, h.noListen, h.stopField, ?_, ?_, ?_, ?_⟩
    · intro c hc hr
      simp only [List.mem_map] at hc
      obtain ⟨c0, hc0, rfl⟩ := hc
      by_cases hid : (c0.id == id) = true
      · simp [hid] at hr
      · simp only [hid] at hr ⊢; exact h.registry c0 hc0 hr
    · intro c hc hr
      simp only [List.mem_map] at hc
      obtain ⟨c0, hc0, rfl⟩ := hc
      by_cases hid : (c0.id == id) = true
      · simp [hid]
      · simp only [hid] at hr ⊢; exact h.unreg c0 hc0 hr
    · intro hp c hc
      simp only [List.mem_map] at hc
      obtain ⟨c0, hc0, rfl⟩ := hc
      split
      · exact ⟨rfl, rfl⟩
      · exact h.closedAll hp c0 hc0
    · intro hp hf
      simp [h.stopped hp hf]
  | stopCloseListeners =>
    simp only [LS.step]
    split
    · exact h
    · rename_i hp
      have hp' : s.phase = .idle := by simpa using hp
      cases hfield : s.field with
      | none =>
        have hno := h.noListen hfield
        simp only
        constructor
        · intro l hl; simp only at hl; rw [hno] at hl; simp at hl
        · intro g hg; simp at hg
        · exact h.loopsCur
        · intro hx; simp at hx
        · intro hx
          rcases hx with hx | hx | ⟨hx, _⟩ <;> simp at hx
        · intro _; exact hno
        · intro _; rfl
        · exact h.registry
        · exact h.unreg
        · intro hx; simp at hx
        · intro hx; simp at hx
      | some g =>
        simp only
        refine ⟨?_, ?_, h.loopsCur, ?_, ?_, ?_, ?_, h.registry, h.unreg, ?_, ?_⟩
        · intro l hl
          simp only [List.mem_filter] at hl
          have := h.openCur l hl.1
          rw [hfield] at this
          simp at this
          simp [this] at hl
        · intro g' hg'; simp at hg'
        · intro hx; simp at hx
        · intro hx
          rcases hx with hx | hx | ⟨hx, _⟩ <;> simp at hx
        · intro _
          apply List.filter_eq_nil_iff.mpr
          intro l hl
          have := h.openCur l hl
          rw [hfield] at this
          simp at this
          simp [this]
        · intro _; rfl
        · intro hx; simp at hx
        · intro hx; simp at hx
  | loopExit g k =>
    simp only [LS.step]
    split
    · exact h
    · rename_i hnot
      refine ⟨h.openCur, h.fieldCur, ?_, ?_, ?_, h.noListen, h.stopField, h.registry, h.unreg, h.closedAll, h.stopped⟩
      · intro l hl
        simp only [List.mem_map] at hl
        obtain ⟨l0, hl0, rfl⟩ := hl
        split <;> exact h.loopsCur l0 hl0
      · intro hp g' hg' k' hk'
        obtain ⟨hopen, l, hl, h1, h2, h3⟩ := h.serving hp g' hg' k' hk'
        refine ⟨hopen, ?_⟩
        refine ⟨if l.gen == g && l.tls == k then { l with exited := true } else l, ?_, ?_, ?_, ?_⟩
        · simp only [List.mem_map]; exact ⟨l, hl, rfl⟩
        · split <;> exact h1
        · split <;> exact h2
        · -- the loop of an open listener is not the one that exits
          split
          · rename_i hc
            simp only [Bool.and_eq_true, beq_iff_eq] at hc
            exfalso
            apply hnot
            rw [← hc.1, ← hc.2, h1, h2]
            simpa using hopen
          · exact h3
      · intro hx
        have := h.noLoops hx
        simp [this]
  | stopWaitLoops =>
    simp only [LS.step]
    split
    · rename_i hc
      simp only [Bool.and_eq_true, beq_iff_eq] at hc
      have hf := h.stopField (by rw [hc.1]; decide)
      refine ⟨h.openCur, h.fieldCur, ?_, ?_, ?_, h.noListen, ?_, h.registry, h.unreg, ?_, ?_⟩
      · intro l hl; simp at hl
      · intro hx; simp at hx
      · intro _; rfl
      · intro _; exact hf
      · intro hx; simp at hx
      · intro hx; simp at hx
    · exact h
  | stopCloseConns =>
    simp only [LS.step]
    split
    · rename_i hc
      have hp : s.phase = .waitedLoops := by simpa using hc
      have hf := h.stopField (by rw [hp]; decide)
      refine ⟨h.openCur, h.fieldCur, h.loopsCur, ?_, ?_, h.noListen, ?_, ?_, ?_, ?_, ?_⟩
      · intro hx; simp at hx
      · intro _; exact h.noLoops (Or.inl hp)
      · intro _; exact hf
      · intro c hcm hr
        simp only [List.mem_map] at hcm
        obtain ⟨c0, hc0, rfl⟩ := hcm
        cases hreg : c0.registered with
        | true => simp [hreg] at hr
        | false => simp [hreg] at hr
      · intro c hcm hr
        simp only [List.mem_map] at hcm
        obtain ⟨c0, hc0, rfl⟩ := hcm
        cases hreg : c0.registered with
        | true => simp [hreg]
        | false => simp only [hreg, Bool.false_eq_true, if_false]; exact h.unreg c0 hc0 hreg
      · intro _ c hcm
        simp only [List.mem_map] at hcm
        obtain ⟨c0, hc0, rfl⟩ := hcm
        cases hreg : c0.registered with
        | true => simp [hreg]
        | false => simp only [hreg, Bool.false_eq_true, if_false]; exact ⟨trivial, h.unreg c0 hc0 hreg⟩
      · intro hx; simp at hx
    · exact h
  | stopWaitConns =>
    simp only [LS.step]
    split
    · rename_i hc
      simp only [Bool.and_eq_true, beq_iff_eq] at hc
      have hf := h.stopField (by rw [hc.1]; decide)
      refine ⟨h.openCur, h.fieldCur, h.loopsCur, ?_, ?_, h.noListen, ?_, ?_, ?_, ?_, ?_⟩
      · intro _ g hg; rw [hf] at hg; simp at hg
      · intro _; exact h.noLoops (Or.inr (Or.inl hc.1))
      · intro hx; simp at hx
      · intro c hcm; simp at hcm
      · intro c hcm; simp at hcm
      · intro hx; simp at hx
      · intro _ _; rfl
    · exact h

theorem LInv.run (s : LS) (h : LInv s) (sched : List LAct) : LInv (s.run sched) := by
  induction sched generalizing s with
  | nil => exact h
  | cons a as ih => exact ih (s.step a) (h.step s a)

theorem accept_enabled (s : LS) (g : Nat) (k : Bool) (hc : s.openL.contains (g, k) = true)
    (ha : s.loops.any (fun l => l.gen == g && l.tls == k && !l.exited) = true) :
    (s.step (.accept g k)).conns.length = s.conns.length + 1 := by
  simp only [LS.step, hc, ha, Bool.and_self, if_true, List.length_append, List.length_cons, List.length_nil]

end GoRedis
